#!/usr/bin/env python3-vt
"""NumPy audit of the C16 reference model (engine/nmc_ref.hpp matmul/tensordot/outer/kron + engine/nmc_ref_c16.hpp).

    g++ -std=c++17 -O1 -DNMTOOLS_VERIF -DC16_REFDUMP -I/repo/include -I/verif/engine -I/verif/harness -w \
        /verif/harness/c16_linalg.cpp -o /tmp/c16/refdump
    /tmp/c16/refdump quick|thorough > /tmp/c16/ref.txt        # key<TAB>R   or   key<TAB>shape<TAB>data
    python3-vt /verif/audit/audit_c16.py /tmp/c16/ref.txt       # exit 0 iff every line equals what NumPy computes / raises

Every case of the tier is recomputed with the real NumPy on the same operand data (ref::c16_lhs / ref::c16_rhs).
"""
import sys
import numpy as np


def lhs(s):
    i = np.arange(int(np.prod(s)), dtype=np.int64)
    return (1 + 3 * i + (i * i) % 3).reshape(s)


def rhs(s):
    j = np.arange(int(np.prod(s)), dtype=np.int64)
    return (2 + 5 * j + (j * j * j) % 5).reshape(s)


def ints(f):
    return [] if f == '_' else [int(x) for x in f.split(',')]


def numpy_result(op, a):
    if op == 'matmul': return np.matmul(lhs(a[1]), rhs(a[2]))
    if op == 'dot': return np.dot(lhs(a[0]), rhs(a[1]))
    if op == 'inner': return np.inner(lhs(a[0]), rhs(a[1]))
    if op == 'outer': return np.outer(lhs(a[0]), rhs(a[1]))
    if op == 'kron': return np.kron(lhs(a[0]), rhs(a[1]))
    if op == 'vecdot': return np.vecdot(lhs(a[0]), rhs(a[1]), keepdims=bool(a[2][0]))
    if op in ('tdn', 'tdc'): return np.tensordot(lhs(a[0]), rhs(a[1]), axes=a[2][0])
    if op == 'tdx': return np.tensordot(lhs(a[0]), rhs(a[1]), axes=(a[2], a[3]))
    if op in ('trace', 'trace_empty'): return np.trace(lhs(a[0]), a[1][0], a[2][0], a[3][0])
    raise SystemExit('unknown op ' + op)


def main(path):
    n = bad = raises = 0
    for line in open(path):
        parts = line.rstrip('\n').split('\t')
        f = parts[0].split('|')
        try:
            r = np.asarray(numpy_result(f[0], [ints(x) for x in f[1:]]))
            exp = (','.join(map(str, r.shape)) or '_') + '\t' + ','.join(map(str, r.ravel().tolist()))
        except (ValueError, IndexError, np.exceptions.AxisError):
            exp = 'R'
            raises += 1
        n += 1
        if '\t'.join(parts[1:]) != exp:
            bad += 1
            if bad <= 20:
                print('MISMATCH', parts[0], 'model:', '\t'.join(parts[1:])[:80], 'numpy:', exp[:80])
    print('audited', n, 'mismatches', bad, 'numpy_raises', raises)
    return 1 if bad or not n else 0


if __name__ == '__main__':
    sys.exit(main(sys.argv[1]))
