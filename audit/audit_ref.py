#!/usr/bin/env python3-vt
"""audit_ref.py - audits the hand-written reference model (engine/nmc_ref*.hpp) against the real NumPy.

    refdump [--quick] | python3-vt audit_ref.py            (or: python3-vt audit_ref.py dump.jsonl)

Every line of the dump is one case of the model:
    {"op":..., "args":{...}, "shape":[...], "data":[...]}     the model returns this array
    {"op":..., "args":{...}, "raises":true}                   the model says "NumPy raises"
The case is recomputed with the NumPy function of the same name and the audit demands
    model raises  <=>  NumPy raises an exception;   otherwise identical shape and identical data.
Prints `AUDIT ok cases=<n> ops=<k>` and exits 0, or prints every disagreement (at most 50 lines
`AUDIT MISMATCH op=... args=... model=... numpy=...`) and exits 1.

Conventions of the model that are NOT NumPy behaviour and are accepted here (each one is counted and reported):
  EMPTY  nmtools has no zero-extent arrays.  For broadcast_to, diagonal and sliding_window the model folds "NumPy returns
         an EMPTY array" into "raises" (comments in nmc_ref.hpp: "no empty arrays in nmtools", "empty result: outside
         nmtools' domain").  Accepted only for these three ops and only when NumPy's result really has size 0.
  NDMIN  atleast_nd(a, n) is "prepend axes of extent 1 until the dimension is n" (what nmtools' atleast_nd does) =
         numpy.array(a, ndmin=n).  For n = 1, 2 that is numpy.atleast_1d / atleast_2d (also checked).  numpy.atleast_3d
         is a different function (it APPENDS an axis for 1-D and 2-D inputs) and is not what the model describes.
  NEGDIM numpy.reshape documents only -1 as "the unknown extent", but the implementation of NumPy (1.x .. 2.4) takes ANY single
         negative entry as the unknown one: reshape(arange(6), (-2, 3)) gives shape (2, 3).  The model follows the documentation
         (and nmtools, which recognises -1 only): an entry < -1 raises.  harness/c15_invalid.cpp (alt_model_of) knows this corner
         and accepts both answers.  Accepted here only for reshape, only when the target has exactly one negative entry, that
         entry is < -1, and NumPy's answer equals its answer for the same target with -1 in that place.
Cases the dump leaves out on purpose, because the model's signature cannot express NumPy's behaviour there:
  * reduce with ufunc subtract over more than one axis (NumPy: "not reorderable, at most one axis"; the model's reduce is
    generic in the operation) - likewise c12.reduce subtract / divide with axis=None on dim > 1;
  * pad with ONE (before, after) pair on a dim >= 2 array (NumPy broadcasts the pair, the model wants d pairs);
  * roll with several shifts and axis=None (comment in nmc_ref.hpp: "numpy sums shifts; not in our alphabet").
"""
import sys, json, warnings
import numpy as np
from numpy.lib.stride_tricks import sliding_window_view

MAX_PRINT = 50          # disagreements printed in total ...
MAX_PRINT_PER_OP = 8    # ... and per op, so that one systematic deviation does not hide the others (all are counted)
EMPTY_AS_RAISES = {"broadcast_to", "diagonal", "sliding_window"}     # convention EMPTY

NDMIN_SEEN = [0]
# ------------------------------------------------------------------------------------------ operands
_cache = {}
def mk(spec, dtype=np.float64):
    """mirror of Spec::build in refdump.cpp"""
    key = (tuple(spec["s"]), spec["k"], spec["b"], dtype)
    a = _cache.get(key)
    if a is None:
        shape, k, b = tuple(spec["s"]), spec["k"], spec["b"]
        n = 1
        for e in shape: n *= e
        i = np.arange(n, dtype=np.int64)
        if k == "iota": v = b + i
        elif k == "pow2": v = np.ldexp(1.0, i.astype(np.int32))
        elif k == "mix": v = (7 * i + 3) % 13
        elif k == "q3": v = 1 + 3 * i + (i * i) % 3
        elif k == "c5": v = 2 + 5 * i + (i * i * i) % 5
        elif k == "dyA": v = (1 + (3 * i) % 7) * 0.25
        elif k == "dyB": v = (1 + (5 * i) % 9) * 0.5
        elif k == "pw": v = np.ldexp(1.0, (i % 5 - 2).astype(np.int32))
        elif k == "sgn": v = ((4 * i) % 9 - 4) * 0.75
        else: raise KeyError(k)
        a = np.asarray(v, dtype=np.float64).astype(dtype).reshape(shape)
        a.setflags(write=False)
        _cache[key] = a
    return a

def tup(v): return None if v is None else tuple(v)
class ShapeOnly:                      # result that is only a shape (broadcast_shapes, c14.*)
    def __init__(self, shape): self.shape = tuple(shape)

def _reduce(x):
    uf = getattr(np, x["ufunc"]); kw = {}
    if x["initial"] is not None: kw["initial"] = x["initial"]
    return uf.reduce(mk(x["a"]), axis=tup(x["axis"]), keepdims=x["keepdims"], **kw)

def _pad(a, before, after, value):
    if len(before) != len(after): raise ValueError("before/after lengths differ: no pad_width")
    return np.pad(a, [(p, q) for p, q in zip(before, after)], mode="constant", constant_values=value)

def _pad_flat(x):
    a, pw = mk(x["a"]), x["pad_width"]
    if len(pw) % 2: raise ValueError("odd number of widths: no list of (before, after) pairs")
    h = len(pw) // 2
    return _pad(a, pw[:h], pw[h:], x["value"])

def _slice(x):
    st, sp, step = slice(x["start"], x["stop"], x["step"]).indices(x["n"])
    return np.array([st, step, len(range(st, sp, step))], dtype=np.float64)

def _atleast(x):
    a, n = mk(x["a"]), x["n"]
    r = np.array(a, ndmin=n)                                          # convention NDMIN
    if n == 1: assert np.atleast_1d(a).shape == r.shape
    if n == 2: assert np.atleast_2d(a).shape == r.shape
    if n == 3 and np.atleast_3d(a).shape != r.shape: NDMIN_SEEN[0] += 1      # where numpy.atleast_3d would have answered differently
    return r

def _roll(x):
    a = mk(x["a"])
    if x["axis"] is None: return np.roll(a, x["shift"][0])           # the dump has exactly one shift here
    return np.roll(a, x["shift"], axis=tuple(x["axis"]))

def _c15_roll(x):
    sh = x["shift"][0] if x["shift_is_scalar"] else np.array(x["shift"], dtype=np.intp)
    return np.roll(mk(x["a"]), sh, axis=tuple(x["axis"]))

def _bcast_pairing(x):
    arrs = [np.arange(int(np.prod(s, dtype=np.int64))).reshape(s) for s in x["shapes"]]
    bc = np.broadcast_arrays(*arrs)
    r = np.stack([b.ravel() for b in bc], axis=1).astype(np.float64)
    return ("pairing", bc[0].shape, r.ravel())

def _outer_pairing(x):
    A = np.arange(int(np.prod(x["sa"], dtype=np.int64))).reshape(x["sa"]); B = np.arange(int(np.prod(x["sb"], dtype=np.int64))).reshape(x["sb"])
    pa, pb = np.add.outer(A, np.zeros_like(B)), np.add.outer(np.zeros_like(A), B)
    return ("pairing", pa.shape, np.stack([pa.ravel(), pb.ravel()], axis=1).astype(np.float64).ravel())

def _c12(x): return np.dtype(x["dtype"]).type
def _c12_map(x):
    a = mk(x["a"], _c12(x)); f = x["fn"]; T = a.dtype.type
    if f == "sqrt": return np.sqrt(a)
    if f == "ceil": return np.ceil(a)
    if f == "floor": return np.floor(a)
    if f == "relu": return np.maximum(a, T(0))
    if f == "relu6": return np.clip(a, T(0), T(6))
    if f == "hardtanh": return np.clip(a, T(-1.5), T(2.25))
    raise KeyError(f)

def _shape_of(f): return lambda x: ShapeOnly(f(x).shape)
def Z(s): return np.zeros(tuple(s))

H = {
    # C03
    "reshape":      lambda x: np.reshape(mk(x["a"]), tuple(x["shape"])),
    "flatten":      lambda x: np.ravel(mk(x["a"])),
    "transpose":    lambda x: np.transpose(mk(x["a"]), x["axes"]),
    "moveaxis":     lambda x: np.moveaxis(mk(x["a"]), x["source"], x["destination"]),
    "swapaxes":     lambda x: np.swapaxes(mk(x["a"]), x["axis1"], x["axis2"]),
    "expand_dims":  lambda x: np.expand_dims(mk(x["a"]), tuple(x["axis"])),
    "squeeze":      lambda x: np.squeeze(mk(x["a"])),
    "squeeze_axes": lambda x: np.squeeze(mk(x["a"]), axis=tuple(x["axis"])),
    "atleast_nd":   _atleast,
    "flip":         lambda x: np.flip(mk(x["a"]), axis=tup(x["axis"])),
    # C06
    "broadcast_shapes": lambda x: ShapeOnly(np.broadcast_shapes(*[tuple(s) for s in x["shapes"]])),
    "broadcast_to": lambda x: np.broadcast_to(mk(x["a"]), tuple(x["shape"])),
    # C04
    "tile":         lambda x: np.tile(mk(x["a"]), tuple(x["reps"])),
    "repeat":       lambda x: np.repeat(mk(x["a"]), x["repeats"], axis=x["axis"]),
    "roll":         _roll,
    "take":         lambda x: np.take(mk(x["a"]), np.array(x["indices"], dtype=np.intp), axis=x["axis"]),
    "compress":     lambda x: np.compress(np.array(x["condition"], dtype=bool), mk(x["a"]), axis=x["axis"]),
    "pad":          lambda x: _pad(mk(x["a"]), x["before"], x["after"], x["value"]),
    "concatenate":  lambda x: np.concatenate((mk(x["a"]), mk(x["b"])), axis=x["axis"]),
    "stack":        lambda x: np.stack([mk(s) for s in x["arrays"]], axis=x["axis"]),
    "diagonal":     lambda x: np.diagonal(mk(x["a"]), x["offset"], x["axis1"], x["axis2"]),
    "tril":         lambda x: np.tril(mk(x["a"]), x["k"]),
    "triu":         lambda x: np.triu(mk(x["a"]), x["k"]),
    "eye":          lambda x: np.eye(x["N"], x["M"], x["k"]),
    "tri":          lambda x: np.tri(x["N"], x["M"], x["k"]),
    "diagflat":     lambda x: np.diagflat(mk(x["a"]), x["k"]),
    "sliding_window": lambda x: sliding_window_view(mk(x["a"]), tuple(x["window_shape"]), axis=tup(x["axis"])),
    # C08
    "reduce":       _reduce,
    "accumulate":   lambda x: getattr(np, x["ufunc"]).accumulate(mk(x["a"]), axis=x["axis"]),
    # C16
    "matmul":       lambda x: np.matmul(mk(x["a"]), mk(x["b"])),
    "tensordot":    lambda x: np.tensordot(mk(x["a"]), mk(x["b"]), axes=(x["axes_a"], x["axes_b"])),
    "tensordot_n":  lambda x: np.tensordot(mk(x["a"]), mk(x["b"]), axes=x["n"]),
    "outer":        lambda x: np.outer(mk(x["a"]), mk(x["b"])),
    "kron":         lambda x: np.kron(mk(x["a"]), mk(x["b"])),
    "dot":          lambda x: np.dot(mk(x["a"]), mk(x["b"])),
    "inner":        lambda x: np.inner(mk(x["a"]), mk(x["b"])),
    "vecdot":       lambda x: np.vecdot(mk(x["a"]), mk(x["b"]), keepdims=x["keepdims"]),
    "trace":        lambda x: np.trace(mk(x["a"]), x["offset"], x["axis1"], x["axis2"]),
    # C05
    "slice_adjust": _slice,
    # nmc_ref_c15.hpp wrappers
    "c15.roll":         _c15_roll,
    "c15.broadcast_to": lambda x: np.broadcast_to(mk(x["a"]), tuple(x["shape"])),
    "c15.add":          lambda x: np.add(mk(x["a"]), mk(x["b"])),
    "c15.tensordot_n":  lambda x: np.tensordot(mk(x["a"]), mk(x["b"]), axes=x["n"]),
    "c15.pad_flat":     _pad_flat,
    # nmc_ref_c07.hpp
    "c07.bcast_pairing": _bcast_pairing,
    "c07.outer_pairing": _outer_pairing,
    # nmc_ref_c14.hpp (shape-only helpers of the C14 enumerator)
    "c14.matmul_shape":       lambda x: ShapeOnly(np.matmul(Z(x["a"]), Z(x["b"])).shape),
    "c14.reduce_shape":       lambda x: ShapeOnly(np.add.reduce(Z(x["a"]), axis=x["axis"]).shape),
    "c14.reshape_shape":      lambda x: ShapeOnly(np.reshape(Z(x["a"]), tuple(x["shape"])).shape),
    "c14.transpose_shape":    lambda x: ShapeOnly(np.transpose(Z(x["a"]), x["axes"]).shape),
    "c14.broadcast_to_shape": lambda x: ShapeOnly(np.broadcast_to(Z(x["a"]), tuple(x["shape"])).shape),
    # nmc_ref_c12.hpp (typed models; data chosen so that every partial result is exact or a single correctly rounded operation)
    "c12.binary":   lambda x: getattr(np, x["ufunc"])(mk(x["a"], _c12(x)), mk(x["b"], _c12(x))),
    "c12.outer":    lambda x: getattr(np, x["ufunc"]).outer(mk(x["a"], _c12(x)), mk(x["b"], _c12(x))),
    "c12.reduce":   lambda x: getattr(np, x["ufunc"]).reduce(mk(x["a"], _c12(x)), axis=x["axis"], keepdims=x["keepdims"]),
    "c12.matmul":   lambda x: np.matmul(mk(x["a"], _c12(x)), mk(x["b"], _c12(x))),
    "c12.map":      _c12_map,
}

def describe_np(res, exc):
    if exc is not None: return "raises %s: %s" % (type(exc).__name__, str(exc).split("\n")[0][:90])
    if isinstance(res, ShapeOnly): return "shape=%s" % (list(res.shape),)
    if isinstance(res, tuple): return "shape=%s data=%s" % (list(res[1]), res[2].tolist()[:16])
    r = np.asarray(res)
    return "shape=%s data=%s%s" % (list(r.shape), r.ravel()[:16].tolist(), " ..." if r.size > 16 else "")

def describe_model(c):
    if c.get("raises"): return "raises"
    d = c["data"]
    return "shape=%s data=%s%s" % (c["shape"], d[:16], " ..." if len(d) > 16 else "")

def same_data(want, got):
    if want.shape != got.shape: return False
    if want.size == 0: return True
    eq = (want == got) | (np.isnan(want) & np.isnan(got))
    return bool(eq.all())

def negdim_quirk(x, res):
    t = x["shape"]; neg = [v for v in t if v < 0]
    if len(neg) != 1 or neg[0] >= -1: return False
    alt = np.reshape(mk(x["a"]), tuple(-1 if v < 0 else v for v in t))
    return alt.shape == res.shape and np.array_equal(alt, res)

def main():
    src = open(sys.argv[1], "rb") if len(sys.argv) > 1 and sys.argv[1] != "-" else sys.stdin.buffer
    warnings.simplefilter("error", DeprecationWarning)           # a deprecated call must not pass silently as "accepted"
    warnings.simplefilter("error", np.exceptions.VisibleDeprecationWarning)
    cases = {}; conv = {}; nraise = {}; bad = {}
    mismatches = 0; printed = 0; unknown = set(); malformed = 0
    np.seterr(all="ignore")
    for line in src:
        if not line.strip(): continue
        try:
            c = json.loads(line); op, x = c["op"], c["args"]
        except Exception:                           # truncated line: refdump died (a crash of the model is a failure of the audit)
            malformed += 1; continue
        f = H.get(op)
        if f is None:
            unknown.add(op); continue
        cases[op] = cases.get(op, 0) + 1
        res, exc = None, None
        try:
            res = f(x)
        except Exception as e:                      # "NumPy raises" = any exception
            exc = e
        model_raises = bool(c.get("raises"))
        ok = True
        if isinstance(exc, Warning):                # deprecated NumPy call: neither "raises" nor "accepted" - always reported
            mismatches += 1; bad[op] = bad.get(op, 0) + 1
            if printed < MAX_PRINT and bad[op] <= MAX_PRINT_PER_OP:
                printed += 1
                print("AUDIT MISMATCH op=%s args=%s model=%s numpy=WARNS %s" % (op, json.dumps(x, separators=(",", ":")), describe_model(c), describe_np(res, exc)))
            continue
        if model_raises:
            nraise[op] = nraise.get(op, 0) + 1
            if exc is None:
                # convention EMPTY: an empty NumPy result is reported as "raises" by the model (no zero-extent arrays in nmtools)
                if op in EMPTY_AS_RAISES and isinstance(res, np.ndarray) and res.size == 0:
                    conv["EMPTY " + op] = conv.get("EMPTY " + op, 0) + 1
                # convention NEGDIM: a single negative entry other than -1 in a reshape target (undocumented NumPy behaviour)
                elif op == "reshape" and negdim_quirk(x, res):
                    conv["NEGDIM reshape"] = conv.get("NEGDIM reshape", 0) + 1
                else:
                    ok = False
        else:
            if exc is not None: ok = False
            elif isinstance(res, ShapeOnly): ok = list(res.shape) == c["shape"]
            elif isinstance(res, tuple): ok = list(res[1]) == c["shape"] and same_data(np.asarray(c["data"], dtype=np.float64), res[2])
            else:
                r = np.asarray(res)
                ok = list(r.shape) == c["shape"] and same_data(np.asarray(c["data"], dtype=np.float64), r.astype(np.float64).ravel())
        if not ok:
            mismatches += 1; bad[op] = bad.get(op, 0) + 1
            if printed < MAX_PRINT and bad[op] <= MAX_PRINT_PER_OP:
                printed += 1
                print("AUDIT MISMATCH op=%s args=%s model=%s numpy=%s" % (op, json.dumps(x, separators=(",", ":")), describe_model(c), describe_np(res, exc)))
    total = sum(cases.values())
    for op in sorted(cases): print("AUDIT op=%-24s cases=%-7d model_raises=%d" % (op, cases[op], nraise.get(op, 0)))
    for op in sorted(bad): print("AUDIT mismatches op=%-24s count=%d" % (op, bad[op]))
    if NDMIN_SEEN[0]: conv["NDMIN atleast_nd"] = NDMIN_SEEN[0]
    for k in sorted(conv): print("AUDIT convention %-24s accepted=%d" % (k, conv[k]))
    if unknown:
        print("AUDIT FAIL unknown ops in the dump (no NumPy counterpart registered): %s" % sorted(unknown)); return 1
    if malformed:
        print("AUDIT FAIL %d malformed line(s) in the dump (refdump crashed?) cases=%d" % (malformed, total)); return 1
    if total == 0:
        print("AUDIT FAIL empty dump"); return 1
    if mismatches:
        print("AUDIT FAIL mismatches=%d cases=%d ops=%d numpy=%s" % (mismatches, total, len(cases), np.__version__)); return 1
    print("AUDIT ok cases=%d ops=%d numpy=%s" % (total, len(cases), np.__version__))
    return 0

if __name__ == "__main__":
    sys.exit(main())
