// refdump.cpp - dumps the reference model (engine/nmc_ref*.hpp) over exhaustive small alphabets, one JSON line per case:
//     {"op":"<name>","args":{...},"shape":[...],"data":[...]}        the model returns an array
//     {"op":"<name>","args":{...},"raises":true}                     the model says "NumPy raises"
// audit/audit_ref.py recomputes every line with the real NumPy and demands equality.  Engine headers only - no nmtools.
//
//   refdump            full alphabets   (<= ~600k lines)
//   refdump --quick    limited alphabets (<= ~60k lines)
//   refdump --only=op1,op2   only these ops (debugging)
//   per-op line counts are written to stderr.
//
// Operand arrays are NOT printed; args carry a generator spec {"s":shape,"k":kind,"b":base} (see Spec::build, mirrored by
// mk() in audit_ref.py).  Optional engine headers can be left out with -DREFDUMP_NO_C07 / _C12 / _C14 / _C15 / _C16.
#include <string>
#include <cstdio>
#include <cstring>
#include <map>
#include <set>
#include "nmc_enum.hpp"
#include "nmc_ref.hpp"
#if __has_include("nmc_ref_c16.hpp") && !defined(REFDUMP_NO_C16)
#include "nmc_ref_c16.hpp"
#define HAVE_C16 1
#endif
#if defined(HAVE_C16) && __has_include("nmc_ref_c15.hpp") && !defined(REFDUMP_NO_C15)
#include "nmc_ref_c15.hpp"
#define HAVE_C15 1
#endif
#if __has_include("nmc_ref_c14.hpp") && !defined(REFDUMP_NO_C14)
#include "nmc_ref_c14.hpp"
#define HAVE_C14 1
#endif
#if __has_include("nmc_ref_c07.hpp") && !defined(REFDUMP_NO_C07)
#define TArr TArr_c07            // nmc_ref_c07.hpp and nmc_ref_c12.hpp both define nmc::ref::TArr
#include "nmc_ref_c07.hpp"
#undef TArr
#define HAVE_C07 1
#endif
#if __has_include("nmc_ref_c12.hpp") && !defined(REFDUMP_NO_C12)
#include "nmc_ref_c12.hpp"
#define HAVE_C12 1
#endif

using namespace nmc;
using VL = std::vector<L>;
namespace R = nmc::ref;

static bool QUICK = false;
static std::set<std::string> ONLY;
static std::map<std::string, long> COUNT;
static std::string OUT;
static void flush_out() { fwrite(OUT.data(), 1, OUT.size(), stdout); OUT.clear(); }

// ------------------------------------------------------------------------------------------------ JSON helpers
static void jnum(std::string& s, double v) {
    char b[40];
    if (std::isnan(v)) { s += "NaN"; return; }
    if (std::isinf(v)) { s += v < 0 ? "-Infinity" : "Infinity"; return; }
    if (v == std::floor(v) && std::fabs(v) < 1e15) { snprintf(b, sizeof b, "%.0f", v); if (!strcmp(b, "-0")) strcpy(b, "-0.0"); }
    else snprintf(b, sizeof b, "%.17g", v);
    s += b;
}
static void jlist(std::string& s, const L& v) { s += '['; for (size_t i = 0; i < v.size(); i++) { if (i) s += ','; s += std::to_string(v[i]); } s += ']'; }

struct Spec {                       // operand generator
    L shape; const char* kind; long base;
    RArr build() const {
        RArr a(shape); std::string k = kind;
        for (size_t i = 0; i < a.data.size(); i++) {
            long n = (long)i; double v;
            if (k == "iota") v = (double)(base + n);
            else if (k == "pow2") v = std::ldexp(1.0, (int)n);                  // products of any subset are exact
            else if (k == "mix") v = (double)((7 * n + 3) % 13);                // not monotonic (maximum / minimum)
            else if (k == "q3") v = (double)(1 + 3 * n + (n * n) % 3);          // all distinct, non-linear (left operand of products)
            else if (k == "c5") v = (double)(2 + 5 * n + (n * n * n) % 5);      // all distinct, non-linear (right operand)
            else if (k == "dyA") v = (double)(1 + (3 * n) % 7) * 0.25;          // dyadic, never 0
            else if (k == "dyB") v = (double)(1 + (5 * n) % 9) * 0.5;
            else if (k == "pw") v = std::ldexp(1.0, (int)(n % 5) - 2);          // powers of two 1/4 .. 4
            else if (k == "sgn") v = (double)((4 * n) % 9 - 4) * 0.75;          // both signs, zero included
            else { fprintf(stderr, "unknown kind %s\n", kind); exit(2); }
            a.data[i] = v;
        }
        return a;
    }
};
static Spec io(const L& s, long b = 1) { return Spec{s, "iota", b}; }

struct A {                          // argument object builder
    std::string s;
    A& key(const char* k) { if (!s.empty()) s += ','; s += '"'; s += k; s += "\":"; return *this; }
    A& i(const char* k, long v) { key(k); s += std::to_string(v); return *this; }
    A& b(const char* k, bool v) { key(k); s += v ? "true" : "false"; return *this; }
    A& null(const char* k) { key(k); s += "null"; return *this; }
    A& d(const char* k, double v) { key(k); jnum(s, v); return *this; }
    A& str(const char* k, const char* v) { key(k); s += '"'; s += v; s += '"'; return *this; }
    A& l(const char* k, const L& v) { key(k); jlist(s, v); return *this; }
    A& ll(const char* k, const VL& v) { key(k); s += '['; for (size_t j = 0; j < v.size(); j++) { if (j) s += ','; jlist(s, v[j]); } s += ']'; return *this; }
    A& oi(const char* k, const long* p) { return p ? i(k, *p) : null(k); }
    A& ol(const char* k, const L* p) { return p ? l(k, *p) : null(k); }
    A& od(const char* k, const double* p) { return p ? d(k, *p) : null(k); }
    A& arr(const char* k, const Spec& sp) { key(k); s += "{\"s\":"; jlist(s, sp.shape); s += ",\"k\":\""; s += sp.kind; s += "\",\"b\":"; s += std::to_string(sp.base); s += '}'; return *this; }
    A& arrs(const char* k, const std::vector<Spec>& v) { key(k); s += '['; for (size_t j = 0; j < v.size(); j++) { if (j) s += ','; A t; t.arr("x", v[j]); s += t.s.substr(4); } s += ']'; return *this; }
};

static void head(const char* op, const A& a) { COUNT[op]++; OUT += "{\"op\":\""; OUT += op; OUT += "\",\"args\":{"; OUT += a.s; OUT += "},"; }
static void tail() { OUT += "}\n"; if (OUT.size() > (1u << 20)) flush_out(); }
static void emit_raw(const char* op, const A& a, const L& shape, const std::vector<double>& data) {
    head(op, a); OUT += "\"shape\":"; jlist(OUT, shape); OUT += ",\"data\":[";
    for (size_t i = 0; i < data.size(); i++) { if (i) OUT += ','; jnum(OUT, data[i]); }
    OUT += ']'; tail();
}
static void emit_raises(const char* op, const A& a) { head(op, a); OUT += "\"raises\":true"; tail(); }
static void emit(const char* op, const A& a, const ROpt& r) { if (r) emit_raw(op, a, r->shape, r->data); else emit_raises(op, a); }
static void emit(const char* op, const A& a, const RArr& r) { emit_raw(op, a, r.shape, r.data); }
static void emit_shape(const char* op, const A& a, const std::optional<L>& r) { if (r) emit_raw(op, a, *r, {}); else emit_raises(op, a); }
static bool want(const char* op) { return ONLY.empty() || ONLY.count(op); }

// ------------------------------------------------------------------------------------------------ alphabets
static VL shapes(int dlo, int dhi, long e) { VL v; each_shape_range(dlo, dhi, e, [&](const L& s) { v.push_back(s); }); return v; }
static VL tuples(size_t n, long lo, long hi) { VL v; each_tuple(n, lo, hi, [&](const L& t) { v.push_back(t); }); return v; }
static VL tuples_of(size_t n, const L& values) { VL v; if (values.empty()) return v; each_tuple(n, 0, (long)values.size() - 1, [&](const L& t) { L x; for (long k : t) x.push_back(values[(size_t)k]); v.push_back(x); }); return v; }
static VL cat(VL a, const VL& b) { a.insert(a.end(), b.begin(), b.end()); return a; }
static VL of_dim(const VL& v, int d) { VL r; for (auto& s : v) if ((int)s.size() == d) r.push_back(s); return r; }
// "core" shapes: the ones that get the widest argument alphabets (--quick keeps the first 4 / first 2 of them, see main)
static VL CORE3{{1, 2, 3}, {2, 3, 1}, {2, 2, 2}, {3, 3, 2}, {3, 1, 2}, {2, 3, 2}};
static VL CORE4{{2, 2, 2, 2}, {2, 1, 2, 2}, {1, 2, 1, 2}, {1, 2, 2, 1}};
static VL S13, S4, SALL;            // sources: S(1..3,3), S(4,2), both
static bool is_core(const L& s) {
    if (s.size() <= 2) return true;
    for (auto& c : CORE3) if (c == s) return true;
    for (auto& c : CORE4) if (c == s) return QUICK ? s == CORE4[0] : true;
    return false;
}
// axis lists of length len for an array of D dimensions:
//   level 2: every tuple over [-D-1, D]           (valid, duplicate, out of range by one on both sides)
//   level 1: every arrangement in every +/- spelling, plus every single-position replacement by a value of [-D-1, D]
//   level 0: every arrangement in every +/- spelling
static VL axes_lists(int D, int len, int level) {
    if (len == 0) return VL{L{}};
    if (level >= 2) return tuples((size_t)len, -D - 1, D);
    std::set<L> out;
    if (len <= D) each_arrangement(D, len, [&](const L& p) {
        each_sign_spelling(p, D, [&](const L& s) { out.insert(s); });
        if (level >= 1) for (int pos = 0; pos < len; pos++) for (long v = -D - 1; v <= D; v++) { L q(p); q[(size_t)pos] = v; out.insert(q); }
    });
    else { L id; for (int k = 0; k < len; k++) id.push_back(k % std::max(D, 1)); out.insert(id); if (level >= 1) for (int pos = 0; pos < len; pos++) for (long v = -D - 1; v <= D; v++) { L q(id); q[(size_t)pos] = v; out.insert(q); } }
    return VL(out.begin(), out.end());
}
static VL axes_auto(int D, int len, size_t cap) {
    double n = 1; for (int k = 0; k < len; k++) n *= 2 * D + 2;
    if (n <= (double)cap) return axes_lists(D, len, 2);
    VL v = axes_lists(D, len, 1); if (v.size() <= cap) return v;
    return axes_lists(D, len, 0);
}
static VL arrangements_pos(int D, int len);
// axis lists of every length 0..min(d+1,4) for "list of axes" operations (flip, squeeze, reduce): wide on core shapes, lean elsewhere
static VL axes_all_lengths(const L& s, int lo = 0) {
    int d = (int)s.size(); VL out;
    for (int len = lo; len <= std::min(d + 1, 4); len++) {
        size_t cap = is_core(s) ? (QUICK ? 40 : 600) : (QUICK ? 10 : 110);
        VL ax = len > d ? axes_lists(d, len, 0) : ((QUICK && d == 4 && len >= 3 && !is_core(s)) ? arrangements_pos(d, len) : axes_auto(d, len, cap));
        out.insert(out.end(), ax.begin(), ax.end());
    }
    return out;
}
static VL arrangements_pos(int D, int len) { VL v; if (len == 0) return VL{L{}}; if (len <= D) each_arrangement(D, len, [&](const L& p) { v.push_back(p); }); return v; }
static int dim(const L& s) { return (int)s.size(); }
static VL axis_scalars(int d) { VL v; for (long a = -d - 1; a <= d; a++) v.push_back(L{a}); return v; }   // one-element lists

static const auto ADD = [](double x, double y) { return x + y; };
static const auto MUL = [](double x, double y) { return x * y; };
static const auto SUB = [](double x, double y) { return x - y; };
static const auto MAXF = [](double x, double y) { return x > y ? x : y; };
static const auto MINF = [](double x, double y) { return x < y ? x : y; };
struct UF { const char* name; const char* kind; int id; };
static const UF UFS[5] = {{"add", "iota", 0}, {"multiply", "pow2", 1}, {"maximum", "mix", 2}, {"minimum", "mix", 3}, {"subtract", "iota", 4}};
template <typename F> static auto with_uf(int id, F&& f) { switch (id) { case 0: return f(ADD); case 1: return f(MUL); case 2: return f(MAXF); case 3: return f(MINF); default: return f(SUB); } }

// ================================================================================================ C03
static void dump_c03() {
    if (want("reshape")) {
        for (auto& s : S13) {
            RArr a = io(s).build(); long N = a.size(); std::set<L> T;
            T.insert(L{});
            int maxlen = 3;
            for (int n = 1; n <= maxlen; n++) {
                if (QUICK && n == 3) { for (auto& t : tuples_of(3, L{-1, 1, 3})) T.insert(t); }
                else for (auto& t : tuples((size_t)n, -2, 4)) T.insert(t);
            }
            for (int k = 1; k <= (QUICK ? 3 : 4); k++) each_factorisation(N, k, [&](const L& f) {      // every valid target, also with one / two -1
                T.insert(f);
                for (int p = 0; p < k; p++) { L g(f); g[(size_t)p] = -1; T.insert(g); for (int q = p + 1; q < k; q++) { L h(g); h[(size_t)q] = -1; T.insert(h); } }
                for (int p = 0; p < k; p++) { L g(f); g[(size_t)p] += 1; T.insert(g); L z(f); z[(size_t)p] = 0; T.insert(z); }
            });
            for (auto& t : T) emit("reshape", A().arr("a", io(s)).l("shape", t), R::reshape(a, t));
        }
        for (auto& s : S4) {
            RArr a = io(s).build(); std::set<L> T;
            for (int n = 1; n <= (QUICK ? 2 : 4); n++) for (auto& t : tuples_of((size_t)n, n == 4 ? L{-1, 2, 4} : L{-1, 1, 2, 4})) T.insert(t);
            T.insert(L{a.size()}); T.insert(L{-1, a.size()}); T.insert(L{0, -1});
            for (auto& t : T) emit("reshape", A().arr("a", io(s)).l("shape", t), R::reshape(a, t));
        }
    }
    if (want("flatten")) for (auto& s : SALL) emit("flatten", A().arr("a", io(s)), R::flatten(io(s).build()));
    if (want("transpose")) for (auto& s : SALL) {
        RArr a = io(s).build(); int d = dim(s);
        emit("transpose", A().arr("a", io(s)).null("axes"), R::transpose(a, nullptr));
        size_t cap = QUICK ? 70 : 600;
        VL ax = axes_auto(d, d, is_core(s) || !QUICK ? cap : 0);
        if (d == 4 && !is_core(s)) ax = QUICK ? arrangements_pos(d, d) : axes_lists(d, d, 0);
        for (int len : {0, d - 1, d + 1}) if (len >= 0 && len != d) ax = cat(ax, len < d ? axes_auto(d, len, 40) : axes_lists(d, len, d <= 2 ? 1 : 0));   // wrong length
        for (auto& p : ax) emit("transpose", A().arr("a", io(s)).l("axes", p), R::transpose(a, &p));
    }
    if (want("moveaxis")) for (auto& s : SALL) {
        RArr a = io(s).build(); int d = dim(s); bool core = is_core(s);
        auto go = [&](const L& src, const L& dst) { emit("moveaxis", A().arr("a", io(s)).l("source", src).l("destination", dst), R::moveaxis(a, src, dst)); };
        auto cross = [&](const VL& U, const VL& V) { for (auto& u : U) for (auto& v : V) go(u, v); };
        go(L{}, L{}); go(L{}, L{0}); go(L{0}, L{});
        int maxlen = std::min(d, QUICK && !core ? 2 : 4);
        size_t pairs_cap = core ? (QUICK ? 100 : (d == 4 ? 1500 : 3500)) : (QUICK ? 20 : 150);
        for (int ls = 1; ls <= maxlen; ls++) for (int ld = 1; ld <= maxlen; ld++) {
            VL P = arrangements_pos(d, ls), Q = arrangements_pos(d, ld);
            if (ls != ld) { go(P[0], Q[0]); L bad = P[0]; bad[0] = d; go(bad, Q[0]); continue; }      // lengths differ
            // X: the widest alphabet (all tuples over [-d-1,d] where affordable), N0: every spelling of every arrangement, P: arrangements, E: two of them
            VL X = axes_auto(d, ls, 110), N0 = axes_lists(d, ls, 0), E{P[0], P.back()};
            size_t x = X.size(), n = N0.size(), p = P.size();
            if (x * x <= pairs_cap) cross(X, X);
            else if (2 * x * n <= pairs_cap) { cross(X, N0); cross(N0, X); }
            else if (n * n <= pairs_cap) cross(N0, N0);
            else if (2 * x * p <= pairs_cap) { cross(X, P); cross(P, X); }
            else if (2 * n * p <= pairs_cap) { cross(N0, P); cross(P, N0); }
            else if (p * p + 4 * n <= pairs_cap) { cross(P, P); cross(N0, E); cross(E, N0); }
            else if (p * p <= pairs_cap) cross(P, P);
            else { cross(P, E); cross(E, P); }
            if (core && x * x > pairs_cap && x <= (QUICK ? 70u : 300u) && !(QUICK && d == 2 && a.shape[0] == a.shape[1])) { cross(X, VL{P[0]}); cross(VL{P.back()}, X); }   // invalid entries against a valid partner
        }
    }
    if (want("swapaxes")) for (auto& s : SALL) {
        RArr a = io(s).build(); int d = dim(s);
        for (long x = -d - 1; x <= d; x++) for (long y = -d - 1; y <= d; y++) emit("swapaxes", A().arr("a", io(s)).i("axis1", x).i("axis2", y), R::swapaxes(a, x, y));
    }
    if (want("expand_dims")) for (auto& s : SALL) {
        RArr a = io(s).build(); int d = dim(s);
        for (int len = 0; len <= (d <= 2 ? 3 : 2); len++) {
            if (QUICK && (d + len > 5 || (len == 3 && d == 2))) continue;
            size_t cap = is_core(s) ? (QUICK ? 64 : 1000) : (QUICK ? 20 : 200);
            for (auto& ax : axes_auto(d + len, len, cap)) emit("expand_dims", A().arr("a", io(s)).l("axis", ax), R::expand_dims(a, ax));
        }
    }
    if (want("squeeze")) for (auto& s : SALL) emit("squeeze", A().arr("a", io(s)), R::squeeze(io(s).build()));
    if (want("squeeze_axes")) for (auto& s : SALL) {
        RArr a = io(s).build();
        for (auto& x : axes_all_lengths(s)) emit("squeeze_axes", A().arr("a", io(s)).l("axis", x), R::squeeze_axes(a, x));
    }
    if (want("atleast_nd")) for (auto& s : SALL) for (long n = 0; n <= 5; n++) emit("atleast_nd", A().arr("a", io(s)).i("n", n), R::atleast_nd(io(s).build(), n));
    if (want("flip")) for (auto& s : SALL) {
        RArr a = io(s).build();
        emit("flip", A().arr("a", io(s)).null("axis"), R::flip(a, nullptr));
        for (auto& x : axes_all_lengths(s)) emit("flip", A().arr("a", io(s)).l("axis", x), R::flip(a, &x));
    }
}

// ================================================================================================ C06
static void dump_c06() {
    if (want("broadcast_shapes")) {
        VL P = QUICK ? cat(shapes(0, 2, 3), shapes(3, 3, 2)) : shapes(0, 3, 3);
        for (auto& x : P) for (auto& y : P) emit_shape("broadcast_shapes", A().ll("shapes", VL{x, y}), R::broadcast_shapes({x, y}));
        VL T = QUICK ? shapes(0, 2, 2) : shapes(0, 2, 3);
        for (auto& x : T) for (auto& y : T) for (auto& z : T) emit_shape("broadcast_shapes", A().ll("shapes", VL{x, y, z}), R::broadcast_shapes({x, y, z}));
        for (auto& x : T) emit_shape("broadcast_shapes", A().ll("shapes", VL{x}), R::broadcast_shapes({x}));
        emit_shape("broadcast_shapes", A().ll("shapes", VL{}), R::broadcast_shapes({}));
        // zero extents (outside nmtools' domain, but the rule of the model is the NumPy rule there too)
        VL Z; for (int d = 0; d <= 2; d++) for (auto& t : tuples((size_t)d, 0, QUICK ? 2 : 3)) Z.push_back(t);
        for (auto& x : Z) for (auto& y : Z) if (prod(x) == 0 || prod(y) == 0) emit_shape("broadcast_shapes", A().ll("shapes", VL{x, y}), R::broadcast_shapes({x, y}));
    }
    if (want("broadcast_to")) for (auto& s : cat(VL{L{}}, S13)) {
        RArr a = io(s).build(); std::set<L> T;
        for (int n = 0; n <= 3; n++) for (auto& t : tuples((size_t)n, 0, QUICK && n == 3 ? 2 : 3)) T.insert(t);
        for (int n = 1; n <= 2; n++) for (auto& t : tuples((size_t)n, -1, 3)) T.insert(t);
        if (!QUICK) for (auto& t : tuples(4, 1, 3)) T.insert(t); else if (s.size() <= 1 || s.size() == 3) for (auto& t : tuples(4, 1, 2)) T.insert(t);
        T.insert(s); { L t(s); t.insert(t.begin(), 2); T.insert(t); }
        for (auto& t : T) emit("broadcast_to", A().arr("a", io(s)).l("shape", t), R::broadcast_to(a, t));
    }
}

// ================================================================================================ C04
static void dump_c04() {
    if (want("tile")) {
        for (auto& s : S13) {
            RArr a = io(s).build(); std::set<L> T; T.insert(L{});
            for (int n = 1; n <= 2; n++) for (auto& t : tuples((size_t)n, -1, 3)) T.insert(t);
            for (auto& t : tuples(3, QUICK ? 1 : -1, 2)) T.insert(t);
            if (!QUICK) for (auto& t : tuples(4, 1, 2)) T.insert(t);
            for (auto& t : T) emit("tile", A().arr("a", io(s)).l("reps", t), R::tile(a, t));
        }
        for (auto& s : S4) { RArr a = io(s).build(); for (int n = 1; n <= 2; n++) for (auto& t : tuples((size_t)n, 0, 2)) emit("tile", A().arr("a", io(s)).l("reps", t), R::tile(a, t)); if (!QUICK) for (auto& t : tuples(5, 1, 2)) emit("tile", A().arr("a", io(s)).l("reps", t), R::tile(a, t)); }
    }
    // list alphabets over an axis of extent n: repeats per element / take indices / compress conditions
    auto rep_lists = [&](long n, bool rich) {
        std::set<L> T; for (long v = -1; v <= 3; v++) T.insert(L{v});
        if (n <= 4 && rich) for (auto& t : tuples((size_t)n, 0, 2)) T.insert(t);
        L p1, p2, p3; for (long i = 0; i < n; i++) { p1.push_back(i % 3); p2.push_back(1); p3.push_back(i % 2 ? 0 : 2); } T.insert(p1); T.insert(p2); T.insert(p3);
        { L t(p1); t.push_back(1); T.insert(t); } if (n >= 2) { L t(p1); t.pop_back(); T.insert(t); } if (n >= 1) { L t(p2); t[(size_t)n - 1] = -1; T.insert(t); }
        T.insert(L{});
        return VL(T.begin(), T.end());
    };
    auto idx_lists = [&](long n, bool rich) {
        std::set<L> T; T.insert(L{});
        for (long v = -n - 1; v <= n; v++) T.insert(L{v});
        if (n <= 3 && rich) { for (auto& t : tuples(2, QUICK ? -n : -n - 1, QUICK ? n - 1 : n)) T.insert(t); if (QUICK) for (auto& t : VL{{0, n}, {n, 0}, {-n - 1, 0}, {-1, -n - 1}}) T.insert(t); if (!QUICK) for (auto& t : tuples(3, 0, n - 1)) T.insert(t); }
        else if (rich || !QUICK) { L ed{-n - 1, -n, -1, 0, n / 2, n - 1, n}; for (auto& t : tuples_of(2, rich ? ed : L{-n, 0, n - 1, n})) T.insert(t); }
        else for (auto& t : VL{{0, n - 1}, {n - 1, 0}, {-n, n}, {-1, -n - 1}, {0, 0}}) T.insert(t);
        L rev; for (long i = n - 1; i >= 0; i--) rev.push_back(i); T.insert(rev); L twice(rev); for (long i = 0; i < n; i++) twice.push_back(-1 - i); T.insert(twice);
        return VL(T.begin(), T.end());
    };
    auto cond_lists = [&](long n, bool rich) {
        std::set<L> T; T.insert(L{});
        if (n <= 3 && rich) { for (long len = 1; len <= n + 1; len++) for (auto& t : tuples((size_t)len, 0, 1)) T.insert(t); }
        L p1, p2, p3; for (long i = 0; i < n; i++) { p1.push_back(1); p2.push_back(i % 2); p3.push_back(i % 3 == 0); } T.insert(p1); T.insert(p2); T.insert(p3);
        for (L base : {p1, p2}) { L t(base); t.push_back(0); T.insert(t); t.back() = 1; T.insert(t); t.push_back(0); T.insert(t); if (n >= 2) { L u(base); u.pop_back(); T.insert(u); } }
        L z((size_t)n, 0); T.insert(z);
        return VL(T.begin(), T.end());
    };
    // (op, list maker, emitter) over source x axis (None and [-d-1, d]); negative spellings and non-core shapes get the lean lists
    auto over_axes = [&](const char* op, auto&& lists, auto&& run) {
        if (!want(op)) return;
        for (auto& s : SALL) {
            int d = dim(s); long N = prod(s);
            for (auto& t : lists(N, N <= 4)) run(s, t, (const long*)nullptr);
            for (long ax = -d - 1; ax <= d; ax++) {
                long n = (ax >= -d && ax < d) ? s[(size_t)(ax < 0 ? ax + d : ax)] : s[0];
                bool rich = ax >= 0 && d <= 3 && (QUICK ? (is_core(s) && (d <= 2 || ax == 1)) : true);
                for (auto& t : lists(n, rich)) run(s, t, &ax);
            }
        }
    };
    over_axes("repeat", rep_lists, [&](const L& s, const L& t, const long* ax) { if (t.empty()) return; emit("repeat", A().arr("a", io(s)).l("repeats", t).oi("axis", ax), R::repeat(io(s).build(), t, ax)); });
    over_axes("take", idx_lists, [&](const L& s, const L& t, const long* ax) { emit("take", A().arr("a", io(s)).l("indices", t).oi("axis", ax), R::take(io(s).build(), t, ax)); });
    over_axes("compress", cond_lists, [&](const L& s, const L& t, const long* ax) { emit("compress", A().arr("a", io(s)).l("condition", t).oi("axis", ax), R::compress(io(s).build(), t, ax)); });

    if (want("roll")) for (auto& s : SALL) {
        RArr a = io(s).build(); int d = dim(s);
        for (long sh = QUICK ? -3 : -5; sh <= (QUICK ? 3 : 5); sh++) emit("roll", A().arr("a", io(s)).l("shift", L{sh}).null("axis"), R::roll(a, L{sh}, nullptr));
        auto go = [&](const L& sh, const L& ax) { emit("roll", A().arr("a", io(s)).l("shift", sh).l("axis", ax), R::roll(a, sh, &ax)); };
        long sm = QUICK ? 2 : 4;
        for (auto& ax : axis_scalars(d)) { for (long sh = -sm; sh <= sm; sh++) go(L{sh}, ax); if (!QUICK) for (auto& sh : tuples(2, -1, 1)) go(sh, ax); go(L{1, -2}, ax); go(L{1, 2, 3}, ax); }
        if (d >= 2 && is_core(s)) {
            VL AX = QUICK ? axes_auto(d, 2, 30) : (d <= 3 ? axes_lists(d, 2, 2) : axes_lists(d, 2, 1));
            VL SH = QUICK ? VL{{1}, {-1, 2}, {1, 2, 3}} : cat(cat(VL{{-1}, {2}, {1, 2, 3}}, tuples(2, -1, 1)), VL{{-4, 3}, {2, 2}});
            for (auto& ax : AX) for (auto& sh : SH) go(sh, ax);
        }
        if (d >= 3 && is_core(s)) for (auto& ax : QUICK ? arrangements_pos(d, 3) : axes_lists(d, 3, 1)) { go(L{1, 2, -1}, ax); go(L{2}, ax); go(L{1, 2}, ax); }
        go(L{1}, L{}); go(L{1, 2}, L{});          // empty axis tuple
    }
    if (want("pad")) for (auto& s : SALL) {
        RArr a = io(s).build(); int d = dim(s);
        auto go = [&](const L& bf, const L& af, double v) { emit("pad", A().arr("a", io(s)).l("before", bf).l("after", af).d("value", v), R::pad(a, bf, af, v)); };
        long hi = d == 1 ? 3 : (d == 2 ? 2 : 1); if (QUICK && d == 2) hi = 1;
        if (d <= 3 && (!QUICK || is_core(s))) { for (auto& w : tuples((size_t)(2 * d), 0, hi)) go(L(w.begin(), w.begin() + d), L(w.begin() + d, w.end()), -7); }
        else { for (auto& w : tuples((size_t)d, 0, 1)) { go(w, L((size_t)d, 1), -7); go(L((size_t)d, 0), w, -7); } }
        L z((size_t)d, 0), o((size_t)d, 1);
        go(o, o, 0); go(z, z, 0); go(L((size_t)d, 2), o, 2.5);
        for (int p = 0; p < d; p++) { L n(o); n[(size_t)p] = -1; go(n, o, -7); go(o, n, -7); go(n, n, -7); }
        // wrong number of (before, after) pairs.  A single pair is NOT dumped when d >= 2: NumPy broadcasts one pair to every axis,
        // the model (like nmtools) wants exactly d pairs.
        for (int k : {0, 2, 3, 4, 5}) if (k != d) go(L((size_t)k, 1), L((size_t)k, 1), -7);
    }
    if (want("concatenate")) {
        auto go = [&](const L& s, const L& t, const long* ax) { emit("concatenate", A().arr("a", io(s)).arr("b", io(t, 101)).oi("axis", ax), R::concatenate(io(s).build(), io(t, 101).build(), ax)); };
        for (int d = 1; d <= 4; d++) {
            VL P = d == 4 ? (QUICK ? CORE4 : S4) : (d == 3 && QUICK ? CORE3 : of_dim(SALL, d));
            if (d == 3 && !QUICK) { P = shapes(3, 3, 2); P = cat(P, CORE3); }
            for (auto& s : P) for (auto& t : P) { go(s, t, nullptr); for (long ax = -d - 1; ax <= d; ax++) go(s, t, &ax); }
        }
        if (!QUICK) for (auto& s : of_dim(S13, 3)) for (auto& t : of_dim(S13, 3)) { int diff = 0; for (int i = 0; i < 3; i++) diff += s[(size_t)i] != t[(size_t)i]; if (diff <= 1) for (long ax = 0; ax < 3; ax++) go(s, t, &ax); }
        VL M = QUICK ? VL{{2}, {1, 2}, {2, 1}, {2, 1, 1}, {1, 1, 2}} : cat(shapes(1, 2, 2), VL{{2, 1, 1}, {1, 1, 2}, {1, 2, 2}});
        for (auto& s : M) for (auto& t : M) if (s.size() != t.size()) { go(s, t, nullptr); for (long ax : {0L, -1L, 1L}) go(s, t, &ax); }   // different dimensions
    }
    if (want("stack")) {
        auto go = [&](const VL& ss, long ax) { std::vector<Spec> sp; std::vector<RArr> as; long b = 1; for (auto& s : ss) { sp.push_back(io(s, b)); as.push_back(io(s, b).build()); b += 100; } emit("stack", A().arrs("arrays", sp).i("axis", ax), R::stack(as, ax)); };
        for (auto& s : SALL) { int d = dim(s); for (long ax = -d - 2; ax <= d + 1; ax++) { go(VL{s, s}, ax); go(VL{s}, ax); if (!QUICK || is_core(s)) go(VL{s, s, s}, ax); } }
        VL P = QUICK ? shapes(1, 2, 2) : shapes(1, 2, 3);
        for (auto& s : P) for (auto& t : P) if (s != t) for (long ax : {0L, -1L}) { go(VL{s, t}, ax); go(VL{s, s, t}, ax); }
    }
}

static void dump_c04b() {
    if (want("diagonal")) for (auto& s : SALL) {
        RArr a = io(s).build(); int d = dim(s); long om = (d == 4 || QUICK) ? 2 : 3;
        if (QUICK && !is_core(s)) continue;
        bool lean = QUICK ? d >= 2 : (d == 4 || (d == 3 && !is_core(s)));
        for (long off = -om; off <= om; off++) for (long x = -d - 1; x <= d; x++) for (long y = -d - 1; y <= d; y++) {
            if (lean && (x < -d || y < -d || x == d || y == d) && off != 0) continue;
            if (QUICK && d >= 3 && ((x < 0) != (y < 0) ? off != 0 : (off == 2 || off == -2))) continue;
            emit("diagonal", A().arr("a", io(s)).i("offset", off).i("axis1", x).i("axis2", y), R::diagonal(a, off, x, y));
        }
    }
    if (want("tril")) for (auto& s : SALL) for (long k = -3; k <= 3; k++) emit("tril", A().arr("a", io(s)).i("k", k), R::tril(io(s).build(), k, false));
    if (want("triu")) for (auto& s : SALL) for (long k = -3; k <= 3; k++) emit("triu", A().arr("a", io(s)).i("k", k), R::tril(io(s).build(), k, true));
    if (want("eye")) for (long n = 0; n <= 4; n++) for (long m = 0; m <= 4; m++) for (long k = -5; k <= 5; k++) emit("eye", A().i("N", n).i("M", m).i("k", k), R::eye(n, m, k));
    if (want("tri")) for (long n = 0; n <= 4; n++) for (long m = 0; m <= 4; m++) for (long k = -5; k <= 5; k++) emit("tri", A().i("N", n).i("M", m).i("k", k), R::tri(n, m, k));
    if (want("diagflat")) for (auto& s : SALL) for (long k = -3; k <= 3; k++) { if (QUICK && prod(s) > 12 && k % 2) continue; emit("diagflat", A().arr("a", io(s)).i("k", k), R::diagflat(io(s).build(), k)); }
    if (want("sliding_window")) for (auto& s : SALL) {
        RArr a = io(s).build(); int d = dim(s);
        auto go = [&](const L& w, const L* ax) { emit("sliding_window", A().arr("a", io(s)).l("window_shape", w).ol("axis", ax), R::sliding_window(a, w, ax)); };
        if (d <= 2) for (auto& w : tuples((size_t)d, QUICK && d == 2 ? 0 : -1, QUICK && d == 2 ? 3 : 4)) go(w, nullptr);
        else if (d == 3) { for (auto& w : tuples(3, QUICK ? 1 : 0, 3)) go(w, nullptr); go(L{-1, 1, 1}, nullptr); go(L{1, 1, 4}, nullptr); }
        else { for (auto& w : tuples(4, 1, 2)) go(w, nullptr); go(L{1, 0, 1, 1}, nullptr); go(L{1, 1, 3, 1}, nullptr); }
        for (int len : {0, d - 1, d + 1}) if (len >= 0) go(L((size_t)len, 1), nullptr);       // wrong length
        for (auto& ax : axis_scalars(d)) for (long w = QUICK ? 0 : -1; w <= 4; w++) go(L{w}, &ax);
        if (is_core(s) || !QUICK) {
            VL AX = axes_auto(d, 2, QUICK ? 30 : 100);
            VL W = QUICK ? VL{{1, 2}, {2, 2}, {3, 2}, {0, 1}} : cat(tuples(2, 1, 3), VL{{0, 1}, {1, -1}, {4, 1}, {2, 0}});
            if (d >= 3 && !is_core(s)) W = VL{{1, 2}, {2, 2}, {3, 1}};
            for (auto& ax : AX) for (auto& w : W) go(w, &ax);
            L e; go(L{}, &e); go(L{1}, &e); L one{0}; go(L{1, 1}, &one); go(L{}, &one);
        }
        if (d >= 3 && is_core(s)) for (auto& ax : axes_lists(d, 3, 0)) { go(L{1, 2, 1}, &ax); go(L{2, 2, 2}, &ax); }
    }
}

// ================================================================================================ C08
static void dump_c08() {
    if (want("reduce")) for (auto& uf : UFS) for (auto& s : SALL) {
        Spec sp{s, uf.kind, 1}; RArr a = sp.build(); int d = dim(s); double init = 5;
        auto go = [&](const L* ax, bool keep, bool wi) {
            ROpt r = with_uf(uf.id, [&](auto f) { return R::reduce(a, ax, keep, wi ? &init : nullptr, f); });
            emit("reduce", A().str("ufunc", uf.name).arr("a", sp).ol("axis", ax).b("keepdims", keep).od("initial", wi ? &init : nullptr), r);
        };
        bool sub = uf.id == 4;
        // NumPy refuses a reduction over more than one axis for a ufunc that is not reorderable (subtract); the model's reduce is
        // generic in the operation and has no such rule - subtract is dumped for at most one reduced axis.
        if (!sub || d == 1) for (int k = 0; k < 2; k++) for (int w = 0; w < 2; w++) go(nullptr, k, w);
        each_subset(d, [&](const L& ax) { if (sub && ax.size() > 1) return; for (int k = 0; k < 2; k++) for (int w = 0; w < 2; w++) { if (QUICK && uf.id >= 1 && k != w && d >= 3) continue; go(&ax, k, w); } if (!ax.empty() && !(QUICK && uf.id >= 1 && d >= 3 && ax.size() != 2)) { L neg(ax.rbegin(), ax.rend()); for (auto& v : neg) v -= d; go(&neg, false, false); go(&neg, true, true); } });
        if (uf.id == 0) for (auto& x : axes_all_lengths(s, 1)) { if (QUICK && d == 4 && x.size() >= 3 && !(x.size() == 4 && x[0] >= 0)) continue; go(&x, false, false); if (!QUICK && is_core(s)) go(&x, true, false); }
        if (sub) for (auto& x : axis_scalars(d)) { go(&x, false, false); go(&x, true, true); }
    }
    if (want("accumulate")) for (auto& uf : UFS) for (auto& s : SALL) {
        Spec sp{s, uf.kind, 1}; RArr a = sp.build(); int d = dim(s);
        for (long ax = -d - 1; ax <= d; ax++) emit("accumulate", A().str("ufunc", uf.name).arr("a", sp).i("axis", ax), with_uf(uf.id, [&](auto f) { return R::accumulate(a, ax, f); }));
    }
}

// ================================================================================================ C16
static Spec q3(const L& s) { return Spec{s, "q3", 0}; }
static Spec c5(const L& s) { return Spec{s, "c5", 0}; }
static VL pair_pool() { return QUICK ? cat(shapes(1, 2, 3), CORE3) : S13; }
static void dump_c16() {
    VL P = pair_pool();
    if (want("matmul")) {
        auto go = [&](const L& s, const L& t) { emit("matmul", A().arr("a", q3(s)).arr("b", c5(t)), R::matmul(q3(s).build(), c5(t).build())); };
        for (auto& s : P) for (auto& t : P) go(s, t);
        VL Q = QUICK ? cat(cat(shapes(1, 2, 2), CORE4), VL{{2, 2, 2}, {1, 2, 2}, {2, 2, 1}}) : shapes(1, 4, 2);   // batch parts of different rank included
        for (auto& s : S4) for (auto& t : Q) { go(s, t); go(t, s); }
        for (auto& s : VL{{}, {2}, {2, 2}}) { go(L{}, s); go(s, L{}); }
    }
    if (want("tensordot")) {
        VL T = QUICK ? cat(shapes(1, 2, 2), VL{{3}, {2, 3}, {3, 2}, {1, 2, 3}}) : cat(shapes(1, 2, 3), VL{{1, 2, 3}, {2, 3, 1}, {2, 2, 2}, {3, 3, 2}});
        for (auto& s : T) for (auto& t : T) {
            RArr a = q3(s).build(), b = c5(t).build(); int da = dim(s), db = dim(t);
            auto go = [&](const L& xa, const L& xb) { emit("tensordot", A().arr("a", q3(s)).arr("b", c5(t)).l("axes_a", xa).l("axes_b", xb), R::tensordot(a, b, xa, xb)); };
            auto cross = [&](const VL& U, const VL& V) { for (auto& u : U) for (auto& v : V) go(u, v); };
            go(L{}, L{}); go(L{0}, L{}); go(L{}, L{0}); if (db >= 2) go(L{0}, L{0, 1});
            if (QUICK && da + db > 3) { cross(arrangements_pos(da, 1), axis_scalars(db)); cross(axis_scalars(da), VL{L{0}}); }
            else cross(axis_scalars(da), axis_scalars(db));
            if (da >= 2 && db >= 2) {
                VL NA = axes_lists(da, 2, 0), NB = axes_lists(db, 2, 0), PA = arrangements_pos(da, 2), PB = arrangements_pos(db, 2);
                if (QUICK) { cross(PA, PB); cross(NA, VL{PB[0]}); cross(VL{PA.back()}, NB); }
                else { cross(NA, PB); cross(PA, NB); cross(axes_lists(da, 2, 1), VL{PB[0]}); cross(VL{PA.back()}, axes_lists(db, 2, 1)); }
            }
            if (da == 3 && db == 3) cross(arrangements_pos(3, 3), arrangements_pos(3, 3));
        }
        if (!QUICK) for (auto& s : CORE4) for (auto& t : CORE4) { RArr a = q3(s).build(), b = c5(t).build(); for (auto& xa : arrangements_pos(4, 2)) for (auto& xb : arrangements_pos(4, 2)) emit("tensordot", A().arr("a", q3(s)).arr("b", c5(t)).l("axes_a", xa).l("axes_b", xb), R::tensordot(a, b, xa, xb)); }
    }
    if (want("tensordot_n")) {
        for (auto& s : P) for (auto& t : P) for (long n = -1; n <= 4; n++) { if (QUICK && (n == 4 || (s.size() + t.size() > 5 && n != 2))) continue; emit("tensordot_n", A().arr("a", q3(s)).arr("b", c5(t)).i("n", n), R::tensordot_n(q3(s).build(), c5(t).build(), n)); }
        for (auto& s : CORE4) for (auto& t : CORE4) for (long n = 0; n <= 5; n++) emit("tensordot_n", A().arr("a", q3(s)).arr("b", c5(t)).i("n", n), R::tensordot_n(q3(s).build(), c5(t).build(), n));
    }
    if (want("outer")) for (auto& s : P) for (auto& t : P) emit("outer", A().arr("a", q3(s)).arr("b", c5(t)), R::outer(q3(s).build(), c5(t).build()));
    if (want("kron")) {
        for (auto& s : P) for (auto& t : P) { if (QUICK && prod(s) * prod(t) > 150) continue; emit("kron", A().arr("a", q3(s)).arr("b", c5(t)), R::kron(q3(s).build(), c5(t).build())); }
        for (auto& s : CORE4) for (auto& t : cat(CORE4, shapes(1, 2, 2))) { emit("kron", A().arr("a", q3(s)).arr("b", c5(t)), R::kron(q3(s).build(), c5(t).build())); emit("kron", A().arr("a", q3(t)).arr("b", c5(s)), R::kron(q3(t).build(), c5(s).build())); }
    }
#ifdef HAVE_C16
    if (want("dot")) for (auto& s : P) for (auto& t : P) emit("dot", A().arr("a", q3(s)).arr("b", c5(t)), R::dot(q3(s).build(), c5(t).build()));
    if (want("inner")) for (auto& s : P) for (auto& t : P) emit("inner", A().arr("a", q3(s)).arr("b", c5(t)), R::inner(q3(s).build(), c5(t).build()));
    if (want("vecdot")) for (auto& s : P) for (auto& t : P) for (int k = 0; k < 2; k++) emit("vecdot", A().arr("a", q3(s)).arr("b", c5(t)).b("keepdims", k), R::vecdot(q3(s).build(), c5(t).build(), k));
    if (want("trace")) for (auto& s : SALL) {
        RArr a = io(s).build(); int d = dim(s); long om = (d == 4 || QUICK) ? 1 : 3;
        if (!is_core(s)) continue;
        for (long off = -om; off <= om; off++) for (long x = -d - 1; x <= d; x++) for (long y = -d - 1; y <= d; y++) {
            if ((QUICK || d == 4) && (x < -d || y < -d || x == d || y == d) && off != 0) continue;
            if (QUICK && d >= 3 && (x < 0) != (y < 0) && off != 0) continue;
            emit("trace", A().arr("a", io(s)).i("offset", off).i("axis1", x).i("axis2", y), R::trace(a, off, x, y));
        }
    }
#endif
}

// ================================================================================================ C05
static void dump_c05() {
    if (!want("slice_adjust")) return;
    long lim = QUICK ? 3 : 6, sm = QUICK ? 2 : 3;
    for (long n = 0; n <= 4; n++)
        for (long st = -lim - 1; st <= lim; st++) for (long sp = -lim - 1; sp <= lim; sp++) for (long step = -sm - 1; step <= sm; step++) {
            // the value one below the range stands for None
            R::PySlice ps{st >= -lim, sp >= -lim, step >= -sm, st, sp, step};
            long first = 0, stp = 0, len = 0; bool ok = R::slice_adjust(n, ps, first, stp, len);
            A a; a.i("n", n); ps.has_start ? a.i("start", st) : a.null("start"); ps.has_stop ? a.i("stop", sp) : a.null("stop"); ps.has_step ? a.i("step", step) : a.null("step");
            if (ok) emit_raw("slice_adjust", a, L{3}, {(double)first, (double)stp, (double)len}); else emit_raises("slice_adjust", a);
        }
}

// ================================================================================================ optional headers
static void dump_extra() {
#ifdef HAVE_C15
    namespace R15 = nmc::ref::c15;
    if (want("c15.roll")) for (auto& s : SALL) {
        if (!is_core(s)) continue;
        RArr a = io(s).build(); int d = dim(s);
        auto go = [&](const L& sh, bool sc, const L& ax) { emit("c15.roll", A().arr("a", io(s)).l("shift", sh).b("shift_is_scalar", sc).l("axis", ax), R15::roll(a, sh, sc, ax)); };
        VL AX = cat(VL{L{}}, axis_scalars(d)); if (d >= 2) AX = cat(AX, QUICK ? axes_lists(d, 2, 0) : axes_auto(d, 2, 64)); if (d >= 3 && !QUICK) AX = cat(AX, axes_lists(d, 3, 0));
        for (auto& ax : AX) { go(L{2}, true, ax); if (!QUICK) go(L{-1}, true, ax); go(L{}, false, ax); go(L{2}, false, ax); go(L{1, -2}, false, ax); if (!QUICK || ax.size() != 2) go(L{1, 2, 3}, false, ax); }
    }
    if (want("c15.broadcast_to")) for (auto& s : cat(VL{L{}}, QUICK ? shapes(1, 2, 3) : S13)) {
        RArr a = io(s).build(); std::set<L> T;
        for (int n = 0; n <= 3; n++) for (auto& t : tuples((size_t)n, n == 3 && QUICK ? 0 : -1, n == 3 ? 2 : 3)) T.insert(t);
        T.insert(s);
        for (auto& t : T) emit("c15.broadcast_to", A().arr("a", io(s)).l("shape", t), R15::broadcast_to(a, t));
    }
    if (want("c15.add")) { VL P = cat(VL{L{}}, pair_pool()); for (auto& s : P) for (auto& t : P) emit("c15.add", A().arr("a", io(s)).arr("b", io(t, 101)), R15::add(io(s).build(), io(t, 101).build())); }
    if (want("c15.tensordot_n")) { VL P = pair_pool(); for (auto& s : P) for (auto& t : P) for (long n = -2; n <= 4; n++) { if ((QUICK || s.size() + t.size() > 4) && (n == 4 || n == -2)) continue; if (QUICK && s.size() + t.size() > 4 && n != -1 && n != 2) continue; emit("c15.tensordot_n", A().arr("a", q3(s)).arr("b", c5(t)).i("n", n), R15::tensordot_n(q3(s).build(), c5(t).build(), n)); } }
    if (want("c15.pad_flat")) for (auto& s : QUICK ? cat(shapes(1, 2, 3), CORE3) : S13) {
        RArr a = io(s).build(); int d = dim(s);
        for (int len = 0; len <= 2 * d + 1; len++) { if (len == 2 && d >= 2) continue;   // one pair broadcasts in NumPy (see pad)
            VL W = len <= 4 ? tuples((size_t)len, (QUICK && len > 2) || len == 4 ? 0 : -1, len <= 2 ? 2 : 1) : (len == 6 || !QUICK ? tuples((size_t)len, 0, 1) : VL{L((size_t)len, 1)});
            if (len >= 3 && len <= 4) for (int q = 0; q < len; q++) { L n((size_t)len, 1); n[(size_t)q] = -1; W.push_back(n); }
            for (auto& w : W) emit("c15.pad_flat", A().arr("a", io(s)).l("pad_width", w).d("value", -7), R15::pad_flat(a, w, -7)); }
    }
#endif
#ifdef HAVE_C07
    if (want("c07.bcast_pairing")) {
        auto go = [&](const VL& ss) { L rs; auto p = R::bcast_pairing(ss, &rs); A a; a.ll("shapes", ss); if (!p) { emit_raises("c07.bcast_pairing", a); return; } std::vector<double> dt; for (auto& row : *p) for (long v : row) dt.push_back((double)v); emit_raw("c07.bcast_pairing", a, rs, dt); };
        VL P = QUICK ? cat(shapes(0, 2, 3), shapes(3, 3, 2)) : shapes(0, 3, 3);
        for (auto& x : P) for (auto& y : P) go(VL{x, y});
        VL T = QUICK ? shapes(0, 2, 2) : shapes(0, 2, 3);
        for (auto& x : T) for (auto& y : T) for (auto& z : T) go(VL{x, y, z});
        for (auto& x : T) go(VL{x});
    }
    if (want("c07.outer_pairing")) {
        VL P = QUICK ? shapes(0, 2, 3) : shapes(0, 3, 3);
        for (auto& x : P) for (auto& y : P) { if (prod(x) * prod(y) > 243) continue; L rs; auto p = R::outer_pairing(x, y, &rs); std::vector<double> dt; for (auto& q : p) { dt.push_back((double)q.first); dt.push_back((double)q.second); } emit_raw("c07.outer_pairing", A().l("sa", x).l("sb", y), rs, dt); }
    }
#endif
#ifdef HAVE_C14
    namespace R14 = nmc::ref::c14;
    // shape-only helpers of the C14 enumerator, on their stated domain (dim >= 2 for matmul, non-negative axes for transpose, no -1 in reshape)
    if (want("c14.matmul_shape")) { VL P = QUICK ? cat(shapes(2, 2, 3), shapes(3, 3, 2)) : cat(shapes(2, 3, 3), shapes(4, 4, 2)); for (auto& x : P) for (auto& y : P) emit_shape("c14.matmul_shape", A().l("a", x).l("b", y), R14::matmul_shape(x, y)); }
    if (want("c14.reduce_shape")) for (auto& s : SALL) for (long ax = -dim(s) - 1; ax <= dim(s); ax++) emit_shape("c14.reduce_shape", A().l("a", s).i("axis", ax), R14::reduce_shape(s, ax));
    if (want("c14.reshape_shape")) for (auto& s : QUICK ? shapes(1, 2, 2) : S13) for (int n = 0; n <= 3; n++) for (auto& t : tuples((size_t)n, 0, n == 3 ? 3 : (QUICK ? 4 : 9))) emit_shape("c14.reshape_shape", A().l("a", s).l("shape", t), R14::reshape_shape(s, t));
    if (want("c14.transpose_shape")) for (auto& s : SALL) { int d = dim(s); if (!is_core(s)) continue; if (QUICK && (d == 4 || (d == 3 && s != CORE3[0] && s != CORE3[3]))) continue; for (int len = std::max(0, d - 1); len <= d + 1; len++) { if ((d == 4 && len == 5) || (QUICK && d >= 3 && len > d)) continue; for (auto& p : tuples((size_t)len, 0, d)) emit_shape("c14.transpose_shape", A().l("a", s).l("axes", p), R14::transpose_shape(s, p)); } }
    if (want("c14.broadcast_to_shape")) for (auto& s : cat(VL{L{}}, QUICK ? shapes(1, 2, 3) : S13)) for (int n = 0; n <= 3; n++) for (auto& t : tuples((size_t)n, 1, 3)) emit_shape("c14.broadcast_to_shape", A().l("a", s).l("shape", t), R14::broadcast_to_shape(s, t));
#endif
#ifdef HAVE_C12
    auto typed = [&](auto tag, const char* tname) {
        using T = decltype(tag);
        auto mk = [&](const Spec& sp) { RArr r = sp.build(); R::TArr<T> t(sp.shape); for (size_t i = 0; i < r.data.size(); i++) t.data[i] = (T)r.data[i]; return t; };
        static const char* BN[4] = {"add", "subtract", "multiply", "divide"};
        VL P = QUICK ? cat(shapes(1, 2, 3), shapes(3, 3, 2)) : S13;
        if (want("c12.binary")) for (int op = 0; op < R::B_COUNT; op++) for (auto& s : P) for (auto& t : P) {
            if ((QUICK && (s.size() + t.size() > 4 || (s.size() + t.size() == 4 && op % 3 != 0))) || (!QUICK && s.size() + t.size() == 6 && !(is_core(s) && is_core(t)))) continue;
            Spec sa{s, "dyA", 0}, sb{t, "dyB", 0}; auto r = R::c12_broadcast_binary<T>(op, mk(sa), mk(sb)); A a; a.str("dtype", tname).str("ufunc", BN[op]).arr("a", sa).arr("b", sb);
            if (r) emit("c12.binary", a, r->widen()); else emit_raises("c12.binary", a);
        }
        if (want("c12.outer")) for (int op = 0; op < R::B_COUNT; op++) for (auto& s : shapes(1, 2, 3)) for (auto& t : (QUICK ? shapes(1, 2, 2) : shapes(1, 2, 3))) {
            Spec sa{s, "dyA", 0}, sb{t, "dyB", 0}; emit("c12.outer", A().str("dtype", tname).str("ufunc", BN[op]).arr("a", sa).arr("b", sb), R::c12_outer<T>(op, mk(sa), mk(sb)).widen());
        }
        // add / multiply on data whose every partial result is exact (the summation order of NumPy is not a left fold);
        // subtract / divide only where NumPy accepts them (one reduced axis): their order is the left fold by definition
        if (want("c12.reduce")) for (int op = 0; op < R::B_COUNT; op++) for (auto& s : SALL) {
            bool ordered = op == R::B_SUB || op == R::B_DIV; int d = dim(s); if (QUICK && !is_core(s)) continue;
            Spec sa{s, (op == R::B_MUL || op == R::B_DIV) ? "pw" : "dyA", 0};
            for (int k = 0; k < 2; k++) {
                if (QUICK && k == 1 && d >= 3) continue;
                auto go = [&](const long* ax) { auto r = R::c12_reduce<T>(op, mk(sa), ax, k); A a; a.str("dtype", tname).str("ufunc", BN[op]).arr("a", sa).oi("axis", ax).b("keepdims", k); if (r) emit("c12.reduce", a, r->widen()); else emit_raises("c12.reduce", a); };
                if (!ordered || d == 1) go(nullptr);
                for (long ax = -d - 1; ax <= d; ax++) go(&ax);
            }
        }
        // the model covers the 2-D x 2-D product only (c12_matmul's domain; other dimensions are "nullopt" there and are not dumped)
        if (want("c12.matmul")) for (auto& s : shapes(2, 2, 3)) for (auto& t : shapes(2, 2, 3)) {
            Spec sa{s, "dyA", 0}, sb{t, "dyB", 0}; auto r = R::c12_matmul<T>(mk(sa), mk(sb)); A a; a.str("dtype", tname).arr("a", sa).arr("b", sb);
            if (r) emit("c12.matmul", a, r->widen()); else emit_raises("c12.matmul", a);
        }
        // element functions that NumPy defines directly: sqrt, ceil, floor, relu = maximum(x,0), relu6 = clip(x,0,6), hardtanh = clip(x,lo,hi)
        if (want("c12.map")) for (int op : {(int)R::U_SQRT, (int)R::U_CEIL, (int)R::U_FLOOR, (int)R::U_RELU, (int)R::U_RELU6, (int)R::U_HARDTANH}) for (auto& s : VL{{9}, {3, 3}, {2, 3, 3}}) {
            static const char* UN[6] = {"sqrt", "ceil", "floor", "relu", "relu6", "hardtanh"};
            Spec sa{s, "sgn", 0}; emit("c12.map", A().str("dtype", tname).str("fn", UN[op]).arr("a", sa), R::c12_map<T>(op, mk(sa)).widen());
        }
    };
    typed(float{}, "float32"); typed(double{}, "float64");
#endif
}

int main(int argc, char** argv) {
    for (int i = 1; i < argc; i++) {
        std::string a = argv[i];
        if (a == "--quick") QUICK = true;
        else if (a == "--full") QUICK = false;
        else if (a.rfind("--only=", 0) == 0) { std::string v = a.substr(7); size_t p = 0; while (p <= v.size()) { size_t q = v.find(',', p); if (q == std::string::npos) q = v.size(); if (q > p) ONLY.insert(v.substr(p, q - p)); p = q + 1; } }
        else { fprintf(stderr, "usage: refdump [--quick|--full] [--only=op,op]\n"); return 2; }
    }
    if (QUICK) { CORE3.resize(4); CORE4.resize(2); S13 = cat(shapes(1, 2, 3), CORE3); S4 = CORE4; }
    else { S13 = shapes(1, 3, 3); S4 = shapes(4, 4, 2); }
    SALL = cat(S13, S4);
    dump_c03(); dump_c06(); dump_c04(); dump_c04b(); dump_c08(); dump_c16(); dump_c05(); dump_extra();
    flush_out();
    long total = 0; for (auto& kv : COUNT) { fprintf(stderr, "refdump %-24s %8ld\n", kv.first.c_str(), kv.second); total += kv.second; }
    fprintf(stderr, "refdump %-24s %8ld  (%s)\n", "TOTAL", total, QUICK ? "quick" : "full");
    return 0;
}
