// nmc_enum.hpp - finite enumerators (simplest first) used by every harness.  No nmtools includes.
#pragma once
#include <vector>
#include <functional>
#include <algorithm>
#include <numeric>

namespace nmc {
using L = std::vector<long>;

inline long prod(const L& s) { long p = 1; for (long v : s) p *= v; return p; }

// all tuples t of length n with lo[i] <= t[i] <= hi[i], in lexicographic (odometer, last fastest) order
template <typename F> inline void each_tuple(const L& lo, const L& hi, F&& f) {
    size_t n = lo.size(); L t(lo);
    for (size_t i = 0; i < n; i++) if (lo[i] > hi[i]) return;
    while (true) {
        f((const L&)t);
        int a = (int)n - 1;
        for (; a >= 0; a--) { if (++t[a] <= hi[a]) break; t[a] = lo[a]; }
        if (a < 0) break;
    }
}
template <typename F> inline void each_tuple(size_t n, long lo, long hi, F&& f) { each_tuple(L(n, lo), L(n, hi), f); }

// all shapes of dimension d with extents 1..e
template <typename F> inline void each_shape(int d, long e, F&& f) { each_tuple((size_t)d, 1, e, f); }
// S(dlo..dhi, e)
template <typename F> inline void each_shape_range(int dlo, int dhi, long e, F&& f) { for (int d = dlo; d <= dhi; d++) each_shape(d, e, f); }
// all multi-indices of a shape (C order)
template <typename F> inline void each_index(const L& shape, F&& f) { L hi(shape); for (auto& v : hi) v -= 1; each_tuple(L(shape.size(), 0), hi, f); }

template <typename F> inline void each_permutation(int n, F&& f) { L p(n); std::iota(p.begin(), p.end(), 0); do { f((const L&)p); } while (std::next_permutation(p.begin(), p.end())); }
// all subsets of {0..n-1} as sorted lists (including empty)
template <typename F> inline void each_subset(int n, F&& f) { for (long m = 0; m < (1L << n); m++) { L s; for (int i = 0; i < n; i++) if (m >> i & 1) s.push_back(i); f((const L&)s); } }
// all ordered selections without repetition of k elements from 0..n-1
template <typename F> inline void each_arrangement(int n, int k, F&& f) {
    L cur; std::vector<char> used(n, 0);
    std::function<void()> rec = [&]() { if ((int)cur.size() == k) { f((const L&)cur); return; } for (int i = 0; i < n; i++) if (!used[i]) { used[i] = 1; cur.push_back(i); rec(); cur.pop_back(); used[i] = 0; } };
    rec();
}
// ordered factorisations of n into exactly k factors >= 1
template <typename F> inline void each_factorisation(long n, int k, F&& f) {
    L cur;
    std::function<void(long)> rec = [&](long rest) { if ((int)cur.size() == k - 1) { cur.push_back(rest); f((const L&)cur); cur.pop_back(); return; } for (long d = 1; d <= rest; d++) if (rest % d == 0) { cur.push_back(d); rec(rest / d); cur.pop_back(); } };
    if (k >= 1) rec(n);
}
// every spelling of an axis list where each entry is written either as a or a-d
template <typename F> inline void each_sign_spelling(const L& axes, long d, F&& f) {
    size_t n = axes.size();
    for (long m = 0; m < (1L << n); m++) { L s(axes); for (size_t i = 0; i < n; i++) if (m >> i & 1) s[i] -= d; f((const L&)s); }
}
inline L row_major_strides(const L& s) { L st(s.size(), 1); for (int i = (int)s.size() - 2; i >= 0; i--) st[i] = st[i + 1] * s[i + 1]; return st; }
inline long flat_of(const L& idx, const L& shape) { long o = 0; for (size_t i = 0; i < shape.size(); i++) o = o * shape[i] + idx[i]; return o; }
inline L unflat(long k, const L& shape) { L idx(shape.size()); for (int i = (int)shape.size() - 1; i >= 0; i--) { idx[i] = k % shape[i]; k /= shape[i]; } return idx; }
inline std::string str(const L& v) { std::string s = "("; for (size_t i = 0; i < v.size(); i++) { if (i) s += ","; s += std::to_string(v[i]); } return s + ")"; }
} // namespace nmc
