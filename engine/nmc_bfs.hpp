// nmc_bfs.hpp - E3: explicit-state breadth-first search over operation HISTORIES of real mutable objects
// (no nmtools includes).  A state is an operation history; it is materialised by replaying the history on
// fresh objects placed in a zero-filled arena; two histories are merged iff their CANONICAL FORMS are equal:
//     raw bytes of every live object + the contents of every heap block reachable from them, with every
//     pointer-sized word that points into a block / a slot replaced by (ordinal, offset)
// which includes hidden fields that influence the future (capacity, stale elements) without naming private
// members.  Every transition executes ONE real operation on the implementation and on the std:: model and
// compares the complete observation; every state is torn down and the allocator must balance.
//
// Output protocol = nmc.hpp's (FAIL / STAT / COUNT / SAMPLE / DONE lines), so bin/check drives both.
#pragma once
#include <cstdio>
#include <cstdlib>
#include <cstring>
#include <cstdint>
#include <string>
#include <vector>
#include <memory>
#include <functional>
#include <unistd.h>
#include <signal.h>
#include <time.h>
#include <sys/mman.h>
#include <sys/wait.h>
#include <fcntl.h>

#if defined(__SANITIZE_ADDRESS__)
#define NMC_ASAN 1
#elif defined(__has_feature)
#if __has_feature(address_sanitizer)
#define NMC_ASAN 1
#endif
#endif
#ifdef NMC_ASAN
extern "C" void __asan_poison_memory_region(void const volatile*, size_t);
extern "C" void __asan_unpoison_memory_region(void const volatile*, size_t);
#define NMC_POISON(p, n) __asan_poison_memory_region((p), (n))
#define NMC_UNPOISON(p, n) __asan_unpoison_memory_region((p), (n))
#else
#define NMC_POISON(p, n) ((void)0)
#define NMC_UNPOISON(p, n) ((void)0)
#endif

namespace nmc {
namespace bfs {

[[noreturn]] inline void die(const char* msg) { fprintf(stderr, "ERROR: %s\n", msg); fflush(stderr); _exit(3); }
inline uint64_t mix(uint64_t x) { x ^= x >> 33; x *= 0xff51afd7ed558ccdULL; x ^= x >> 33; x *= 0xc4ceb9fe1a85ec53ULL; x ^= x >> 33; return x; }
inline uint64_t fnv(const void* p, size_t n, uint64_t h) { auto* b = (const unsigned char*)p; for (size_t i = 0; i < n; i++) { h ^= b[i]; h *= 1099511628211ULL; } return h; }

// ---- arena allocator: deterministic, never reuses memory inside one world, red zones, poison fill ---------
struct Block { char* p; size_t n; bool alive; };
struct Arena {
    static constexpr size_t SIZE = 1u << 20, SLOTS = 4, SLOT_BYTES = 1024, RED = 32;
    char* base = nullptr; size_t used = 0;
    std::vector<Block> blocks;
    long bad_free = 0, allocs = 0, frees = 0;
    std::string first_bad;
    void init() { base = (char*)mmap(nullptr, SIZE, PROT_READ | PROT_WRITE, MAP_PRIVATE | MAP_ANONYMOUS, -1, 0); if (base == MAP_FAILED) die("arena mmap"); used = SLOTS * SLOT_BYTES; }
    void reset() { NMC_UNPOISON(base, SIZE); memset(base, 0, used); used = SLOTS * SLOT_BYTES; blocks.clear(); bad_free = allocs = frees = 0; first_bad.clear(); }
    void* slot(size_t i) { return base + i * SLOT_BYTES; }
    bool in_slots(const void* q) const { return (const char*)q >= base && (const char*)q < base + SLOTS * SLOT_BYTES; }
    void* alloc(size_t n) {
        size_t m = (n + 15) & ~size_t(15);
        if (used + m + 2 * RED > SIZE) die("arena exhausted");
        char* p = base + used + RED;
        memset(base + used, 0xEE, RED); memset(p, 0xA5, m); memset(p + m, 0xEE, RED);   // fresh memory is poison, not zero
        NMC_POISON(base + used, RED); NMC_POISON(p + n, m - n + RED);
        used += m + 2 * RED;
        blocks.push_back(Block{p, n, true}); allocs++;
        return p;
    }
    void free_(void* q) {
        if (!q) return;
        for (auto& b : blocks) if (b.p == q) {
            if (!b.alive) { bad_free++; if (first_bad.empty()) first_bad = "double free of a block of " + std::to_string(b.n) + " bytes"; return; }
            b.alive = false; frees++; memset(b.p, 0xDD, b.n); NMC_POISON(b.p, b.n); return;
        }
        bad_free++; if (first_bad.empty()) first_bad = "free of a pointer that was never allocated";
    }
    long live() const { long k = 0; for (auto& b : blocks) k += b.alive; return k; }
    long live_bytes() const { long k = 0; for (auto& b : blocks) if (b.alive) k += (long)b.n; return k; }
    int find(const void* q, size_t& off) const {   // block containing q (one-past-the-end counts)
        for (size_t i = 0; i < blocks.size(); i++) { const Block& b = blocks[i]; if ((const char*)q >= b.p && (const char*)q <= b.p + b.n) { off = (size_t)((const char*)q - b.p); return (int)i; } }
        return -1;
    }
};
inline Arena g_arena;
} // namespace bfs
} // namespace nmc

// the allocation functions nmtools is compiled against (-Dnmtools_malloc=nmc_bfs_malloc -Dnmtools_free=nmc_bfs_free)
extern "C" inline void* nmc_bfs_malloc(size_t n) { return nmc::bfs::g_arena.alloc(n); }
extern "C" inline void nmc_bfs_free(void* p) { nmc::bfs::g_arena.free_(p); }

namespace nmc {
namespace bfs {

// ---- canonical form ---------------------------------------------------------------------------------------
struct Canon {
    std::string bytes;
    std::vector<int> order;            // block ordinals in order of first reference
    std::vector<int> ord_of;           // block index -> ordinal or -1
    void begin() { bytes.clear(); order.clear(); ord_of.assign(g_arena.blocks.size(), -1); }
    void tag(char c) { bytes.push_back(c); }
    void num(long v) { bytes.append((const char*)&v, sizeof v); }
    // object / block bytes with pointer normalisation (8-byte words at 8-byte alignment relative to p)
    void raw(const void* p, size_t n) {
        const char* c = (const char*)p; size_t i = 0;
        for (; i + 8 <= n; i += 8) {
            uint64_t w; memcpy(&w, c + i, 8);
            const void* q = (const void*)(uintptr_t)w; size_t off = 0;
            if (w >= (uint64_t)(uintptr_t)g_arena.base && w < (uint64_t)(uintptr_t)g_arena.base + Arena::SIZE) {
                if (g_arena.in_slots(q)) { tag('S'); num((long)((const char*)q - g_arena.base)); continue; }
                int b = g_arena.find(q, off);
                if (b >= 0) { if (ord_of[(size_t)b] < 0) { ord_of[(size_t)b] = (int)order.size(); order.push_back(b); } tag('P'); num(ord_of[(size_t)b]); num((long)off); continue; }
                tag('W'); num((long)(w - (uint64_t)(uintptr_t)g_arena.base)); continue;   // wild pointer into the arena (red zone): keep the offset
            }
            tag('.'); bytes.append(c + i, 8);
        }
        if (i < n) { tag('.'); bytes.append(c + i, n - i); }
    }
    void finish() {   // append the reachable blocks (transitively)
        for (size_t k = 0; k < order.size(); k++) {
            const Block& b = g_arena.blocks[(size_t)order[k]];
            tag('B'); num((long)b.n); num(b.alive ? 1 : 0);
            if (b.alive) { NMC_UNPOISON(b.p, b.n); raw(b.p, b.n); }
        }
    }
    void hash(uint64_t& h1, uint64_t& h2) const { h1 = fnv(bytes.data(), bytes.size(), 1469598103934665603ULL); h2 = mix(fnv(bytes.data(), bytes.size(), 0x9e3779b97f4a7c15ULL) + bytes.size()); if (!h1) h1 = 1; }
};

// ---- subject interface --------------------------------------------------------------------------------------
struct Subject {
    virtual ~Subject() {}
    virtual const char* name() const = 0;
    virtual int nops() const = 0;
    virtual std::string op_name(int op) const = 0;
    virtual bool mutating(int op) const = 0;       // for the non-triviality rule
    virtual void reset() = 0;                      // fresh world: nothing alive (arena is reset by the engine before)
    virtual bool enabled(int op) = 0;              // in the current world (decided from the model)
    virtual std::string apply(int op) = 0;         // run op on implementation and model, compare everything; "" = agree
    virtual void canon(Canon& c) = 0;              // c.tag/num/raw over the live implementation objects
    virtual std::string teardown() = 0;            // destroy everything; "" or what leaked / was double freed
    virtual int depth(bool thorough) const = 0;
};

// violations raised from hook sinks (index >= extent ...) are collected here by the harness
inline std::string g_hook_msg;

struct Shared {
    volatile long in_flight, cur_parent, cur_op;       // transition being executed (crash attribution)
    long states, transitions, fails, crashes, replays_checked, pruned, deadline_hit, done_level, nontrivial_states, enabled_total;
    long level_states[16], level_trans[16];
    long frontier_emptied, max_depth;
    char samples[16][256]; long nsamples;
    long next_n;
};

struct Engine {
    Subject* S = nullptr; bool thorough = false; int shard = 0, nshard = 1; FILE* out = nullptr; double t_end = 0;
    Shared* sh = nullptr;
    uint64_t* table = nullptr; size_t tcap = 0;      // visited: pairs (h1,h2), shared memory
    uint64_t* cur = nullptr; uint64_t* nxt = nullptr; size_t fcap = 0; size_t cur_n = 0;
    uint64_t* outcomes = nullptr; size_t ocap = 1u << 16; long* on = nullptr;

    static double now() { timespec t; clock_gettime(CLOCK_MONOTONIC, &t); return t.tv_sec + t.tv_nsec * 1e-9; }
    static uint64_t pack(const std::vector<int>& h) { uint64_t v = h.size(); for (size_t i = 0; i < h.size(); i++) v |= (uint64_t)(h[i] + 1) << (8 * (i + 1)); return v; }
    static std::vector<int> unpack(uint64_t v) { size_t n = v & 0xff; std::vector<int> h(n); for (size_t i = 0; i < n; i++) h[i] = (int)((v >> (8 * (i + 1))) & 0xff) - 1; return h; }
    std::string key(const std::vector<int>& h) const { std::string k = S->name(); k += "|"; if (h.empty()) k += "_"; for (size_t i = 0; i < h.size(); i++) { if (i) k += ","; k += std::to_string(h[i]); } return k; }
    std::string pretty(const std::vector<int>& h) const { std::string k; for (size_t i = 0; i < h.size(); i++) { if (i) k += " ; "; k += S->op_name(h[i]); } return k; }

    bool insert(uint64_t h1, uint64_t h2) {
        size_t i = mix(h1 ^ h2) & (tcap - 1);
        while (table[2 * i]) { if (table[2 * i] == h1 && table[2 * i + 1] == h2) return false; i = (i + 1) & (tcap - 1); }
        table[2 * i] = h1; table[2 * i + 1] = h2; return true;
    }
    // replay a history on a fresh world; returns "" or the first disagreement (with the step number)
    std::string replay(const std::vector<int>& h, size_t upto, bool check) {
        g_arena.reset(); g_hook_msg.clear(); S->reset();
        for (size_t i = 0; i < upto; i++) {
            if (!S->enabled(h[i])) return "step " + std::to_string(i) + " (" + S->op_name(h[i]) + ") is not enabled in the replayed world";
            std::string r = S->apply(h[i]);
            if (!g_hook_msg.empty() && r.empty()) r = g_hook_msg;
            if (check && !r.empty()) return "step " + std::to_string(i) + " (" + S->op_name(h[i]) + "): " + r;
        }
        return "";
    }
    void fail(const char* kind, const std::vector<int>& h, const std::string& why) {
        std::string d = why + "  [history: " + pretty(h) + "]";
        for (auto& c : d) if (c == '\n' || c == '\t') c = ' ';
        fprintf(out, "FAIL\t%s\t%s\t%s\n", kind, key(h).c_str(), d.c_str()); fflush(out); sh->fails++;
    }
    // executes every transition out of cur[from..]; runs in a forked child
    void level_child(size_t from_parent, int from_op, int depth) {
        Canon c; std::vector<int> h;
        for (size_t pi = from_parent; pi < cur_n; pi++) {
            if (t_end > 0 && (pi & 63) == 0 && now() > t_end) { sh->deadline_hit = 1; return; }
            h = unpack(cur[pi]);
            // enabled ops in the parent state
            std::string r0 = replay(h, h.size(), false);
            if (!r0.empty()) { fprintf(out, "ERROR\treplay of an accepted history diverged: %s: %s\n", key(h).c_str(), r0.c_str()); fflush(out); _exit(4); }
            std::vector<int> en; for (int op = 0; op < S->nops(); op++) if (S->enabled(op)) en.push_back(op);
            S->teardown();
            sh->enabled_total += (long)en.size();
            for (int op : en) {
                if (pi == from_parent && op < from_op) continue;
                if (depth == 1 && nshard > 1 && (op % nshard) != shard) continue;
                sh->cur_parent = (long)pi; sh->cur_op = op; sh->in_flight = 1;
                alarm(60);
                replay(h, h.size(), false);
                g_hook_msg.clear();
                std::string r = S->enabled(op) ? S->apply(op) : std::string("op not enabled on replay (non-deterministic world)");
                if (r.empty() && !g_hook_msg.empty()) r = g_hook_msg;
                h.push_back(op);
                sh->transitions++; sh->level_trans[depth]++;
                bool bad = false;
                if (!r.empty()) { fail(g_hook_msg.empty() ? "wrong" : "hook", h, r); bad = true; }
                uint64_t h1 = 0, h2 = 0;
                if (!bad) { c.begin(); S->canon(c); c.finish(); c.hash(h1, h2); }
                std::string t = S->teardown();
                if (t.empty() && g_arena.bad_free) t = g_arena.first_bad;
                if (!bad && !t.empty()) { fail("leak", h, t); bad = true; }
                alarm(0);
                sh->in_flight = 0;
                if (bad) sh->pruned++;
                else if (insert(h1, h2)) {
                    sh->states++; sh->level_states[depth]++;
                    bool nontriv = false; for (int o : h) if (S->mutating(o)) nontriv = true;
                    if (nontriv) sh->nontrivial_states++;
                    if (*on < (long)ocap) outcomes[(*on)++] = h1;
                    if ((size_t)sh->next_n >= fcap) die("frontier capacity exceeded");
                    nxt[sh->next_n++] = pack(h);
                    if (sh->nsamples < 16 && (mix(h1) % 4099) < 8 && nontriv) { snprintf(sh->samples[sh->nsamples++], 255, "%s  = %s", key(h).c_str(), pretty(h).c_str()); }
                    if ((sh->states % 1000) == 0) {   // replay determinism: the same history must give the same canonical form
                        replay(h, h.size(), false); Canon c2; c2.begin(); S->canon(c2); c2.finish(); uint64_t g1, g2; c2.hash(g1, g2); S->teardown();
                        if (g1 != h1 || g2 != h2) { fprintf(out, "ERROR\tcanonical form not reproducible for %s\n", key(h).c_str()); fflush(out); _exit(4); }
                        sh->replays_checked++;
                    }
                }
                h.pop_back();
            }
        }
    }
    int run(int maxdepth) {
        size_t tbits = thorough ? 25 : 21;
        tcap = size_t(1) << tbits; fcap = thorough ? (size_t(1) << 24) : (size_t(1) << 20);
        auto shm = [](size_t bytes) { void* p = mmap(nullptr, bytes, PROT_READ | PROT_WRITE, MAP_SHARED | MAP_ANONYMOUS | MAP_NORESERVE, -1, 0); if (p == MAP_FAILED) die("mmap shared"); return p; };
        sh = (Shared*)shm(sizeof(Shared)); table = (uint64_t*)shm(tcap * 16); cur = (uint64_t*)shm(fcap * 8); nxt = (uint64_t*)shm(fcap * 8);
        outcomes = (uint64_t*)shm(ocap * 8); on = (long*)shm(sizeof(long));
        // initial state (empty history)
        { g_arena.reset(); S->reset(); Canon c; c.begin(); S->canon(c); c.finish(); uint64_t h1, h2; c.hash(h1, h2); insert(h1, h2); S->teardown(); sh->states = 1; sh->level_states[0] = 1; }
        cur[0] = pack({}); cur_n = 1;
        for (int depth = 1; depth <= maxdepth; depth++) {
            sh->next_n = 0;
            size_t from_parent = 0; int from_op = 0;
            while (true) {
                fflush(out);
                pid_t p = fork(); if (p < 0) die("fork");
                if (p == 0) { level_child(from_parent, from_op, depth); fflush(out); _exit(0); }
                int st = 0; waitpid(p, &st, 0);
                if (WIFEXITED(st) && WEXITSTATUS(st) == 0) break;
                if (WIFEXITED(st) && WEXITSTATUS(st) == 4) return 2;
                if (!sh->in_flight) { fprintf(out, "ERROR\tchild died outside a transition (status %d)\n", st); fflush(out); return 2; }
                std::vector<int> h = unpack(cur[sh->cur_parent]); h.push_back((int)sh->cur_op);
                char why[128]; if (WIFSIGNALED(st)) snprintf(why, sizeof why, "%s", WTERMSIG(st) == SIGALRM ? "timeout (SIGALRM)" : strsignal(WTERMSIG(st))); else snprintf(why, sizeof why, "exit status %d", WEXITSTATUS(st));
                fail("crash", h, why); sh->crashes++; sh->transitions++; sh->pruned++; sh->in_flight = 0;
                from_parent = (size_t)sh->cur_parent; from_op = (int)sh->cur_op + 1;
                if (sh->crashes > 20000) { sh->deadline_hit = 1; break; }
            }
            sh->max_depth = depth;
            if (sh->deadline_hit) break;
            sh->done_level = depth;
            std::swap(cur, nxt); cur_n = (size_t)sh->next_n;
            if (cur_n == 0) { sh->frontier_emptied = 1; break; }
        }
        return 0;
    }
};

// ---- main -----------------------------------------------------------------------------------------------------
using Factory = std::function<std::unique_ptr<Subject>()>;
struct Registry { std::vector<std::pair<std::string, Factory>> v; };
inline Registry& registry() { static Registry r; return r; }
struct Register { Register(const char* n, Factory f) { registry().v.emplace_back(n, f); } };

inline int main_(int argc, char** argv, void (*selftest)()) {
    std::string tier = "quick", outp, one, subject; int shard = 0, nshard = 1; double deadline = 0; int depth_override = 0; bool list = false;
    for (int i = 1; i < argc; i++) {
        std::string a = argv[i];
        auto nxt = [&]() { if (i + 1 >= argc) die("missing argument value"); return std::string(argv[++i]); };
        if (a == "--tier") tier = nxt(); else if (a == "--shard") { std::string s = nxt(); sscanf(s.c_str(), "%d/%d", &shard, &nshard); }
        else if (a == "--case") one = nxt(); else if (a == "--out") outp = nxt(); else if (a == "--deadline") deadline = atof(nxt().c_str());
        else if (a == "--subject") subject = nxt(); else if (a == "--depth") depth_override = atoi(nxt().c_str()); else if (a == "--list") list = true;
        else die("unknown option");
    }
    g_arena.init();
    if (list) { for (auto& s : registry().v) { auto S = s.second(); printf("%s  ops=%d depth quick/thorough=%d/%d\n", s.first.c_str(), S->nops(), S->depth(false), S->depth(true)); for (int o = 0; o < S->nops(); o++) printf("   %d %s\n", o, S->op_name(o).c_str()); } return 0; }
    if (!one.empty()) {   // replay one history step by step
        selftest();
        size_t bar = one.find('|'); std::string sn = one.substr(0, bar), ops = bar == std::string::npos ? "" : one.substr(bar + 1);
        for (auto& s : registry().v) if (s.first == sn) {
            auto S = s.second(); Engine e; e.S = S.get(); e.out = stdout;
            std::vector<int> h; if (ops != "_") { size_t i = 0; while (i < ops.size()) { size_t j = ops.find(',', i); if (j == std::string::npos) j = ops.size(); h.push_back(atoi(ops.substr(i, j - i).c_str())); i = j + 1; } }
            std::string r = e.replay(h, h.size(), true);
            const char* kind = g_hook_msg.empty() ? "wrong" : "hook";
            if (r.empty()) { std::string t = S->teardown(); if (t.empty() && g_arena.bad_free) t = g_arena.first_bad; if (!t.empty()) { r = t; kind = "leak"; } }
            if (r.empty()) { printf("PASS\t%s\t[%s]\n", one.c_str(), e.pretty(h).c_str()); return 0; }
            printf("FAIL\t%s\t%s\t%s  [history: %s]\n", kind, one.c_str(), r.c_str(), e.pretty(h).c_str()); return 1;
        }
        die("unknown subject in --case");
    }
    FILE* out = outp.empty() ? stdout : fopen(outp.c_str(), "w"); if (!out) die("cannot open --out");
    double t0 = Engine::now();
    { pid_t p = fork(); if (p == 0) { selftest(); _exit(0); } int st = 0; waitpid(p, &st, 0); if (!(WIFEXITED(st) && WEXITSTATUS(st) == 0)) { fprintf(out, "ERROR\tselftest failed (status %d)\n", st); fflush(out); return 2; } }
    long states = 0, trans = 0, fails = 0, crashes = 0, nontriv = 0, evals = 0; bool exhaustive = true, deadline_hit = false; long maxd = 0, emptied = 0, subjects = 0, replays = 0;
    std::vector<uint64_t> all_outcomes; std::vector<std::string> samples;
    for (auto& s : registry().v) {
        if (!subject.empty() && s.first != subject) continue;
        auto S = s.second(); Engine e; e.S = S.get(); e.thorough = tier == "thorough"; e.shard = shard; e.nshard = nshard; e.out = out;
        e.t_end = deadline > 0 ? t0 + deadline : 0;
        int d = depth_override ? depth_override : S->depth(e.thorough);
        int rc = e.run(d); if (rc) return rc;
        subjects++;
        states += e.sh->states; trans += e.sh->transitions; fails += e.sh->fails; crashes += e.sh->crashes; nontriv += e.sh->nontrivial_states; replays += e.sh->replays_checked;
        if (e.sh->deadline_hit) { exhaustive = false; deadline_hit = true; }
        if (e.sh->max_depth > maxd) maxd = e.sh->max_depth; emptied += e.sh->frontier_emptied;
        fprintf(out, "COUNT\tstates_%s\t%ld\n", S->name(), e.sh->states); fprintf(out, "COUNT\ttransitions_%s\t%ld\n", S->name(), e.sh->transitions);
        fprintf(out, "COUNT\tmax_depth_%s\t%ld\n", S->name(), e.sh->done_level);
        for (long i = 0; i < *e.on; i++) all_outcomes.push_back(e.outcomes[i] ^ mix(fnv(S->name(), strlen(S->name()), 7)));
        for (long i = 0; i < e.sh->nsamples && samples.size() < 16; i++) samples.push_back(e.sh->samples[i]);
        if (deadline_hit) break;
    }
    evals = trans;
    fprintf(out, "STAT\tevaluations\t%ld\n", evals); fprintf(out, "STAT\temitted\t%ld\n", evals);
    fprintf(out, "STAT\tdistinct_nontrivial\t%ld\n", nontriv); fprintf(out, "STAT\tnontrivial_duplicates\t0\n");
    fprintf(out, "STAT\tdistinct_outcomes\t%ld\n", (long)all_outcomes.size());
    fprintf(out, "STAT\tfails\t%ld\n", fails); fprintf(out, "STAT\tcrashes\t%ld\n", crashes);
    fprintf(out, "STAT\tcapped_distinct\t0\nSTAT\tcapped_outcomes\t0\nSTAT\tcapped_crashes\t0\n");
    fprintf(out, "STAT\tdeadline_hit\t%d\n", deadline_hit ? 1 : 0); fprintf(out, "STAT\texhaustive\t%d\n", exhaustive ? 1 : 0);
    fprintf(out, "STAT\twall_s\t%.3f\n", Engine::now() - t0);
    fprintf(out, "COUNT\tstates\t%ld\n", states); fprintf(out, "COUNT\ttransitions\t%ld\n", trans); fprintf(out, "COUNT\ttraces_validated\t%ld\n", trans);
    fprintf(out, "COUNT\tmax_depth\t%ld\n", maxd); fprintf(out, "COUNT\tsubjects\t%ld\n", subjects); fprintf(out, "COUNT\tfrontier_emptied\t%ld\n", emptied);
    fprintf(out, "COUNT\treplay_determinism_checks\t%ld\n", replays);
    for (auto& s : samples) fprintf(out, "SAMPLE\t%s\n", s.c_str());
    if (!outp.empty()) { std::string op = outp + ".outcomes"; if (FILE* f = fopen(op.c_str(), "wb")) { fwrite(all_outcomes.data(), 8, all_outcomes.size(), f); fclose(f); } }
    fprintf(out, "DONE\n"); fflush(out);
    return 0;
}
} // namespace bfs
} // namespace nmc
