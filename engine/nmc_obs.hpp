// nmc_obs.hpp - observation of nmtools results through the public API only (shape/len/at/apply_at),
// never through isequal/isclose (they are the subject of C18).  Requires nmtools headers to be included first.
#pragma once
#include "nmc_ref.hpp"
#include "nmtools/utility/at.hpp"
#include "nmtools/utility/shape.hpp"
#include "nmtools/utility/get_if.hpp"
#include "nmtools/utility/has_value.hpp"
#include "nmtools/meta.hpp"

namespace nmc {
namespace nm = nmtools;
namespace meta = nmtools::meta;

// read an index array (list/array/tuple/constants/clipped/static_vector/maybe-free) into L
template <typename S> inline L to_L(const S& s) {
    L r;
    if constexpr (meta::is_constant_index_array_v<S> || meta::is_constant_index_v<S>) {
        constexpr auto v = meta::to_value_v<S>;
        if constexpr (meta::is_constant_index_v<S>) r.push_back((long)v);
        else { auto n = nm::len(v); for (size_t i = 0; i < (size_t)n; i++) r.push_back((long)nm::at(v, i)); }
    } else if constexpr (meta::is_index_v<S> || meta::is_num_v<S>) {
        r.push_back((long)s);
    } else if constexpr (meta::is_tuple_v<S>) {
        constexpr auto N = meta::len_v<S>;
        meta::template_for<N>([&](auto i) { r.push_back((long)nm::at(s, i)); });
    } else {
        auto n = nm::len(s);
        for (size_t i = 0; i < (size_t)n; i++) r.push_back((long)nm::at(s, i));
    }
    return r;
}

template <typename V> inline Obs observe_plain(const V& v) {
    Obs o; o.has = true;
    if constexpr (meta::is_num_v<V>) { o.scalar = true; o.data.push_back((double)v); return o; }
    else {
        const auto s = nm::shape(v);
        o.shape = to_L(s);
        for (long e : o.shape) if (e < 0 || e > (1L << 20)) { o.bad_shape = true; return o; }
        long N = prod(o.shape);
        if (N > (1L << 22)) { o.bad_shape = true; return o; }
        o.data.reserve(N);
        size_t d = o.shape.size();
        using shape_type = meta::remove_cvref_t<decltype(s)>;
        constexpr auto FIXED_DIM = meta::len_v<shape_type>;
        if constexpr (FIXED_DIM <= 0) {
            if (d == 0) {   // 0-dim view: element obtained with an empty index list
                o.data.push_back((double)nm::apply_at(v, nmtools_list<size_t>{}));
                return o;
            }
        }
        auto walk = [&](auto& ix) {
            for (long k = 0; k < N; k++) {
                o.data.push_back((double)nm::apply_at(v, ix));
                for (int a = (int)d - 1; a >= 0; a--) { if ((long)++nm::at(ix, a) < o.shape[a]) break; nm::at(ix, a) = 0; }
            }
        };
        if constexpr (FIXED_DIM > 0) { nmtools_array<size_t, (size_t)FIXED_DIM> ix{}; walk(ix); }   // fixed-dim views may only accept fixed-size index arrays
        else { nmtools_list<size_t> ix; ix.resize(d); for (size_t q = 0; q < d; q++) nm::at(ix, q) = 0; walk(ix); }   // NOT ix(d, 0): the library's own vector has no (count, value) constructor (it would build {d, 0})
        return o;
    }
}

template <typename T> inline Obs observe(const T& v) {
    if constexpr (meta::is_maybe_v<T>) { if (!nm::has_value(v)) { Obs o; o.has = false; return o; } return observe(*v); }
    else if constexpr (meta::is_either_v<T>) {
        using Lt = meta::get_either_left_t<T>; using Rt = meta::get_either_right_t<T>;
        if (auto p = nm::get_if<Lt>(&v)) return observe(*p);
        return observe(*nm::get_if<Rt>(&v));
    }
    else if constexpr (meta::is_fail_v<T>) { Obs o; o.has = false; o.fail_type = true; return o; }
    else return observe_plain(v);
}
} // namespace nmc
