// nmc.hpp - common runner for the bounded exhaustive explorers (no nmtools includes).
//
// A harness defines
//     const char* nmc_property();
//     void        nmc_enumerate(const nmc::Tier&, const nmc::Sink&);   // emits every Case of the stated space
//     nmc::Outcome nmc_execute(const nmc::Case&);                      // runs ONE case on the real code + oracle
//     void        nmc_selftest();                                      // oracle must see a canned bug (abort otherwise)
// and includes this header once with NMC_MAIN defined.  The runner gives
//   * deterministic enumeration, sharding by key hash (duplicates land in one shard -> exact distinct counts)
//   * crash containment: cases run in a forked child, the parent learns the case in flight from
//     shared memory, records kind=crash and resumes after it
//   * replay of one case by key (--case), listing (--list), statistics in shared memory
#pragma once
#include <cstdio>
#include <cstdlib>
#include <cstring>
#include <cstdint>
#include <string>
#include <vector>
#include <functional>
#include <exception>
#include <initializer_list>
#include <unistd.h>
#include <signal.h>
#include <time.h>
#include <sys/mman.h>
#include <sys/wait.h>
#include <fcntl.h>

namespace nmc {

using L  = std::vector<long>;
using LL = std::vector<std::vector<long>>;

struct Case {
    std::string op;
    LL a;
    Case() {}
    Case(std::string o) : op(std::move(o)) {}
    Case(std::string o, LL args) : op(std::move(o)), a(std::move(args)) {}
    Case& arg(const L& v) { a.push_back(v); return *this; }
    Case& arg(long v) { a.push_back(L{v}); return *this; }
    // key: op|1,2,3|_|4     ("_" = empty list)
    size_t key_into(char* buf, size_t cap) const {
        size_t n = 0;
        auto put = [&](char c) { if (n + 1 < cap) buf[n++] = c; };
        for (char c : op) put(c);
        for (auto& l : a) {
            put('|');
            if (l.empty()) put('_');
            for (size_t i = 0; i < l.size(); i++) {
                if (i) put(',');
                char t[24]; int k = 0; long v = l[i]; unsigned long u = v < 0 ? 0UL - (unsigned long)v : (unsigned long)v;
                do { t[k++] = char('0' + u % 10); u /= 10; } while (u);
                if (v < 0) put('-');
                while (k) put(t[--k]);
            }
        }
        buf[n] = 0;
        return n;
    }
    std::string key() const { char b[1024]; key_into(b, sizeof b); return b; }
    static Case parse(const std::string& s) {
        Case c; size_t p = s.find('|');
        c.op = s.substr(0, p);
        while (p != std::string::npos) {
            size_t q = s.find('|', p + 1);
            std::string f = s.substr(p + 1, q == std::string::npos ? std::string::npos : q - p - 1);
            L l;
            if (f != "_") { size_t i = 0; while (i < f.size()) { size_t j = f.find(',', i); if (j == std::string::npos) j = f.size(); l.push_back(std::stol(f.substr(i, j - i))); i = j + 1; } }
            c.a.push_back(l); p = q;
        }
        return c;
    }
};

struct Outcome {
    std::string fail;       // empty = property held on this execution
    const char* kind = "wrong";   // wrong | accepts-invalid | rejects-valid | crash | hook | leak
    bool nontrivial = false;
    uint64_t outcome = 0;   // hash of the observed result (distinct outcome accounting)
    static Outcome ok(bool nontriv, uint64_t h) { Outcome o; o.nontrivial = nontriv; o.outcome = h; return o; }
    static Outcome bad(const char* kind, std::string why, bool nontriv = true, uint64_t h = 0) { Outcome o; o.kind = kind; o.fail = std::move(why); o.nontrivial = nontriv; o.outcome = h; return o; }
};

struct Tier { std::string name; bool thorough() const { return name == "thorough"; } };
using Sink = std::function<void(const Case&)>;

inline uint64_t fnv(const void* p, size_t n, uint64_t h = 1469598103934665603ULL) { auto* b = (const unsigned char*)p; for (size_t i = 0; i < n; i++) { h ^= b[i]; h *= 1099511628211ULL; } return h; }
inline uint64_t mix(uint64_t x) { x ^= x >> 33; x *= 0xff51afd7ed558ccdULL; x ^= x >> 33; x *= 0xc4ceb9fe1a85ec53ULL; x ^= x >> 33; return x; }
template <typename T> inline uint64_t hash_vec(const std::vector<T>& v, uint64_t h = 1469598103934665603ULL) { return v.empty() ? mix(h + 7) : fnv(v.data(), v.size() * sizeof(T), h); }

// ---- shared statistics -------------------------------------------------------------------------
constexpr size_t NSET = 1u << 22;     // distinct non-trivial keys  (per shard)
constexpr size_t OSET = 1u << 18;     // distinct outcomes          (per shard)
constexpr int NCOUNTER = 48;
struct Shared {
    volatile long cur_index;
    volatile long started;           // 1 while a case is executing
    char cur_key[1024];
    long evaluations, nontrivial_distinct, nontrivial_dup, fails, crashes, emitted;
    long nset_used, oset_used, nset_capped, oset_capped;
    long deadline_hit, enum_done;
    char cname[NCOUNTER][48]; long cval[NCOUNTER];
    char samples[16][512]; long nsamples;
    uint64_t nset[NSET];
    uint64_t oset[OSET];
};
inline Shared* g_sh = nullptr;

inline void count(const char* name, long delta = 1) {
    if (!g_sh) return;
    for (int i = 0; i < NCOUNTER; i++) {
        if (!g_sh->cname[i][0]) { strncpy(g_sh->cname[i], name, 47); }
        if (!strcmp(g_sh->cname[i], name)) { g_sh->cval[i] += delta; return; }
    }
}
inline void count_max(const char* name, long v) {
    if (!g_sh) return;
    for (int i = 0; i < NCOUNTER; i++) {
        if (!g_sh->cname[i][0]) { strncpy(g_sh->cname[i], name, 47); }
        if (!strcmp(g_sh->cname[i], name)) { if (v > g_sh->cval[i]) g_sh->cval[i] = v; return; }
    }
}
inline bool set_insert(uint64_t* tab, size_t cap, long& used, long& capped, uint64_t h) {
    if (h == 0) h = 1;
    if ((size_t)used * 4 > cap * 3) { capped = 1; return true; }
    size_t i = mix(h) & (cap - 1);
    while (tab[i]) { if (tab[i] == h) return false; i = (i + 1) & (cap - 1); }
    tab[i] = h; used++; return true;
}

[[noreturn]] inline void die(const char* msg) { fprintf(stderr, "ERROR: %s\n", msg); fflush(stderr); _exit(3); }

} // namespace nmc

const char* nmc_property();
#ifdef NMC_POST_CASE
void nmc_post_case(const nmc::Case&, nmc::Outcome&);
#endif
void nmc_enumerate(const nmc::Tier&, const nmc::Sink&);
nmc::Outcome nmc_execute(const nmc::Case&);
void nmc_selftest();

#ifdef NMC_MAIN
namespace nmc {
struct Opt { std::string tier = "quick", out = "", one = "", dump = ""; int shard = 0, nshard = 1; bool list = false; double deadline = 0; long crash_cap = 50000; long case_timeout = 120; };

inline double now() { timespec t; clock_gettime(CLOCK_MONOTONIC, &t); return t.tv_sec + t.tv_nsec * 1e-9; }

inline int run_child(const Opt& o, long resume, FILE* out, double t_end) {
    Tier tier{o.tier};
    FILE* dump = o.dump.empty() ? nullptr : fopen(o.dump.c_str(), "a");   // key <TAB> outcome hash <TAB> status, one line per executed case (cross-build differential)
    long index = -1;
    Shared* sh = g_sh;
    nmc_enumerate(tier, [&](const Case& c) {
        index++;
        if (index < resume) return;
        if (sh->deadline_hit) return;
        char kb[1024]; size_t kn = c.key_into(kb, sizeof kb);
        uint64_t kh = fnv(kb, kn);
        if (o.nshard > 1 && (int)(mix(kh) % (uint64_t)o.nshard) != o.shard) return;
        if (t_end > 0 && (sh->evaluations & 255) == 0 && now() > t_end) { sh->deadline_hit = 1; return; }
        memcpy(sh->cur_key, kb, kn + 1);
        sh->cur_index = index; sh->started = 1;
        alarm((unsigned)o.case_timeout);
        Outcome r;
        try { r = nmc_execute(c); }
        catch (const std::exception& e) { r = Outcome::bad("crash", std::string("uncaught exception: ") + e.what()); sh->crashes++; }
        catch (...) { r = Outcome::bad("crash", "uncaught exception (non-std)"); sh->crashes++; }
#ifdef NMC_POST_CASE
        nmc_post_case(c, r);      // e.g. C02: turn an out-of-range hook event observed during the case into the case's verdict
#endif
        alarm(0);
        sh->started = 0;
        sh->evaluations++;
        if (r.nontrivial) {
            if (set_insert(sh->nset, NSET, sh->nset_used, sh->nset_capped, kh)) { if (!sh->nset_capped) sh->nontrivial_distinct++; }
            else sh->nontrivial_dup++;
            if (sh->nsamples < 16 && (sh->nontrivial_distinct == 1 || (mix(kh) % 997) == 0)) { strncpy(sh->samples[sh->nsamples++], kb, 511); }
        }
        if (r.outcome) set_insert(sh->oset, OSET, sh->oset_used, sh->oset_capped, r.outcome);
        if (dump) { fprintf(dump, "%s\t%016llx\t%s\n", kb, (unsigned long long)r.outcome, r.fail.empty() ? "P" : r.kind); fflush(dump); }
        if (!r.fail.empty()) {
            sh->fails++;
            for (auto& ch : r.fail) if (ch == '\n' || ch == '\t') ch = ' ';
            fprintf(out, "FAIL\t%s\t%s\t%s\n", r.kind, kb, r.fail.c_str()); fflush(out);
        }
    });
    if (!sh->deadline_hit) sh->enum_done = 1;
    sh->emitted = index + 1;
    if (dump) fclose(dump);
    return 0;
}

inline int main_(int argc, char** argv) {
    Opt o;
    for (int i = 1; i < argc; i++) {
        std::string a = argv[i];
        auto nxt = [&]() { if (i + 1 >= argc) die("missing argument value"); return std::string(argv[++i]); };
        if (a == "--tier") o.tier = nxt();
        else if (a == "--shard") { std::string s = nxt(); sscanf(s.c_str(), "%d/%d", &o.shard, &o.nshard); }
        else if (a == "--case") o.one = nxt();
        else if (a == "--list") o.list = true;
        else if (a == "--out") o.out = nxt();
        else if (a == "--deadline") o.deadline = atof(nxt().c_str());
        else if (a == "--dump") o.dump = nxt();
        else if (a == "--crash-cap") o.crash_cap = atol(nxt().c_str());
        else if (a == "--case-timeout") o.case_timeout = atol(nxt().c_str());
        else die("unknown option");
    }
    if (o.list) { Tier t{o.tier}; nmc_enumerate(t, [&](const Case& c) { puts(c.key().c_str()); }); return 0; }
    g_sh = (Shared*)mmap(nullptr, sizeof(Shared), PROT_READ | PROT_WRITE, MAP_SHARED | MAP_ANONYMOUS, -1, 0);
    if (g_sh == MAP_FAILED) die("mmap");
    if (!o.one.empty()) {   // replay of one case, in this very process; exit 0 pass / 1 fail (crash = signal)
        nmc_selftest();
        Case c = Case::parse(o.one);
        Outcome r;
        try { r = nmc_execute(c); }
        catch (const std::exception& e) { r = Outcome::bad("crash", std::string("uncaught exception: ") + e.what()); }
        catch (...) { r = Outcome::bad("crash", "uncaught exception (non-std)"); }
#ifdef NMC_POST_CASE
        nmc_post_case(c, r);
#endif
        if (r.fail.empty()) { printf("PASS\t%s\nOUTCOME\t%016llx\tP\n", o.one.c_str(), (unsigned long long)r.outcome); return 0; }
        printf("FAIL\t%s\t%s\t%s\nOUTCOME\t%016llx\t%s\n", r.kind, o.one.c_str(), r.fail.c_str(), (unsigned long long)r.outcome, r.kind); return 1;
    }
    FILE* out = o.out.empty() ? stdout : fopen(o.out.c_str(), "w");
    if (!out) die("cannot open --out");
    if (!o.dump.empty()) { FILE* d = fopen(o.dump.c_str(), "w"); if (d) fclose(d); }
    double t0 = now(), t_end = o.deadline > 0 ? t0 + o.deadline : 0;
    {   // oracle self-test runs in a child too (it must not take the run down silently)
        pid_t p = fork(); if (p == 0) { nmc_selftest(); _exit(0); }
        int st = 0; waitpid(p, &st, 0);
        if (!(WIFEXITED(st) && WEXITSTATUS(st) == 0)) { fprintf(out, "ERROR\tselftest failed (status %d)\n", st); fflush(out); return 2; }
    }
    long resume = 0; bool capped = false;
    std::string errpath = o.out.empty() ? std::string("/dev/null") : o.out + ".stderr";
    while (true) {
        fflush(out);
        pid_t p = fork();
        if (p < 0) die("fork");
        if (p == 0) {
            int fd = open(errpath.c_str(), O_WRONLY | O_CREAT | O_TRUNC, 0644); if (fd >= 0) { dup2(fd, 2); close(fd); }
            run_child(o, resume, out, t_end); fflush(out); _exit(0);
        }
        int st = 0; waitpid(p, &st, 0);
        if (WIFEXITED(st) && WEXITSTATUS(st) == 0) break;
        if (!g_sh->started) { fprintf(out, "ERROR\tchild died outside a case (status %d) after index %ld\n", st, (long)g_sh->cur_index); fflush(out); return 2; }
        // crash inside a case
        char why[400]; why[0] = 0;
        if (WIFSIGNALED(st)) snprintf(why, sizeof why, "%s", WTERMSIG(st) == SIGALRM ? "timeout (SIGALRM)" : strsignal(WTERMSIG(st)));
        else snprintf(why, sizeof why, "exit status %d", WEXITSTATUS(st));
        std::string detail = why;
        if (FILE* e = fopen(errpath.c_str(), "r")) { char line[300]; int n = 0; while (n < 40 && fgets(line, sizeof line, e)) { n++; if (strstr(line, "ERROR") || strstr(line, "runtime error") || strstr(line, "what()") || strstr(line, "Assertion") || strstr(line, "assert")) { for (char* q = line; *q; q++) if (*q == '\n' || *q == '\t') *q = ' '; detail += " : "; detail += line; break; } } fclose(e); }
        fprintf(out, "FAIL\tcrash\t%s\t%s\n", g_sh->cur_key, detail.c_str());
        if (!o.dump.empty()) if (FILE* d = fopen(o.dump.c_str(), "a")) { fprintf(d, "%s\t%016llx\tcrash\n", g_sh->cur_key, 0ULL); fclose(d); }
        g_sh->crashes++; g_sh->fails++; g_sh->evaluations++; g_sh->started = 0;
        resume = g_sh->cur_index + 1;
        if (g_sh->crashes >= o.crash_cap) { capped = true; break; }
    }
    Shared* s = g_sh;
    fprintf(out, "STAT\tevaluations\t%ld\n", s->evaluations);
    fprintf(out, "STAT\temitted\t%ld\n", s->emitted);
    fprintf(out, "STAT\tdistinct_nontrivial\t%ld\n", s->nontrivial_distinct);
    fprintf(out, "STAT\tnontrivial_duplicates\t%ld\n", s->nontrivial_dup);
    fprintf(out, "STAT\tdistinct_outcomes\t%ld\n", s->oset_used);
    fprintf(out, "STAT\tfails\t%ld\n", s->fails);
    fprintf(out, "STAT\tcrashes\t%ld\n", s->crashes);
    fprintf(out, "STAT\tcapped_distinct\t%ld\n", s->nset_capped);
    fprintf(out, "STAT\tcapped_outcomes\t%ld\n", s->oset_capped);
    fprintf(out, "STAT\tcapped_crashes\t%d\n", capped ? 1 : 0);
    fprintf(out, "STAT\tdeadline_hit\t%ld\n", s->deadline_hit);
    fprintf(out, "STAT\texhaustive\t%d\n", (s->enum_done && !capped && !s->deadline_hit) ? 1 : 0);
    fprintf(out, "STAT\twall_s\t%.3f\n", now() - t0);
    for (int i = 0; i < NCOUNTER && s->cname[i][0]; i++) fprintf(out, "COUNT\t%s\t%ld\n", s->cname[i], s->cval[i]);
    for (long i = 0; i < s->nsamples; i++) fprintf(out, "SAMPLE\t%s\n", s->samples[i]);
    if (!o.out.empty()) {   // outcome hashes for the cross-shard union
        std::string op = o.out + ".outcomes"; FILE* f = fopen(op.c_str(), "wb");
        if (f) { for (size_t i = 0; i < OSET; i++) if (s->oset[i]) fwrite(&s->oset[i], 8, 1, f); fclose(f); }
    }
    fprintf(out, "DONE\n");
    fflush(out);
    return 0;
}
} // namespace nmc
int main(int argc, char** argv) { return nmc::main_(argc, argv); }
#endif
