// nmc_ref_c15.hpp - reference models / validity predicates used by C15 (invalid arguments), written from the NumPy
// definitions.  No nmtools includes, no code shared with nmtools.  nullopt = NumPy raises; a value whose size() is 0
// = NumPy returns an EMPTY array (nmtools has no empty arrays: see judge15 in harness/c15_invalid.cpp).
//
// Most operations re-use the models of nmc_ref.hpp / nmc_ref_c16.hpp unchanged; this header adds the operations they
// lack (ufunc add with broadcasting, nearest-neighbour resize, flat ONNX-format pad widths) and wraps the few whose
// validity predicate differs from NumPy 2.4 on corners that only the invalid/degenerate part of the argument space
// reaches (each wrapper says which corner).  EVERY predicate used by the harness is audited against NumPy: build the
// harness with -DC15_REFDUMP, see the comment at the end of harness/c15_invalid.cpp.
#pragma once
#include "nmc_ref.hpp"
#include "nmc_ref_c16.hpp"

namespace nmc {
namespace ref {
namespace c15 {

// numpy.reshape: nmc_ref.hpp's model is exact for sources with >= 1 element (audited) - re-exported for uniformity
inline ROpt reshape(const RArr& a, const L& dst) { return ref::reshape(a, dst); }

// numpy.transpose(a, axes): axes must be a permutation of range(d) (negative spelling allowed); an EMPTY list on a
// d >= 1 array raises ("axes don't match array") - covered by the length test of ref::transpose.
inline ROpt transpose(const RArr& a, const L& axes) { return ref::transpose(a, &axes); }

// numpy.moveaxis(a, source, destination)
inline ROpt moveaxis(const RArr& a, const L& src, const L& dst) { return ref::moveaxis(a, src, dst); }

// numpy.flip(a, axis=tuple): normalize_axis_tuple -> out of range and repeated axes raise; () returns a
inline ROpt flip(const RArr& a, const L& axes) { return ref::flip(a, &axes); }

// numpy.sum(a, axis=tuple, keepdims): duplicates raise, out of range raises, () reduces nothing (returns a)
inline ROpt sum(const RArr& a, const L& axes, bool keepdims) { return ref::reduce(a, &axes, keepdims, nullptr, [](double x, double y) { return x + y; }); }
inline ROpt cumsum(const RArr& a, long axis) { return ref::accumulate(a, axis, [](double x, double y) { return x + y; }); }

// numpy.roll(a, shift, axis): shift and axis are broadcast against each other (each a scalar or a 1-D sequence);
// the broadcast must be at most 1-D; axes may repeat (shifts add up); out of range raises.
// Corner not modelled by ref::roll: an empty axis tuple with a scalar shift broadcasts to length 0 -> a unchanged;
// an empty axis tuple with a shift list of length k: broadcast((k,), (0,)) raises unless k == 1.
inline ROpt roll(const RArr& a, const L& shift, bool shift_is_scalar, const L& axes) {
    L ax = axes; if (!norm_axes(ax, a.dim(), true)) return std::nullopt;
    size_t ns = shift_is_scalar ? 1 : shift.size(), na = ax.size();   // a scalar behaves like length 1 in the broadcast
    size_t n;
    if (ns == na) n = ns; else if (ns == 1) n = na; else if (na == 1) n = ns; else return std::nullopt;
    L tot((size_t)a.dim(), 0);
    for (size_t k = 0; k < n; k++) tot[(size_t)ax[na == 1 ? 0 : k]] += shift[ns == 1 ? 0 : k];
    return gather(a, a.shape, [&](const L& i) { L s(i); for (size_t k = 0; k < s.size(); k++) s[k] = pymod(i[k] - tot[k], a.shape[k]); return s; });
}

// numpy.repeat(a, repeats, axis): repeats is a scalar or a sequence broadcast to the axis length (length 1 or n);
// negative counts raise; zero counts give an empty result.
inline ROpt repeat(const RArr& a, const L& reps, long axis) { return ref::repeat(a, reps, &axis); }
inline ROpt repeat_none(const RArr& a, const L& reps) { return ref::repeat(a, reps, nullptr); }

// numpy.tile(a, reps): negative raises, zero gives an empty result
inline ROpt tile(const RArr& a, const L& reps) { return ref::tile(a, reps); }

// numpy.take(a, indices, axis) mode='raise'
inline ROpt take(const RArr& a, const L& ind, long axis) { return ref::take(a, ind, &axis); }

// numpy.compress(condition, a, axis): axis checked; a condition longer than the axis raises only if a True lies beyond it
inline ROpt compress(const RArr& a, const L& cond, long axis) { return ref::compress(a, cond, &axis); }

// numpy.concatenate((a, b), axis) / numpy.stack((a, b), axis)
inline ROpt concatenate(const RArr& a, const RArr& b, long axis) { return ref::concatenate(a, b, &axis); }
inline ROpt stack(const RArr& a, const RArr& b, long axis) { return ref::stack({a, b}, axis); }

// pad, nmtools/ONNX flat format [before_0..before_{d-1}, after_0..after_{d-1}] mapped to numpy.pad(a, tuple(zip(before, after)),
// constant_values=v).  A list whose length is not 2*d has no NumPy counterpart of d (before, after) pairs -> invalid;
// negative widths raise in NumPy.
inline ROpt pad_flat(const RArr& a, const L& pw, double value) {
    size_t d = (size_t)a.dim(); if (pw.size() != 2 * d) return std::nullopt;
    L before(pw.begin(), pw.begin() + (long)d), after(pw.begin() + (long)d, pw.end());
    return ref::pad(a, before, after, value);
}

// nmtools' resize (nearest-neighbour resampling, no NumPy counterpart; documented by index/resize.hpp and the upstream
// expectation data): result[i] = a[floor(src_k * i_k / dst_k)]; precondition dim(dst) == dim(a) and every extent > 0.
inline ROpt resize_nearest(const RArr& a, const L& dst) {
    if (dst.size() != a.shape.size()) return std::nullopt;
    for (long v : dst) if (v <= 0) return std::nullopt;
    return gather(a, dst, [&](const L& i) { L s(i.size()); for (size_t k = 0; k < i.size(); k++) s[k] = (a.shape[k] * i[k]) / dst[k]; return s; });
}

// numpy.broadcast_to(a, shape): negative extents raise; a zero extent is accepted exactly where the source extent is 1
// or missing (result empty).  ref::broadcast_to folds the zero-extent case into "raises" - here it is kept apart.
inline ROpt broadcast_to(const RArr& a, const L& t) {
    if (t.size() < a.shape.size()) return std::nullopt;
    for (long v : t) if (v < 0) return std::nullopt;
    size_t off = t.size() - a.shape.size();
    for (size_t i = 0; i < a.shape.size(); i++) if (a.shape[i] != t[off + i] && a.shape[i] != 1) return std::nullopt;
    for (long v : t) if (v == 0) return RArr(t);     // empty
    return ref::broadcast_to(a, t);
}

// numpy.add(a, b)
inline ROpt add(const RArr& a, const RArr& b) {
    auto bs = broadcast_shapes({a.shape, b.shape}); if (!bs) return std::nullopt;
    RArr x = *ref::broadcast_to(a, *bs), y = *ref::broadcast_to(b, *bs);
    for (size_t i = 0; i < x.data.size(); i++) x.data[i] += y.data[i];
    return x;
}

// numpy.tensordot(a, b, axes=n): n < 0 -> "negative dimensions"-free path: numpy builds range(-n, 0) / range(0, n);
// for n < 0 both ranges are empty -> behaves like n = 0 (outer product).  n larger than a dimension count -> the axis
// lists hold out-of-range entries or the extents mismatch -> raises.
inline ROpt tensordot_n(const RArr& a, const RArr& b, long n) {
    if (n < 0) n = 0;
    L axa, axb; for (long i = 0; i < n; i++) { axa.push_back(i - n); axb.push_back(i); }   // a: range(-n, 0), b: range(0, n)
    // numpy: as_ = list(range(-N,0)) is used to index a.shape directly (Python negative indexing; IndexError beyond -d)
    for (long x : axa) if (x < -(long)a.dim()) return std::nullopt;
    for (long x : axb) if (x >= (long)b.dim()) return std::nullopt;
    return ref::tensordot(a, b, axa, axb);
}
// numpy.tensordot(a, b, axes=(axa, axb)): lengths must agree, paired extents must agree, out of range raises
// (IndexError from shape[axis]); REPEATED axes are not rejected by tensordot itself - the transpose it performs with
// a non-permutation raises ("axes don't match array").
inline ROpt tensordot_x(const RArr& a, const RArr& b, const L& axa, const L& axb) { return ref::tensordot(a, b, axa, axb); }

} // namespace c15
} // namespace ref
} // namespace nmc
