// nmc_ref.hpp - the "boring" reference model: row-major arrays of double, one naive function per
// operation written from the NumPy / Python definitions with nested loops over multi-indices.
// Shares no code with nmtools.  `raises` = NumPy would raise for these arguments.
#pragma once
#include "nmc_enum.hpp"
#include <string>
#include <vector>
#include <cmath>
#include <cstdint>
#include <stdexcept>
#include <optional>
#include <set>

namespace nmc {

struct Obs {                 // what is observed from the implementation (or produced by the model)
    bool has = true;         // false = Nothing / failure reported
    bool scalar = false;     // a plain number rather than an array
    bool bad_shape = false;  // absurd shape (negative/huge extent) - never comparable
    bool fail_type = false;
    L shape;
    std::vector<double> data;
    uint64_t hash() const { uint64_t h = has ? 11 : 13; if (!has) return h; h = fnv_(shape.data(), shape.size() * sizeof(long), h); return fnv_(data.data(), data.size() * sizeof(double), h + scalar); }
    static uint64_t fnv_(const void* p, size_t n, uint64_t h) { auto* b = (const unsigned char*)p; h ^= 0x9e3779b97f4a7c15ULL; for (size_t i = 0; i < n; i++) { h ^= b[i]; h *= 1099511628211ULL; } return h; }
    std::string str(size_t maxel = 24) const {
        if (!has) return "Nothing";
        std::string s = scalar ? "scalar" : ("shape=" + nmc::str(shape));
        s += " data=[";
        for (size_t i = 0; i < data.size() && i < maxel; i++) { if (i) s += " "; char b[32]; snprintf(b, sizeof b, "%g", data[i]); s += b; }
        if (data.size() > maxel) s += " ...";
        return s + "]";
    }
};

struct RArr {
    L shape; std::vector<double> data;
    RArr() {}
    RArr(L s) : shape(std::move(s)), data((size_t)prod(shape), 0.0) {}
    RArr(L s, std::vector<double> d) : shape(std::move(s)), data(std::move(d)) {}
    long size() const { return prod(shape); }
    int dim() const { return (int)shape.size(); }
    double& at(const L& i) { return data[(size_t)flat_of(i, shape)]; }
    double at(const L& i) const { return data[(size_t)flat_of(i, shape)]; }
    static RArr iota(const L& s, double base = 1) { RArr a(s); for (size_t i = 0; i < a.data.size(); i++) a.data[i] = base + (double)i; return a; }
    Obs obs() const { Obs o; o.shape = shape; o.data = data; return o; }
};
struct Raises { std::string why; };
using ROpt = std::optional<RArr>;     // nullopt = NumPy raises

// compare an observation with the model; "" = equal.  Scalars and 0-dim arrays are the same thing in NumPy.
inline std::string diff(const Obs& got, const ROpt& want, double rtol = 0) {
    if (got.bad_shape) return "absurd shape " + str(got.shape);
    if (!want) return got.has ? ("accepted, NumPy raises; got " + got.str()) : "";
    if (!got.has) return "reported Nothing, expected " + want->obs().str();
    L gs = got.shape;
    if (gs != want->shape) {
        return "shape " + str(gs) + " expected " + str(want->shape);
    }
    if (got.data.size() != want->data.size()) return "element count " + std::to_string(got.data.size()) + " expected " + std::to_string(want->data.size());
    for (size_t i = 0; i < got.data.size(); i++) {
        double a = got.data[i], b = want->data[i];
        bool eq = (a == b) || (std::isnan(a) && std::isnan(b));
        if (!eq && rtol > 0) eq = std::fabs(a - b) <= rtol * (1.0 + std::fabs(b));
        if (!eq) { char buf[160]; snprintf(buf, sizeof buf, "element %zu = %.17g expected %.17g (shape %s)", i, a, b, str(gs).c_str()); return buf; }
    }
    return "";
}

namespace ref {

inline bool norm_axis(long& a, long d) { if (a < -d || a >= d) return false; if (a < 0) a += d; return true; }
inline bool norm_axes(L& ax, long d, bool allow_dup = false) { std::set<long> seen; for (auto& a : ax) { if (!norm_axis(a, d)) return false; if (!allow_dup && !seen.insert(a).second) return false; } return true; }

// generic gather: result(idx) = src(map(idx))
template <typename F> inline RArr gather(const RArr& a, const L& rshape, F&& map) {
    RArr r(rshape); long k = 0;
    each_index(rshape, [&](const L& i) { r.data[(size_t)k++] = a.at(map(i)); });
    return r;
}

// ---------------------------------------------------------------- C03
inline ROpt reshape(const RArr& a, L dst) {
    long neg = 0, p = 1;
    for (long v : dst) { if (v == -1) neg++; else if (v < 0) return std::nullopt; else p *= v; }
    if (neg > 1) return std::nullopt;
    long N = a.size();
    if (neg == 1) { if (p == 0 || N % p) return std::nullopt; for (auto& v : dst) if (v == -1) v = N / p; }
    else if (p != N) return std::nullopt;
    for (long v : dst) if (v == 0) return std::nullopt;   // N >= 1 always here, so zero extents never match
    return RArr(dst, a.data);
}
inline RArr flatten(const RArr& a) { return RArr(L{a.size()}, a.data); }
inline ROpt transpose(const RArr& a, const L* axes) {
    int d = a.dim(); L p;
    if (!axes) { for (int i = d - 1; i >= 0; i--) p.push_back(i); }
    else { p = *axes; if ((int)p.size() != d) return std::nullopt; if (!norm_axes(p, d)) return std::nullopt; }
    L rs(d); for (int i = 0; i < d; i++) rs[i] = a.shape[p[i]];
    return gather(a, rs, [&](const L& i) { L s(d); for (int k = 0; k < d; k++) s[p[k]] = i[k]; return s; });
}
inline ROpt moveaxis(const RArr& a, L src, L dst) {
    int d = a.dim();
    if (src.size() != dst.size()) return std::nullopt;
    if (!norm_axes(src, d) || !norm_axes(dst, d)) return std::nullopt;
    // numpy: order = [n for n in range(d) if n not in source]; for dest, src in sorted(zip(destination, source)): order.insert(dest, src)
    L order; for (int n = 0; n < d; n++) if (std::find(src.begin(), src.end(), n) == src.end()) order.push_back(n);
    std::vector<std::pair<long, long>> z; for (size_t i = 0; i < src.size(); i++) z.push_back({dst[i], src[i]});
    std::sort(z.begin(), z.end());
    for (auto& [dd, ss] : z) order.insert(order.begin() + dd, ss);
    return transpose(a, &order);
}
inline ROpt swapaxes(const RArr& a, long x, long y) {
    int d = a.dim(); if (!norm_axis(x, d) || !norm_axis(y, d)) return std::nullopt;
    L p(d); std::iota(p.begin(), p.end(), 0); std::swap(p[x], p[y]); return transpose(a, &p);
}
inline ROpt expand_dims(const RArr& a, L axes) {
    long d = a.dim() + (long)axes.size();
    if (!norm_axes(axes, d)) return std::nullopt;
    L rs; size_t k = 0;
    for (long i = 0; i < d; i++) { if (std::find(axes.begin(), axes.end(), i) != axes.end()) rs.push_back(1); else rs.push_back(a.shape[k++]); }
    return RArr(rs, a.data);
}
inline RArr squeeze(const RArr& a) { L rs; for (long v : a.shape) if (v != 1) rs.push_back(v); return RArr(rs, a.data); }
inline ROpt squeeze_axes(const RArr& a, L axes) {
    if (!norm_axes(axes, a.dim())) return std::nullopt;
    for (long x : axes) if (a.shape[x] != 1) return std::nullopt;
    L rs; for (int i = 0; i < a.dim(); i++) if (std::find(axes.begin(), axes.end(), (long)i) == axes.end()) rs.push_back(a.shape[i]);
    return RArr(rs, a.data);
}
inline RArr atleast_nd(const RArr& a, long n) { L rs = a.shape; while ((long)rs.size() < n) rs.insert(rs.begin(), 1); return RArr(rs, a.data); }
inline ROpt flip(const RArr& a, const L* axes) {
    int d = a.dim(); L ax;
    if (!axes) { for (int i = 0; i < d; i++) ax.push_back(i); } else { ax = *axes; if (!norm_axes(ax, d)) return std::nullopt; }
    return gather(a, a.shape, [&](const L& i) { L s(i); for (long x : ax) s[x] = a.shape[x] - 1 - i[x]; return s; });
}

// ---------------------------------------------------------------- C06
inline std::optional<L> broadcast_shapes(const std::vector<L>& shapes) {
    size_t d = 0; for (auto& s : shapes) d = std::max(d, s.size());
    L r(d, 1);
    for (auto& s : shapes) for (size_t i = 0; i < s.size(); i++) {
        size_t ri = d - s.size() + i; long e = s[i];
        if (e == 1) continue;
        if (r[ri] == 1) r[ri] = e; else if (r[ri] != e) return std::nullopt;
    }
    return r;
}
inline ROpt broadcast_to(const RArr& a, const L& t) {
    if (t.size() < a.shape.size()) return std::nullopt;
    for (long v : t) if (v < 0) return std::nullopt;
    size_t off = t.size() - a.shape.size();
    for (size_t i = 0; i < a.shape.size(); i++) if (a.shape[i] != t[off + i] && a.shape[i] != 1) return std::nullopt;
    for (long v : t) if (v == 0) return std::nullopt;     // (no empty arrays in nmtools; zero extents are outside the domain)
    return gather(a, t, [&](const L& i) { L s(a.shape.size()); for (size_t k = 0; k < s.size(); k++) s[k] = a.shape[k] == 1 ? 0 : i[off + k]; return s; });
}

// ---------------------------------------------------------------- C04
inline ROpt tile(const RArr& a, L reps) {
    for (long r : reps) if (r < 0) return std::nullopt;
    L as = a.shape; size_t d = std::max(as.size(), reps.size());
    while (as.size() < d) as.insert(as.begin(), 1);
    while (reps.size() < d) reps.insert(reps.begin(), 1);
    L rs(d); for (size_t i = 0; i < d; i++) rs[i] = as[i] * reps[i];
    RArr b(as, a.data);
    return gather(b, rs, [&](const L& i) { L s(d); for (size_t k = 0; k < d; k++) s[k] = i[k] % as[k]; return s; });
}
// repeats: scalar (size 1) or per-element; axis==nullptr -> flatten
inline ROpt repeat(const RArr& a0, const L& reps, const long* axis) {
    RArr a = axis ? a0 : flatten(a0);
    long ax = axis ? *axis : 0;
    if (!norm_axis(ax, a.dim())) return std::nullopt;
    long n = a.shape[ax];
    L r = reps; if (r.size() == 1) r = L((size_t)n, reps[0]);
    if ((long)r.size() != n) return std::nullopt;
    for (long v : r) if (v < 0) return std::nullopt;
    L srcpos; for (long i = 0; i < n; i++) for (long k = 0; k < r[i]; k++) srcpos.push_back(i);
    L rs = a.shape; rs[ax] = (long)srcpos.size();
    return gather(a, rs, [&](const L& i) { L s(i); s[ax] = srcpos[(size_t)i[ax]]; return s; });
}
inline long pymod(long a, long n) { long m = a % n; if (m < 0) m += n; return m; }
inline ROpt roll(const RArr& a0, const L& shift, const L* axes) {
    if (!axes) {
        if (shift.size() != 1) return std::nullopt;   // (numpy sums shifts; not in our alphabet)
        RArr f = flatten(a0); long n = f.size();
        RArr r = gather(f, f.shape, [&](const L& i) { return L{pymod(i[0] - shift[0], n)}; });
        return RArr(a0.shape, r.data);
    }
    L ax = *axes; if (!norm_axes(ax, a0.dim(), true)) return std::nullopt;
    L sh = shift;
    if (sh.size() == 1 && ax.size() != 1) sh = L(ax.size(), shift[0]);   // a length-1 operand stretches to the other length, also to 0 (NumPy audit)
    if (ax.size() == 1 && sh.size() != 1) ax = L(sh.size(), ax[0]);
    if (sh.size() != ax.size()) return std::nullopt;
    L tot((size_t)a0.dim(), 0); for (size_t k = 0; k < ax.size(); k++) tot[(size_t)ax[k]] += sh[k];
    return gather(a0, a0.shape, [&](const L& i) { L s(i); for (size_t k = 0; k < s.size(); k++) s[k] = pymod(i[k] - tot[k], a0.shape[k]); return s; });
}
inline ROpt take(const RArr& a0, const L& indices, const long* axis) {
    RArr a = axis ? a0 : flatten(a0);
    long ax = axis ? *axis : 0;
    if (!norm_axis(ax, a.dim())) return std::nullopt;
    long n = a.shape[ax]; L ind = indices;
    for (auto& v : ind) { if (v < -n || v >= n) return std::nullopt; if (v < 0) v += n; }
    L rs = a.shape; rs[ax] = (long)ind.size();
    return gather(a, rs, [&](const L& i) { L s(i); s[ax] = ind[(size_t)i[ax]]; return s; });
}
inline ROpt compress(const RArr& a0, const L& cond, const long* axis) {
    RArr a = axis ? a0 : flatten(a0);
    long ax = axis ? *axis : 0;
    if (!norm_axis(ax, a.dim())) return std::nullopt;
    long n = a.shape[ax];
    if ((long)cond.size() > n) { for (size_t i = (size_t)n; i < cond.size(); i++) if (cond[i]) return std::nullopt; }
    L ind; for (size_t i = 0; i < cond.size() && (long)i < n; i++) if (cond[i]) ind.push_back((long)i);
    L rs = a.shape; rs[ax] = (long)ind.size();
    return gather(a, rs, [&](const L& i) { L s(i); s[ax] = ind[(size_t)i[ax]]; return s; });
}
// pad: widths [before_0..before_{d-1}, after_0..after_{d-1}], constant value
inline ROpt pad(const RArr& a, const L& before, const L& after, double value) {
    int d = a.dim(); if ((int)before.size() != d || (int)after.size() != d) return std::nullopt;
    for (long v : before) if (v < 0) return std::nullopt;
    for (long v : after) if (v < 0) return std::nullopt;
    L rs(d); for (int i = 0; i < d; i++) rs[i] = a.shape[i] + before[i] + after[i];
    RArr r(rs); long k = 0;
    each_index(rs, [&](const L& i) { L s(d); bool in = true; for (int x = 0; x < d; x++) { s[x] = i[x] - before[x]; if (s[x] < 0 || s[x] >= a.shape[x]) in = false; } r.data[(size_t)k++] = in ? a.at(s) : value; });
    return r;
}
inline ROpt concatenate(const RArr& a0, const RArr& b0, const long* axis) {
    RArr a = axis ? a0 : flatten(a0), b = axis ? b0 : flatten(b0);
    long ax = axis ? *axis : 0;
    if (a.dim() != b.dim()) return std::nullopt;
    if (!norm_axis(ax, a.dim())) return std::nullopt;
    for (int i = 0; i < a.dim(); i++) if (i != ax && a.shape[i] != b.shape[i]) return std::nullopt;
    L rs = a.shape; rs[ax] += b.shape[ax];
    RArr r(rs); long k = 0;
    each_index(rs, [&](const L& i) { if (i[ax] < a.shape[ax]) r.data[(size_t)k++] = a.at(i); else { L s(i); s[ax] -= a.shape[ax]; r.data[(size_t)k++] = b.at(s); } });
    return r;
}
inline ROpt stack(const std::vector<RArr>& as, long axis) {
    for (auto& x : as) if (x.shape != as[0].shape) return std::nullopt;
    long d = as[0].dim() + 1; if (!norm_axis(axis, d)) return std::nullopt;
    L rs = as[0].shape; rs.insert(rs.begin() + axis, (long)as.size());
    RArr r(rs); long k = 0;
    each_index(rs, [&](const L& i) { L s(i); long w = s[axis]; s.erase(s.begin() + axis); r.data[(size_t)k++] = as[(size_t)w].at(s); });
    return r;
}
inline ROpt diagonal(const RArr& a, long offset, long ax1, long ax2) {
    int d = a.dim(); if (d < 2) return std::nullopt;
    if (!norm_axis(ax1, d) || !norm_axis(ax2, d) || ax1 == ax2) return std::nullopt;
    long n1 = a.shape[ax1], n2 = a.shape[ax2];
    long r0 = offset >= 0 ? 0 : -offset, c0 = offset >= 0 ? offset : 0;
    long len = std::min(n1 - r0, n2 - c0); if (len < 0) len = 0;
    L rs; for (int i = 0; i < d; i++) if (i != ax1 && i != ax2) rs.push_back(a.shape[i]);
    rs.push_back(len);
    if (len == 0) return std::nullopt;   // empty result: outside nmtools' domain (no empty arrays)
    return gather(a, rs, [&](const L& i) { L s(d); size_t k = 0; for (int x = 0; x < d; x++) if (x != ax1 && x != ax2) s[x] = i[k++]; s[ax1] = r0 + i.back(); s[ax2] = c0 + i.back(); return s; });
}
inline ROpt tril(const RArr& a0, long k, bool upper) {
    RArr a = a0; if (a.dim() == 1) { RArr b(L{a.shape[0], a.shape[0]}); for (long i = 0; i < a.shape[0]; i++) for (long j = 0; j < a.shape[0]; j++) b.at(L{i, j}) = a.data[(size_t)j]; a = b; }
    int d = a.dim(); if (d < 2) return std::nullopt;
    RArr r = a; long q = 0;
    each_index(a.shape, [&](const L& i) { long row = i[d - 2], col = i[d - 1]; bool keep = upper ? (col - row >= k) : (col - row <= k); if (!keep) r.data[(size_t)q] = 0; q++; });
    return r;
}
inline RArr eye(long N, long M, long k) { RArr r(L{N, M}); for (long i = 0; i < N; i++) for (long j = 0; j < M; j++) r.at(L{i, j}) = (j - i == k) ? 1 : 0; return r; }
inline RArr tri(long N, long M, long k) { RArr r(L{N, M}); for (long i = 0; i < N; i++) for (long j = 0; j < M; j++) r.at(L{i, j}) = (j - i <= k) ? 1 : 0; return r; }
inline ROpt diagflat(const RArr& a0, long k) {
    RArr f = flatten(a0); long n = f.size() + std::labs(k); RArr r(L{n, n});
    for (long i = 0; i < f.size(); i++) { long row = k >= 0 ? i : i - k, col = k >= 0 ? i + k : i; r.at(L{row, col}) = f.data[(size_t)i]; }
    return r;
}
// sliding_window_view(a, window_shape, axis)  (numpy.lib.stride_tricks)
inline ROpt sliding_window(const RArr& a, const L& window, const L* axes) {
    int d = a.dim(); L ax;
    if (!axes) { if ((int)window.size() != d) return std::nullopt; for (int i = 0; i < d; i++) ax.push_back(i); }
    else { ax = *axes; if (ax.size() != window.size()) return std::nullopt; if (!norm_axes(ax, d, true)) return std::nullopt; }
    for (long w : window) if (w < 0) return std::nullopt;
    L rs = a.shape;
    for (size_t k = 0; k < ax.size(); k++) { if (rs[(size_t)ax[k]] < window[k]) return std::nullopt; rs[(size_t)ax[k]] -= window[k] - 1; }
    L full = rs; for (long w : window) full.push_back(w);
    for (long v : full) if (v <= 0) return std::nullopt;
    return gather(a, full, [&](const L& i) { L s(i.begin(), i.begin() + d); for (size_t k = 0; k < ax.size(); k++) s[(size_t)ax[k]] += i[(size_t)d + k]; return s; });
}

// ---------------------------------------------------------------- C08
// fold in increasing source index order over the C-ordered reduced sub-block, left fold
template <typename Op> inline ROpt reduce(const RArr& a, const L* axes, bool keepdims, const double* initial, Op op) {
    int d = a.dim(); L ax;
    if (!axes) { for (int i = 0; i < d; i++) ax.push_back(i); } else { ax = *axes; if (!norm_axes(ax, d)) return std::nullopt; }
    std::vector<char> red((size_t)d, 0); for (long x : ax) red[(size_t)x] = 1;
    L rs_keep, rs; for (int i = 0; i < d; i++) { if (red[(size_t)i]) rs_keep.push_back(1); else { rs_keep.push_back(a.shape[i]); rs.push_back(a.shape[i]); } }
    L blk; for (int i = 0; i < d; i++) blk.push_back(red[(size_t)i] ? a.shape[i] : 1);
    RArr r(rs_keep); long q = 0;
    each_index(rs_keep, [&](const L& i) {
        bool first = true; double acc = 0; if (initial) { acc = *initial; first = false; }
        each_index(blk, [&](const L& j) { L s(d); for (int x = 0; x < d; x++) s[x] = red[(size_t)x] ? j[x] : i[x]; double v = a.at(s); if (first) { acc = v; first = false; } else acc = op(acc, v); });
        r.data[(size_t)q++] = acc;
    });
    if (!keepdims) r.shape = rs;
    return r;
}
template <typename Op> inline ROpt accumulate(const RArr& a, long axis, Op op) {
    if (!norm_axis(axis, a.dim())) return std::nullopt;
    RArr r = a; long q = 0;
    each_index(a.shape, [&](const L& i) { if (i[axis] > 0) { L p(i); p[axis]--; r.data[(size_t)q] = op(r.at(p), a.at(i)); } q++; });
    return r;
}

// ---------------------------------------------------------------- C16
inline ROpt matmul(const RArr& a0, const RArr& b0) {
    RArr a = a0, b = b0; bool pa = false, pb = false;
    if (a.dim() == 0 || b.dim() == 0) return std::nullopt;
    if (a.dim() == 1) { a.shape.insert(a.shape.begin(), 1); pa = true; }
    if (b.dim() == 1) { b.shape.push_back(1); pb = true; }
    long m = a.shape[a.dim() - 2], k = a.shape[a.dim() - 1], k2 = b.shape[b.dim() - 2], n = b.shape[b.dim() - 1];
    if (k != k2) return std::nullopt;
    L ba(a.shape.begin(), a.shape.end() - 2), bb(b.shape.begin(), b.shape.end() - 2);
    auto bs = broadcast_shapes({ba, bb}); if (!bs) return std::nullopt;
    L rs = *bs; rs.push_back(m); rs.push_back(n);
    RArr r(rs); long q = 0; size_t nb = bs->size();
    each_index(rs, [&](const L& i) {
        double acc = 0;
        for (long t = 0; t < k; t++) {
            L ia(ba.size() + 2), ib(bb.size() + 2);
            for (size_t x = 0; x < ba.size(); x++) ia[x] = ba[x] == 1 ? 0 : i[nb - ba.size() + x];
            for (size_t x = 0; x < bb.size(); x++) ib[x] = bb[x] == 1 ? 0 : i[nb - bb.size() + x];
            ia[ba.size()] = i[nb]; ia[ba.size() + 1] = t; ib[bb.size()] = t; ib[bb.size() + 1] = i[nb + 1];
            acc += a.at(ia) * b.at(ib);
        }
        r.data[(size_t)q++] = acc;
    });
    if (pa) r.shape.erase(r.shape.end() - 2);
    if (pb) r.shape.erase(r.shape.end() - 1);
    return r;
}
inline ROpt tensordot(const RArr& a, const RArr& b, L axa, L axb) {
    if (axa.size() != axb.size()) return std::nullopt;
    if (!norm_axes(axa, a.dim()) || !norm_axes(axb, b.dim())) return std::nullopt;
    for (size_t i = 0; i < axa.size(); i++) if (a.shape[(size_t)axa[i]] != b.shape[(size_t)axb[i]]) return std::nullopt;
    L fa, fb; for (int i = 0; i < a.dim(); i++) if (std::find(axa.begin(), axa.end(), (long)i) == axa.end()) fa.push_back(i);
    for (int i = 0; i < b.dim(); i++) if (std::find(axb.begin(), axb.end(), (long)i) == axb.end()) fb.push_back(i);
    L rs; for (long x : fa) rs.push_back(a.shape[(size_t)x]); for (long x : fb) rs.push_back(b.shape[(size_t)x]);
    L cs; for (long x : axa) cs.push_back(a.shape[(size_t)x]);
    RArr r(rs); long q = 0;
    each_index(rs, [&](const L& i) {
        double acc = 0;
        each_index(cs, [&](const L& c) {
            L ia((size_t)a.dim()), ib((size_t)b.dim());
            for (size_t x = 0; x < fa.size(); x++) ia[(size_t)fa[x]] = i[x];
            for (size_t x = 0; x < fb.size(); x++) ib[(size_t)fb[x]] = i[fa.size() + x];
            for (size_t x = 0; x < axa.size(); x++) { ia[(size_t)axa[x]] = c[x]; ib[(size_t)axb[x]] = c[x]; }
            acc += a.at(ia) * b.at(ib);
        });
        r.data[(size_t)q++] = acc;
    });
    return r;
}
inline ROpt tensordot_n(const RArr& a, const RArr& b, long n) {
    if (n < 0) n = 0;      // numpy builds range(-n, 0) / range(0, n): both empty for n < 0 -> outer product (NumPy audit)
    if (n > a.dim() || n > b.dim()) return std::nullopt;
    L axa, axb; for (long i = 0; i < n; i++) { axa.push_back(a.dim() - n + i); axb.push_back(i); }
    return tensordot(a, b, axa, axb);
}
inline RArr outer(const RArr& a, const RArr& b) { RArr fa = flatten(a), fb = flatten(b); RArr r(L{fa.size(), fb.size()}); for (long i = 0; i < fa.size(); i++) for (long j = 0; j < fb.size(); j++) r.at(L{i, j}) = fa.data[(size_t)i] * fb.data[(size_t)j]; return r; }
inline RArr kron(const RArr& a0, const RArr& b0) {
    RArr a = a0, b = b0; size_t d = std::max(a.shape.size(), b.shape.size());
    while (a.shape.size() < d) a.shape.insert(a.shape.begin(), 1);
    while (b.shape.size() < d) b.shape.insert(b.shape.begin(), 1);
    L rs(d); for (size_t i = 0; i < d; i++) rs[i] = a.shape[i] * b.shape[i];
    RArr r(rs); long q = 0;
    each_index(rs, [&](const L& i) { L ia(d), ib(d); for (size_t x = 0; x < d; x++) { ia[x] = i[x] / b.shape[x]; ib[x] = i[x] % b.shape[x]; } r.data[(size_t)q++] = a.at(ia) * b.at(ib); });
    return r;
}

// ---------------------------------------------------------------- C05: Python slice.indices / PySlice_AdjustIndices
struct PySlice { bool has_start, has_stop, has_step; long start, stop, step; };
// returns false if step == 0 (ValueError); outputs first index, step, length
inline bool slice_adjust(long n, const PySlice& s, long& first, long& step, long& len) {
    step = s.has_step ? s.step : 1; if (step == 0) return false;
    long start, stop;
    if (!s.has_start) start = step < 0 ? n - 1 : 0;
    else { start = s.start; if (start < 0) { start += n; if (start < 0) start = step < 0 ? -1 : 0; } else if (start >= n) start = step < 0 ? n - 1 : n; }
    if (!s.has_stop) stop = step < 0 ? -1 : n;
    else { stop = s.stop; if (stop < 0) { stop += n; if (stop < 0) stop = step < 0 ? -1 : 0; } else if (stop >= n) stop = step < 0 ? n - 1 : n; }
    if (step < 0) len = stop < start ? (start - stop - 1) / (-step) + 1 : 0;
    else len = start < stop ? (stop - start - 1) / step + 1 : 0;
    first = start; return true;
}

} // namespace ref
} // namespace nmc
