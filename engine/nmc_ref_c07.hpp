// nmc_ref_c07.hpp - reference model pieces for C07 (element-wise functions under broadcasting).
// Typed row-major reference arrays and the NumPy broadcasting rule written from its definition:
//   * shapes are right-aligned; the result extent of an axis is the maximum, every operand extent must be 1 or that maximum;
//   * result element i reads operand element (i restricted to the operand's axes, with 0 on every axis of extent 1).
// The scalar operation itself is NOT modelled here (DESIGN.md section 3): the harness applies the library's functor to the
// operand elements this header selects.  Shares no code with nmtools.
#pragma once
#include "nmc_ref.hpp"
#include <vector>
#include <optional>

namespace nmc {
namespace ref {

template <typename T> struct TArr {
    L shape;                 // empty shape = a scalar (one element)
    std::vector<T> data;     // row-major
    long size() const { return prod(shape); }
};

// index of the operand element that meets result index `ridx` (NumPy rule).  Precondition: opshape broadcasts to the result.
inline L bcast_operand_index(const L& ridx, const L& opshape) {
    size_t off = ridx.size() - opshape.size();
    L oi(opshape.size());
    for (size_t k = 0; k < opshape.size(); k++) oi[k] = (opshape[k] == 1) ? 0 : ridx[off + k];
    return oi;
}
// flat (row-major) position of that element inside the operand
inline long bcast_operand_pos(const L& ridx, const L& opshape) { return flat_of(bcast_operand_index(ridx, opshape), opshape); }

// for every result element (C order) the flat positions of the operand elements that meet there; nullopt = not broadcastable
inline std::optional<std::vector<std::vector<long>>> bcast_pairing(const std::vector<L>& shapes, L* rshape_out = nullptr) {
    auto rs = broadcast_shapes(shapes);
    if (!rs) return std::nullopt;
    if (rshape_out) *rshape_out = *rs;
    std::vector<std::vector<long>> out;
    if (rs->empty()) { out.push_back(std::vector<long>(shapes.size(), 0)); return out; }   // all operands scalar
    each_index(*rs, [&](const L& i) {
        std::vector<long> p; for (auto& s : shapes) p.push_back(bcast_operand_pos(i, s));
        out.push_back(p);
    });
    return out;
}

// outer: shape(a)+shape(b); element (i,j) pairs a[i] with b[j]; returned as flat position pairs in C order of the result
inline std::vector<std::pair<long, long>> outer_pairing(const L& sa, const L& sb, L* rshape_out = nullptr) {
    L rs(sa); rs.insert(rs.end(), sb.begin(), sb.end());
    if (rshape_out) *rshape_out = rs;
    std::vector<std::pair<long, long>> out;
    each_index(rs, [&](const L& idx) {
        L ia(idx.begin(), idx.begin() + (long)sa.size()), ib(idx.begin() + (long)sa.size(), idx.end());
        out.push_back({flat_of(ia, sa), flat_of(ib, sb)});
    });
    return out;
}

} // namespace ref
} // namespace nmc
