// nmc_ref_c12.hpp - reference model for C12 (SIMD evaluation equals scalar evaluation).
// Typed (float / double) naive models written from the NumPy / PyTorch definitions with nested loops over
// multi-indices; every arithmetic step is done in the element type T so that the result can be compared
// BIT FOR BIT with the implementation.  Shares no code with nmtools.
#pragma once
#include <string>
#include <cstdio>
#include "nmc_enum.hpp"
#include "nmc_ref.hpp"
#include <cmath>
#include <cstring>
#include <optional>
#include <vector>

namespace nmc {
namespace ref {

template <typename T> struct TArr {               // logical array, C (row-major) order of the multi-index
    L shape; std::vector<T> data;
    TArr() {}
    TArr(L s) : shape(std::move(s)), data((size_t)prod(shape), T(0)) {}
    long size() const { return prod(shape); }
    int dim() const { return (int)shape.size(); }
    T& at(const L& i) { return data[(size_t)flat_of(i, shape)]; }
    T at(const L& i) const { return data[(size_t)flat_of(i, shape)]; }
    RArr widen() const { RArr r; r.shape = shape; r.data.assign(data.begin(), data.end()); return r; }   // float -> double is exact and injective
};

// bitwise equality of two element vectors (after the exact widening to double): -0.0 != +0.0, NaN == same NaN
inline bool same_bits(const std::vector<double>& a, const std::vector<double>& b) {
    return a.size() == b.size() && (a.empty() || std::memcmp(a.data(), b.data(), a.size() * sizeof(double)) == 0);
}
inline long first_bit_diff(const std::vector<double>& a, const std::vector<double>& b) {
    for (size_t i = 0; i < a.size() && i < b.size(); i++) if (std::memcmp(&a[i], &b[i], sizeof(double))) return (long)i;
    return a.size() == b.size() ? -1 : (long)std::min(a.size(), b.size());
}
inline long count_bit_diff(const std::vector<double>& a, const std::vector<double>& b) {
    long n = 0; for (size_t i = 0; i < a.size() && i < b.size(); i++) if (std::memcmp(&a[i], &b[i], sizeof(double))) n++;
    return n;
}

// ---- element functions (PyTorch / NumPy definitions), all in T ---------------------------------
enum C12Unary { U_SQRT, U_CEIL, U_FLOOR, U_RELU, U_RELU6, U_HARDTANH, U_LEAKY_RELU, U_PRELU, U_SOFTSHRINK, U_SOFTSIGN, U_HARDSHRINK, U_HARDSWISH, U_COUNT };
enum C12Binary { B_ADD, B_SUB, B_MUL, B_DIV, B_COUNT };
// parameters used by the harness (dyadic, so every product with dyadic data is exact)
template <typename T> struct C12Params {
    static constexpr T hardtanh_min = T(-1.5), hardtanh_max = T(2.25), leaky_slope = T(0.125), prelu_alpha = T(0.375) /* not the default 0.25 */, softshrink_lambda = T(1.25) /* not the default 0.5 */, hardshrink_lambda = T(0.75);
};
template <typename T> inline T c12_unary(int op, T x) {
    using P = C12Params<T>;
    switch (op) {
    case U_SQRT: return std::sqrt(x);
    case U_CEIL: return std::ceil(x);
    case U_FLOOR: return std::floor(x);
    case U_RELU: return x > T(0) ? x : T(0);                                   // max(0,x)
    case U_RELU6: return x < T(0) ? T(0) : (x > T(6) ? T(6) : x);              // min(max(0,x),6)
    case U_HARDTANH: return x < P::hardtanh_min ? P::hardtanh_min : (x > P::hardtanh_max ? P::hardtanh_max : x);
    case U_LEAKY_RELU: return x >= T(0) ? x : T(P::leaky_slope * x);           // max(0,x) + slope*min(0,x)
    case U_PRELU: return x >= T(0) ? x : T(P::prelu_alpha * x);
    case U_SOFTSHRINK: return x > P::softshrink_lambda ? T(x - P::softshrink_lambda) : (x < -P::softshrink_lambda ? T(x + P::softshrink_lambda) : T(0));
    case U_SOFTSIGN: return T(x / T(T(1) + std::fabs(x)));
    case U_HARDSHRINK: return (x > P::hardshrink_lambda || x < -P::hardshrink_lambda) ? x : T(0);
    // 0 below -3, x from 3 on, x*(x+3)/6 in between; AT x = -3 the formula x*ReLU6(x+3)/6 is followed (gives -0.0, as PyTorch computes it)
    case U_HARDSWISH: return x < T(-3) ? T(0) : (x >= T(3) ? x : T(T(x * T(x + T(3))) / T(6)));
    }
    return T(0);
}
template <typename T> inline T c12_binary(int op, T x, T y) {
    switch (op) { case B_ADD: return T(x + y); case B_SUB: return T(x - y); case B_MUL: return T(x * y); default: return T(x / y); }
}

// ---- array level ---------------------------------------------------------------------------------
template <typename T> inline TArr<T> c12_map(int op, const TArr<T>& a) {
    TArr<T> r(a.shape);
    each_index(a.shape, [&](const L& i) { r.at(i) = c12_unary<T>(op, a.at(i)); });
    return r;
}
// NumPy broadcasting of two operands: right-align, extents equal or 1
template <typename T> inline std::optional<TArr<T>> c12_broadcast_binary(int op, const TArr<T>& a, const TArr<T>& b) {
    size_t d = std::max(a.shape.size(), b.shape.size());
    L sa(d, 1), sb(d, 1), so(d, 1);
    for (size_t i = 0; i < a.shape.size(); i++) sa[d - a.shape.size() + i] = a.shape[i];
    for (size_t i = 0; i < b.shape.size(); i++) sb[d - b.shape.size() + i] = b.shape[i];
    for (size_t i = 0; i < d; i++) { if (sa[i] != sb[i] && sa[i] != 1 && sb[i] != 1) return std::nullopt; so[i] = std::max(sa[i], sb[i]); }
    TArr<T> r(so);
    each_index(so, [&](const L& i) {
        L ia, ib;
        for (size_t k = d - a.shape.size(); k < d; k++) ia.push_back(sa[k] == 1 ? 0 : i[k]);
        for (size_t k = d - b.shape.size(); k < d; k++) ib.push_back(sb[k] == 1 ? 0 : i[k]);
        r.at(i) = c12_binary<T>(op, a.at(ia), b.at(ib));
    });
    return r;
}
// ufunc.outer: result[i..., j...] = op(a[i...], b[j...])
template <typename T> inline TArr<T> c12_outer(int op, const TArr<T>& a, const TArr<T>& b) {
    L so(a.shape); so.insert(so.end(), b.shape.begin(), b.shape.end());
    TArr<T> r(so);
    // the C-order position of the multi-index (i..., j...) is the running count when i is the outer and j the inner loop
    long k = 0;
    each_index(a.shape, [&](const L& i) { T x = a.at(i); each_index(b.shape, [&](const L& j) { r.data[(size_t)k++] = c12_binary<T>(op, x, b.at(j)); }); });
    return r;
}
// ufunc.reduce over one axis (axis == nullptr: over all elements, C order); left fold starting with the first element
template <typename T> inline std::optional<TArr<T>> c12_reduce(int op, const TArr<T>& a, const long* axis, bool keepdims) {
    long d = a.dim();
    if (!axis) {
        T acc = a.data[0]; for (size_t k = 1; k < a.data.size(); k++) acc = c12_binary<T>(op, acc, a.data[k]);
        TArr<T> r(keepdims ? L((size_t)d, 1) : L{}); r.data.assign(1, acc); return r;
    }
    long ax = *axis; if (ax < -d || ax >= d) return std::nullopt; if (ax < 0) ax += d;
    L rs; for (long i = 0; i < d; i++) { if (i == ax) { if (keepdims) rs.push_back(1); } else rs.push_back(a.shape[(size_t)i]); }
    TArr<T> r(rs); long k = 0;
    L outer(a.shape); outer[(size_t)ax] = 1;
    each_index(outer, [&](const L& i) {
        L j(i); T acc = a.at(j);
        for (long t = 1; t < a.shape[(size_t)ax]; t++) { j[(size_t)ax] = t; acc = c12_binary<T>(op, acc, a.at(j)); }
        r.data[(size_t)k++] = acc;
    });
    return r;
}
// 2-D matrix product, sum over k in increasing order
template <typename T> inline std::optional<TArr<T>> c12_matmul(const TArr<T>& a, const TArr<T>& b) {
    if (a.dim() != 2 || b.dim() != 2 || a.shape[1] != b.shape[0]) return std::nullopt;
    TArr<T> r(L{a.shape[0], b.shape[1]});
    for (long i = 0; i < a.shape[0]; i++) for (long j = 0; j < b.shape[1]; j++) {
        T acc = T(0); for (long k = 0; k < a.shape[1]; k++) acc = T(acc + T(a.at({i, k}) * b.at({k, j})));
        r.at({i, j}) = acc;
    }
    return r;
}

} // namespace ref
} // namespace nmc
