// nmc_ref_c14.hpp - shape-only model of the C14 composition alphabet and the stack discipline of functor compositions.
// Used by the ENUMERATOR only (to choose operand shapes / attribute menus for which a chain is well defined); the oracle of C14
// is differential (direct view call), so nothing in here decides a verdict.  No nmtools includes, no code shared with nmtools.
#pragma once
#include "nmc_enum.hpp"
#include "nmc_ref.hpp"
#include <optional>
#include <vector>
#include <string>

namespace nmc { namespace ref { namespace c14 {

using Shapes = std::vector<L>;   // operand stack, front = index 0

// NumPy broadcasting of two shapes
inline std::optional<L> bshape(const L& a, const L& b) { return nmc::ref::broadcast_shapes({a, b}); }
// matmul of two arrays of dim >= 2 (the 1-d promotions of NumPy are not enumerated)
inline std::optional<L> matmul_shape(const L& a, const L& b) {
    if (a.size() < 2 || b.size() < 2) return std::nullopt;
    long m = a[a.size() - 2], k = a[a.size() - 1], k2 = b[b.size() - 2], n = b[b.size() - 1];
    if (k != k2) return std::nullopt;
    L ba(a.begin(), a.end() - 2), bb(b.begin(), b.end() - 2);
    auto bs = bshape(ba, bb); if (!bs) return std::nullopt;
    L r = *bs; r.push_back(m); r.push_back(n); return r;
}
inline std::optional<L> reduce_shape(const L& a, long axis) { long d = (long)a.size(); if (axis < -d || axis >= d) return std::nullopt; if (axis < 0) axis += d; L r; for (long i = 0; i < d; i++) if (i != axis) r.push_back(a[(size_t)i]); return r; }
inline std::optional<L> reshape_shape(const L& a, const L& t) { if (prod(a) != prod(t)) return std::nullopt; for (long v : t) if (v <= 0) return std::nullopt; return t; }
inline std::optional<L> transpose_shape(const L& a, const L& p) { if (p.size() != a.size()) return std::nullopt; L r; std::vector<char> seen(a.size(), 0); for (long v : p) { if (v < 0 || v >= (long)a.size() || seen[(size_t)v]) return std::nullopt; seen[(size_t)v] = 1; r.push_back(a[(size_t)v]); } return r; }
inline std::optional<L> broadcast_to_shape(const L& a, const L& t) { auto b = bshape(a, t); if (!b || *b != t) return std::nullopt; return t; }

// ---- menus (attribute values / fresh operand shapes), simplest first, duplicates removed ----
inline void push_unique(std::vector<L>& v, const L& s) { for (auto& x : v) if (x == s) return; v.push_back(s); }
// second operand for a broadcasting binary function, relative to s: same shape / last-axis vector / leading extent 1
inline std::vector<L> companion_shapes(const L& s) { std::vector<L> r; push_unique(r, s); push_unique(r, L{s.back()}); L l1(s); l1[0] = 1; push_unique(r, l1); return r; }
// right operand of matmul for the left operand s (dim >= 2): (k,1) and (k,2); for a 3-d left operand also the batched (b,k,2)
inline std::vector<L> matmul_rhs_shapes(const L& s) { std::vector<L> r; if (s.size() < 2) return r; long k = s.back(); r.push_back(L{k, 2}); r.push_back(L{k, 1}); if (s.size() == 3) r.push_back(L{s[0], k, 2}); return r; }
// reshape targets: every ordered factorisation of the size into 1 or 2 factors, and (for sizes with a 3-factorisation into factors > 1) the first such
inline std::vector<L> reshape_targets(const L& s, bool thorough) {
    std::vector<L> r; long n = prod(s);
    r.push_back(L{n});
    each_factorisation(n, 2, [&](const L& f) { push_unique(r, f); });
    if (thorough) each_factorisation(n, 3, [&](const L& f) { push_unique(r, f); });
    else { bool done = false; each_factorisation(n, 3, [&](const L& f) { if (!done && f[0] > 1 && f[1] > 1 && f[2] > 1) { push_unique(r, f); done = true; } }); }
    return r;
}
inline std::vector<L> permutations(const L& s) { std::vector<L> r; each_permutation((int)s.size(), [&](const L& p) { r.push_back(p); }); return r; }
// broadcast_to targets: the shape itself, a new leading axis of extent 2, every extent-1 axis stretched to 3
inline std::vector<L> broadcast_targets(const L& s) { std::vector<L> r; push_unique(r, s); L lead(s); lead.insert(lead.begin(), 2); push_unique(r, lead); L st(s); bool any = false; for (auto& v : st) if (v == 1) { v = 3; any = true; } if (any) { push_unique(r, st); L both(st); both.insert(both.begin(), 2); push_unique(r, both); } return r; }
inline std::vector<L> axes_of(const L& s) { std::vector<L> r; long d = (long)s.size(); for (long a = 0; a < d; a++) r.push_back(L{a}); for (long a = -d; a < 0; a++) r.push_back(L{a}); return r; }

// ---- stack discipline of a chain of functors given (arity, n_outputs) per functor, applied right to left ----
// returns the number of operands the chain consumes when all operands are supplied at once, and the final stack depth
struct Need { int operands; int results; };
constexpr Need chain_need(const int* arity_left_to_right, const int* nout_left_to_right, int n) {
    int depth = 0, need = 0;
    for (int i = n - 1; i >= 0; i--) {
        int ar = arity_left_to_right[i], no = nout_left_to_right[i];
        if (depth < ar) { need += ar - depth; depth = ar; }
        depth += no - ar;
    }
    return {need, depth};
}

}}} // namespace nmc::ref::c14
