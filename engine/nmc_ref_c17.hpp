// nmc_ref_c17.hpp - reference model for C17 (neural-network routines).  Naive nested loops written from the
// PyTorch documentation (torch.nn.functional.conv1d/conv2d/max_pool2d/avg_pool2d/softmax/softmin/batch_norm/
// layer_norm/instance_norm/group_norm/linear/bilinear/pairwise_distance/cosine_similarity).  No nmtools code,
// no stride tricks: every output element is computed from explicitly formed multi-indices of the operands.
// nullopt = PyTorch raises (incompatible shapes, non-positive output size, ...).
#pragma once
#include <string>
#include <cstdio>
#include <algorithm>
#include "nmc_ref.hpp"

namespace nmc {
namespace ref {

// ------------------------------------------------------------------------------------------------ convolution
// conv output extent: floor((in + 2*pad - dil*(k-1) - 1) / stride) + 1       (PyTorch Conv1d/Conv2d "Shape")
inline long conv_out_extent(long in, long k, long stride, long pad, long dil) {
    long num = in + 2 * pad - dil * (k - 1) - 1;
    if (num < 0) return 0;
    return num / stride + 1;
}
// x: (B, C, s_0..s_{n-1});  w: (O, C/groups, k_0..k_{n-1});  bias: nullptr or (O);  stride/pad/dil: one entry per spatial axis
//   out[b][o][p] = bias[o] + sum_{c < C/groups} sum_{k} w[o][c][k] * xz[b][ (o / (O/groups)) * (C/groups) + c ][ p*stride - pad + k*dil ]
// where xz is x extended by zeros outside its extents.
inline ROpt convnd(const RArr& x, const RArr& w, const RArr* bias, const L& stride, const L& pad, const L& dil, long groups) {
    int n = x.dim() - 2;
    if (n < 1 || w.dim() != n + 2) return std::nullopt;
    if ((int)stride.size() != n || (int)pad.size() != n || (int)dil.size() != n) return std::nullopt;
    long B = x.shape[0], C = x.shape[1], O = w.shape[0], Cg = w.shape[1];
    if (groups < 1 || C % groups || O % groups || Cg * groups != C) return std::nullopt;
    if (bias && (bias->dim() != 1 || bias->shape[0] != O)) return std::nullopt;
    for (int a = 0; a < n; a++) if (stride[a] < 1 || pad[a] < 0 || dil[a] < 1) return std::nullopt;
    L rs{B, O};
    for (int a = 0; a < n; a++) { long e = conv_out_extent(x.shape[2 + a], w.shape[2 + a], stride[a], pad[a], dil[a]); if (e <= 0) return std::nullopt; rs.push_back(e); }
    L kshape(w.shape.begin() + 2, w.shape.end());
    long Og = O / groups;
    RArr r(rs); long q = 0;
    each_index(rs, [&](const L& i) {
        long b = i[0], o = i[1], g = o / Og;
        double acc = bias ? bias->data[(size_t)o] : 0.0;
        for (long c = 0; c < Cg; c++) {
            each_index(kshape, [&](const L& k) {
                L xi{b, g * Cg + c}, wi{o, c}; bool inside = true;
                for (int a = 0; a < n; a++) {
                    long pos = i[2 + a] * stride[a] - pad[a] + k[a] * dil[a];
                    if (pos < 0 || pos >= x.shape[2 + a]) inside = false;
                    xi.push_back(pos); wi.push_back(k[a]);
                }
                if (inside) acc += w.at(wi) * x.at(xi);
            });
        }
        r.data[(size_t)q++] = acc;
    });
    return r;
}

// ------------------------------------------------------------------------------------------------ pooling
// PyTorch MaxPool2d / AvgPool2d "Shape" with padding 0, dilation 1:
//   out = floor_or_ceil((in - k) / stride) + 1 ; in ceil_mode the last window is dropped when it would start
//   at or beyond the end of the input ((out-1)*stride >= in).
inline long pool_out_extent(long in, long k, long stride, bool ceil_mode) {
    long num = in - k;
    if (num < 0) return 0;                       // kernel larger than input: PyTorch raises ("Output size is too small")
    long out = (ceil_mode ? (num + stride - 1) / stride : num / stride) + 1;
    if (ceil_mode && (out - 1) * stride >= in) out--;
    return out;
}
// the formula WITHOUT the drop rule (what a literal reading of "ceil instead of floor" gives) - used only to label findings
inline long pool_out_extent_nodrop(long in, long k, long stride, bool ceil_mode) {
    long num = in - k; if (num < 0) return 0;
    return (ceil_mode ? (num + stride - 1) / stride : num / stride) + 1;
}
// number of in-bounds positions of window number p along one axis
inline long pool_window_inbounds(long in, long k, long stride, long p) { long lo = p * stride, hi = std::min(lo + k, in); return hi > lo ? hi - lo : 0; }

// a: (..., H, W) with dim >= 2; kernel/stride: {h, w}.  is_max: maximum, else mean over the IN-BOUNDS elements of the window
// (PyTorch avg_pool2d with padding 0: the divisor is the clipped window size).  rshape_override: evaluate on a given output
// shape instead of the documented one (elements whose window is entirely out of bounds get NaN).
inline ROpt pool2d(const RArr& a, const L& kernel, const L& stride, bool ceil_mode, bool is_max, const L* rshape_override = nullptr) {
    int d = a.dim(); if (d < 2 || kernel.size() != 2 || stride.size() != 2) return std::nullopt;
    for (int t = 0; t < 2; t++) if (kernel[t] < 1 || stride[t] < 1) return std::nullopt;
    L rs = a.shape;
    for (int t = 0; t < 2; t++) { long e = pool_out_extent(a.shape[d - 2 + t], kernel[t], stride[t], ceil_mode); if (e <= 0) return std::nullopt; rs[d - 2 + t] = e; }
    if (rshape_override) rs = *rshape_override;
    RArr r(rs); long q = 0;
    each_index(rs, [&](const L& i) {
        bool first = true; double acc = 0; long cnt = 0;
        for (long kh = 0; kh < kernel[0]; kh++) for (long kw = 0; kw < kernel[1]; kw++) {
            L s(i); s[d - 2] = i[d - 2] * stride[0] + kh; s[d - 1] = i[d - 1] * stride[1] + kw;
            if (s[d - 2] >= a.shape[d - 2] || s[d - 1] >= a.shape[d - 1]) continue;
            double v = a.at(s); cnt++;
            if (is_max) { if (first || v > acc) acc = v; } else acc += v;
            first = false;
        }
        r.data[(size_t)q++] = cnt == 0 ? std::nan("") : (is_max ? acc : acc / (double)cnt);
    });
    return r;
}

// ------------------------------------------------------------------------------------------------ softmax / softmin
inline ROpt softmax(const RArr& a, long axis, bool negate = false) {
    int d = a.dim(); if (!norm_axis(axis, d)) return std::nullopt;
    RArr r(a.shape); long q = 0;
    each_index(a.shape, [&](const L& i) {
        double sgn = negate ? -1.0 : 1.0, m = 0, den = 0;
        for (long t = 0; t < a.shape[axis]; t++) { L s(i); s[axis] = t; double v = sgn * a.at(s); if (t == 0 || v > m) m = v; }
        for (long t = 0; t < a.shape[axis]; t++) { L s(i); s[axis] = t; den += std::exp(sgn * a.at(s) - m); }
        r.data[(size_t)q++] = std::exp(sgn * a.at(i) - m) / den;
    });
    return r;
}
inline ROpt softmin(const RArr& a, long axis) { return softmax(a, axis, true); }

// ------------------------------------------------------------------------------------------------ normalisations
// batch_norm (inference form, F.batch_norm(x, mean, var, weight, bias, training=False)): channel axis is 1
//   y = (x - mean[c]) / sqrt(var[c] + eps) * weight[c] + bias[c]
inline ROpt batch_norm(const RArr& x, const RArr& mean, const RArr& var, const RArr& weight, const RArr& bias, double eps, long channel_axis = 1) {
    int d = x.dim(); if (d < 2) return std::nullopt;
    long C = x.shape[(size_t)channel_axis];
    for (const RArr* p : {&mean, &var, &weight, &bias}) if (p->dim() != 1 || p->shape[0] != C) return std::nullopt;
    RArr r(x.shape); long q = 0;
    each_index(x.shape, [&](const L& i) { size_t c = (size_t)i[(size_t)channel_axis]; r.data[(size_t)q++] = (x.at(i) - mean.data[c]) / std::sqrt(var.data[c] + eps) * weight.data[c] + bias.data[c]; });
    return r;
}
// statistics over a set of axes for the element i: biased variance (PyTorch norms use the biased estimator)
inline void mean_var_over(const RArr& x, const L& i, const std::vector<char>& red, double& mean, double& var) {
    int d = x.dim(); L blk; for (int a = 0; a < d; a++) blk.push_back(red[(size_t)a] ? x.shape[a] : 1);
    double s = 0; long n = 0;
    each_index(blk, [&](const L& j) { L t(d); for (int a = 0; a < d; a++) t[a] = red[(size_t)a] ? j[a] : i[a]; s += x.at(t); n++; });
    mean = s / (double)n; double ss = 0;
    each_index(blk, [&](const L& j) { L t(d); for (int a = 0; a < d; a++) t[a] = red[(size_t)a] ? j[a] : i[a]; double dv = x.at(t) - mean; ss += dv * dv; });
    var = ss / (double)n;
}
// layer_norm(x, normalized_shape = weight.shape, weight, bias, eps): statistics over the last weight.dim() axes,
// weight/bias indexed by those axes
inline ROpt layer_norm(const RArr& x, const RArr& weight, const RArr& bias, double eps) {
    int d = x.dim(), k = weight.dim(); if (k < 1 || k > d || bias.shape != weight.shape) return std::nullopt;
    for (int a = 0; a < k; a++) if (weight.shape[a] != x.shape[d - k + a]) return std::nullopt;
    std::vector<char> red((size_t)d, 0); for (int a = d - k; a < d; a++) red[(size_t)a] = 1;
    RArr r(x.shape); long q = 0;
    each_index(x.shape, [&](const L& i) {
        double m, v; mean_var_over(x, i, red, m, v);
        L wi(i.begin() + (d - k), i.end());
        r.data[(size_t)q++] = (x.at(i) - m) / std::sqrt(v + eps) * weight.at(wi) + bias.at(wi);
    });
    return r;
}
// instance_norm over nd spatial axes: x is (N, C, *spatial[nd]) or unbatched (C, *spatial[nd]); statistics per (n, c)
inline ROpt instance_norm(const RArr& x, const RArr& weight, const RArr& bias, long nd, double eps) {
    int d = x.dim(); if (nd < 1 || !(d == nd + 1 || d == nd + 2)) return std::nullopt;
    long caxis = d - nd - 1, C = x.shape[(size_t)caxis];
    if (weight.dim() != 1 || weight.shape[0] != C || bias.shape != weight.shape) return std::nullopt;
    std::vector<char> red((size_t)d, 0); for (int a = d - (int)nd; a < d; a++) red[(size_t)a] = 1;
    RArr r(x.shape); long q = 0;
    each_index(x.shape, [&](const L& i) {
        double m, v; mean_var_over(x, i, red, m, v); size_t c = (size_t)i[(size_t)caxis];
        r.data[(size_t)q++] = (x.at(i) - m) / std::sqrt(v + eps) * weight.data[c] + bias.data[c];
    });
    return r;
}
// group_norm(x (N, C, *), num_groups, weight (C), bias (C), eps): statistics per (n, group) over the group's
// C/num_groups consecutive channels and all trailing axes
inline ROpt group_norm(const RArr& x, long num_groups, const RArr& weight, const RArr& bias, double eps) {
    int d = x.dim(); if (d < 2) return std::nullopt;
    long C = x.shape[1]; if (num_groups < 1 || C % num_groups) return std::nullopt;
    if (weight.dim() != 1 || weight.shape[0] != C || bias.shape != weight.shape) return std::nullopt;
    long Cg = C / num_groups;
    RArr r(x.shape); long q = 0;
    each_index(x.shape, [&](const L& i) {
        long g = i[1] / Cg;
        L blk(x.shape); blk[0] = 1; blk[1] = Cg;
        double s = 0; long n = 0;
        each_index(blk, [&](const L& j) { L t(j); t[0] = i[0]; t[1] = g * Cg + j[1]; s += x.at(t); n++; });
        double m = s / (double)n, ss = 0;
        each_index(blk, [&](const L& j) { L t(j); t[0] = i[0]; t[1] = g * Cg + j[1]; double dv = x.at(t) - m; ss += dv * dv; });
        double v = ss / (double)n; size_t c = (size_t)i[1];
        r.data[(size_t)q++] = (x.at(i) - m) / std::sqrt(v + eps) * weight.data[c] + bias.data[c];
    });
    return r;
}

// ------------------------------------------------------------------------------------------------ linear / bilinear
// F.linear: x (*, in), w (out, in) or (in), bias (out) / scalar-like () / nullptr;  y = x w^T + b, shape (*, out) or (*)
inline ROpt linear(const RArr& x, const RArr& w, const RArr* bias) {
    int d = x.dim(); if (d < 1 || w.dim() < 1 || w.dim() > 2) return std::nullopt;
    long in = x.shape[d - 1]; if (w.shape.back() != in) return std::nullopt;
    bool vec = w.dim() == 1; long out = vec ? 1 : w.shape[0];
    L rs(x.shape.begin(), x.shape.end() - 1); if (!vec) rs.push_back(out);
    if (bias) { auto bs = broadcast_shapes({rs, bias->shape}); if (!bs || *bs != rs) return std::nullopt; }
    RArr r(rs); long q = 0;
    auto body = [&](const L& i) {
        long o = vec ? 0 : i.back(); double acc = 0;
        for (long t = 0; t < in; t++) { L xi(i.begin(), i.begin() + (d - 1)); xi.push_back(t); acc += x.at(xi) * (vec ? w.data[(size_t)t] : w.at(L{o, t})); }
        if (bias) { L bi; size_t off = rs.size() - bias->shape.size(); for (size_t a = 0; a < bias->shape.size(); a++) bi.push_back(bias->shape[a] == 1 ? 0 : i[off + a]); acc += bias->at(bi); }
        r.data[(size_t)q++] = acc;
    };
    if (rs.empty()) body(L{}); else each_index(rs, body);
    return r;
}
// F.bilinear: x1 (*, in1), x2 (*, in2) with equal leading axes, w (out, in1, in2), bias (out) or nullptr
//   y[*, o] = sum_{i,j} x1[*, i] * w[o][i][j] * x2[*, j] + bias[o]
inline ROpt bilinear(const RArr& x1, const RArr& x2, const RArr& w, const RArr* bias) {
    int d = x1.dim(); if (d < 1 || x2.dim() != d || w.dim() != 3) return std::nullopt;
    for (int a = 0; a < d - 1; a++) if (x1.shape[a] != x2.shape[a]) return std::nullopt;
    long in1 = x1.shape[d - 1], in2 = x2.shape[d - 1], out = w.shape[0];
    if (w.shape[1] != in1 || w.shape[2] != in2) return std::nullopt;
    if (bias && (bias->dim() != 1 || bias->shape[0] != out)) return std::nullopt;
    L rs(x1.shape.begin(), x1.shape.end() - 1); rs.push_back(out);
    RArr r(rs); long q = 0;
    each_index(rs, [&](const L& i) {
        long o = i.back(); double acc = bias ? bias->data[(size_t)o] : 0.0;
        for (long p = 0; p < in1; p++) for (long s = 0; s < in2; s++) {
            L i1(i.begin(), i.end() - 1), i2(i.begin(), i.end() - 1); i1.push_back(p); i2.push_back(s);
            acc += x1.at(i1) * w.at(L{o, p, s}) * x2.at(i2);
        }
        r.data[(size_t)q++] = acc;
    });
    return r;
}

// ------------------------------------------------------------------------------------------------ distances
// F.pairwise_distance(x1, x2, p, eps, keepdim) = || x1 - x2 + eps ||_p over the last axis (operands broadcast)
inline ROpt pairwise_distance(const RArr& a, const RArr& b, long p, double eps, bool keepdims) {
    if (a.dim() < 1 || b.dim() < 1 || p < 1) return std::nullopt;
    auto bs = broadcast_shapes({a.shape, b.shape}); if (!bs) return std::nullopt;
    ROpt ba = broadcast_to(a, *bs), bb = broadcast_to(b, *bs); if (!ba || !bb) return std::nullopt;
    size_t d = bs->size(); long n = bs->back();
    L rs(*bs); rs.back() = 1;
    RArr r(rs); long q = 0;
    each_index(rs, [&](const L& i) {
        double acc = 0;
        for (long t = 0; t < n; t++) { L s(i); s[d - 1] = t; double v = std::fabs(ba->at(s) - bb->at(s) + eps); acc += p == 1 ? v : (p == 2 ? v * v : std::pow(v, (double)p)); }
        r.data[(size_t)q++] = p == 1 ? acc : (p == 2 ? std::sqrt(acc) : std::pow(acc, 1.0 / (double)p));
    });
    if (!keepdims) r.shape.pop_back();
    return r;
}
// F.cosine_similarity(x1, x2, dim, eps) = sum_dim( x1 * x2 / (max(||x1||_2, eps) * max(||x2||_2, eps)) ), operands broadcast
inline ROpt cosine_similarity(const RArr& a, const RArr& b, long axis, double eps) {
    auto bs = broadcast_shapes({a.shape, b.shape}); if (!bs) return std::nullopt;
    ROpt ba = broadcast_to(a, *bs), bb = broadcast_to(b, *bs); if (!ba || !bb) return std::nullopt;
    long d = (long)bs->size(); if (d < 1 || !norm_axis(axis, d)) return std::nullopt;
    long n = (*bs)[(size_t)axis];
    L rk(*bs); rk[(size_t)axis] = 1;
    RArr r(rk); long q = 0;
    each_index(rk, [&](const L& i) {
        double na = 0, nb = 0;
        for (long t = 0; t < n; t++) { L s(i); s[(size_t)axis] = t; na += ba->at(s) * ba->at(s); nb += bb->at(s) * bb->at(s); }
        na = std::max(std::sqrt(na), eps); nb = std::max(std::sqrt(nb), eps);
        double acc = 0;
        for (long t = 0; t < n; t++) { L s(i); s[(size_t)axis] = t; acc += ba->at(s) * bb->at(s) / (na * nb); }
        r.data[(size_t)q++] = acc;
    });
    r.shape.erase(r.shape.begin() + axis);
    return r;
}

} // namespace ref
} // namespace nmc
