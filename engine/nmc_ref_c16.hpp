// nmc_ref_c16.hpp - additional reference models for C16 (linear algebra), written from the NumPy definitions
// with nested loops over multi-indices.  No nmtools includes, no code shared with nmtools.
// (matmul, tensordot, tensordot_n, outer, kron live in nmc_ref.hpp.)  nullopt = NumPy raises.
#pragma once
#include "nmc_ref.hpp"

namespace nmc {
namespace ref {

// Operand data for C16: all-distinct, mildly non-linear in the flat position (so that a permuted pairing of
// factors changes the sum), small enough that every sum of products is exact in int64 and in double.
//   lhs: 1 + 3 i + (i*i mod 3)          (strictly increasing: step is 2, 3 or 4)
//   rhs: 2 + 5 j + (j*j*j mod 5)        (strictly increasing: step is at least 1)
// 4^4 = 256 elements at most  ->  values < 1300, products < 2^21, sums of <= 256 products < 2^29.
inline RArr c16_lhs(const L& s) { RArr r(s); for (size_t i = 0; i < r.data.size(); i++) r.data[i] = (double)(1 + 3 * (long)i + ((long)i * (long)i) % 3); return r; }
inline RArr c16_rhs(const L& s) { RArr r(s); for (size_t j = 0; j < r.data.size(); j++) r.data[j] = (double)(2 + 5 * (long)j + ((long)j * (long)j * (long)j) % 5); return r; }

// numpy.dot for operands of dimension >= 1:
//   1-D . 1-D : inner product;   N-D . 1-D : sum over last axis of a and b;
//   N-D . M-D (M >= 2): sum over the last axis of a and the second-to-last axis of b,
//   dot(a, b)[i..., j..., n] = sum_t a[i..., t] * b[j..., t, n]           (no broadcasting of i... against j...)
inline ROpt dot(const RArr& a, const RArr& b) {
    int da = a.dim(), db = b.dim(); if (da == 0 || db == 0) return std::nullopt;
    long k = a.shape[(size_t)da - 1];
    int bax = db == 1 ? 0 : db - 2;            // contracted axis of b
    if (b.shape[(size_t)bax] != k) return std::nullopt;
    L ia_free(a.shape.begin(), a.shape.end() - 1);
    L ib_free; for (int x = 0; x < db; x++) if (x != bax) ib_free.push_back(b.shape[(size_t)x]);
    L rs(ia_free); for (long v : ib_free) rs.push_back(v);
    RArr r(rs); long q = 0;
    each_index(rs, [&](const L& i) {
        double acc = 0;
        for (long t = 0; t < k; t++) {
            L ia((size_t)da), ib((size_t)db);
            for (int x = 0; x < da - 1; x++) ia[(size_t)x] = i[(size_t)x];
            ia[(size_t)da - 1] = t;
            size_t p = (size_t)da - 1;
            for (int x = 0; x < db; x++) { if (x == bax) ib[(size_t)x] = t; else ib[(size_t)x] = i[p++]; }
            acc += a.at(ia) * b.at(ib);
        }
        r.data[(size_t)q++] = acc;
    });
    return r;
}

// numpy.inner for operands of dimension >= 1: inner(a, b)[i..., j...] = sum_t a[i..., t] * b[j..., t]; last extents must be equal.
inline ROpt inner(const RArr& a, const RArr& b) {
    int da = a.dim(), db = b.dim(); if (da == 0 || db == 0) return std::nullopt;
    long k = a.shape[(size_t)da - 1]; if (b.shape[(size_t)db - 1] != k) return std::nullopt;
    L rs(a.shape.begin(), a.shape.end() - 1); rs.insert(rs.end(), b.shape.begin(), b.shape.end() - 1);
    RArr r(rs); long q = 0;
    each_index(rs, [&](const L& i) {
        double acc = 0;
        for (long t = 0; t < k; t++) {
            L ia(i.begin(), i.begin() + (da - 1)); ia.push_back(t);
            L ib(i.begin() + (da - 1), i.end()); ib.push_back(t);
            acc += a.at(ia) * b.at(ib);
        }
        r.data[(size_t)q++] = acc;
    });
    return r;
}

// numpy.vecdot (gufunc (n),(n)->(), axis=-1): the core extents must be EQUAL (a core dimension never broadcasts),
// the leading ("loop") dimensions broadcast.  keepdims keeps the contracted axis with extent 1.
inline ROpt vecdot(const RArr& a, const RArr& b, bool keepdims) {
    int da = a.dim(), db = b.dim(); if (da == 0 || db == 0) return std::nullopt;
    long k = a.shape[(size_t)da - 1]; if (b.shape[(size_t)db - 1] != k) return std::nullopt;
    L la(a.shape.begin(), a.shape.end() - 1), lb(b.shape.begin(), b.shape.end() - 1);
    auto bs = broadcast_shapes({la, lb}); if (!bs) return std::nullopt;
    RArr r(*bs); long q = 0; size_t nb = bs->size();
    each_index(*bs, [&](const L& i) {
        double acc = 0;
        for (long t = 0; t < k; t++) {
            L ia, ib;
            for (size_t x = 0; x < la.size(); x++) ia.push_back(la[x] == 1 ? 0 : i[nb - la.size() + x]);
            for (size_t x = 0; x < lb.size(); x++) ib.push_back(lb[x] == 1 ? 0 : i[nb - lb.size() + x]);
            ia.push_back(t); ib.push_back(t);
            acc += a.at(ia) * b.at(ib);
        }
        r.data[(size_t)q++] = acc;
    });
    if (keepdims) r.shape.push_back(1);
    return r;
}

// numpy.trace(a, offset, axis1, axis2): sum_i a[..., r0+i (axis1), ..., c0+i (axis2), ...] over the diagonal;
// the remaining axes keep their order.  A diagonal lying outside the matrix is an empty sum (= 0).
// *diag_len receives the number of summed terms per output element.
inline ROpt trace(const RArr& a, long offset, long ax1, long ax2, long* diag_len = nullptr) {
    int d = a.dim(); if (d < 2) return std::nullopt;
    if (!norm_axis(ax1, d) || !norm_axis(ax2, d) || ax1 == ax2) return std::nullopt;
    long n1 = a.shape[(size_t)ax1], n2 = a.shape[(size_t)ax2];
    long r0 = offset >= 0 ? 0 : -offset, c0 = offset >= 0 ? offset : 0;
    long len = std::min(n1 - r0, n2 - c0); if (len < 0) len = 0;
    if (diag_len) *diag_len = len;
    L rs; for (int x = 0; x < d; x++) if (x != ax1 && x != ax2) rs.push_back(a.shape[(size_t)x]);
    RArr r(rs); long q = 0;
    each_index(rs, [&](const L& i) {
        double acc = 0;
        for (long t = 0; t < len; t++) {
            L s((size_t)d); size_t p = 0;
            for (int x = 0; x < d; x++) if (x != ax1 && x != ax2) s[(size_t)x] = i[p++];
            s[(size_t)ax1] = r0 + t; s[(size_t)ax2] = c0 + t;
            acc += a.at(s);
        }
        r.data[(size_t)q++] = acc;
    });
    return r;
}

} // namespace ref
} // namespace nmc
