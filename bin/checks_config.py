# checks_config.py - per-property harness units, bounds and non-triviality rules (read by bin/check)
# unit keys: name, src, flags, san (ASan+UBSan build), tiers, family (name used to match known findings;
#            a sanitizer/alternate build of the same source shares the family), shadow (same cases as
#            another unit under a different build: not double counted), weight (share of the 16 workers)

def U(name, src, **kw):
    d = dict(name=name, src=src); d.update(kw); return d

CHECKS = {}

CHECKS["C03"] = dict(
    level="exploration",
    units=[
        U("rearrange", "harness/c03_rearrange.cpp", weight=3),
        U("rearrange_san", "harness/c03_rearrange.cpp", san=True, family="rearrange", shadow=True, weight=5),
    ],
    rule="every source shape S(1..4,e) x every argument of each rearranging view (all ordered factorisations with every single -1, all "
         "permutations in positive/negative spelling, all axis pairs, all expand positions, all axis subsets); a case is non-trivial when "
         "the result has >1 element and is not the identity rearrangement of the source; distinct = distinct case key",
    bounds=dict(quick="sources S(1..4,3) + extent-4 boundary in dim<=2; moveaxis lists <=2; expand_dims <=2 new axes",
                thorough="sources S(1..4,4); moveaxis lists <= dim; expand_dims <=3 new axes"),
    assumptions=["reference model nmc_ref.hpp (audited against NumPy by audit/audit_ref.py)",
                 "observation through nmtools::shape/len/at/apply_at only",
                 "element values are distinct integers so a wrong source element is always visible"],
    min_outcomes=50,
)
