# checks_config.py - per-property harness units, bounds and non-triviality rules (read by bin/check)
# unit keys: name, src, flags, san (ASan+UBSan build), tiers, family (name used to match known findings;
#            a sanitizer/alternate build of the same source shares the family), shadow (same cases as
#            another unit under a different build: not double counted), weight (share of the 16 workers)

def U(name, src, **kw):
    d = dict(name=name, src=src); d.update(kw); return d

CHECKS = {}
NOT_YET = {}
NOTES = ("All checks are bounded exhaustive explorations executed against the real nmtools headers of /repo's working tree; "
         "see DESIGN.md. known_findings.jsonl lists genuine defects of the pinned tree by explicit input key.")
ENGINES = [
    dict(name="E1", path="engine/nmc.hpp", serves_properties=["C01","C03","C04","C05","C06","C07","C08","C12","C15","C16","C17","C18"],
         kind_free_text="input-space explorer: odometer enumeration of a stated finite alphabet, every case executed on the real code and compared with the reference model (engine/nmc_ref.hpp); fork-based crash containment"),
    dict(name="E2", path="harness/pipeline.hpp", serves_properties=["C02","C10","C11","C13","C14","C15"],
         kind_free_text="pipeline explorer: breadth-first search over view programs by template recursion; lazy / eager / reference triple at every node"),
    dict(name="E3", path="engine/nmc_bfs.hpp", serves_properties=["C19","C20"],
         kind_free_text="explicit-state BFS over operation histories of the real mutable objects with canonical-state merging"),
    dict(name="E4", path="harness/c13_kernel.cpp", serves_properties=["C13"],
         kind_free_text="stateless schedule explorer over per-thread kernel bodies with measured independence relation"),
    dict(name="E5", path="gen/", serves_properties=["C09"],
         kind_free_text="configuration-matrix differential over container kinds, deviation-bounded"),
]
E1_TECH = "bounded exhaustive enumeration of the stated input space (small-scope model checking), each case executed on the real code and compared with an independent reference model"
E1_NOTE = ("trusted: the reference model engine/nmc_ref.hpp (naive NumPy-definition loops, audited against NumPy 2.4 by audit/), g++ 12, "
           "the observation layer (nmtools::shape/len/at/apply_at). Bounded: only the stated small scope is covered; nothing above it is sampled.")

CHECKS["C03"] = dict(
    level="exploration", engine="E1", technique=E1_TECH, level_note=E1_NOTE,
    level_text="Every member of the stated finite input space (all source shapes up to the bound x the full argument menu of each of the 12 "
               "rearranging routines) is executed on the real view and on the evaluated array and compared, shape and every element, with the "
               "NumPy-definition model; the space is an input space, not a reachability graph, hence 'exploration' with exhaustive=true.",
    units=[
        U("rearrange", "harness/c03_rearrange.cpp", weight=3),
        U("rearrange_san", "harness/c03_rearrange.cpp", san=True, family="rearrange", shadow=True, weight=5),
    ],
    rule="every source shape S(1..4,e) x every argument of each rearranging view (all ordered factorisations with every single -1, all "
         "permutations in positive/negative spelling, all axis pairs, all expand positions, all axis subsets); a case is non-trivial when "
         "the result has >1 element and is not the identity rearrangement of the source; distinct = distinct case key",
    bounds=dict(quick="sources S(1..4,3) + extent-4 boundary in dim<=2; moveaxis lists <=2; expand_dims <=2 new axes",
                thorough="sources S(1..4,4); moveaxis lists <= dim; expand_dims <=3 new axes"),
    assumptions=["reference model nmc_ref.hpp (audited against NumPy by audit/audit_ref.py)",
                 "observation through nmtools::shape/len/at/apply_at only",
                 "element values are distinct integers so a wrong source element is always visible"],
    min_outcomes=50,
)
