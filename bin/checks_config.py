# checks_config.py - per-property harness units, bounds and non-triviality rules (read by bin/check)
# unit keys: name, src, flags, san (ASan+UBSan build), tiers, family (name used to match known findings;
#            a sanitizer/alternate build of the same source shares the family), shadow (same cases as
#            another unit under a different build: not double counted), weight (share of the 16 workers)

def U(name, src, **kw):
    d = dict(name=name, src=src); d.update(kw); return d

CHECKS = {}
NOT_YET = {}
NOTES = ("All checks are bounded exhaustive explorations executed against the real nmtools headers of /repo's working tree; "
         "see DESIGN.md. known_findings.jsonl lists genuine defects of the pinned tree by explicit input key.")
ENGINES = [
    dict(name="E1", path="engine/nmc.hpp", serves_properties=["C01","C03","C04","C05","C06","C07","C08","C12","C15","C16","C17","C18"],
         kind_free_text="input-space explorer: odometer enumeration of a stated finite alphabet, every case executed on the real code and compared with the reference model (engine/nmc_ref.hpp); fork-based crash containment"),
    dict(name="E2", path="harness/pipeline.hpp", serves_properties=["C02","C10","C11","C13","C14","C15"],
         kind_free_text="pipeline explorer: breadth-first search over view programs by template recursion; lazy / eager / reference triple at every node"),
    dict(name="E3", path="engine/nmc_bfs.hpp", serves_properties=["C19","C20"],
         kind_free_text="explicit-state BFS over operation histories of the real mutable objects with canonical-state merging"),
    dict(name="E4", path="harness/c13_kernel.cpp", serves_properties=["C13"],
         kind_free_text="stateless schedule explorer over per-thread kernel bodies with measured independence relation"),
    dict(name="E5", path="gen/", serves_properties=["C09"],
         kind_free_text="configuration-matrix differential over container kinds, deviation-bounded"),
]
E1_TECH = "bounded exhaustive enumeration of the stated input space (small-scope model checking), each case executed on the real code and compared with an independent reference model"
E1_NOTE = ("trusted: the reference model engine/nmc_ref.hpp (naive NumPy-definition loops, audited against NumPy 2.4 by audit/), g++ 12, "
           "the observation layer (nmtools::shape/len/at/apply_at). Bounded: only the stated small scope is covered; nothing above it is sampled.")

CHECKS["C03"] = dict(
    level="exploration", engine="E1", technique=E1_TECH, level_note=E1_NOTE,
    level_text="Every member of the stated finite input space (all source shapes up to the bound x the full argument menu of each of the 12 "
               "rearranging routines) is executed on the real view and on the evaluated array and compared, shape and every element, with the "
               "NumPy-definition model; the space is an input space, not a reachability graph, hence 'exploration' with exhaustive=true.",
    units=[
        U("rearrange", "harness/c03_rearrange.cpp", weight=3),
        U("rearrange_san", "harness/c03_rearrange.cpp", san=True, family="rearrange", shadow=True, weight=5),
    ],
    rule="every source shape S(1..4,e) x every argument of each rearranging view (all ordered factorisations with every single -1, all "
         "permutations in positive/negative spelling, all axis pairs, all expand positions, all axis subsets); a case is non-trivial when "
         "the result has >1 element and is not the identity rearrangement of the source; distinct = distinct case key",
    bounds=dict(quick="sources S(1..4,3) + extent-4 boundary in dim<=2; moveaxis lists <=2; expand_dims <=2 new axes",
                thorough="sources S(1..4,4); moveaxis lists <= dim; expand_dims <=3 new axes"),
    assumptions=["reference model nmc_ref.hpp (audited against NumPy by audit/audit_ref.py)",
                 "observation through nmtools::shape/len/at/apply_at only",
                 "element values are distinct integers so a wrong source element is always visible"],
    min_outcomes=50,
)

CHECKS["C01"] = dict(
    level="exploration", engine="E1", technique=E1_TECH, level_note=E1_NOTE,
    level_text="For every shape of the small scope, in nine index-container kinds (incl. 39 compile-time constant shapes), every flat position and "
               "every multi-index is round-tripped through compute_strides/compute_indices/compute_offset/ndindex and compared with the arithmetic "
               "definition; both buffer layouts are filled and read back element by element with offsets checked against the layout formula; an "
               "exhaustive boundary grid (extents around 2^15..2^32) exercises the index math near overflow without storage.",
    units=[
        U("index", "harness/c01_index.cpp"),
        U("index_san", "harness/c01_index.cpp", san=True, family="index", shadow=True),
    ],
    rule="case = (container kind, shape) with every flat offset / multi-index of the shape visited inside the case, or (layout, shape), or "
         "(boundary grid shape, kind); non-trivial = more than one element and dim >= 2 (or any boundary-grid case); distinct = distinct key",
    bounds=dict(quick="S(1..4,6) u S(5,4) u S(6,3) x 8 kinds; constants S(1..3,3); layouts S(1..4,4); boundary grid dims 1..3 over 10 extents",
                thorough="S(1..3,12) u S(4,8) u S(5,5) u S(6,4) x 8 kinds; layouts S(1..4,5); same boundary grid"),
    assumptions=["arithmetic definitions of strides/offsets in the harness", "sizes above 2^20 elements are exercised as index math only"],
    min_outcomes=1000,
    require_counts=dict(any=dict(index_roundtrips=100000, boundary_offsets=1000)),
)

CHECKS["C06"] = dict(
    level="exploration", engine="E1", technique=E1_TECH, level_note=E1_NOTE,
    level_text="All ordered pairs of S(0..4,4) and all triples of S(0..3,3) (thorough: S(0..4,3)) are broadcast with the real broadcast_shape and "
               "compared with the rule (success iff equal-or-1, per-axis maximum); commutativity, associativity incl. agreement of failure, "
               "idempotence and absorption are checked on the same enumeration; every (source,target) pair of broadcast_to and every pair of "
               "broadcast_arrays is read at every element index; a mixed container-kind matrix (list, fixed, bounded, clipped, tuple) repeats the pairs.",
    units=[U("broadcast", "harness/c06_broadcast.cpp"),
           U("broadcast_san", "harness/c06_broadcast.cpp", san=True, family="broadcast", shadow=True)],
    rule="case = tuple of shapes (pair/triple/kind-pair) or (source shape, target shape); non-trivial = at least one operand is actually stretched "
         "or the combination is incompatible; distinct = distinct key",
    bounds=dict(quick="pairs S(0..4,4)^2, triples S(0..3,3)^3, broadcast_to S(1..4,3) x S(0..4,3), broadcast_arrays pairs with dims summing <= 6, kind matrix 6x6 over S(1..3,3)",
                thorough="adds triples S(0..4,3)^3, pairs with dim 5..6 operands, all broadcast_arrays pairs of S(1..4,3), kind matrix over S(1..3,4)"),
    assumptions=["zero extents are outside the domain (nmtools has no empty arrays)"],
    min_outcomes=500,
)

CHECKS["C05"] = dict(
    level="exploration", engine="E1", technique=E1_TECH, level_note=E1_NOTE,
    level_text="The property's per-axis alphabet (n in 1..6, start/stop in [-(n+2),n+2] or omitted, step in +-1..3 or omitted) is enumerated completely in "
               "the packed (typed tuple, all 8 None patterns) and dynamic (array<int,3>/array<int,2>) encodings and compared, shape and every element, with "
               "Python's PySlice_AdjustIndices rule; combinations over 1..3 axes mix integers, ':', in-range ranges of every sign/order class and an "
               "ellipsis in every position (packed and list-of-either encodings must agree); a boundary grid up to 2^31-1 exercises the float length.",
    units=[U("slice", "harness/c05_slice.cpp"),
           U("slice_san", "harness/c05_slice.cpp", san=True, family="slice", shadow=True, tiers=["thorough"])],
    rule="case = (extent, slice spec) per axis, or (shape, per-axis parts incl. ellipsis); non-trivial = the selection is not the whole source "
         "(or Python gives an empty / raising result); distinct = distinct key",
    bounds=dict(quick="1-d alphabet complete (n<=6); nd shapes S(1..3,3); boundary grid 4 extents x 36 bounds x 4 steps",
                thorough="same 1-d alphabet; nd shapes S(1..3,4); ASan/UBSan shadow build"),
    assumptions=["Python slice semantics = PySlice_AdjustIndices (verbatim in nmc_ref.hpp, audited against CPython by audit/)",
                 "zero-length results are checked although nmtools cannot represent them (the property text is fixed); they are listed as a known finding"],
    min_outcomes=200,
)

CHECKS["C04"] = dict(
    level="exploration", engine="E1", technique=E1_TECH, level_note=E1_NOTE,
    level_text="For every source shape of the small scope and the full argument menu of each of the ~35 selecting/replicating/joining/generating "
               "routines, the lazy view and the evaluated array are read at every index and compared (shape and element) with NumPy-definition "
               "models (pad/resize/expand: their documented definitions); distinct element values make a copied-from-the-wrong-place element visible.",
    units=[
        U("select", "harness/c04a_select.cpp", weight=4, shards=8),      # 6.6 million thorough cases: 8 shards keep every shard's distinct-key table below its cap
        U("stack", "harness/c04a_select.cpp", flags=["-DC04_STACK"]),
        U("generate", "harness/c04b_generate.cpp", weight=2),
        U("select_san", "harness/c04a_select.cpp", san=True, family="select", shadow=True, weight=6, shards=12, tiers=["thorough"]),   # ASan/UBSan over the whole thorough space: 12 shards to stay inside the deadline
        U("generate_san", "harness/c04b_generate.cpp", san=True, family="generate", shadow=True, weight=3, tiers=["thorough"]),
    ],
    rule="case = (routine, source shape, arguments); non-trivial = the result differs from the source in shape or element order (generators, joins "
         "and splits always count); distinct = distinct key",
    bounds=dict(quick="sources S(1..4,3); reps/repeats 1..3; shifts [-2n,2n]; take lists <=3 (<=2 for dim>=3); masks <= n; pad widths 0..2 (0..1 for dim>=3); "
                      "windows <= extent on <=2 axes; diagonal offsets [-n,n]; resize targets S(d,5) (d<=2) ; arange integer grid [-4,6]x[-4,6]x{+-1..3}; linspace halves x num 1..6",
                thorough="sources S(1..4,4) with the full menus; ASan/UBSan shadow builds"),
    assumptions=["a real-valued arange is rejected at compile time by the library (ARANGE_SHAPE_UNSUPPORTED), so the real grid applies to linspace only",
                 "results NumPy would return empty (arange with no element, empty diagonal) are outside nmtools' domain and skipped",
                 "column_stack / hstack etc. are driven in a separate translation unit because array::concatenate and view::concatenate are ambiguous under ADL when both headers are included"],
    min_outcomes=2000,
)

CHECKS["C08"] = dict(
    level="exploration", engine="E1", technique=E1_TECH, level_note=E1_NOTE,
    level_text="Every source shape of the small scope x every axis argument (None, every single axis of either sign, every non-empty subset of axes in "
               "every order and in positive/negative/mixed spelling) x keepdims (absent, compile-time, run-time) x initial x dtype is reduced with the "
               "real views (and their evaluation) and compared with a left fold, in increasing C order over the reduced block; the non-commutative "
               "subtract makes fold order observable; accumulate along every axis; the named wrappers are compared with their definitions.",
    units=[U("reduce", "harness/c08_reduce.cpp"),
           U("reduce_san", "harness/c08_reduce.cpp", san=True, family="reduce", shadow=True, tiers=["thorough"], run_tier="quick")],
    rule="case = (op, source shape, axis argument, option flags); non-trivial = the reduced block has >= 2 elements; distinct = distinct key",
    bounds=dict(quick="sources S(1..4,3); ops add (full option cross), multiply, maximum (4 flag sets), subtract (single axes), minimum, logical and/or; accumulate add/multiply/subtract/maximum/minimum; wrappers sum prod amax amin mean var(ddof 0,1) stddev cumsum cumprod vector_norm(ord 1,2) trace",
                thorough="sources S(1..4,4); every mixed-sign spelling; ASan/UBSan shadow build"),
    assumptions=["integer-valued data chosen so that every fold is exact in int64 and double", "mean/var/stddev/vector_norm compared with 1e-9 relative tolerance (own comparison)",
                 "reductions over bitwise ops are not provided by the library (no reduce_bitwise_*); logical_and/or are driven through their 2-argument form"],
    min_outcomes=2000,
)

CHECKS["C18"] = dict(
    level="exploration", engine="E1", technique=E1_TECH,
    level_note="trusted: the definition of equality coded in the harness (same shape and all elements equal / all differences below eps), g++ 12. "
               "Two builds of the same harness: -DNDEBUG (assertions compiled out, as in the repository's own test build) and assertions on (an abort is a violation: the comparison must be total).",
    level_text="All ordered pairs of arrays with shapes from S(1..3,3) (same shape; same size but different shape; different sizes) in three array kinds "
               "(dynamic, bounded-shape, lazy view) x contents equal / perturbed at every single position (isclose: perturbed by 0.5, 2 and 64 eps), all "
               "index-array pairs of lengths 1..4 in 4x4 container kinds, scalars, optionals (empty/full), eithers, tuples: isequal/isclose must return "
               "the defined answer, be symmetric and reflexive, and must not abort.",
    units=[U("isequal_ndebug", "harness/c18_isequal.cpp", flags=["-DNDEBUG"], family="isequal"),
           U("isequal_assert", "harness/c18_isequal.cpp", family="isequal", shadow=True),
           U("isequal_san", "harness/c18_isequal.cpp", flags=["-DNDEBUG"], san=True, family="isequal", shadow=True)],
    rule="case = (kinds, shape a, shape b, perturbed position); non-trivial = shapes differ or one element differs; distinct = distinct key",
    bounds=dict(quick="S(1..3,3)^2 shape pairs; index arrays 1..4; kinds: 3 array kinds (diagonal + dynamic row), 4x4 index kinds", thorough="all 3x3 array kind pairs"),
    assumptions=["pairs of two fixed-size packed operands of different length are rejected by a static_assert (loud) and not instantiated"],
    min_outcomes=100,
)

E3_TECH = ("explicit-state model checking of the real objects: breadth-first search over ALL operation histories up to the depth bound, states merged on an exact "
           "canonical form of the real object representation (object bytes + reachable heap blocks, pointers normalised), every transition executed on the "
           "implementation and on the std:: reference model and compared; allocator balance and lifetime checked in every state")
CHECKS["C19"] = dict(
    level="model_checking", engine="E3", technique=E3_TECH,
    level_note="trusted: the std:: containers as reference model, the arena allocator of engine/nmc_bfs.hpp (counts blocks, red zones, poison fill, never reuses memory "
               "inside one history), g++ 12 (+ASan/UBSan shadow build). Bounded: histories up to the stated depth over the stated alphabet on two live objects; "
               "longer (random) histories are not sampled.",
    level_text="Every operation history up to depth 5 (quick) / 7 (thorough) over {default / sized(0..6) / variadic construct, copy-construct from the other object, "
               "assign-from(other|self), push_back(1|2), resize(0..6), write(i)} on two live objects is explored by BFS for utl::vector<int|double>, "
               "utl::static_vector<int,4>, small_vector<int,3>, utl::array<int,3>, utl::tuple/tuplev2, utl::maybe<T> and utl::either<L,R> with trivial and "
               "non-trivial (utl::vector<int>, lifetime-tracked) alternatives; after every transition size, every element, has_value/index/get_if are compared "
               "with std::vector/array/tuple/optional/variant (static_vector: refused beyond capacity), and in every state all objects are destroyed and the "
               "allocator / lifetime counters must balance (no leak, no double free, no assignment into unconstructed storage).",
    units=[
        U("hist_vector", "harness/c19_containers.cpp", flags=["-DC19_GROUP=1"], shards=1),
        U("hist_seq", "harness/c19_containers.cpp", flags=["-DC19_GROUP=2"], shards=1),
        U("hist_alg", "harness/c19_containers.cpp", flags=["-DC19_GROUP=3"], shards=1),
        U("hist_vector_san", "harness/c19_containers.cpp", flags=["-DC19_GROUP=1"], san=True, family="hist_vector", shadow=True, shards=1, run_tier="quick"),
        U("hist_seq_san", "harness/c19_containers.cpp", flags=["-DC19_GROUP=2"], san=True, family="hist_seq", shadow=True, shards=1, run_tier="quick"),
        U("hist_alg_san", "harness/c19_containers.cpp", flags=["-DC19_GROUP=3"], san=True, family="hist_alg", shadow=True, shards=1, run_tier="quick"),
    ],
    rule="state = canonical form of the two real objects reached by an operation history (BFS, merged exactly); transition = one real operation executed on "
         "implementation and std model; non-trivial = state first reached by a history containing at least one mutating operation (copy, assign, push_back, "
         "resize, write); distinct = distinct canonical state",
    bounds=dict(quick="all histories of length <= 5 (vector_double, small_vector: <= 4)", thorough="all histories of length <= 7 (vector_double <= 6)"),
    assumptions=["std::vector / std::array / std::tuple / std::optional / std::variant are the reference", "a static_vector operation beyond its capacity must be refused and leave the object unchanged (a refused sized construction yields an empty vector)",
                 "exploration below a failing transition is pruned (the minimal failing histories are reported)"],
    min_outcomes=1000,
    require_counts=dict(any=dict(states=50000, transitions=200000)),
)

CHECKS["C20"] = dict(
    level="model_checking", engine="E3", technique=E3_TECH + "; the mutable-view clause is decided by bounded exhaustive enumeration of (view, shape, argument) cases with a snapshot diff of the source after every single write",
    level_note="trusted: the invariants and the resize-representability model coded in harness/c20_ndarray.cpp, the arena allocator of engine/nmc_bfs.hpp (global operator new is "
               "routed into it while implementation code runs), g++ 12 (+ASan/UBSan shadow build). Bounded: histories up to the stated depth over the stated shape menu on two live objects.",
    level_text="For the generic ndarray_t in all 15 shape x buffer kinds x {row, column}-major layout and the legacy hybrid_ndarray / dynamic_ndarray, every operation history up to "
               "depth 4 (quick) / 5 (thorough) over {default-construct, copy-construct, assign-from(other|self), resize(shape) over a menu of 9 / 15 shapes of dim 1..4 incl. "
               "dimension changes, capacity overflows and unrepresentable shapes, write(every position)} on two live objects is explored by BFS on the real objects; after every "
               "transition both objects must satisfy: product(shape)==size()==buffer length, dim==len(shape), strides()==suffix products, the buffer offset of every index equals "
               "the declared layout's formula (bijection), every element equals the model's, a refused resize returned false and changed nothing, an accepted one installed the "
               "requested shape; every state is additionally cast to other array kinds (where the library supports the source kind). Mutable views: for every shape of "
               "S(1..3,3|4) and every argument of mutable_flatten / mutable_reshape / mutable_ref / mutable_slice, every view index is written once and the source is diffed.",
    units=[
        U("nd_g1", "harness/c20_ndarray.cpp", flags=["-DC20_GROUP=1"], shards=1),
        U("nd_g2", "harness/c20_ndarray.cpp", flags=["-DC20_GROUP=2"], shards=1),
        U("nd_g3", "harness/c20_ndarray.cpp", flags=["-DC20_GROUP=3"], shards=1),
        U("nd_g4", "harness/c20_ndarray.cpp", flags=["-DC20_GROUP=4"], shards=1),
        U("mutable", "harness/c20_mutable.cpp", shards=2),
        U("nd_g1_san", "harness/c20_ndarray.cpp", flags=["-DC20_GROUP=1"], san=True, family="nd_g1", shadow=True, shards=1, run_tier="quick"),
        U("nd_g2_san", "harness/c20_ndarray.cpp", flags=["-DC20_GROUP=2"], san=True, family="nd_g2", shadow=True, shards=1, run_tier="quick"),
        U("nd_g3_san", "harness/c20_ndarray.cpp", flags=["-DC20_GROUP=3"], san=True, family="nd_g3", shadow=True, shards=1, run_tier="quick"),
        U("nd_g4_san", "harness/c20_ndarray.cpp", flags=["-DC20_GROUP=4"], san=True, family="nd_g4", shadow=True, shards=1, run_tier="quick"),
        U("mutable_san", "harness/c20_mutable.cpp", san=True, family="mutable", shadow=True, shards=2, run_tier="quick"),
    ],
    rule="BFS: state = canonical form (object bytes + reachable heap blocks, pointers normalised) of the two real array objects; transition = one real operation + the full invariant "
         "check on both objects; non-trivial = state first reached by a history with at least one operation other than default construction. Mutable views: case = (view, source shape, "
         "arguments) with every view index written once; non-trivial = source has > 1 element. distinct = distinct canonical state / distinct case key",
    bounds=dict(quick="histories <= 4, 9-shape menu, 33 subjects; mutable views over S(1..3,3)", thorough="histories <= 5, 15-shape menu; mutable views over S(1..3,4)"),
    assumptions=["what an ACCEPTED resize does to the contents is not specified by the property: the model adopts the implementation's contents after an accepted resize",
                 "cast<dtype>(ndarray_t) and cast(kind) of fixed-dim / bounded-dim / clipped sources are rejected at compile time by the library and therefore not instantiated",
                 "a default-constructed legacy dynamic_ndarray has an empty shape; the invariants apply from its first resize on",
                 "exploration below a failing transition is pruned (the minimal failing histories are reported)"],
    min_outcomes=1000,
    require_counts=dict(any=dict(states=10000, transitions=40000)),
)

CHECKS["C13"] = dict(
    level="model_checking", engine="E4",
    technique="stateless model checking of the real per-thread kernel body: every execution order of the launch's threads is enumerated for launches of up to 6 (quick) / 7 (thorough) threads "
              "(plus every order with one duplicated thread), each on a fresh poisoned output; for larger launches a MEASURED independence relation (per-thread write footprint = exactly its own "
              "cell, no read of the output, inputs read-only) reduces all T! orders to one Mazurkiewicz trace, of which four representatives are executed; a separate free-running pass runs the same "
              "bodies on real threads under ThreadSanitizer",
    level_note="trusted: host evaluation (na::eval of the same view) as the oracle, page protection of the simulated device memory, g++ 12 (+ASan/UBSan and TSan builds). Not covered: the CUDA/HIP/SYCL/OpenCL "
               "entry glue, buffer transfers and launch-size arithmetic (toolchains absent); weak memory orderings of real GPUs (each thread performs a single final store to a distinct cell, measured).",
    level_text="For 14 device-supported view programs of depth 1..3 (broadcasting binary ufuncs, unary ufuncs, reduce(axis), transpose, reshape, flatten, broadcast_to and their compositions, incl. a leaf used "
               "twice) over operand shapes S(1..3,3) (thorough S(1..4,3)) and every launch geometry block in {1,2,3,4,5,7,8,16,32,33} (thorough 1..33) x grid from exactly covering to 2x over-provisioned, the "
               "real kernel body (create_mutable_array / create_array from raw triples / functional::apply of the extracted composition / assign_result) is executed once per thread under the schedule explorer; "
               "the final output must equal host evaluation and threads with id >= output size must write nothing.",
    units=[U("kernel", "harness/c13_kernel.cpp", weight=12),
           U("kernel_san", "harness/c13_kernel.cpp", flags=["-DC13_THIN"], san=True, family="kernel", shadow=True, weight=6, run_tier="quick"),
           U("kernel_tsan", "harness/c13_kernel.cpp", flags=["-DC13_TSAN"], tsan=True, libs=["-lpthread"], family="kernel", shadow=True, weight=4, run_tier="quick", env={"TSAN_OPTIONS": "halt_on_error=1:die_after_fork=0"})],
    rule="case = (program, operand shapes, reduction axis, block, grid); inside a case: 2 footprint runs per thread + all T! orders (+ duplicated-thread orders) or 4 representative orders; "
         "states = distinct output-buffer contents observed after a thread step, transitions = thread steps executed under the schedule explorer; non-trivial = output has > 1 element and the launch has > 1 thread; distinct = distinct case key",
    bounds=dict(quick="shapes S(1..3,3); 10 block sizes; all orders for T<=6, duplicates for T<=5", thorough="shapes S(1..4,3); block 1..33; all orders for T<=7, duplicates for T<=6"),
    assumptions=["thread bodies are taken as atomic steps: justified per launch by the measured footprints (single store to the thread's own cell, value independent of the output's previous contents, inputs on read-only pages)",
                 "host evaluation is the reference (its agreement with NumPy semantics is the business of C03-C08)"],
    min_outcomes=500,
    require_counts=dict(any=dict(schedules=100000, transitions=500000, geometries_all_orders=100, idle_threads=1000)),
    deadline=dict(quick=540, thorough=3300),
)

# ---- E2 pipeline explorer (C10, C11, C02): one translation unit per (root kind, first operation) -----------------------------------
E2_TECH = ("bounded exhaustive exploration of the PROGRAM tree (all view pipelines up to the depth bound over the operation alphabet and its argument menus, from every root "
           "kind and root shape), generated by template recursion; every node executes the real lazy view, its evaluations and the step-wise eager chain next to the reference model")
def pipe_units(prop, san=False):
    us = []
    for tier, depth in (("quick", 2), ("thorough", 3)):
        for k in range(5):
            for f in range(12):
                us.append(U("pipe_%s_k%d_f%d" % (tier[0], k, f), "harness/c_pipeline.cpp", opt="-O0", family="pipe", shards=1, tiers=[tier],
                            flags=["-DPIPE_PROP=%d" % prop, "-DPIPE_KIND=%d" % k, "-DPIPE_FIRST=%d" % f, "-DPIPE_MAXDEPTH=%d" % depth]))
                if tier == "thorough":   # the extended alphabet (9 more operations: roll, repeat, pad, take, broadcast_to, cumsum, multiply, matmul, atleast_nd<ct4>) at depth 2
                    for f2 in ([f] if f < 12 else []) + ([12 + f] if f < 9 else []):
                        us.append(U("pipe_x_k%d_f%d" % (k, f2), "harness/c_pipeline.cpp", opt="-O0", family="pipe", shards=1, tiers=["thorough"],
                                    flags=["-DPIPE_PROP=%d" % prop, "-DPIPE_KIND=%d" % k, "-DPIPE_FIRST=%d" % f2, "-DPIPE_MAXDEPTH=2", "-DPIPE_THOROUGH_OPS"]))
                if tier == "quick" and f == 0 and k in (2, 3, 4):   # quick tier: one extended operation (atleast_nd with a constant nd) as first stage, every operation as second
                    us.append(U("pipe_q_x_k%d_f20" % k, "harness/c_pipeline.cpp", opt="-O0", family="pipe", shards=1, tiers=["quick"],
                                flags=["-DPIPE_PROP=%d" % prop, "-DPIPE_KIND=%d" % k, "-DPIPE_FIRST=20", "-DPIPE_MAXDEPTH=2", "-DPIPE_THOROUGH_OPS"]))
                if san and tier == "quick" and k in (3, 4):
                    us.append(U("pipe_san_k%d_f%d" % (k, f), "harness/c_pipeline.cpp", opt="-O1", san=True, family="pipe", shadow=True, shards=1, tiers=["quick", "thorough"], run_tier="quick",
                                flags=["-DPIPE_PROP=%d" % prop, "-DPIPE_KIND=%d" % k, "-DPIPE_FIRST=%d" % f, "-DPIPE_MAXDEPTH=2"]))
    return us
PIPE_BOUNDS = dict(quick="5 root kinds (constant shape (2,3) + fixed buffer; clipped <=(3,4); fixed dim 2; bounded dim <=3; dynamic) x their root shapes x all pipelines of depth <= 2 over 12 operations "
                         "(reshape, transpose, flip, expand_dims, slice, tile, add-with-broadcast, sum(axis) with run-time arguments; flip, expand_dims, sum, sum-keepdims with compile-time arguments) and their argument menus",
                   thorough="same alphabet at depth <= 3, plus the extended 21-operation alphabet (adds roll, repeat, pad, take, broadcast_to, cumsum, multiply, matmul, atleast_nd<ct4>) at depth <= 2; all root shapes under the bounds")
PIPE_ASSUME = ["argument menus contain valid arguments only (invalid ones are C15's business)", "arrays are kept below 96 elements and dim 5",
               "a stage that would yield a scalar is not a pipeline stage", "reference model nmc_ref.hpp (audited against NumPy)"]
CHECKS["C10"] = dict(
    level="model_checking", engine="E2", technique=E2_TECH, level_note=E1_NOTE,
    level_text="At every node of the program tree the lazy nested view, eval(view) with the row-major and the column-major resolver, eval into a caller-supplied output of the right shape and the step-wise "
               "eager chain (array::op applied to the previous concrete array) are read at every index and compared with the reference model; no evaluator may return early on a shape mismatch (hook).",
    units=pipe_units(10), rule="case = program path (root kind, root shape, (op,arg)*); every prefix is a case; non-trivial = result has > 1 element; states = distinct nodes, transitions = node executions; distinct = distinct key",
    bounds=PIPE_BOUNDS, assumptions=PIPE_ASSUME, min_outcomes=500, require_counts=dict(any=dict(transitions=5000)),
)
CHECKS["C11"] = dict(
    level="model_checking", engine="E2", technique=E2_TECH, level_note=E1_NOTE,
    level_text="For every view type the explorer instantiates, the statically reported fixed_shape / fixed_dim / fixed_size / bounded_dim / bounded_size of the view type and of its evaluation result type "
               "are compared with every run-time object of that type the menus produce (all shapes under a clipped bound, every dim under a bounded dim); the evaluated result must have the full shape and "
               "values (nothing clipped) and no bounded container may be asked to hold more than its capacity (hook).",
    units=pipe_units(11) + [U("ctargs", "harness/c11_ctargs.cpp", opt="-O0", family="ctargs", shards=1)],   # one-stage views with COMPILE-TIME arguments (18 operations x 6 root kinds), view-level and evaluated
    rule="case = program path; non-trivial = the node's view type or result type carries static knowledge and the result has > 1 element; distinct = distinct key",
    bounds=PIPE_BOUNDS, assumptions=PIPE_ASSUME, min_outcomes=500, require_counts=dict(any=dict(transitions=5000, nodes_with_static_knowledge=2000)),
)
CHECKS["C02"] = dict(
    level="model_checking", engine="E2", technique=E2_TECH + "; index-vs-extent and capacity events are observed through the NMTOOLS_VERIF hooks, plus an ASan/UBSan shadow build",
    level_note=E1_NOTE,
    level_text="At every node of the program tree every element of the view is read and the view is evaluated while every BOUNDS hook event (packed index vs axis extent, buffer offset vs buffer length, "
               "utl container index vs size) must satisfy 0 <= index < extent and no CAPACITY event (bounded container asked to hold more than its capacity) may fire; the values read must be the designated ones.",
    units=pipe_units(2, san=True) + [U("hk_" + n, src, flags=["-DC02_HOOKS"] + fl, family="hk_" + n, weight=w, run_tier="quick") for (n, src, fl, w) in (
        ("rearrange", "harness/c03_rearrange.cpp", [], 2), ("select", "harness/c04a_select.cpp", [], 3), ("stack", "harness/c04a_select.cpp", ["-DC04_STACK"], 1),
        ("generate", "harness/c04b_generate.cpp", [], 2), ("slice", "harness/c05_slice.cpp", [], 2), ("broadcast", "harness/c06_broadcast.cpp", [], 2), ("reduce", "harness/c08_reduce.cpp", [], 3))],
    rule="case = program path (pipeline units) or a case of the re-used single-view harness (hk_* units: the complete quick alphabets of the C03/C04/C05/C06/C08 harnesses with the BOUNDS hook installed); "
         "non-trivial = result has > 1 element; distinct = distinct key; bounds_events_checked counts the hook events inspected",
    bounds=PIPE_BOUNDS, assumptions=PIPE_ASSUME + ["SIMD evaluation is covered by C12 (guard pages, ASan)", "hk_* units: only out-of-range BOUNDS events decide; the re-used harness's own verdict belongs to its own property"], min_outcomes=500, require_counts=dict(any=dict(transitions=5000, bounds_events_checked=1000000)),
)

# ---- C09 (part 1): cross-build differential of the dynamic harnesses; (part 2, the container-kind matrix) is in harness/c09_kinds*.cpp
def c09_builds(name, src, flags=None, weight=1):
    us = []
    for tag, cxx, extra in (("gcc_stl", "g++", []), ("gcc_nostl", "g++", ["-DNMTOOLS_DISABLE_STL"]), ("clang_stl", "clang++", []), ("clang_nostl", "clang++", ["-DNMTOOLS_DISABLE_STL"])):
        us.append(U("%s_%s" % (name, tag), src, cxx=cxx, flags=(flags or []) + extra, dump=True, family=name, shadow=(tag != "gcc_stl"), weight=weight,
                    run_tier="quick", tiers=(["quick", "thorough"] if tag in ("gcc_stl", "clang_nostl") else ["thorough"])))
    return us
C09_SRC = [("rearrange", "harness/c03_rearrange.cpp", None, 1), ("select", "harness/c04a_select.cpp", None, 2), ("broadcast", "harness/c06_broadcast.cpp", None, 2),
           ("index", "harness/c01_index.cpp", None, 1), ("reduce", "harness/c08_reduce.cpp", None, 3)]
# (harness/c05_slice.cpp is NOT re-run under the no-STL builds: the known C05 defects read / write out of range, which std::vector::at turns into
#  exceptions but the unchecked utl::vector turns into heap corruption that kills the runner between cases - the comparison would be meaningless)
CHECKS["C09"] = dict(
    level="exploration", engine="E5",
    technique="bounded exhaustive differential: the complete quick-tier input spaces of the C01/C03/C04/C06/C08 harnesses (written against nmtools_list / nmtools_array / nmtools_tuple / nmtools_maybe) are "
              "executed under four builds {g++ 12, clang++ 14} x {STL, NMTOOLS_DISABLE_STL (the library's own utl containers)} and the per-case observations (success/failure, shape, every element) are compared "
              "case by case; the container-kind matrix enumerates, per operation, every supported combination of argument kinds within a deviation bound and compares with the all-dynamic result",
    level_note="trusted: the observation layer (shape/len/at/apply_at) and its hash; the all-dynamic g++/STL run as the reference (itself tied to the NumPy-definition model by C01-C08). Bounded: the quick-tier "
               "alphabets of those harnesses and the kind combinations listed in the evidence.",
    level_text="Every case of the quick-tier spaces of five harnesses is executed in 2 (quick) / 4 (thorough) builds and must give the identical observation in each; cases that already fail in the reference "
               "build belong to their own property's findings and are excluded from the comparison.",
    units=[u for (n, s_, f, w) in C09_SRC for u in c09_builds(n, s_, f, w)],
    differential=[["%s_gcc_stl" % n, "%s_gcc_nostl" % n, "%s_clang_stl" % n, "%s_clang_nostl" % n] for (n, s_, f, w) in C09_SRC],
    rule="case = a case of the underlying harness; non-trivial as defined there; an execution = one case in one build; distinct = distinct key; differential_cases_compared counts (case, build) pairs compared with the reference build",
    bounds=dict(quick="5 harnesses x quick alphabets x {g++/STL, clang++/no-STL} + kind matrix with <= 1 deviation", thorough="5 harnesses x quick alphabets x 4 builds + kind matrix with <= 3 / <= 2 deviations"),
    assumptions=["cases failing in the reference build are not compared (they are findings of C01-C08)"],
    only_differential=True,
    min_outcomes=1000, require_counts=dict(any=dict(differential_cases_compared=100000)),
)

# ---- harnesses written by helper agents following docs/HARNESS_AUTHOR_GUIDE.md (reviewed and integrated) -----------------------------
CHECKS["C16"] = dict(
    level="exploration", engine="E1", technique=E1_TECH, level_note=E1_NOTE,
    level_text="matmul (both implementations: the matmul_t view and matmulv2), dot, inner, outer, vecdot (keepdims off/on), tensordot (run-time int axes, ct axes, explicit axis-list pairs in "
               "non-negative and negative spelling), kron and trace are executed for ALL ordered operand-shape pairs of the small scope (valid and invalid: where NumPy raises the library must "
               "report Nothing), lazy view and evaluated array, and compared shape + every element with naive nested-loop models audited against NumPy (audit/audit_c16.py, audit/run_audit).",
    units=[U("matmul", "harness/c16_linalg.cpp", flags=["-DC16_MATMUL"], weight=3), U("dot", "harness/c16_linalg.cpp", flags=["-DC16_DOT"], weight=3),
           U("tensordot", "harness/c16_linalg.cpp", flags=["-DC16_TENSORDOT"], weight=2), U("kron", "harness/c16_linalg.cpp", flags=["-DC16_KRON"]),
           U("matmul_san", "harness/c16_linalg.cpp", flags=["-DC16_MATMUL"], san=True, family="matmul", shadow=True, weight=4, tiers=["thorough"], run_tier="quick", asan_options="malloc_context_size=0:symbolize=0"),
           U("dot_san", "harness/c16_linalg.cpp", flags=["-DC16_DOT"], san=True, family="dot", shadow=True, weight=4, tiers=["thorough"], run_tier="quick", asan_options="malloc_context_size=0:symbolize=0"),
           U("kron_san", "harness/c16_linalg.cpp", flags=["-DC16_KRON"], san=True, family="kron", shadow=True, tiers=["thorough"], run_tier="quick", asan_options="malloc_context_size=0:symbolize=0")],
    rule="case = (routine, lhs shape, rhs shape, axes); non-trivial = NumPy accepts it and every output element is a sum of >= 2 products (outer / kron / 0 contracted axes: both operands have >= 2 elements; "
         "trace: diagonal has >= 2 elements); distinct = distinct key",
    bounds=dict(quick="matmulv2: all pairs of S(1..4,3); matmul_t, dot, inner, outer, vecdot, kron: all pairs of S(1..3,3) u S(1..4,2); tensordot: pairs of S(1..2,3) u S(1..3,2) with every n and every explicit pairing; trace: S(2..4,3), all axis pairs in 4 sign spellings, offsets [-n,n]",
                thorough="matmulv2 S(1..4,4)^2; others S(1..3,4) u S(1..4,3); tensordot S(1..3,4) u S(1..4,2); trace S(2..4,4)"),
    assumptions=["integer-valued distinct data (< 1300) so every sum of products is exact", "np.trace of an out-of-range offset is 0 (a non-empty result), so those cases are in scope (trace_empty)"],
    min_outcomes=2000,
)
CHECKS["C12"] = dict(
    level="exploration", engine="E1", technique=E1_TECH + "; operands and outputs are placed flush against PROT_NONE guard pages (after the buffer in one run, before it in a second run)",
    level_note="trusted: the default (scalar) evaluator and a typed float/double naive model (engine/nmc_ref_c12.hpp, 680 sample cases bit-identical with NumPy float32/float64), the guard allocator, g++ 12 -mavx2 -mfma.",
    level_text="For each SIMD context (x86 SSE, x86 AVX; thorough adds vector extensions 128/256/512 and SIMDe AVX-512) x dtype x supported op (unary family, binary add/subtract/multiply/divide, their "
               "reduce and outer forms, matmul) every 1-D element count 1..2*lanes+1 (thorough 4*lanes+1), 2-D shapes over {1,2,lanes-1,lanes,lanes+1,2*lanes+1}^2 in every broadcast pattern, n-d reductions on every "
               "axis (both spellings), None, keepdims in four forms, operands in row- and column-major layout are evaluated with the SIMD context and compared bit for bit (memcmp) with the default evaluator, the lazy "
               "view and the model; data are dyadic so every sum and product is exact.",
    units=[U("sse", "harness/c12_simd.cpp", flags=["-mavx2", "-mfma", "-DC12_CTX_SSE"], weight=2), U("avx", "harness/c12_simd.cpp", flags=["-mavx2", "-mfma", "-DC12_CTX_AVX"], weight=2),
           U("vec128", "harness/c12_simd.cpp", flags=["-mavx2", "-mfma", "-DC12_CTX_VEC128"], tiers=["thorough"]), U("vec256", "harness/c12_simd.cpp", flags=["-mavx2", "-mfma", "-DC12_CTX_VEC256"], tiers=["thorough"], weight=2),
           U("vec512", "harness/c12_simd.cpp", flags=["-mavx2", "-mfma", "-DC12_CTX_VEC512"], tiers=["thorough"], weight=3), U("simde512", "harness/c12_simd.cpp", flags=["-mavx2", "-mfma", "-DC12_CTX_SIMDE512"], tiers=["thorough"], weight=3),
           U("avx_san_ew", "harness/c12_simd.cpp", flags=["-mavx2", "-mfma", "-DC12_CTX_AVX", "-DC12_PART_EW"], san=True, family="avx", shadow=True, tiers=["thorough"], run_tier="quick", weight=2),
           U("avx_san_outer", "harness/c12_simd.cpp", flags=["-mavx2", "-mfma", "-DC12_CTX_AVX", "-DC12_PART_OUTER"], san=True, family="avx", shadow=True, tiers=["thorough"], run_tier="quick", weight=2),
           U("avx_san_red", "harness/c12_simd.cpp", flags=["-mavx2", "-mfma", "-DC12_CTX_AVX", "-DC12_PART_RED"], san=True, family="avx", shadow=True, tiers=["thorough"], run_tier="quick", weight=2)],
    rule="case = (op kind, context, dtype, layouts, shapes, axis, keepdims form); non-trivial = at least one full SIMD pack is processed (the vectorised extent has >= lanes elements); distinct = distinct key",
    bounds=dict(quick="SSE + AVX, float, counts 1..2*lanes+1, E x E 2-D shapes, V^3 3-D shapes", thorough="six contexts, float + double, counts 1..4*lanes+1, 3-D outer operands"),
    assumptions=["subtract.reduce / divide.reduce are excluded ('equal up to re-association' is undefined for a non-associative op)", "reciprocal, divide.outer, SIMDe shrink/swish ops and SIMDe matmul<double> do not compile on the pinned tree (loud) and are skipped",
                 "broadcasting beyond 2-D is refused by the SIMD evaluator (quantifier says 2-D)"],
    min_outcomes=2000,
)
CHECKS["C07"] = dict(
    level="exploration", engine="E1", technique=E1_TECH + "; for the lifting the very functor the library stores is applied to reference-broadcast operand elements and the results are compared bit for bit; the scalar operations themselves are pinned separately "
              "on a value grid against their documented definitions (unit scalar_ref)",
    level_note="trusted: the NumPy broadcast-pairing reference (engine/nmc_ref_c07.hpp, audited against NumPy on 15324 cases), the library's own scalar functors as element oracle of the lifting, the PyTorch-documented formulas / <cmath> "
               "as the oracle of the scalar operations (harness/c07_scalar.cpp), g++ 12.",
    level_text="All 71 ufuncs and 18 activations (12 translation units): all ordered operand-shape pairs of the small scope (compatible and incompatible: the latter must report Nothing), operand kinds ndarray / "
               "transposed lazy view / plain scalar in 7 combinations, 8 element types with all 64 ordered type pairs for add / divide / less / equal and 16 pairs for the rest of the arithmetic-comparison family, "
               "triples for where, outer forms with dtype; result shape = broadcast shape, element i = op(a[bi_a(i)], b[bi_b(i)]) bit-identically, result element type = decltype(op(a,b)) or the requested dtype. "
               "Unit scalar_ref: 56 unary functions (26 activation variants, 30 math ufuncs) x 37-value grid (every threshold of a piecewise definition with a value on either side, |x| <= 50) and 12 binary functions x 13^2 pairs, "
               "float and double, eager and lazy, against the documented definition evaluated in double.",
    units=[U("g%d" % g, "harness/c07_ufuncs.cpp", flags=["-DC07_GROUP=%d" % g], weight=(2 if g <= 8 else 1)) for g in range(1, 13)] +
          [U("scalar_ref", "harness/c07_scalar.cpp", family="scalar", shards=1, weight=1)] +
          [U("g%d_san" % g, "harness/c07_ufuncs.cpp", flags=["-DC07_GROUP=%d" % g], san=True, family="g%d" % g, shadow=True, tiers=["thorough"], run_tier="quick", asan_options="malloc_context_size=0") for g in (1, 7, 8, 12)],
    rule="case = (function, type pair, kind pair, shapes); non-trivial = shapes broadcastable, result has >= 2 elements and (an operand is stretched / rank-extended / scalar, or is a transposed view of rank >= 2, or the "
         "element types differ); unary: result size >= 2; outer: both operands >= 2 elements; distinct = distinct key",
    bounds=dict(quick="pairs S(1..3,3)^2 + extent-4 boundary in dims 1..2; where triples S(1..3,2)^3 + S(1..2,3)^3; outer S(1..2,3)^2", thorough="pairs S(1..4,3)^2 + extent-4 boundary + 9 larger fixed pairs; where S(1..3,3)^3; outer S(1..3,3)^2"),
    assumptions=["value grids stay inside each operation's domain (no division by zero, shifts within width, no signed overflow)", "clip and the generic n-ary ufunc do not compile for array operands on the pinned tree (upstream disabled its own clip tests): the ternary family is represented by where",
                 "0-dim arrays do not exist in nmtools: a plain scalar stands in"],
    min_outcomes=5000,
)
CHECKS["C15"] = dict(
    level="exploration", engine="E1", technique=E1_TECH, level_note=E1_NOTE + " Two builds of every unit: assertions on and -DNDEBUG (many checks of the library live in nmtools_cassert).",
    level_text="For each run-time-checked operation the FULL small-scope argument space including the invalid part (reshape targets over -2..4; axis lists over [-d-2,d+1] incl. duplicates for transpose, moveaxis, "
               "swapaxes, expand_dims, flip, sum, cumsum, concatenate, stack, take, compress, roll, repeat, tile, pad; incompatible operand pairs for broadcast_to, add, broadcast_arrays, matmul, dot, tensordot) is "
               "executed: has_value(result) <=> NumPy does not raise (validity predicates audited against NumPy 2.4 on every enumerated case), the value equals the model when valid, and nothing may crash.",
    # --crash-cap: the known findings of this property are mostly aborts; the thorough tier of `linalg` contains > 50000 of them (the runner's default cap)
    units=[U(n, "harness/c15_invalid.cpp", flags=["-DC15_" + n.upper()], weight=w, args=["--crash-cap", "2000000"]) for (n, w) in (("rearr", 4), ("reduce", 1), ("select", 3), ("stack", 1), ("bcast", 1), ("linalg", 3))] +
          [U(n + "_ndebug", "harness/c15_invalid.cpp", flags=["-DC15_" + n.upper(), "-DNDEBUG"], family=n, shadow=True, weight=w, args=["--crash-cap", "2000000"]) for (n, w) in (("rearr", 2), ("reduce", 1), ("select", 1), ("stack", 1), ("bcast", 1), ("linalg", 1))] +
          [U("prop_%s_k%d_f%d" % (t[0], k, f), "harness/c_pipeline.cpp", opt="-O0", family="pipe", shards=1, tiers=[t], flags=["-DPIPE_PROP=15", "-DPIPE_KIND=%d" % k, "-DPIPE_FIRST=%d" % f, "-DPIPE_MAXDEPTH=%d" % d])
           for (t, d) in (("quick", 1), ("thorough", 2)) for k in (0, 1, 2, 4) for f in range(12)] +
          [U("prop_san_k4_f%d" % f, "harness/c_pipeline.cpp", opt="-O1", san=True, family="pipe", shadow=True, shards=1, tiers=["thorough"], run_tier="quick", flags=["-DPIPE_PROP=15", "-DPIPE_KIND=4", "-DPIPE_FIRST=%d" % f, "-DPIPE_MAXDEPTH=1"]) for f in (0, 1, 6, 7)] +
          [U(n + "_san", "harness/c15_invalid.cpp", flags=["-DC15_" + n.upper()], san=True, family=n, shadow=True, weight=w, tiers=["thorough"], run_tier="quick", asan_options="malloc_context_size=0:symbolize=0") for (n, w) in (("reduce", 1), ("bcast", 1), ("stack", 1))],
    rule="case = (operation, source shape(s), argument lists); non-trivial = NumPy raises for the arguments, or the NumPy result is non-empty and differs from the first operand; propagation units: case = program path, "
         "an EMPTY optional of the node's view type is fed into every further stage that lifts optionals (reshape, transpose, slice, tile, add, sum), into eval and into get_function_composition and must stay empty; distinct = distinct key",
    bounds=dict(quick="sources S(1..4,2) (scalar axes, axis lists of length <= 2), operand pairs of S(1..3,2), reshape targets of length 1..3 over -2..4 on S(1..3,2) u S(1..2,3), add / broadcast_arrays over S(1..3,3)^2",
                thorough="sources S(1..4,3), length-3 axis lists on S(1..3,2), operand pairs S(1..3,3)^2, reshape on S(1..4,3) x 399 targets"),
    assumptions=["NumPy 2.4 accepts any single negative reshape entry as the unknown extent although only -1 is documented: both answers are accepted for those targets",
                 "results NumPy returns empty are accepted as Nothing or as the exact zero-extent shape (nmtools has no empty arrays)", "propagation: view::flip and view::expand_dims do not lift an optional operand (rejected at compile time, loud) and are not instantiated; the bounded-dim root kind is left to C10/C11 (its known findings abort while the path is built)"],
    min_outcomes=2000,
)

CHECKS["C17"] = dict(
    level="exploration", engine="E1", technique=E1_TECH,
    level_note="trusted: the naive nested-loop models of engine/nmc_ref_c17.hpp - checked against all 111 upstream PyTorch expectation literals (harness/c17_upstream_literals.cpp: ok=111 diff=0) and against "
               "independent NumPy formulas on 6493 cases (harness/c17_refdump.cpp + harness/c17_audit.py) - and g++ 12. PyTorch itself is not installed.",
    level_text="conv1d / conv2d over the property's grid (batch 1..2, channels 1..4 with every common divisor as groups, spatial extents 1..5 (thorough 1..7), kernels 1..3 incl. 1xk / kx1, stride 1..3, padding 0..2, "
               "dilation 1..2, bias on/off; thorough adds every per-axis stride/padding/dilation combination), max/avg pooling (inputs up to 7x7, kernel 1..3 x 1..3, stride 1..3 x 1..3, ceil_mode on/off so windows overhang), "
               "softmax/softmin over every axis, batch/layer/instance/group normalisation over dim 2..4 inputs with every valid group count, linear, bilinear, pairwise_distance, cosine_similarity: output shape and every "
               "element equal the direct definition (exactly for integer-valued conv/pool/linear/bilinear, rtol 1e-9 double / 1e-5 float where exp, sqrt or division occur); lazy view and evaluated array agree.",
    units=[U("conv1d", "harness/c17_nn.cpp", flags=["-DC17_CONV1D"], weight=3), U("conv2d", "harness/c17_nn.cpp", flags=["-DC17_CONV2D"], weight=6), U("pool", "harness/c17_nn.cpp", flags=["-DC17_POOL"], weight=3),
           U("softmax", "harness/c17_nn.cpp", flags=["-DC17_SOFTMAX"], weight=1), U("norm", "harness/c17_nn.cpp", flags=["-DC17_NORM"], weight=1), U("gnorm", "harness/c17_nn.cpp", flags=["-DC17_GNORM"], weight=1),
           U("misc", "harness/c17_nn.cpp", flags=["-DC17_MISC"], weight=1),
           U("gnorm_san", "harness/c17_nn.cpp", flags=["-DC17_GNORM"], san=True, family="gnorm", shadow=True, tiers=["thorough"], run_tier="quick", asan_options="malloc_context_size=0:symbolize=0"),
           U("misc_san", "harness/c17_nn.cpp", flags=["-DC17_MISC"], san=True, family="misc", shadow=True, tiers=["thorough"], run_tier="quick", asan_options="malloc_context_size=0:symbolize=0"),
           U("pool_san", "harness/c17_nn.cpp", flags=["-DC17_POOL"], san=True, family="pool", shadow=True, weight=3, tiers=["thorough"], run_tier="quick", asan_options="malloc_context_size=0:symbolize=0")],
    rule="case = (routine, shapes, hyper-parameters); non-trivial: conv: result has >= 2 elements or every element sums >= 2 products; pool: >= 2 elements or a window covers >= 2 in-bounds elements; softmax: axis extent >= 2; "
         "norms: each normalisation set has >= 2 elements; linear/bilinear: >= 2 terms or outputs; distances: reduced extent >= 2; distinct = distinct key",
    bounds=dict(quick="conv1d L 1..5; conv2d spatial sweep on two channel triples (H,W 1..5) + channel sweep (H,W 1..2), equal per-axis parameters; pooling H,W 1..7; norms / softmax / misc extents 1..3",
                thorough="conv1d L 1..7, batch 2 everywhere; conv2d all 22 channel triples on H,W 1..5, per-axis parameter cross for two triples; norms / softmax / misc extents 1..4; group_norm C 1..6"),
    assumptions=["pooling ceil_mode shape follows the PyTorch documentation (a window must start inside the input or its padding)", "the full conv2d cross of the quantifier (~10^8 cases) is replaced by the stated sub-grids",
                 "nmtools pooling has no padding / dilation arguments"],
    min_outcomes=2000,
)

CHECKS["C14"] = dict(
    level="model_checking", engine="E2",
    technique="bounded exhaustive exploration of functor PROGRAMS (types): every split of the attribute / operand applications of every functor (currying), every 2- and 3-chain (thorough: 4-chains over a reduced alphabet) "
              "over a 12-letter alphabet incl. the combinators swap / dup / dig / bury in every parenthesisation, and a fixed list of 32 nested views for extraction; the oracle is differential (the direct view call), every program "
              "is executed over exhaustive operand-shape and attribute menus and compared at every element",
    level_note="trusted: the direct view call as the reference (its agreement with NumPy is C03-C08's business), the shape-only model engine/nmc_ref_c14.hpp used by the enumerator, g++ 12. Bounded: the program lists and menus in the evidence.",
    level_text="(i) f[attrs...](operands...) equals the view call for every functor of array/functional (shape/indexing, ufuncs, reductions, accumulations, outer, activations, conv, pooling, batch_norm, matmul ...) and every "
               "composition of the operand count into successive (...) groups interleaved with the [attr] applications; (ii) (f*g)(x...) == f(g(x...), rest...) and all parenthesisations of 3- / 4-chains agree, binary functors and "
               "combinators in every position; (iii) apply(get_function_composition(v), get_function_operands(v)) reproduces v, the extracted operands are the original leaves by ADDRESS in order, and get_compute_graph(v) has one "
               "node per operand occurrence / alias and per operation with exactly the operation-input edges and pairwise distinct ids.",
    units=[U("cur_g%d" % g, "harness/c14_functional.cpp", flags=["-DC14_PART=1", "-DC14_GROUP=%d" % g]) for g in range(1, 9)] +
          [U("cmp2", "harness/c14_functional.cpp", flags=["-DC14_PART=2", "-DC14_LEN=2"], weight=2)] +
          [U("cmp3_s%d" % k, "harness/c14_functional.cpp", flags=["-DC14_PART=2", "-DC14_LEN=3", "-DC14_SLICE=%d" % k], weight=2, tiers=(["quick", "thorough"] if k in (0, 1, 2, 8) else ["thorough"])) for k in range(12)] +
          [U("cmp4_s%d_%d" % (k, j), "harness/c14_functional.cpp", flags=["-DC14_PART=2", "-DC14_LEN=4", "-DC14_SLICE=%d" % k, "-DC14_SUB=%d" % j], tiers=["thorough"]) for k in range(7) for j in range(7)] +
          [U("ext_g%d" % g, "harness/c14_functional.cpp", flags=["-DC14_PART=3", "-DC14_GROUP=%d" % g, "-DC14_ASSUME_ALIAS_FIX"]) for g in range(1, 4)] +
          [U("cur_g8_san", "harness/c14_functional.cpp", flags=["-DC14_PART=1", "-DC14_GROUP=8"], san=True, family="cur_g8", shadow=True, tiers=["thorough"], run_tier="quick", asan_options="malloc_context_size=0:symbolize=0"),
           U("ext_g2_san", "harness/c14_functional.cpp", flags=["-DC14_PART=3", "-DC14_GROUP=2", "-DC14_ASSUME_ALIAS_FIX"], san=True, family="ext_g2", shadow=True, tiers=["thorough"], run_tier="quick", asan_options="malloc_context_size=0:symbolize=0")],
    rule="case = (program, split / parenthesisation / check id, operand shapes, attribute lists); non-trivial = the direct evaluation has a value with >= 2 elements (extraction: >= 2 leaf occurrences for the operand check; graph always); "
         "states = distinct programs x inputs, transitions = executions; distinct = distinct key",
    bounds=dict(quick="currying: 8 functor groups, all splits; 2-chains: all 144 over 12 letters; 3-chains: 4 of the 12 slices (rightmost letter negative / subtract / sum / swap); extraction: 32 programs of depth 1..3; operand 0 from S(1..3,3)",
                thorough="all 12 3-chain slices; 4-chains over the reduced 7-letter alphabet in 5 parenthesisations; 3 extra depth-4 extraction programs; reshape menus with all 3-factorisations"),
    assumptions=["chains the library rejects at compile time (fail types / static_asserts) are counted (chains_rejected_by_compiler) and not instantiated", "fn::clip does not compile for array operands on the pinned tree",
                 "matmul with an optional operand is excluded: the direct view itself keeps a pointer to a temporary (reported under known findings)"],
    min_outcomes=2000,
)

# ---- C09 (part 2): the container-kind matrix; its unit partition is the measured table in the header comment of harness/c09_kinds.cpp
import re as _re, os as _os
def c09_kind_units():
    us = []
    src = _os.path.join(_os.path.dirname(_os.path.dirname(_os.path.abspath(__file__))), "harness", "c09_kinds.cpp")
    for line in open(src):
        m = _re.match(r"^//\s+((?:idx|view|arr)_[qt]_\w+)\s+(quick|thorough)\s+(-D.*)$", line.rstrip())
        if m:
            # quick units also run in the thorough tier (the thorough units add the deeper deviation bound)
            us.append(U("k_" + m.group(1), "harness/c09_kinds.cpp", opt="-O0", family="kinds", shards=1, flags=m.group(3).split(),
                        tiers=(["quick", "thorough"] if m.group(2) == "quick" else ["thorough"])))
    return us
CHECKS["C09"]["units"] += c09_kind_units()
CHECKS["C09"]["level_text"] += (" Kind matrix: for ~25 index functions, 18 views with shape-like arguments and 4 views over 21 array-operand kinds, a common input set of 6-10 value tuples per operation is executed under every "
                                "supported combination of argument kinds (dynamic list, tuple of ct, clipped tuple, fixed array, bounded static_vector, run-time tuple, raw C array, array of clipped) within the deviation "
                                "bound (quick: <= 1 deviation + uniform + the full kind x kind matrix of 2-argument index functions; thorough: <= 3 for index functions, <= 2 for views) and must give the observation of the "
                                "all-dynamic call; constant-typed results (to_value_v of the TYPE) and constexpr evaluation are compared with the run-time result.")
CHECKS["C09"]["rule"] += "; kind matrix: case = (operation, input index, kind id per argument); non-trivial = at least one argument departs from the dynamic kind and the combination is supported"
CHECKS["C09"]["assumptions"] += ["kind combinations whose result is a fail type are skipped and counted (skipped_unsupported), combinations that hard-error at compile time are excluded by commented tables in harness/c09_kinds.cpp (excluded_hard_error)"]
CHECKS["C09"]["only_differential"] = False    # the kind-matrix units report their own failures; the re-used harness units are filtered by family below
CHECKS["C09"]["ignore_families"] = [n for (n, s_, f, w) in C09_SRC]
