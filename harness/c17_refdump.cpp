// c17_refdump.cpp - NOT a harness: dumps results of the C17 reference model (engine only, no nmtools) as JSON lines for the NumPy
// audit c17_audit.py, which recomputes every line with independent NumPy formulas (sliding_window_view + einsum for grouped/dilated/
// strided/padded convolution, nan-padded windows for ceil_mode pooling, mean/var for the norms, einsum for bilinear, linalg.norm ...).
//   g++ -std=c++17 -O1 -I/verif/engine c17_refdump.cpp -o refdump && ./refdump | python3-vt c17_audit.py
// Expected: audited 6493 mismatches 0
#include "nmc_ref_c17.hpp"
using namespace nmc;
static std::string js(const L& v) { std::string s = "["; for (size_t i = 0; i < v.size(); i++) { if (i) s += ","; s += std::to_string(v[i]); } return s + "]"; }
static std::string ja(const RArr& a) { std::string s = "{\"shape\":" + js(a.shape) + ",\"data\":["; char b[40]; for (size_t i = 0; i < a.data.size(); i++) { if (i) s += ","; snprintf(b, sizeof b, "%.17g", a.data[i]); s += b; } return s + "]}"; }
static RArr scr(const L& shape, double scale = 1.0, double off = 0) { RArr r(shape); for (size_t i = 0; i < r.data.size(); i++) r.data[i] = off + scale * (double)(((long)i * 113 + 11) % 307 + 1); return r; }
static void out(const char* op, const std::string& params, const std::vector<RArr>& ins, const ROpt& r) {
    printf("{\"op\":\"%s\",\"p\":%s,\"in\":[", op, params.c_str()); for (size_t i = 0; i < ins.size(); i++) printf("%s%s", i ? "," : "", ja(ins[i]).c_str());
    printf("],\"out\":%s}\n", r ? ja(*r).c_str() : "null");
}
int main() {
    // conv1d / conv2d: a grid touching every parameter (incl. groups with O/g > 1, batch 2)
    for (long B = 1; B <= 2; B++) for (auto ch : std::vector<L>{{1, 1, 1}, {2, 4, 2}, {4, 2, 2}, {3, 3, 3}, {4, 4, 1}, {4, 4, 4}})
        for (long Ln : {1L, 4L, 7L}) for (long k = 1; k <= 3; k++) for (long s = 1; s <= 3; s++) for (long p = 0; p <= 2; p++) for (long d = 1; d <= 2; d++) for (int bias = 0; bias <= 1; bias++) {
            RArr x = scr({B, ch[0], Ln}), w = scr({ch[1], ch[0] / ch[2], k}, 1, 3), b = scr({ch[1]}, 1, 100);
            ROpt r = ref::convnd(x, w, bias ? &b : nullptr, {s}, {p}, {d}, ch[2]);
            std::vector<RArr> ins{x, w}; if (bias) ins.push_back(b);
            out("conv", "{\"s\":" + js({s}) + ",\"p\":" + js({p}) + ",\"d\":" + js({d}) + ",\"g\":" + std::to_string(ch[2]) + "}", ins, r);
        }
    for (auto ch : std::vector<L>{{1, 1, 1}, {2, 4, 2}, {4, 2, 2}}) for (auto hw : std::vector<L>{{1, 1}, {3, 5}, {5, 4}, {7, 7}}) for (auto kk : std::vector<L>{{1, 1}, {2, 2}, {3, 3}, {1, 3}, {3, 1}, {2, 1}})
        for (auto sp : std::vector<L>{{1, 1, 0, 0, 1, 1}, {2, 3, 1, 2, 2, 1}, {3, 1, 2, 0, 1, 2}, {2, 2, 2, 2, 2, 2}, {1, 2, 0, 1, 2, 2}}) for (int bias = 0; bias <= 1; bias++) {
            RArr x = scr({2, ch[0], hw[0], hw[1]}), w = scr({ch[1], ch[0] / ch[2], kk[0], kk[1]}, 1, 3), b = scr({ch[1]}, 1, 100);
            L s{sp[0], sp[1]}, p{sp[2], sp[3]}, d{sp[4], sp[5]};
            ROpt r = ref::convnd(x, w, bias ? &b : nullptr, s, p, d, ch[2]);
            std::vector<RArr> ins{x, w}; if (bias) ins.push_back(b);
            out("conv", "{\"s\":" + js(s) + ",\"p\":" + js(p) + ",\"d\":" + js(d) + ",\"g\":" + std::to_string(ch[2]) + "}", ins, r);
        }
    // pooling: every kernel/stride/ceil on a few shapes
    for (auto sh : std::vector<L>{{1, 1}, {4, 4}, {5, 7}, {2, 3, 6, 5}, {2, 7, 7}}) for (long kh = 1; kh <= 3; kh++) for (long kw = 1; kw <= 3; kw++) for (long s1 = 1; s1 <= 3; s1++) for (long s2 = 1; s2 <= 3; s2++) for (int c = 0; c <= 1; c++) for (int mx = 0; mx <= 1; mx++) {
        RArr x = scr(sh); ROpt r = ref::pool2d(x, {kh, kw}, {s1, s2}, c, mx);
        out("pool", "{\"k\":" + js({kh, kw}) + ",\"s\":" + js({s1, s2}) + ",\"ceil\":" + std::to_string(c) + ",\"max\":" + std::to_string(mx) + "}", {x}, r);
    }
    for (auto sh : std::vector<L>{{5}, {2, 5}, {3, 1, 4}, {2, 3, 2, 3}}) for (long a = -(long)sh.size(); a < (long)sh.size(); a++) for (int neg = 0; neg <= 1; neg++) {
        RArr x = scr(sh, 1.0 / 16); out(neg ? "softmin" : "softmax", "{\"axis\":" + std::to_string(a) + "}", {x}, ref::softmax(x, a, neg));
    }
    for (auto sh : std::vector<L>{{2, 3}, {2, 3, 4}, {2, 3, 2, 2}, {1, 1}, {2, 4, 3, 1}}) {
        RArr x = scr(sh, 0.25); long C = sh[1]; RArr m = scr({C}, 1.25, 3), v = scr({C}, 0.5, 0.75), w = scr({C}, 1, 2), b = scr({C}, 7, 100);
        out("batch_norm", "{\"eps\":1e-5}", {x, m, v, w, b}, ref::batch_norm(x, m, v, w, b, 1e-5));
        for (long k = 1; k <= (long)sh.size(); k++) { L ws(sh.end() - k, sh.end()); RArr lw = scr(ws, 1, 2), lb = scr(ws, 7, 100); out("layer_norm", "{\"eps\":1e-5}", {x, lw, lb}, ref::layer_norm(x, lw, lb, 1e-5)); }
        for (long nd = 1; nd <= 3; nd++) if ((long)sh.size() == nd + 1 || (long)sh.size() == nd + 2) { long Ci = sh[sh.size() - nd - 1]; RArr iw = scr({Ci}, 1, 2), ib = scr({Ci}, 7, 100); out("instance_norm", "{\"eps\":1e-5,\"nd\":" + std::to_string(nd) + "}", {x, iw, ib}, ref::instance_norm(x, iw, ib, nd, 1e-5)); }
        for (long g = 1; g <= C; g++) if (C % g == 0) out("group_norm", "{\"eps\":1e-5,\"g\":" + std::to_string(g) + "}", {x, w, b}, ref::group_norm(x, g, w, b, 1e-5));
    }
    for (auto sh : std::vector<L>{{4}, {3, 4}, {2, 3, 2}}) {
        RArr x = scr(sh); long in = sh.back(); RArr wv = scr({in}, 1, 2); out("linear", "{}", {x, wv}, ref::linear(x, wv, nullptr));
        for (long o = 1; o <= 3; o++) { RArr w = scr({o, in}, 1, 2), b = scr({o}, 7, 100); out("linear", "{}", {x, w}, ref::linear(x, w, nullptr)); out("linear", "{}", {x, w, b}, ref::linear(x, w, &b)); }
    }
    for (auto lead : std::vector<L>{{}, {3}, {2, 3}}) for (long i1 = 1; i1 <= 3; i1++) for (long i2 = 1; i2 <= 3; i2++) for (long o = 1; o <= 2; o++) {
        L s1(lead), s2(lead); s1.push_back(i1); s2.push_back(i2); RArr a = scr(s1), b = scr(s2, 1, 5), w = scr({o, i1, i2}, 1, 2), bi = scr({o}, 7, 100);
        out("bilinear", "{}", {a, b, w}, ref::bilinear(a, b, w, nullptr)); out("bilinear", "{}", {a, b, w, bi}, ref::bilinear(a, b, w, &bi));
    }
    for (auto pr : std::vector<std::pair<L, L>>{{{4}, {4}}, {{3, 4}, {3, 4}}, {{3, 4}, {4}}, {{3, 4}, {2, 1, 4}}, {{2, 3, 2}, {3, 2}}, {{1, 3}, {2, 3}}, {{2, 1}, {2, 3}}}) {
        RArr a = scr(pr.first, 0.5), b = scr(pr.second, 0.25, 1);
        for (long ord = 1; ord <= 2; ord++) for (int kd = 0; kd <= 1; kd++) out("pairwise_distance", "{\"ord\":" + std::to_string(ord) + ",\"eps\":1e-6,\"keepdims\":" + std::to_string(kd) + "}", {a, b}, ref::pairwise_distance(a, b, ord, 1e-6, kd));
        long d = (long)std::max(pr.first.size(), pr.second.size());
        for (long ax = -d; ax < d; ax++) out("cosine_similarity", "{\"axis\":" + std::to_string(ax) + ",\"eps\":1e-8}", {a, b}, ref::cosine_similarity(a, b, ax, 1e-8));
    }
}
