// C20 - array objects keep their invariants under resize, assign, copy, cast (E3: history BFS on the real objects)
//
// Subjects: the generic ndarray_t in all 15 shape x buffer kinds (shape: constant / clipped / fixed-dim array /
// bounded static_vector / dynamic list; buffer: fixed array / bounded static_vector / dynamic list), each in
// row- and column-major layout, plus the legacy hybrid_ndarray and dynamic_ndarray.  Two live objects per
// history.  Alphabet: default-construct, copy-construct from the other, assign-from(other|self),
// resize(shape) over a shape menu (dims 1..4, incl. shapes that change dimension, exceed a bounded capacity,
// are not representable by a fixed / clipped shape), write(position) for every element position.
// Invariants checked on BOTH objects after EVERY transition:
//   product(shape) == size() == number of addressable elements; dim == len(shape); strides() are the suffix
//   products of shape(); the offset &a(idx)-data() of every index equals the declared layout's formula
//   (bijection onto [0,N)); every element equals the model's; a refused resize returned false and changed
//   nothing; an accepted one installed exactly the requested shape.
// In every newly reached state the first object is additionally cast to other array kinds and to double
// (shape and values must be preserved).  Non-trivial state: reached by a history with a mutating operation.
#include <vector>
#include <new>
#include "nmc_bfs.hpp"
#define nmtools_malloc nmc_bfs_malloc
#define nmtools_free nmc_bfs_free
#include "nmtools/array/ndarray.hpp"
#include "nmtools/utility/cast.hpp"
#include "nmtools/constants.hpp"
#include "nmtools/verif.hpp"
#include "nmc_enum.hpp"

namespace nm = nmtools; namespace na = nmtools::array; namespace meta = nmtools::meta; namespace utl = nmtools::utl;
using nmc::bfs::Subject; using nmc::bfs::Canon; using nmc::bfs::g_arena; using nmc::bfs::g_hook_msg; using nmc::L;

// ---- route C++ allocations made by the implementation (std::vector buffers in the STL build) into the arena ----
static bool g_track = false, g_in_alloc = false;
struct Track { Track() { g_track = true; } ~Track() { g_track = false; } };
static void* my_new(size_t n) { if (g_track && !g_in_alloc) { g_in_alloc = true; void* p = g_arena.alloc(n); g_in_alloc = false; return p; } void* p = malloc(n ? n : 1); if (!p) abort(); return p; }
static void my_delete(void* p) { if (!p) return; if ((char*)p >= g_arena.base && (char*)p < g_arena.base + nmc::bfs::Arena::SIZE) { bool s = g_in_alloc; g_in_alloc = true; g_arena.free_(p); g_in_alloc = s; return; } free(p); }
void* operator new(size_t n) { return my_new(n); }
void* operator new[](size_t n) { return my_new(n); }
void operator delete(void* p) noexcept { my_delete(p); }
void operator delete[](void* p) noexcept { my_delete(p); }
void operator delete(void* p, size_t) noexcept { my_delete(p); }
void operator delete[](void* p, size_t) noexcept { my_delete(p); }

static std::string S(long v) { return std::to_string(v); }
static std::string SL(const L& v) { return nmc::str(v); }

template <typename X> static L toL(const X& s) {
    L r;
    if constexpr (meta::is_constant_index_array_v<X>) { constexpr auto v = meta::to_value_v<X>; for (size_t i = 0; i < (size_t)nm::len(v); i++) r.push_back((long)nm::at(v, i)); }
    else if constexpr (meta::is_tuple_v<X>) { meta::template_for<meta::len_v<X>>([&](auto i) { r.push_back((long)nm::at(s, i)); }); }
    else { for (size_t i = 0; i < (size_t)nm::len(s); i++) r.push_back((long)nm::at(s, i)); }
    return r;
}

// shape menu (index -> shape); the quick tier uses the first NQUICK entries
// (the menu contains pairs that differ ONLY in the leading extent - (1,3)/(2,3), (3,2)/(4,2), (2,3)/(3,3) - and only in a trailing one: a seeded change
//  that kept a stale column-major offset functor when a resize changed nothing but the leading extent was missed by the first menu, which had no such pair in the quick tier)
static const std::vector<L>& menu() { static std::vector<L> m = {{6}, {2, 3}, {3, 2}, {1, 3}, {4, 2}, {8}, {2, 2, 2}, {1, 2, 3}, {9}, {1, 1, 2, 3}, {2}, {5, 1}, {1, 5}, {1, 6}, {2, 4}, {3, 3}, {2, 3, 2}, {4, 1}, {1, 1, 1}, {1, 2, 2}}; return m; }
// (5,1) / (1,5): dim-2 requests that exceed ONE per-axis bound of the clipped kinds (4) while their element count fits the product of the bounds - a refused resize that
// must not touch the buffer (seeded change m20c replaced the per-axis pre-check by a product check; the quick menu had no such entry)
// (1,6), (2,4), (3,3): the quick tier also needs a dim-2 request ABOVE the capacity 8 of the legacy hybrid class whose trailing extent differs from the current one
// (seeded change m20f left the refused shape's strides behind; only the thorough menu had (3,3))
enum { NQUICK = 16 };
enum SK { CS, LS, FS, HS, DS, LS6 };   // shape kinds: constant, clipped (bound 4), fixed dim, bounded dim, dynamic dim, clipped (bound 6)
enum BK { FB, HB, DB };           // buffer kinds: fixed, bounded, dynamic

struct Model { L shape; std::vector<long> buf; };
using T_elem = int;

// ---- generic access -----------------------------------------------------------------------------------------------------
template <class A> static auto* flat_ptr(A& a) { return a.data(); }
template <class A, class F> static decltype(auto) with_index(const A& a, const L& idx, F&& f) {
    using shape_t = meta::remove_cvref_t<decltype(nm::shape(a))>; constexpr auto D = meta::len_v<shape_t>;
    if constexpr (D > 0) { nmtools_array<size_t, (size_t)D> ix{}; for (size_t i = 0; i < (size_t)D && i < idx.size(); i++) nm::at(ix, i) = (size_t)idx[i]; return f(ix); }
    else { nmtools_list<size_t> ix; ix.resize(idx.size()); for (size_t i = 0; i < idx.size(); i++) nm::at(ix, i) = (size_t)idx[i]; return f(ix); }
}
static long layout_offset(const L& idx, const L& shape, bool col) {
    long o = 0; size_t d = shape.size();
    if (!col) { for (size_t i = 0; i < d; i++) o = o * shape[i] + idx[i]; }
    else { for (size_t i = d; i-- > 0;) o = o * shape[i] + idx[i]; }
    return o;
}

// ---- the subject template ----------------------------------------------------------------------------------------------
enum { N_CTOR_DEF, N_CTOR_COPY, N_ASSIGN, N_ASSIGN_SELF, N_RESIZE, N_WRITE, N_ASSIGN_X };
struct Op { int kind, slot, a; };
template <class A, int SKIND, int BKIND, long SCAP, long BCAP, bool COL, bool LEGACY = false, bool GENERIC_RESIZE = false> struct NdSubject : Subject {
    // SCAP: fixed dim (FS, LS, CS) / dim capacity (HS); LS additionally: every extent <= 4.  BCAP: element count (FB) / capacity (HB)
    const char* nm_; std::vector<Op> ops; bool alive[2] = {false, false}; Model model[2]; bool cast_checked = false;
    NdSubject(const char* n) : nm_(n) {
        for (int s = 0; s < 2; s++) { ops.push_back({N_CTOR_DEF, s, 0}); ops.push_back({N_CTOR_COPY, s, 0}); ops.push_back({N_ASSIGN, s, 0}); ops.push_back({N_ASSIGN_SELF, s, 0});
            if (SKIND != CS) for (int k = 0; k < (int)menu().size(); k++) ops.push_back({N_RESIZE, s, k});
            for (int p = 0; p < 9; p++) ops.push_back({N_WRITE, s, p});
            if (LEGACY) ops.push_back({N_ASSIGN_X, s, 0}); }   // legacy classes: assignment from an array of ANOTHER kind with the same shape (their cross-type operator=)
        static_assert(sizeof(A) <= nmc::bfs::Arena::SLOT_BYTES, "slot too small");
    }
    bool thorough_ = false;
    A* obj(int s) { return (A*)g_arena.slot((size_t)s); }
    const char* name() const override { return nm_; }
    int nops() const override { return (int)ops.size(); }
    int depth(bool t) const override { const_cast<NdSubject*>(this)->thorough_ = t; return t ? 6 : 4; }
    bool mutating(int o) const override { return ops[(size_t)o].kind != N_CTOR_DEF; }
    std::string op_name(int o) const override { const Op& p = ops[(size_t)o]; std::string x = p.slot ? "b" : "a", y = p.slot ? "a" : "b";
        switch (p.kind) { case N_CTOR_DEF: return x + "=A()"; case N_CTOR_COPY: return x + "=A(" + y + ")"; case N_ASSIGN: return x + "=" + y; case N_ASSIGN_SELF: return x + "=" + x; case N_RESIZE: return x + ".resize" + SL(menu()[(size_t)p.a]); case N_ASSIGN_X: return x + "=(dynamic ndarray_t of the same shape, values 50..)"; default: return x + "[pos " + S(p.a) + "]=77"; } }
    void reset() override { alive[0] = alive[1] = false; model[0] = Model(); model[1] = Model(); }
    bool enabled(int o) override { const Op& p = ops[(size_t)o]; int s = p.slot, t = 1 - s;
        switch (p.kind) { case N_CTOR_DEF: return !alive[s]; case N_CTOR_COPY: return !alive[s] && alive[t]; case N_ASSIGN: return alive[s] && alive[t]; case N_ASSIGN_SELF: return alive[s];
            case N_RESIZE: return alive[s] && (thorough_ || p.a < NQUICK); case N_ASSIGN_X: return LEGACY && alive[s] && !model[s].shape.empty();
            default: return alive[s] && p.a < (long)model[s].buf.size() && !model[s].shape.empty(); } }
    static bool representable(const L& s) {
        long d = (long)s.size(), n = nmc::prod(s);
        if (SKIND == CS) return false;
        if ((SKIND == FS || SKIND == LS || SKIND == LS6) && d != SCAP) return false;
        if (SKIND == HS && d > SCAP) return false;
        if (SKIND == LS) for (long e : s) if (e > 4) return false;
        if (SKIND == LS6) for (long e : s) if (e > 6) return false;
        if (BKIND == FB && n != BCAP) return false;
        if (BKIND == HB && n > BCAP) return false;
        return true;
    }
    // read everything observable; "" or the violated invariant.  sync=true: adopt the implementation's shape/contents as the model
    std::string observe(int s, bool sync) {
        const A& a = *obj(s); Model& m = model[s]; std::string who = s ? "b" : "a";
        L shp = toL(nm::shape(a)); long d = (long)nm::dim(a); long n = (long)nm::size(a);
        if (d != (long)shp.size()) return who + ": dim() = " + S(d) + " but shape() = " + SL(shp);
        for (long e : shp) if (e <= 0 || e > 64) return who + ": shape() = " + SL(shp) + " has a non-positive or absurd extent";
        if (shp.empty()) { if (sync) { m.shape = shp; m.buf.clear(); } return (sync || m.shape.empty()) ? "" : who + ": shape became empty"; }
        long pn = nmc::prod(shp);
        if (pn != n) return who + ": product(shape()) = " + S(pn) + " (shape " + SL(shp) + ") but size() = " + S(n);
        if constexpr (!LEGACY) {
            long ld = (long)nm::len(a.data_);
            if (ld != n) return who + ": size() = " + S(n) + " (shape " + SL(shp) + ") but the buffer holds " + S(ld) + " elements";
            L st = toL(a.strides()), want = nmc::row_major_strides(shp);
            if (st != want) return who + ": strides() = " + SL(st) + " are not the suffix products " + SL(want) + " of shape " + SL(shp);
        } else { L st = toL(a.strides()), want = nmc::row_major_strides(shp); if (st != want) return who + ": strides() = " + SL(st) + " are not the suffix products " + SL(want) + " of shape " + SL(shp); }
        if (!sync && shp != m.shape) return who + ": shape() = " + SL(shp) + ", expected " + SL(m.shape);
        if (sync) { m.shape = shp; m.buf.assign((size_t)n, 0); }
        std::string err;
        nmc::each_index(shp, [&](const L& idx) {
            if (!err.empty()) return;
            long off = layout_offset(idx, shp, COL);
            with_index(a, idx, [&](const auto& ix) {
                long v = (long)nm::apply_at(a, ix);
                if constexpr (!LEGACY) { long got = (long)(&nm::apply_at(a, ix) - a.data()); if (got != off) { err = who + ": element " + SL(idx) + " of shape " + SL(shp) + " lives at buffer offset " + S(got) + ", the " + (COL ? "column" : "row") + "-major layout puts it at " + S(off); return; } }
                if (sync) m.buf[(size_t)off] = v; else if (m.buf[(size_t)off] != v) err = who + ": element " + SL(idx) + " = " + S(v) + ", expected " + S(m.buf[(size_t)off]);
            });
        });
        return err;
    }
    std::string apply(int o) override {
        const Op& p = ops[(size_t)o]; int s = p.slot, t = 1 - s; A* x = obj(s); std::string r;
        switch (p.kind) {
        case N_CTOR_DEF: { { Track tr; new (x) A(); } alive[s] = true; r = observe(s, true); } break;
        case N_CTOR_COPY: { { Track tr; new (x) A(*obj(t)); } alive[s] = true; model[s] = model[t]; } break;
        case N_ASSIGN: { { Track tr; *x = *obj(t); } model[s] = model[t]; } break;
        case N_ASSIGN_SELF: { Track tr; A& q = *x; *x = q; } break;
        case N_RESIZE: {
            const L& shp = menu()[(size_t)p.a]; bool want = representable(shp), got = false;
            if constexpr (SKIND != CS) {
                Track tr;
                if constexpr (LEGACY && SKIND == DS && GENERIC_RESIZE) { nmtools_static_vector<size_t, 4> sl; sl.resize(shp.size()); for (size_t i = 0; i < shp.size(); i++) nm::at(sl, i) = (size_t)shp[i]; x->resize(sl); got = true; }   // the generic index-array overload of dynamic_ndarray::resize
                else if constexpr (LEGACY && SKIND == DS) { nmtools_list<size_t> sl; sl.resize(shp.size()); for (size_t i = 0; i < shp.size(); i++) nm::at(sl, i) = (size_t)shp[i]; x->resize(sl); got = true; }
                else if constexpr (LEGACY) { if ((long)shp.size() == SCAP) { typename A::shape_type sl{}; for (size_t i = 0; i < shp.size(); i++) nm::at(sl, i) = (size_t)shp[i]; got = x->resize(sl); } else got = false; }
                else { nmtools_list<size_t> sl; sl.resize(shp.size()); for (size_t i = 0; i < shp.size(); i++) nm::at(sl, i) = (size_t)shp[i]; got = x->resize(sl); }
            }
            if (got != want) { r = std::string(s ? "b" : "a") + ".resize" + SL(shp) + " returned " + (got ? "true" : "false") + " but the shape is " + (want ? "" : "not ") + "representable by this array type (current shape " + SL(model[s].shape) + ")"; break; }
            if (got) { std::string e = observe(s, true); if (!e.empty()) { r = e; break; } if (model[s].shape != shp) r = std::string(s ? "b" : "a") + ".resize" + SL(shp) + " returned true but shape() = " + SL(model[s].shape); }
            else { std::string e = observe(s, false); if (!e.empty()) r = "after a REFUSED resize" + SL(shp) + ": " + e; }
        } break;
        case N_ASSIGN_X: if constexpr (LEGACY) {
            na::ndarray_t<nmtools_list<T_elem>, nmtools_list<size_t>> rhs; { nmtools_list<size_t> sl; sl.resize(model[s].shape.size()); for (size_t i = 0; i < model[s].shape.size(); i++) nm::at(sl, i) = (size_t)model[s].shape[i]; rhs.resize(sl); }
            long n = nmc::prod(model[s].shape); for (long i = 0; i < n; i++) { nm::at(rhs.data_, (size_t)i) = (T_elem)(50 + i); model[s].buf[(size_t)i] = 50 + i; }
            { Track tr; *x = rhs; } } break;
        default: { L idx = nmc::unflat(p.a, model[s].shape); long off = layout_offset(idx, model[s].shape, COL);
            with_index(*x, idx, [&](const auto& ix) { nm::apply_at(*x, ix) = 77; }); model[s].buf[(size_t)off] = 77; } break;
        }
        if (!r.empty()) return r;
        for (int q = 0; q < 2; q++) if (alive[q]) { std::string e = observe(q, false); if (!e.empty()) return e; }
        return "";
    }
    void canon(Canon& c) override { for (int s = 0; s < 2; s++) { c.tag(alive[s] ? 'A' : 'D'); if (alive[s]) c.raw(obj(s), sizeof(A)); } }
    // casts of the first object (pure observation, checked once per world right before it is destroyed)
    template <class R> std::string check_cast(const R& r, const char* what) {
        const Model& m = model[0];
        if constexpr (meta::is_fail_v<R>) return ""; else if constexpr (meta::is_maybe_v<R>) { if (!nm::has_value(r)) return std::string(what) + ": returned Nothing"; return check_cast(*r, what); }
        else {
            L shp = toL(nm::shape(r)); if (shp != m.shape) return std::string(what) + ": shape " + SL(shp) + " != source shape " + SL(m.shape);
            std::string err; nmc::each_index(shp, [&](const L& idx) { if (!err.empty()) return; long off = layout_offset(idx, shp, COL); with_index(r, idx, [&](const auto& ix) { double v = (double)nm::apply_at(r, ix); if (v != (double)m.buf[(size_t)off]) err = std::string(what) + ": element " + SL(idx) + " = " + std::to_string(v) + ", source has " + S(m.buf[(size_t)off]); }); });
            return err;
        }
    }
    template <class K> std::string try_cast(const A& a, const K& k, const char* what) {
        using ret_t = meta::resolve_optype_t<nm::cast_kind_t, A, K>;
        if constexpr (meta::is_fail_v<ret_t>) return ""; else { Track tr; auto c = nm::cast(a, k); g_track = false; std::string r = check_cast(c, what); g_track = true; return r; }
    }
    std::string teardown() override {
        std::string r;
        if (alive[0] && !model[0].shape.empty()) {
            // cast(array, kind) only compiles for sources with a constant shape or a fully dynamic dim (for fixed-dim / bounded-dim / clipped
            // sources the kind resolver hard-errors on its clipped branch): rejected loudly at compile time, hence not instantiated here
            if constexpr (!LEGACY && (SKIND == CS || SKIND == DS)) {
                const A& a = *obj(0);
                r = try_cast(a, na::kind::ndarray_ds_db, "cast(kind::ndarray_ds_db)");
                if (r.empty()) r = try_cast(a, na::kind::ndarray_hs_db, "cast(kind::ndarray_hs_db)");
                if (r.empty()) r = try_cast(a, na::kind::ndarray_hs_hb, "cast(kind::ndarray_hs_hb)");
                if (r.empty()) r = try_cast(a, na::kind::ndarray_fs_db, "cast(kind::ndarray_fs_db)");
                if (r.empty()) r = try_cast(a, na::kind::ndarray_fs_fb, "cast(kind::ndarray_fs_fb)");
                if (r.empty()) r = try_cast(a, na::kind::ndarray_ds_hb, "cast(kind::ndarray_ds_hb)");
                // NOTE: cast<dtype>(ndarray_t) is rejected at compile time (replace_element_type has no ndarray_t case): dtype casts are exercised on raw/legacy arrays in the cast cases below
            }
        }
        { Track tr; for (int s = 1; s >= 0; s--) if (alive[s]) { obj(s)->~A(); alive[s] = false; } }
        model[0] = Model(); model[1] = Model();
        if (!r.empty()) return r;
        if (g_arena.live() != 0) return "memory leak: " + S(g_arena.live()) + " block(s) still allocated after every array was destroyed";
        if (g_arena.bad_free) return g_arena.first_bad;
        return "";
    }
};

// ---- the array types ------------------------------------------------------------------------------------------------------
using T_ = int;
using cs_t = nmtools_tuple<meta::ct<2>, meta::ct<3>>;
using ls_t = nmtools_array<nm::clipped_size_t<4>, 2>;
using ls6_t = nmtools_array<nm::clipped_size_t<6>, 2>;   // for the fixed 6-element buffer: its default shape (1,6) must be representable
using fs_t = nmtools_array<size_t, 2>;
using hs_t = nmtools_static_vector<size_t, 3>;
using ds_t = nmtools_list<size_t>;
using fb_t = nmtools_array<T_, 6>;
using hb_t = nmtools_static_vector<T_, 8>;
using db_t = nmtools_list<T_>;
template <class B, class Sh> using row_t = na::ndarray_t<B, Sh>;
template <class B, class Sh> using col_t = na::column_major_ndarray_t<B, Sh>;

using namespace nmc::bfs;
#define REGND(id, ...) static Register reg_##id(#id, []() -> std::unique_ptr<Subject> { return std::unique_ptr<Subject>(new __VA_ARGS__(#id)); })
#define BOTH(tag, Sh, B, SKIND, BKIND, SCAP, BCAP) \
    REGND(tag##_row, NdSubject<row_t<B, Sh>, SKIND, BKIND, SCAP, BCAP, false>); \
    REGND(tag##_col, NdSubject<col_t<B, Sh>, SKIND, BKIND, SCAP, BCAP, true>)
#if !defined(C20_GROUP) || C20_GROUP == 1
BOTH(cs_fb, cs_t, fb_t, CS, FB, 2, 6);
BOTH(cs_hb, cs_t, hb_t, CS, HB, 2, 8);
BOTH(cs_db, cs_t, db_t, CS, DB, 2, 0);
BOTH(ls_fb, ls6_t, fb_t, LS6, FB, 2, 6);
REGND(ls4_fb_row, NdSubject<row_t<fb_t, ls_t>, LS, FB, 2, 6, false>);   // bound 4 < default extent 6: the default-constructed shape is silently clamped (known finding)
BOTH(ls_hb, ls_t, hb_t, LS, HB, 2, 8);
BOTH(ls_db, ls_t, db_t, LS, DB, 2, 0);
#endif
#if !defined(C20_GROUP) || C20_GROUP == 2
BOTH(fs_fb, fs_t, fb_t, FS, FB, 2, 6);
BOTH(fs_hb, fs_t, hb_t, FS, HB, 2, 8);
BOTH(fs_db, fs_t, db_t, FS, DB, 2, 0);
#endif
#if !defined(C20_GROUP) || C20_GROUP == 3
BOTH(hs_fb, hs_t, fb_t, HS, FB, 3, 6);
BOTH(hs_hb, hs_t, hb_t, HS, HB, 3, 8);
BOTH(hs_db, hs_t, db_t, HS, DB, 3, 0);
#endif
#if !defined(C20_GROUP) || C20_GROUP == 4
BOTH(ds_fb, ds_t, fb_t, DS, FB, 0, 6);
BOTH(ds_hb, ds_t, hb_t, DS, HB, 0, 8);
BOTH(ds_db, ds_t, db_t, DS, DB, 0, 0);
REGND(legacy_hybrid, NdSubject<na::hybrid_ndarray<T_, 8, 2>, FS, HB, 2, 8, false, true>);
REGND(legacy_dynamic, NdSubject<na::dynamic_ndarray<T_>, DS, DB, 0, 0, false, true>);
REGND(legacy_dynamic_generic_resize, NdSubject<na::dynamic_ndarray<T_>, DS, DB, 0, 0, false, true, true>);   // resize through the generic index-array overload (a seeded change left its cached strides stale)
#endif

static void bounds_sink(int site, long long i, long long n) { if ((i < 0 || i >= n) && g_hook_msg.empty()) g_hook_msg = "index " + S(i) + " used on a container / axis of extent " + S(n) + " (hook site " + S(site) + ")"; }

static void selftest() {
    // the invariant checker must see (1) a wrong layout, (2) a stale stride, (3) a refused resize that mutates
    if (layout_offset({1, 2}, {2, 3}, false) != 5 || layout_offset({1, 2}, {2, 3}, true) != 5 || layout_offset({1, 0}, {2, 3}, true) != 1 || layout_offset({0, 1}, {2, 3}, false) != 1) die("selftest: layout formula");
    g_arena.reset();
    using A = row_t<db_t, ds_t>; NdSubject<A, DS, DB, 0, 0, true> wrong("selftest");   // a row-major array declared column-major must be flagged
    wrong.reset(); std::string r = wrong.apply(0); if (!r.empty()) die("selftest: default construction flagged");
    int rz = -1; for (int o = 0; o < wrong.nops(); o++) if (wrong.ops[(size_t)o].kind == N_RESIZE && wrong.ops[(size_t)o].slot == 0 && wrong.ops[(size_t)o].a == 1) rz = o;
    r = wrong.apply(rz); if (r.empty()) die("selftest: oracle blind to a wrong layout");
    wrong.teardown(); g_arena.reset();
    NdSubject<A, DS, HB, 0, 4, false> cap("selftest2");   // model says capacity 4, the array accepts (2,3): must be flagged as accepts-unrepresentable
    cap.reset(); cap.apply(0); r = cap.apply(rz); if (r.empty()) die("selftest: oracle blind to a resize verdict that disagrees with the model"); cap.teardown(); g_arena.reset();
}

int main(int argc, char** argv) {
    nmtools::verif::on_bounds = bounds_sink;
    return nmc::bfs::main_(argc, argv, selftest);
}
