// C18 - isequal / isclose are exact comparison oracles: shape-aware, symmetric, total (E1; built with and without NDEBUG)
#include "nmtools/array/ndarray.hpp"
#include "nmtools/array/ndarray/fixed.hpp"
#include "nmtools/utility/isequal.hpp"
#include "nmtools/utility/isclose.hpp"
#include "nmtools/array/view/transpose.hpp"
#define NMC_MAIN
#include "common.hpp"

const char* nmc_property() { return "C18"; }
namespace utils = nmtools::utils;

// ndarray kinds: 0 dynamic (list buffer, list shape)  1 hybrid shape (static_vector<size_t,4>)  2 a lazy view (double transpose) of kind 0
// index-array kinds: 0 list<int> 1 array<int,N> 2 run-time tuple 3 static_vector<int,6>
// value grids per element type for the mixed-type isclose cases (all values exactly representable in their type)
static const std::vector<double>& mix_grid(long t) {
    static const std::vector<double> gi = {-1, 0, 1, 2, 255}, gf = {-1, -0.5, 0, 0.5, 0.999, 1, 1.5, 2, 254.75, 255}, gu = {0, 1, 2, 255};
    return (t == 0) ? gi : (t == 1 || t == 2) ? gf : gu;
}
static long mix_grid_size(long t) { return (long)mix_grid(t).size(); }
static double mix_value(long t, long i) { double v = mix_grid(t)[(size_t)i]; return t == 2 ? (double)(float)v : v; }
static const double MIX_EPS[3] = {0.25, 0.75, 1.25};

void nmc_enumerate(const nmc::Tier& t, const nmc::Sink& emit) {
    std::vector<L> S; nmc::each_shape_range(1, 3, 3, [&](const L& s) { S.push_back(s); });
    for (auto& a : S) for (auto& b : S) {
        long nb = nmc::prod(b);
        for (int ka = 0; ka < 3; ka++) for (int kb = 0; kb < 3; kb++) {
            if (!t.thorough() && ka + kb > 0 && !(ka == kb || ka == 0)) continue;
            emit(Case("nd", {{ka, kb}, a, b, {-1}}));
            if (a == b) for (long p = 0; p < nb; p++) emit(Case("nd", {{ka, kb}, a, b, {p}}));
            else if (nmc::prod(a) == nb && ka == 0 && kb == 0) { emit(Case("nd", {{0, 0}, a, b, {0}})); emit(Case("nd", {{0, 0}, a, b, {nb - 1}})); }
        }
        emit(Case("close", {a, b, {-1}, {0}}));
        if (a == b) for (long p = 0; p < nb; p++) for (long m = 1; m <= 3; m++) emit(Case("close", {a, b, {p}, {m}}));
    }
    // index arrays: lengths 1..4, prefix / longer / perturbed at each position, kinds 4x4
    for (long la = 1; la <= 4; la++) for (long lb = 1; lb <= 4; lb++) for (int ka = 0; ka < 4; ka++) for (int kb = 0; kb < 4; kb++) {
        emit(Case("ia", {{ka, kb}, {la}, {lb}, {-1}}));
        if (la == lb) for (long p = 0; p < la; p++) emit(Case("ia", {{ka, kb}, {la}, {lb}, {p}}));
    }
    // scalars
    for (long x = -2; x <= 2; x++) for (long y = -2; y <= 2; y++) emit(Case("num", {{x}, {y}}));
    // optionals / eithers / tuples
    for (int sa = 0; sa < 3; sa++) for (int sb = 0; sb < 3; sb++) emit(Case("maybe", {{sa}, {sb}}));       // 0 empty, 1 value v, 2 value w
    for (int sa = 0; sa < 4; sa++) for (int sb = 0; sb < 4; sb++) emit(Case("either", {{sa}, {sb}}));     // 0 left v, 1 left w, 2 right x, 3 right y
    for (int pa = 0; pa < 4; pa++) for (int pb = 0; pb < 4; pb++) emit(Case("tuple", {{pa}, {pb}}));
    // operands of DIFFERENT element types (int, double, float, uint8, uint32): every value pair of the two types' grids, three tolerances, as scalars and as
    // 1-d arrays (the pair sits in the middle of three elements), in both operand orders (symmetry)
    for (long ta = 0; ta < 5; ta++) for (long tb = 0; tb < 5; tb++) for (long form = 0; form < 2; form++)
        for (long i = 0; i < mix_grid_size(ta); i++) for (long j = 0; j < mix_grid_size(tb); j++) for (long e = 0; e < 3; e++)
            emit(Case("closemix", {{ta, tb}, {form}, {i, j}, {e}}));
    // operands whose SIZE is known at compile time (raw C arrays, fixed_ndarray): every ordered pair of the shapes (2,3), (3,2), (1,6), (6,1) - same element count, and for the
    // unperturbed variant the same row-major contents - plus a perturbed element; a comparison that looks at the fixed sizes instead of the shapes answers true (seeded change m18d)
    for (long ia = 0; ia < 4; ia++) for (long ib = 0; ib < 4; ib++) for (long kind = 0; kind < 2; kind++) for (long p = -1; p < 6; p += (p == -1 ? 1 : 5)) emit(Case("ndfix", {{ia, ib}, {kind}, {p}}));
    // NaN: a difference that is NaN is not below any tolerance (default build: the NaN / inf handling macros are off) - scalars and one array element, both orders
    for (long form = 0; form < 2; form++) for (long w = 0; w < 3; w++) emit(Case("closenan", {{form}, {w}}));
    // isclose over wrapped operands with an EXPLICIT tolerance: form (0 maybe<double>, 1 either<none,double> right alternatives, 2 either<double,none> left alternatives,
    // 3 tuple<double,double>, 4 maybe<ndarray>, 5 either<int-list,double-array> right alternatives) x (difference, eps) pairs on either side of the tolerance and on either
    // side of the DEFAULT 1e-6 (a recursive call that forgets to forward eps compares with the default; seeded change m18c)
    for (long form = 0; form < 6; form++) for (long pr = 0; pr < 6; pr++) emit(Case("closewrap", {{form}, {pr}}));
    // ndarray operand vs maybe<ndarray>
    for (auto& a : S) for (auto& b : S) { if (a.size() > 2 || b.size() > 2) continue; emit(Case("nd_maybe", {a, b, {0}})); emit(Case("nd_maybe", {a, b, {1}})); }
}

using hyb_t = na::ndarray_t<nmtools_list<long>, nmtools_static_vector<size_t, 4>>;
template <typename F> static auto with_nd(int kind, const RArr& r, F&& f) {
    auto a = make_arr<long>(r);
    switch (kind) {
    case 0: return f(a);
    case 1: { hyb_t h; nmtools_static_vector<size_t, 4> s; s.resize(r.shape.size()); for (size_t i = 0; i < r.shape.size(); i++) s[i] = (size_t)r.shape[i]; h.resize(s); for (size_t i = 0; i < r.data.size(); i++) h.data_[i] = (long)r.data[i]; return f(h); }
    default: { L p((size_t)r.dim()); for (int i = 0; i < r.dim(); i++) p[(size_t)i] = r.dim() - 1 - i; RArr tr = *ref::transpose(r, nullptr); auto b = make_arr<long>(tr); const auto v = view::transpose(b); return f(nm::unwrap(v)); }
    }
}
template <size_t N> static auto mk_arr(const L& v) { nmtools_array<int, N> a{}; for (size_t i = 0; i < N; i++) a[i] = (int)v[i]; return a; }
template <size_t... I> static auto mk_tup(const L& v, std::index_sequence<I...>) { return nmtools_tuple<decltype((void)I, int{})...>{(int)v[I]...}; }
template <typename F> static auto with_ia(int kind, const L& v, F&& f) {
    switch (kind) {
    case 0: return f(to_il(v));
    case 3: { nmtools_static_vector<int, 6> s; s.resize(v.size()); for (size_t i = 0; i < v.size(); i++) s[i] = (int)v[i]; return f(s); }
    case 1: switch (v.size()) { case 1: return f(mk_arr<1>(v)); case 2: return f(mk_arr<2>(v)); case 3: return f(mk_arr<3>(v)); default: return f(mk_arr<4>(v)); }
    default: switch (v.size()) { case 1: return f(mk_tup(v, std::make_index_sequence<1>{})); case 2: return f(mk_tup(v, std::make_index_sequence<2>{})); case 3: return f(mk_tup(v, std::make_index_sequence<3>{})); default: return f(mk_tup(v, std::make_index_sequence<4>{})); }
    }
}

template <typename A, typename B> static int eq_(const A& a, const B& b);
// isequal may be rejected at compile time for a pair (static_assert / fail type): those pairs are not instantiated (loud, not semantic)
template <typename A, typename B> static int eq(const A& a, const B& b) {
    // two fixed-size packed operands of different length are rejected by a static_assert (loud): not instantiated
    if constexpr (meta::has_tuple_size_v<A> && meta::has_tuple_size_v<B>) { if constexpr (meta::len_v<A> != meta::len_v<B>) return -1; else return eq_(a, b); }
    else return eq_(a, b);
}
template <typename A, typename B> static int eq_(const A& a, const B& b) {
    using R = decltype(utils::isequal(a, b));
    if constexpr (std::is_convertible_v<R, bool>) return utils::isequal(a, b) ? 1 : 0; else return -1;
}
static Outcome decide(const char* what, int got, int rev, bool want, bool nontriv, uint64_t h) {
    if (got < 0) return Outcome::ok(false, 1);   // pairing not accepted by the API
    if (got != (want ? 1 : 0)) return Outcome::bad("wrong", std::string(what) + " returned " + (got ? "true" : "false") + ", expected " + (want ? "true" : "false"), nontriv, h + got);
    if (rev >= 0 && rev != got) return Outcome::bad("wrong", std::string(what) + " is not symmetric: f(a,b)=" + std::to_string(got) + " f(b,a)=" + std::to_string(rev), nontriv, h + got);
    return Outcome::ok(nontriv, h + got);
}

Outcome nmc_execute(const Case& c) {
    if (c.op == "nd") {
        RArr ra = RArr::iota(c.a[1]), rb = RArr::iota(c.a[2]); long p = c.a[3][0]; if (p >= 0) rb.data[(size_t)p] += 100;
        bool want = ra.shape == rb.shape && ra.data == rb.data;
        int got = with_nd((int)c.a[0][0], ra, [&](const auto& a) { return with_nd((int)c.a[0][1], rb, [&](const auto& b) { return eq(a, b); }); });
        int rev = with_nd((int)c.a[0][1], rb, [&](const auto& b) { return with_nd((int)c.a[0][0], ra, [&](const auto& a) { return eq(b, a); }); });
        int refl = with_nd((int)c.a[0][0], ra, [&](const auto& a) { return eq(a, a); });
        if (refl == 0) return Outcome::bad("wrong", "isequal(a,a) is false");
        return decide("isequal(ndarray,ndarray)", got, rev, want, ra.shape != rb.shape || p >= 0, nmc::hash_vec(c.a[1]) ^ nmc::mix(nmc::hash_vec(c.a[2])));
    }
    if (c.op == "close") {
        RArr ra = RArr::iota(c.a[0]), rb = RArr::iota(c.a[1]); long p = c.a[2][0]; double eps = 1e-3; double delta = 0;
        if (p >= 0) { delta = eps * (c.a[3][0] == 1 ? 0.5 : (c.a[3][0] == 2 ? 2.0 : 64.0)); rb.data[(size_t)p] += delta; }
        bool want = ra.shape == rb.shape && delta < eps;
        auto a = make_arr<double>(ra); auto b = make_arr<double>(rb);
        int got = utils::isclose(a, b, eps) ? 1 : 0, rev = utils::isclose(b, a, eps) ? 1 : 0;
        return decide("isclose(ndarray,ndarray)", got, rev, want, true, nmc::hash_vec(c.a[0]) ^ nmc::mix(nmc::hash_vec(c.a[1])) ^ (uint64_t)c.a[3][0]);
    }
    if (c.op == "ia") {
        long la = c.a[1][0], lb = c.a[2][0], p = c.a[3][0]; L a, b; for (long i = 0; i < la; i++) a.push_back(i + 1); for (long i = 0; i < lb; i++) b.push_back(i + 1); if (p >= 0) b[(size_t)p] += 10;
        bool want = a == b;
        int got = with_ia((int)c.a[0][0], a, [&](const auto& x) { return with_ia((int)c.a[0][1], b, [&](const auto& y) { return eq(x, y); }); });
        int rev = with_ia((int)c.a[0][1], b, [&](const auto& y) { return with_ia((int)c.a[0][0], a, [&](const auto& x) { return eq(y, x); }); });
        return decide("isequal(index array,index array)", got, rev, want, la != lb || p >= 0, (uint64_t)(la * 64 + lb * 8 + p + 2));
    }
    if (c.op == "num") { long x = c.a[0][0], y = c.a[1][0]; int got = eq(x, (int)y), rev = eq((int)y, x); return decide("isequal(num,num)", got, rev, x == y, true, (uint64_t)(x * 7 + y + 40)); }
    if (c.op == "maybe") {
        auto mk = [](long s) { nmtools_maybe<nmtools_list<int>> m; if (s == 1) m = nmtools_list<int>{1, 2}; if (s == 2) m = nmtools_list<int>{1, 3}; return m; };
        auto a = mk(c.a[0][0]), b = mk(c.a[1][0]);
        bool want = c.a[0][0] == c.a[1][0];
        int got = eq(a, b), rev = eq(b, a);
        Outcome o = decide("isequal(maybe,maybe)", got, rev, want, true, (uint64_t)(c.a[0][0] * 3 + c.a[1][0] + 70));
        if (!o.fail.empty()) return o;
        // maybe vs plain value, maybe vs Nothing
        if (c.a[1][0] > 0) { int g2 = eq(a, *b), r2 = eq(*b, a); Outcome o2 = decide("isequal(maybe,value)", g2, r2, want, true, o.outcome); if (!o2.fail.empty()) return o2; }
        int g3 = eq(a, meta::Nothing), r3 = eq(meta::Nothing, a);
        return decide("isequal(maybe,Nothing)", g3, r3, c.a[0][0] == 0, true, o.outcome);
    }
    if (c.op == "either") {
        using E = nmtools_either<nmtools_list<int>, int>;
        auto mk = [](long s) { switch (s) { case 0: return E{nmtools_list<int>{1, 2}}; case 1: return E{nmtools_list<int>{1, 3}}; case 2: return E{4}; default: return E{5}; } };
        auto a = mk(c.a[0][0]), b = mk(c.a[1][0]);
        int got = eq(a, b), rev = eq(b, a);
        return decide("isequal(either,either)", got, rev, c.a[0][0] == c.a[1][0], true, (uint64_t)(c.a[0][0] * 4 + c.a[1][0] + 90));
    }
    if (c.op == "tuple") {
        auto mk = [](long s) { return nmtools_tuple{nmtools_list<int>{1, (int)(2 + (s & 1))}, (int)(7 + (s >> 1))}; };
        auto a = mk(c.a[0][0]), b = mk(c.a[1][0]);
        int got = eq(a, b), rev = eq(b, a);
        return decide("isequal(tuple,tuple)", got, rev, c.a[0][0] == c.a[1][0], true, (uint64_t)(c.a[0][0] * 4 + c.a[1][0] + 110));
    }
    if (c.op == "nd_maybe") {
        RArr ra = RArr::iota(c.a[0]), rb = RArr::iota(c.a[1]); auto a = make_arr<long>(ra);
        nmtools_maybe<arr_t> mb; if (c.a[2][0]) mb = make_arr<long>(rb);
        bool want = c.a[2][0] && ra.shape == rb.shape;
        int got = eq(a, mb), rev = eq(mb, a);
        return decide("isequal(ndarray,maybe<ndarray>)", got, rev, want, true, nmc::hash_vec(c.a[0]) ^ nmc::mix(nmc::hash_vec(c.a[1])) ^ (uint64_t)c.a[2][0]);
    }
    if (c.op == "ndfix") {
        long ia = c.a[0][0], ib = c.a[0][1], kind = c.a[1][0], p = c.a[2][0];
        static const long SH[4][2] = {{2, 3}, {3, 2}, {1, 6}, {6, 1}};
        const bool want = ia == ib && p < 0;
        int got = -1, rev = -1, gotc = -1;
        auto with_shape = [&](long i, auto&& f) { switch (i) { case 0: return f(meta::ct_v<2>, meta::ct_v<3>); case 1: return f(meta::ct_v<3>, meta::ct_v<2>); case 2: return f(meta::ct_v<1>, meta::ct_v<6>); default: return f(meta::ct_v<6>, meta::ct_v<1>); } };
        with_shape(ia, [&](auto ra, auto ca) { return with_shape(ib, [&](auto rb, auto cb) {
            constexpr size_t RA = decltype(ra)::value, CA = decltype(ca)::value, RB = decltype(rb)::value, CB = decltype(cb)::value;
            auto run = [&](auto& a, auto& b) {
                long k = 0; for (size_t i = 0; i < RA; i++) for (size_t j = 0; j < CA; j++) nm::at(a, i, j) = (int)(++k);
                k = 0; for (size_t i = 0; i < RB; i++) for (size_t j = 0; j < CB; j++) { ++k; nm::at(b, i, j) = (int)(k + ((k - 1) == p ? 100 : 0)); }
                got = eq(a, b); rev = eq(b, a); gotc = utils::isclose(a, b, 1e-3) ? 1 : 0;
            };
            if (kind == 0) { int a[RA][CA]; int b[RB][CB]; run(a, b); }
            else { na::fixed_ndarray<int, RA, CA> a; na::fixed_ndarray<int, RB, CB> b; run(a, b); }
            return 0; }); });
        Outcome o = decide(kind == 0 ? "isequal(raw array, raw array)" : "isequal(fixed_ndarray, fixed_ndarray)", got, rev, want, true, (uint64_t)(ia * 4 + ib) * 64 + (uint64_t)(p + 2) * 3 + (uint64_t)kind + 9000);
        if (!o.fail.empty()) { o.fail += std::string("  [shapes (") + std::to_string(SH[ia][0]) + "," + std::to_string(SH[ia][1]) + ") vs (" + std::to_string(SH[ib][0]) + "," + std::to_string(SH[ib][1]) + ")]"; return o; }
        if (gotc >= 0 && gotc != (want ? 1 : 0)) return Outcome::bad("wrong", std::string("isclose of two fixed-size operands returned ") + (gotc ? "true" : "false"), true, o.outcome);
        return o;
    }
    if (c.op == "closenan") {
        long form = c.a[0][0], w = c.a[1][0]; const double nan = std::nan("");
        const double x = w == 1 ? 1.0 : nan, y = w == 0 ? 1.0 : nan;   // w: 0 (nan, 1)  1 (1, nan)  2 (nan, nan)
        int got, rev;
        if (form == 0) { got = utils::isclose(x, y, 1e-3) ? 1 : 0; rev = utils::isclose(y, x, 1e-3) ? 1 : 0; }
        else { auto a = make_arr<double>(L{3}), b = make_arr<double>(L{3}); for (int i = 0; i < 3; i++) { a.data_[(size_t)i] = i; b.data_[(size_t)i] = i; } a.data_[1] = x; b.data_[1] = y; got = utils::isclose(a, b, 1e-3) ? 1 : 0; rev = utils::isclose(b, a, 1e-3) ? 1 : 0; }
#if defined(NMTOOLS_ISCLOSE_NAN_HANDLING) && NMTOOLS_ISCLOSE_NAN_HANDLING
        const bool want = w == 2;
#else
        const bool want = false;
#endif
        return decide(form ? "isclose(array with a NaN element, array)" : "isclose(NaN operand)", got, rev, want, true, (uint64_t)(form * 3 + w) + 9900);
    }
    if (c.op == "closewrap") {
        static const double DELTA[6] = {0.5, 0.5, 1e-8, 1e-8, 0.0, 3e-7}, EPS[6] = {1.0, 0.25, 1e-9, 1e-6, 1e-9, 1e-7};
        long form = c.a[0][0], pr = c.a[1][0]; const double delta = DELTA[pr], eps = EPS[pr]; const bool want = delta < eps;
        const double x = 1.0, y = 1.0 + delta;
        int got = -1, rev = -1;
        auto both_ways = [&](const auto& a, const auto& b) { got = utils::isclose(a, b, eps) ? 1 : 0; rev = utils::isclose(b, a, eps) ? 1 : 0; };
        switch (form) {
        case 0: { nmtools_maybe<double> a = x, b = y; both_ways(a, b); break; }
        case 1: { using E = nmtools_either<nm::none_t, double>; E a{x}, b{y}; both_ways(a, b); break; }
        case 2: { using E = nmtools_either<double, nm::none_t>; E a{x}, b{y}; both_ways(a, b); break; }
        case 3: { auto a = nmtools_tuple{x, 2.0}, b = nmtools_tuple{y, 2.0}; both_ways(a, b); break; }
        case 4: { auto p = make_arr<double>(L{2}), q = make_arr<double>(L{2}); p.data_[0] = 2; q.data_[0] = 2; p.data_[1] = x; q.data_[1] = y; nmtools_maybe<decltype(p)> a = p, b = q; both_ways(a, b); break; }
        default: { using E = nmtools_either<nmtools_list<int>, nmtools_array<double, 2>>; E a{nmtools_array<double, 2>{2.0, x}}, b{nmtools_array<double, 2>{2.0, y}}; both_ways(a, b); break; }
        }
        static const char* FN[6] = {"maybe<double>", "either<none,double> (right)", "either<double,none> (left)", "tuple<double,double>", "maybe<ndarray>", "either<list,array<double,2>> (right)"};
        char what[160]; snprintf(what, sizeof what, "isclose(%s: 1 vs 1+%g, eps %g)", FN[form], delta, eps);
        return decide(what, got, rev, want, true, (uint64_t)(form * 16 + pr) + 7000);
    }
    if (c.op == "closemix") {
        long ta = c.a[0][0], tb = c.a[0][1], form = c.a[1][0]; double va = mix_value(ta, c.a[2][0]), vb = mix_value(tb, c.a[2][1]), eps = MIX_EPS[c.a[3][0]];
        bool want = std::fabs(va - vb) < eps;
        auto with_t = [&](long t, auto&& f) { switch (t) { case 0: return f(int{}); case 1: return f(double{}); case 2: return f(float{}); case 3: return f(uint8_t{}); default: return f(uint32_t{}); } };
        int got = -1, rev = -1;
        with_t(ta, [&](auto xa) { return with_t(tb, [&](auto xb) {
            using TA = decltype(xa); using TB = decltype(xb);
            if (form == 0) { TA a = (TA)va; TB b = (TB)vb; got = utils::isclose(a, b, eps) ? 1 : 0; rev = utils::isclose(b, a, eps) ? 1 : 0; }
            else { auto a = make_arr<TA>(L{3}); auto b = make_arr<TB>(L{3}); a.data_[0] = 1; b.data_[0] = 1; a.data_[2] = 2; b.data_[2] = 2; a.data_[1] = (TA)va; b.data_[1] = (TB)vb;
                   got = utils::isclose(a, b, eps) ? 1 : 0; rev = utils::isclose(b, a, eps) ? 1 : 0; }
            return 0; }); });
        static const char* TN[5] = {"int", "double", "float", "uint8", "uint32"};
        char what[160]; snprintf(what, sizeof what, "isclose(%s %g, %s %g, eps %g)%s", TN[ta], va, TN[tb], vb, eps, form ? " [1-d arrays]" : "");
        return decide(what, got, rev, want, ta != tb, (uint64_t)(ta * 5 + tb) * 1000003ULL + (uint64_t)(c.a[2][0] * 64 + c.a[2][1] * 4 + c.a[3][0]) + (uint64_t)form * 977);
    }
    nmc::die("unknown op");
}

void nmc_selftest() {
    // the decision procedure must see an oracle that ignores the shape
    Outcome o = decide("selftest", 1, 1, false, true, 0);
    if (o.fail.empty()) nmc::die("selftest: decide blind to a wrong 'true'");
    Outcome a = decide("selftest", 1, 0, true, true, 0);
    if (a.fail.empty()) nmc::die("selftest: decide blind to asymmetry");
}
