// C08 - reductions and accumulations fold exactly the addressed elements, in order (E1)
#include "nmtools/array/array/ufuncs/add.hpp"
#include "nmtools/array/array/ufuncs/multiply.hpp"
#include "nmtools/array/array/ufuncs/subtract.hpp"
#include "nmtools/array/array/ufuncs/maximum.hpp"
#include "nmtools/array/array/ufuncs/minimum.hpp"
#include "nmtools/array/array/ufuncs/logical_and.hpp"
#include "nmtools/array/array/ufuncs/logical_or.hpp"
#include "nmtools/array/array/sum.hpp"
#include "nmtools/array/array/prod.hpp"
#include "nmtools/array/array/ufuncs/amax.hpp"
#include "nmtools/array/array/ufuncs/amin.hpp"
#include "nmtools/array/array/mean.hpp"
#include "nmtools/array/array/var.hpp"
#include "nmtools/array/array/stddev.hpp"
#include "nmtools/array/view/cumsum.hpp"
#include "nmtools/array/view/cumprod.hpp"
#include "nmtools/array/array/vector_norm.hpp"
#include "nmtools/array/array/trace.hpp"
#define NMC_MAIN
#include "common.hpp"

const char* nmc_property() { return "C08"; }

enum { ADD, MUL, SUB, MAX, MIN, LAND, LOR, NOPS };
// flags: {keepdims mode 0 absent 1 True 2 False 3 run-time true 4 run-time false, initial 0/1, dtype 0 none 1 int64 2 float64}

static void axis_lists(long d, bool thorough, const std::function<void(const L&)>& f) {
    for (long k = 1; k <= d; k++) nmc::each_arrangement((int)d, (int)k, [&](const L& ax) {
        f(ax);
        L neg(ax); for (auto& v : neg) v -= d; f(neg);
        if (k >= 2) { L mix(ax); mix[0] -= d; f(mix); if (thorough) { L m2(ax); m2.back() -= d; f(m2); } }
    });
}

void nmc_enumerate(const nmc::Tier& t, const nmc::Sink& emit) {
    long e = t.thorough() ? 4 : 3;
    // operands whose DIMENSION is known statically (fixed-dim ndarray, nested fixed arrays): a reduction over every axis then has a SCALAR result type and
    // goes through the view's conversion operator instead of its indexing operator (a path the all-dynamic operands below never take; found missing by a seeded change)
    for (int op : {ADD, MUL, MAX}) for (long kind = 0; kind < 1; kind++)   /* a bounded buffer under a fixed-dim shape is rejected by eval at compile time */ for (long in = 0; in <= 1; in++) for (long kd = 0; kd <= 2; kd++) {
        for (long n = 1; n <= e; n++) for (long sp = 0; sp < 4; sp++) emit(Case("red_fd1", {{op}, {n}, {kind, sp}, {kd, in}}));
        for (long n = 1; n <= 3; n++) for (long m = 1; m <= 3; m++) for (long sp = 0; sp < 6; sp++) emit(Case("red_fd2", {{op}, {n, m}, {kind, sp}, {kd, in}}));
    }
    nmc::each_shape_range(1, 4, e, [&](const L& s) {
        long d = (long)s.size();
        // ADD: the full option cross; other ops: keepdims absent/True, no initial/dtype (the option plumbing is shared)
        for (int op = 0; op < NOPS; op++) {
            std::vector<L> flagsets;
            if (op == ADD) { for (long kd = 0; kd <= 4; kd++) for (long in = 0; in <= 1; in++) for (long dt = 0; dt <= 2; dt++) flagsets.push_back({kd, in, dt}); }
            else if (op == MUL || op == MAX) { flagsets = {{0, 0, 0}, {1, 0, 0}, {3, 1, 0}, {0, 1, 2}}; }
            else if (op == LAND || op == LOR) flagsets = {{0, 0, 0}};
            else flagsets = {{0, 0, 0}, {1, 0, 0}};
            for (auto& fl : flagsets) {
                if (op == SUB) {   // non-commutative, non-associative: fold order observable; single axes only (NumPy: not reorderable)
                    for (long a = -d; a < d; a++) emit(Case("red1", {{op}, s, {a}, fl}));
                    continue;
                }
                emit(Case("red_none", {{op}, s, fl}));
                for (long a = -d; a < d; a++) emit(Case("red1", {{op}, s, {a}, fl}));
                if (op == ADD && fl[1] + fl[2] > 0 && d >= 3 && !t.thorough()) { // option cross on multi-axis lists: sorted subsets only
                    nmc::each_subset((int)d, [&](const L& ax) { if (!ax.empty()) emit(Case("red", {{op}, s, ax, fl})); });
                } else axis_lists(d, t.thorough(), [&](const L& ax) { emit(Case("red", {{op}, s, ax, fl})); });
            }
            if (op <= MIN) for (long a = -d; a < d; a++) emit(Case("acc", {{op}, s, {a}}));
        }
        // named wrappers
        for (long kd = 0; kd <= 1; kd++) {
            for (int f = 0; f < 8; f++) {   // 0 sum 1 prod 2 amax 3 amin 4 mean 5 var0 6 var1 7 stddev
                emit(Case("named_none", {{f}, s, {kd}}));
                nmc::each_subset((int)d, [&](const L& ax) { if (ax.empty()) return; emit(Case("named", {{f}, s, ax, {kd}})); L neg(ax); for (auto& v : neg) v -= d; emit(Case("named", {{f}, s, neg, {kd}})); });
                for (long a = -d; a < d; a++) emit(Case("named1", {{f}, s, {a}, {kd}}));
            }
            for (long ord = 1; ord <= 3; ord++) { emit(Case("vnorm_none", {s, {ord}, {kd}})); for (long a = -d; a < d; a++) emit(Case("vnorm", {s, {a}, {ord}, {kd}})); }   // ord 3: the reciprocal is not exact in float
        }
        // the OPTIONAL arguments of the named wrappers (each wrapper forwards them itself): sum / prod with dtype int32 over an int8 source whose fold leaves int8 and an
        // initial value, amax / amin with an initial value beyond every element, mean / var / stddev with dtype float64 over an int32 source and ddof 1
        for (long kd = 0; kd <= 1; kd++) for (int f = 0; f < 9; f++) { emit(Case("nopt_none", {{f}, s, {kd}})); for (long a = -d; a < d; a++) emit(Case("nopt1", {{f}, s, {a}, {kd}})); }   // f 7 / 8: var / stddev with ddof 2 (a ddof treated as an on/off flag is right for 0 and 1 only)
        for (long a = -d; a < d; a++) { emit(Case("cumsum", {s, {a}})); emit(Case("cumprod", {s, {a}})); }
        // the dtype argument of cumsum / cumprod: variant 0 = int8 source whose running fold leaves int8 (100s resp. 4s along the axis), dtype int32;
        // variant 1 = int32 source, dtype float64.  The fold and the result element type must be the requested type's (seeded change m08c dropped dtype).
        for (long a = -d; a < d; a++) for (long mul = 0; mul < 2; mul++) for (long var = 0; var < 2; var++) emit(Case("accdt", {s, {a}, {mul, var}}));
        if (d >= 2) for (long a = 0; a < d; a++) for (long b = 0; b < d; b++) if (a != b) { long n = std::max(s[(size_t)a], s[(size_t)b]); for (long off = -(n - 1); off <= n - 1; off++) emit(Case("trace", {s, {off}, {a}, {b}})); }
    });
}

static double apply_op(int op, double x, double y) {
    switch (op) { case ADD: return x + y; case MUL: return x * y; case SUB: return x - y; case MAX: return x > y ? x : y; case MIN: return x < y ? x : y;
                  case LAND: return (double)(x != 0 && y != 0); default: return (double)(x != 0 || y != 0); }
}
// values: small, distinct where possible, products stay exact
static RArr source(const L& s, int op) {
    RArr r(s); long n = r.size();
    if (op == LAND || op == LOR) { for (long i = 0; i < n; i++) r.data[(size_t)i] = (double)((i * 5 + 1) % 3 != 0); return r; }
    for (long i = 0; i < n; i++) r.data[(size_t)i] = (op == MUL) ? (double)(1 + (i % 8 == 0 ? 1 : 0) + (i % 64 == 5 ? 2 : 0) + (i == 1 ? 1 : 0)) : (double)(((i * 7 + 3) % (2 * n + 1)) + 1);
    return r;
}

template <typename A, typename AX, typename F> static Obs call_reduce(int op, const A& a, const AX& ax, const L& fl, F&& kd_dispatch) { return kd_dispatch(op, a, ax, fl); }

template <int OP, typename A, typename AX, typename DT, typename IN, typename KD> static auto reduce_view(const A& a, const AX& ax, DT dt, IN in, KD kd) {
    if constexpr (OP == ADD) return view::reduce_add(a, ax, dt, in, kd);
    else if constexpr (OP == MUL) return view::reduce_multiply(a, ax, dt, in, kd);
    else if constexpr (OP == SUB) return view::reduce_subtract(a, ax, dt, in, kd);
    else if constexpr (OP == MAX) return view::reduce_maximum(a, ax, dt, in, kd);
    else if constexpr (OP == MIN) return view::reduce_minimum(a, ax, dt, in, kd);
    else if constexpr (OP == LAND) return view::reduce_logical_and(a, ax);
    else return view::reduce_logical_or(a, ax);
}
template <typename V> static std::pair<Obs, Obs> obs2(const V& v) { return {nmc::observe(v), nmc::observe(na::eval(v))}; }
// returns (lazy observation, eager observation)
template <int OP, bool FULL, typename A, typename AX> static std::pair<Obs, Obs> run_flags(const A& a, const AX& ax, const L& fl) {
    auto go = [&](auto dt, auto in, auto kd) { return obs2(reduce_view<OP>(a, ax, dt, in, kd)); };
    auto with_kd = [&](auto dt, auto in) {
        switch (fl[0]) {
        case 0: return go(dt, in, nm::False);
        case 1: return go(dt, in, nm::True);
        default:
            if constexpr (FULL) { switch (fl[0]) { case 2: return go(dt, in, nm::False); case 3: return go(dt, in, true); default: return go(dt, in, false); } }
            else { if (fl[0] == 3) return go(dt, in, true); nmc::die("flag combination not instantiated"); }
        }
    };
    auto with_in = [&](auto dt) { if (fl[1]) return with_kd(dt, (long)5); return with_kd(dt, nm::None); };
    if constexpr (FULL) { switch (fl[2]) { case 1: return with_in(nm::int64); case 2: return with_in(nm::float64); default: return with_in(nm::None); } }
    else { if (fl[2] == 2) return with_in(nm::float64); return with_in(nm::None); }
}
template <typename A, typename AX> static std::pair<Obs, Obs> run_op(int op, const A& a, const AX& ax, const L& fl) {
    switch (op) {
    case ADD: return run_flags<ADD, true>(a, ax, fl);
    case MUL: return run_flags<MUL, false>(a, ax, fl);
    case SUB: if constexpr (std::is_integral_v<AX>) return run_flags<SUB, false>(a, ax, fl); else nmc::die("reduce_subtract supports a single integral axis only");
    case MAX: return run_flags<MAX, false>(a, ax, fl);
    case MIN: return run_flags<MIN, false>(a, ax, fl);
    case LAND: return run_flags<LAND, false>(a, ax, fl);
    default: return run_flags<LOR, false>(a, ax, fl);
    }
}

static Outcome verdict2(const std::pair<Obs, Obs>& g, const ROpt& want, bool nontriv, double rtol = 0) {
    Outcome o = judge(g.first, want, nontriv, rtol); if (!o.fail.empty()) { o.fail = "view: " + o.fail; return o; }
    Outcome e = judge(g.second, want, nontriv, rtol); if (!e.fail.empty()) { e.fail = "array: " + e.fail; return e; }
    return o;
}
static ROpt scalarise(ROpt w) { return w; }   // 0-dim model result compares with an observed scalar (shape ())

Outcome nmc_execute(const Case& c) {
    const std::string& o = c.op;
    if (o == "red" || o == "red1" || o == "red_none") {
        int op = (int)c.a[0][0]; const L& s = c.a[1]; const L& fl = o == "red_none" ? c.a[2] : c.a[3];
        RArr r = source(s, op); auto a = make_arr<long>(r);
        bool keep = fl[0] == 1 || fl[0] == 3; double init = 5; const double* ip = fl[1] ? &init : nullptr;
        auto f = [&](double x, double y) { return apply_op(op, x, y); };
        ROpt want = o == "red_none" ? ref::reduce(r, nullptr, keep, ip, f) : ref::reduce(r, &c.a[2], keep, ip, f);
        bool nontriv = want && (r.size() / std::max(1L, want->size())) >= 2 && (op == SUB || (o == "red" && !std::is_sorted(c.a[2].begin(), c.a[2].end())) || o != "red" || c.a[2].size() >= 1);
        if (o == "red_none") return verdict2(run_op(op, a, nm::None, fl), want, nontriv);
        if (o == "red1") { int ax = (int)c.a[2][0]; return verdict2(run_op(op, a, ax, fl), want, nontriv); }
        auto ax = to_il(c.a[2]); return verdict2(run_op(op, a, ax, fl), want, nontriv);
    }
    if (o == "red_fd1" || o == "red_fd2") {
        int op = (int)c.a[0][0]; const L& s = c.a[1]; long kind = c.a[2][0], sp = c.a[2][1], kd = c.a[3][0], in = c.a[3][1];
        RArr r = source(s, op); bool keep = kd == 1; double init = 5; const double* ip = in ? &init : nullptr;
        auto f = [&](double x, double y) { return apply_op(op, x, y); };
        L axes; if (o == "red_fd1") axes = {(sp % 2) ? -1L : 0L}; else { static const L A[6] = {{0, 1}, {-1, -2}, {1, 0}, {0}, {-1}, {0, 1}}; axes = A[sp]; }
        ROpt want = ref::reduce(r, &axes, keep, ip, f);
        bool nontriv = r.size() >= 2;
        auto with_array = [&](auto&& fn) {   // kind 0: ndarray_t with a fixed-dim shape (array<size_t,D>) and a dynamic buffer; kind 1: fixed_ndarray-like nested nmtools_array is not resizable, use hybrid shape static_vector
            (void)kind;
            if (o == "red_fd1") { na::ndarray_t<nmtools_list<long>, nmtools_array<size_t, 1>> a; a.resize(to_sl(s)); for (size_t i = 0; i < r.data.size(); i++) a.data_[i] = (long)r.data[i]; return fn(a); }
            else { na::ndarray_t<nmtools_list<long>, nmtools_array<size_t, 2>> a; a.resize(to_sl(s)); for (size_t i = 0; i < r.data.size(); i++) a.data_[i] = (long)r.data[i]; return fn(a); }
        };
        auto run = [&](const auto& a) -> std::pair<Obs, Obs> {
            auto with_axis = [&](auto dt, auto inv, auto kdv) -> std::pair<Obs, Obs> {
                auto go = [&](const auto& ax) -> std::pair<Obs, Obs> {
                    if (op == ADD) return obs2(view::reduce_add(a, ax, dt, inv, kdv));
                    if (op == MUL) return obs2(view::reduce_multiply(a, ax, dt, inv, kdv));
                    return obs2(view::reduce_maximum(a, ax, dt, inv, kdv));
                };
                using A1_ = meta::remove_cvref_t<decltype(a)>;
                if constexpr (meta::len_v<typename A1_::shape_type> == 1) { switch (sp) { case 0: return go((int)0); case 1: return go((int)-1); case 2: return go(meta::ct_v<0>); default: return go(meta::ct_v<-1>); } }
                else switch (sp) { case 0: return go(nmtools_array<int, 2>{0, 1}); case 1: return go(nmtools_array<int, 2>{-1, -2}); case 2: return go(nmtools_tuple{meta::ct_v<1>, meta::ct_v<0>}); case 3: return go((int)0); case 4: return go(meta::ct_v<-1>); default: return go(to_il(L{0, 1})); }
            };
            // keepdims=None on a fixed-dim-2 operand is rejected at compile time by the library (loud): spelled False there
            auto with_kd = [&](auto inv) -> std::pair<Obs, Obs> { if (kd == 1) return with_axis(nm::None, inv, nm::True); if (kd == 2) return with_axis(nm::None, inv, nm::False);
                using A_ = meta::remove_cvref_t<decltype(a)>; if constexpr (meta::len_v<typename A_::shape_type> == 1) return with_axis(nm::None, inv, nm::None); else return with_axis(nm::None, inv, nm::False); };
            if (in) return with_kd((long)5); return with_kd(nm::None);
        };
        return verdict2(with_array(run), want, nontriv);
    }
    if (o == "acc") {
        int op = (int)c.a[0][0]; const L& s = c.a[1]; RArr r = source(s, op); auto a = make_arr<long>(r); int ax = (int)c.a[2][0];
        ROpt want = ref::accumulate(r, ax, [&](double x, double y) { return apply_op(op, x, y); });
        bool nontriv = s[(size_t)(ax < 0 ? ax + (long)s.size() : ax)] >= 2;
        auto run = [&](auto v) { return verdict2(obs2(v), want, nontriv); };
        switch (op) {
        case ADD: return run(view::accumulate_add(a, ax));
        case MUL: return run(view::accumulate_multiply(a, ax));
        case SUB: return run(view::accumulate(view::subtract_t<>{}, a, ax));
        case MAX: return run(view::accumulate(view::maximum_t<>{}, a, ax));
        default: return run(view::accumulate(view::minimum_t<>{}, a, ax));
        }
    }
    if (o == "named" || o == "named1" || o == "named_none") {
        int f = (int)c.a[0][0]; const L& s = c.a[1]; bool keep = (o == "named_none" ? c.a[2][0] : c.a[3][0]) != 0;
        RArr r = source(s, f == 1 ? MUL : ADD); auto a = make_arr<double>(r);
        const L* axp = o == "named_none" ? nullptr : &c.a[2];
        auto red = [&](auto fn) { return ref::reduce(r, axp, keep, nullptr, fn); };
        ROpt want; double rtol = 0;
        if (f == 0) want = red([](double x, double y) { return x + y; });
        else if (f == 1) want = red([](double x, double y) { return x * y; });
        else if (f == 2) want = red([](double x, double y) { return x > y ? x : y; });
        else if (f == 3) want = red([](double x, double y) { return x < y ? x : y; });
        else {
            ROpt sum = red([](double x, double y) { return x + y; });
            if (sum) {
                double cnt = (double)r.size() / (double)sum->size();
                RArr mean = *sum; for (auto& v : mean.data) v /= cnt;
                if (f == 4) { want = mean; rtol = 1e-12; }
                else {
                    // variance: mean of squared deviations (ddof 0/1)
                    ROpt mk = ref::reduce(r, axp, true, nullptr, [](double x, double y) { return x + y; }); RArr mkeep = *mk; for (auto& v : mkeep.data) v /= cnt;
                    RArr dev = r; RArr bm = *ref::broadcast_to(mkeep, r.shape); for (size_t i = 0; i < dev.data.size(); i++) { double t = r.data[i] - bm.data[i]; dev.data[i] = t * t; }
                    ROpt ss = ref::reduce(dev, axp, keep, nullptr, [](double x, double y) { return x + y; });
                    double ddof = f == 6 ? 1 : 0;
                    if (cnt - ddof <= 0) return Outcome::ok(false, 9);   // division by zero: NumPy warns and yields nan/inf; outside the exact model
                    RArr v = *ss; for (auto& x : v.data) x /= (cnt - ddof);
                    if (f == 7) for (auto& x : v.data) x = std::sqrt(x);
                    want = v; rtol = 1e-9;
                }
            }
        }
        bool nontriv = want && r.size() / std::max(1L, want->size()) >= 2;
        auto go = [&](auto ax) -> Outcome {
            auto kd = [&](auto k) -> Outcome {
                switch (f) {
                case 0: return verdict2(obs2(view::sum(a, ax, nm::None, nm::None, k)), want, nontriv);
                case 1: return verdict2(obs2(view::prod(a, ax, nm::None, nm::None, k)), want, nontriv);
                case 2: return verdict2(obs2(view::amax(a, ax, nm::None, nm::None, k)), want, nontriv);
                case 3: return verdict2(obs2(view::amin(a, ax, nm::None, nm::None, k)), want, nontriv);
                case 4: return verdict2(obs2(view::mean(a, ax, nm::None, k)), want, nontriv, rtol);
                case 5: return verdict2(obs2(view::var(a, ax, nm::None, 0, k)), want, nontriv, rtol);
                case 6: return verdict2(obs2(view::var(a, ax, nm::None, 1, k)), want, nontriv, rtol);
                default: return verdict2(obs2(view::stddev(a, ax, nm::None, 0, k)), want, nontriv, rtol);
                }
            };
            if (keep) return kd(nm::True); return kd(nm::False);
        };
        if (o == "named_none") return go(nm::None);
        if (o == "named1") return go((int)c.a[2][0]);
        return go(to_il(c.a[2]));
    }
    if (o == "nopt1" || o == "nopt_none") {
        int f = (int)c.a[0][0]; const L& s = c.a[1]; bool none = o == "nopt_none"; bool keep = (none ? c.a[2][0] : c.a[3][0]) != 0;
        long n = nmc::prod(s); const L* axp = none ? nullptr : &c.a[2];
        RArr r; r.shape = s; r.data.assign((size_t)n, 0.0);
        for (long i = 0; i < n; i++) r.data[(size_t)i] = f == 0 ? (i == 0 ? 3.0 : 100.0) : f == 1 ? (i == 0 ? 3.0 : (i < 4 ? 4.0 : 1.0)) : (double)((i * 7) % 5 + 1);
        ROpt want; double rtol = 0; double init = 0;
        auto cnt_of = [&](const ROpt& w) { return (double)r.size() / (double)w->size(); };
        if (f == 0) { init = 5; want = ref::reduce(r, axp, keep, &init, [](double x, double y) { return x + y; }); }
        else if (f == 1) { init = 3; want = ref::reduce(r, axp, keep, &init, [](double x, double y) { return x * y; }); }
        else if (f == 2) { init = 1000; want = ref::reduce(r, axp, keep, &init, [](double x, double y) { return x > y ? x : y; }); }
        else if (f == 3) { init = -1000; want = ref::reduce(r, axp, keep, &init, [](double x, double y) { return x < y ? x : y; }); }
        else {
            ROpt sum = ref::reduce(r, axp, keep, nullptr, [](double x, double y) { return x + y; });
            if (!sum) return Outcome::bad("wrong", "harness: model rejects the axis");
            double cnt = cnt_of(sum); RArr mean = *sum; for (auto& v : mean.data) v /= cnt;
            if (f == 4) { want = mean; rtol = 1e-12; }
            else {
                const double ddof = f >= 7 ? 2 : 1;
                if (cnt - ddof <= 0) return Outcome::ok(false, 9);
                ROpt mk = ref::reduce(r, axp, true, nullptr, [](double x, double y) { return x + y; }); RArr mkeep = *mk; for (auto& v : mkeep.data) v /= cnt;
                RArr dev = r; RArr bm = *ref::broadcast_to(mkeep, r.shape); for (size_t i = 0; i < dev.data.size(); i++) { double t = r.data[i] - bm.data[i]; dev.data[i] = t * t; }
                ROpt ss = ref::reduce(dev, axp, keep, nullptr, [](double x, double y) { return x + y; });
                RArr v = *ss; for (auto& x : v.data) x /= (cnt - ddof);
                if (f == 6 || f == 8) for (auto& x : v.data) x = std::sqrt(x);
                want = v; rtol = 1e-9;
            }
        }
        if (!want) return Outcome::bad("wrong", "harness: model rejects the axis");
        bool nontriv = r.size() / std::max(1L, want->size()) >= 2 || f <= 3;
        auto elem_ok = [&](const auto& v, auto tag) -> std::string {
            using want_t = typename decltype(tag)::type; using V = meta::remove_cvref_t<decltype(v)>;
            if constexpr (meta::is_maybe_v<V>) { if (!nm::has_value(v)) return ""; using E = meta::get_element_type_t<meta::remove_cvref_t<decltype(*v)>>; return std::is_same_v<E, want_t> ? "" : "the element type of the result is not the requested dtype"; }
            else if constexpr (meta::is_either_v<V>) return "";
            else { using E = meta::get_element_type_t<V>; return std::is_same_v<E, want_t> ? "" : "the element type of the result is not the requested dtype"; }
        };
        auto go = [&](auto ax) -> Outcome {
            auto kd = [&](auto k) -> Outcome {
                // the lazy view (with its generic evaluation) and then the EAGER wrapper na::f(...) with the same options (the wrappers forward every option themselves)
                auto fin = [&](const auto& v, const auto& eager, auto tag, double rt) -> Outcome {
                    std::string e = elem_ok(v, tag); if (!e.empty()) return Outcome::bad("wrong", e, nontriv);
                    Outcome o = verdict2(obs2(v), want, nontriv, rt); if (!o.fail.empty()) return o;
                    Obs eo = nmc::observe(eager); Outcome o2 = verdict2({eo, eo}, want, nontriv, rt); if (!o2.fail.empty()) o2.fail = "eager wrapper: " + o2.fail; return o2;
                };
                if (f <= 1) { auto a = make_arr<int8_t>(r); for (long i = 0; i < n; i++) a.data_[(size_t)i] = (int8_t)r.data[(size_t)i];
                    if (f == 0) return fin(view::sum(a, ax, nm::int32, (int32_t)5, k), na::sum(a, ax, nm::int32, (int32_t)5, k), meta::as_value_v<int32_t>, 0);
                    return fin(view::prod(a, ax, nm::int32, (int32_t)3, k), na::prod(a, ax, nm::int32, (int32_t)3, k), meta::as_value_v<int32_t>, 0); }
                if (f <= 3) { auto a = make_arr<long>(r);
                    if (f == 2) return fin(view::amax(a, ax, nm::None, (long)1000, k), na::amax(a, ax, nm::None, (long)1000, k), meta::as_value_v<long>, 0);
                    return fin(view::amin(a, ax, nm::None, (long)-1000, k), na::amin(a, ax, nm::None, (long)-1000, k), meta::as_value_v<long>, 0); }
                auto a = make_arr<int32_t>(r); for (long i = 0; i < n; i++) a.data_[(size_t)i] = (int32_t)r.data[(size_t)i];
                if (f == 4) return fin(view::mean(a, ax, nm::float64, k), na::mean(a, ax, nm::float64, k), meta::as_value_v<double>, rtol);
                if (f == 5) return fin(view::var(a, ax, nm::float64, 1, k), na::var(a, ax, nm::float64, 1, k), meta::as_value_v<double>, rtol);
                if (f == 7) return fin(view::var(a, ax, nm::float64, 2, k), na::var(a, ax, nm::float64, 2, k), meta::as_value_v<double>, rtol);
                if (f == 8) return fin(view::stddev(a, ax, nm::float64, 2, k), na::stddev(a, ax, nm::float64, 2, k), meta::as_value_v<double>, rtol);
                return fin(view::stddev(a, ax, nm::float64, 1, k), na::stddev(a, ax, nm::float64, 1, k), meta::as_value_v<double>, rtol);
            };
            if (keep) return kd(nm::True); return kd(nm::False);
        };
        if (none) return go(nm::None);
        return go((int)c.a[2][0]);
    }
    if (o == "vnorm" || o == "vnorm_none") {
        const L& s = c.a[0]; RArr r = source(s, ADD); for (size_t i = 0; i < r.data.size(); i += 2) r.data[i] = -r.data[i];
        auto a = make_arr<double>(r); long ord = o == "vnorm" ? c.a[2][0] : c.a[1][0]; bool keep = (o == "vnorm" ? c.a[3][0] : c.a[2][0]) != 0;
        const L* axp = o == "vnorm" ? &c.a[1] : nullptr;
        RArr p = r; for (auto& v : p.data) v = ord == 2 ? v * v : (ord == 3 ? std::fabs(v) * v * v : std::fabs(v));
        ROpt w = ord == 0 ? ref::reduce(p, axp, keep, nullptr, [](double x, double y) { return x > y ? x : y; }) : ref::reduce(p, axp, keep, nullptr, [](double x, double y) { return x + y; });
        if (w && ord == 2) for (auto& v : w->data) v = std::sqrt(v);
        if (w && ord == 3) for (auto& v : w->data) v = std::cbrt(v);
        auto go = [&](auto ax, auto k) -> Outcome {
            int oo = (int)ord; return verdict2(obs2(view::vector_norm(a, ax, k, oo)), w, true, 1e-9);
        };
        if (o == "vnorm_none") { if (keep) return go(nm::None, nm::True); return go(nm::None, nm::False); }
        int ax = (int)c.a[1][0]; if (keep) return go(ax, nm::True); return go(ax, nm::False);
    }
    if (o == "cumsum" || o == "cumprod") {
        const L& s = c.a[0]; bool mul = o == "cumprod"; RArr r = source(s, mul ? MUL : ADD); auto a = make_arr<long>(r); int ax = (int)c.a[1][0];
        ROpt want = ref::accumulate(r, ax, [&](double x, double y) { return mul ? x * y : x + y; });
        bool nontriv = s[(size_t)(ax < 0 ? ax + (long)s.size() : ax)] >= 2;
        if (mul) return verdict2(obs2(view::cumprod(a, ax)), want, nontriv);
        return verdict2(obs2(view::cumsum(a, ax)), want, nontriv);
    }
    if (o == "accdt") {
        const L& s = c.a[0]; int ax = (int)c.a[1][0]; bool mul = c.a[2][0] != 0; long var = c.a[2][1];
        long n = nmc::prod(s); long extent = s[(size_t)(ax < 0 ? ax + (long)s.size() : ax)];
        // variant 0: values 100 (sum) / 4 (product), a 3 at flat position 0 so that positions stay distinguishable; the model folds in 64 bits and wraps to int32 as the request says
        RArr r; r.shape = s; r.data.assign((size_t)n, var == 0 ? (mul ? 4.0 : 100.0) : 0.0);
        if (var == 0) r.data[0] = 3; else for (long i = 0; i < n; i++) r.data[(size_t)i] = (double)(i % 3 + 1);
        ROpt want = ref::accumulate(r, ax, [&](double x, double y) { double v = mul ? x * y : x + y; return var == 0 ? (double)(int32_t)(long long)v : v; });
        bool nontriv = extent >= 2;
        auto run = [&](const auto& a, auto dt, auto tag) -> Outcome {
            using want_t = typename decltype(tag)::type;
            auto chk = [&](const auto& v) -> Outcome {
                using elem_t = meta::get_element_type_t<meta::remove_cvref_t<decltype(v)>>;
                if (!std::is_same_v<elem_t, want_t>) return Outcome::bad("wrong", std::string(mul ? "cumprod" : "cumsum") + " with a dtype: the element type of the result is not the requested one (sizeof " + std::to_string(sizeof(elem_t)) + (std::is_floating_point_v<elem_t> ? ", floating" : ", integral") + ")", nontriv);
                return verdict2(obs2(v), want, nontriv);
            };
            if (mul) return chk(view::cumprod(a, ax, dt)); return chk(view::cumsum(a, ax, dt));
        };
        if (var == 0) { auto a = make_arr<int8_t>(r); for (long i = 0; i < n; i++) a.data_[(size_t)i] = (int8_t)r.data[(size_t)i]; return run(a, nm::int32, meta::as_value_v<int32_t>); }
        auto a = make_arr<int32_t>(r); for (long i = 0; i < n; i++) a.data_[(size_t)i] = (int32_t)r.data[(size_t)i]; return run(a, nm::float64, meta::as_value_v<double>);
    }
    if (o == "trace") {
        const L& s = c.a[0]; RArr r = source(s, ADD); auto a = make_arr<long>(r); int off = (int)c.a[1][0], a1 = (int)c.a[2][0], a2 = (int)c.a[3][0];
        ROpt dg = ref::diagonal(r, off, a1, a2); if (!dg) return Outcome::ok(false, 7);
        L last{(long)dg->dim() - 1}; ROpt want = ref::reduce(*dg, &last, false, nullptr, [](double x, double y) { return x + y; });
        return verdict2(obs2(view::trace(a, off, a1, a2)), want, true);
    }
    nmc::die("unknown op");
}

void nmc_selftest() {
    RArr r(L{2, 3}, {1, 2, 3, 4, 5, 6});
    L ax{1}; ROpt w = ref::reduce(r, &ax, false, nullptr, [](double x, double y) { return x - y; });
    if (!w || w->data[0] != -4 || w->data[1] != -7) nmc::die("selftest: left fold of subtract");
    Obs rightfold; rightfold.shape = {2}; rightfold.data = {2, 5};    // 1-(2-3), 4-(5-6): a right fold must be seen
    if (nmc::diff(rightfold, w).empty()) nmc::die("selftest: oracle blind to fold order");
    ROpt k = ref::reduce(r, &ax, true, nullptr, [](double x, double y) { return x + y; }); if (!k || k->shape != L{2, 1}) nmc::die("selftest: keepdims model");
}
