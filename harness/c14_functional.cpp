// C14 - functors, currying, composition and extraction are equivalent to direct views (E2 + generator)
//
// Units (selected by -D flags on this source; c14_driver.hpp holds the generic machinery, engine/nmc_ref_c14.hpp the shape model
// that the ENUMERATOR uses to pick well-formed inputs - the oracle itself is differential: the direct view call):
//   -DC14_PART=1 -DC14_GROUP=1..8                     (i)   currying: every functor of array/functional x every split of the [attribute] / (operand) applications
//   -DC14_PART=2 -DC14_LEN=2                          (ii)  all 2-chains f*g over the 12-letter alphabet
//   -DC14_PART=2 -DC14_LEN=3 -DC14_SLICE=0..11        (ii)  3-chains whose rightmost letter has alphabet index SLICE, both parenthesisations
//   -DC14_PART=2 -DC14_LEN=4 -DC14_SLICE=0..6 [-DC14_SUB=0..6]   (ii, thorough tier only) 4-chains over the reduced 7-letter alphabet, five parenthesisations
//   -DC14_PART=3 -DC14_GROUP=1..3                     (iii) extraction: apply(get_function_composition, get_function_operands), operand identity, compute graph
//
// Non-triviality rules (one per part; distinct = distinct case key):
//   part 1: case = (functor program, split, operand shapes, attribute values); non-trivial when the direct view call yields a value with >= 2 elements
//   part 2: case = (chain, parenthesisation, operand shapes, attribute of every letter); non-trivial when every result of the direct evaluation
//           (a chain may end in an operand pack) has a value and they hold >= 2 elements in total
//   part 3: case = (nested view program, check, operand shapes, axis); apply check: the view has a value with >= 2 elements; operand check: the view has
//           >= 2 leaf occurrences (or >= 2 elements); graph check: always (the graph is a property of the program, it is compared for every shape)
// Operand values are all distinct inside an operand and across the operands of a case; comparisons are exact (both sides run the same scalar code),
// NaN == NaN.  nmtools::utils::isequal / isclose are never used.
#ifndef C14_PART
#error "define C14_PART"
#endif
#define NMC_MAIN
#include "c14_driver.hpp"

const char* nmc_property() { return "C14"; }
using namespace c14;

#if C14_PART == 1
// ---------------------------------------------------------------------------------------------------------------- (i)
// Non-triviality rule (part 1): a case is non-trivial when the direct view call yields a value with at least 2 elements.
// case = (functor program, split of the attribute / operand applications, operand shapes, attribute values).
#ifndef C14_GROUP
#error "define C14_GROUP (1..8)"
#endif
#define VIEWF(name) [](const auto&... x) { return view::name(x...); }
#define DEC(...) [](const LL& a) { (void)a; return std::make_tuple(__VA_ARGS__); }
using MenuR = std::vector<LL>;
namespace mn {   // attribute menus: every value of the stated small scope for the operand shape(s)
    static MenuR axis_any(const L& s, bool) { MenuR r; long d = (long)s.size(); for (long a = 0; a < d; a++) r.push_back({{a}}); for (long a = -d; a < 0; a++) r.push_back({{a}}); return r; }
    static MenuR axis_pos(const L& s, bool) { MenuR r; for (long a = 0; a < (long)s.size(); a++) r.push_back({{a}}); return r; }
    static MenuR axis_list(const L& s, bool) { MenuR r; nmc::each_subset((int)s.size(), [&](const L& ax) { if (!ax.empty()) r.push_back({ax}); }); return r; }
    static MenuR axis_new(const L& s, bool) { MenuR r; long d = (long)s.size(); for (long a = -(d + 1); a <= d; a++) r.push_back({{a}}); return r; }
    static MenuR perms(const L& s, bool) { MenuR r; for (auto& p : rm::permutations(s)) r.push_back({p}); return r; }
    static MenuR reshapes(const L& s, bool th) { MenuR r; for (auto& t : rm::reshape_targets(s, th)) r.push_back({t}); return r; }
    static MenuR btargets(const L& s, bool) { MenuR r; for (auto& t : rm::broadcast_targets(s)) r.push_back({t}); return r; }
    static MenuR mask_axis(const L& s, bool) { MenuR r; for (long a = 0; a < (long)s.size(); a++) { long n = s[(size_t)a]; for (long m = 1; m < (1L << n); m++) { L c; for (long i = 0; i < n; i++) c.push_back((m >> i) & 1); r.push_back({c, {a}}); } } return r; }
    static MenuR axis_spacing(const L& s, bool) { MenuR r; for (long a = 0; a < (long)s.size(); a++) for (long sp = 1; sp <= 2; sp++) r.push_back({{a}, {sp}}); return r; }
    static MenuR src_dst(const L& s, bool) { MenuR r; long d = (long)s.size(); for (long a = 0; a < d; a++) for (long b = 0; b < d; b++) r.push_back({{a}, {b}}); return r; }
    static MenuR pads(const L& s, bool) { MenuR r; nmc::each_tuple(2 * s.size(), 0, 1, [&](const L& w) { r.push_back({w}); }); return r; }
    static MenuR repeats_axis(const L& s, bool) { MenuR r; for (long k = 1; k <= 3; k++) for (long a = 0; a < (long)s.size(); a++) r.push_back({{k}, {a}}); return r; }
    static MenuR resizes(const L& s, bool) { MenuR r; int d = (int)s.size(); nmc::each_shape(d, 2, [&](const L& t) { r.push_back({t}); }); r.push_back({L((size_t)d, 4)}); return r; }
    static MenuR shift_axis(const L& s, bool) { MenuR r; for (long a = 0; a < (long)s.size(); a++) { long n = s[(size_t)a]; for (long k = -(n - 1); k <= n - 1; k++) r.push_back({{k}, {a}}); } return r; }
    static MenuR shift_flat(const L& s, bool) { MenuR r; long n = nmc::prod(s); for (long k = -(n - 1); k <= n - 1; k++) if (k >= -3 && k <= 3) r.push_back({{k}}); return r; }
    static MenuR ranges(const L& s, bool) { MenuR r; long n = s[0]; for (long a = 0; a < n; a++) for (long b = a + 1; b <= n; b++) r.push_back({{a, b}}); return r; }
    static MenuR range_index(const L& s, bool) { MenuR r; long n = s[0]; for (long a = 0; a < n; a++) for (long b = a + 1; b <= n; b++) for (long i = 0; i < s[1]; i++) r.push_back({{a, b}, {i}}); return r; }
    static MenuR window_axis(const L& s, bool) { MenuR r; for (long a = 0; a < (long)s.size(); a++) for (long w = 1; w <= s[(size_t)a]; w++) r.push_back({{w}, {a}}); return r; }
    static MenuR takes(const L& s, bool) { MenuR r; for (long a = 0; a < (long)s.size(); a++) { long n = s[(size_t)a]; for (long i = 0; i < n; i++) { r.push_back({{i}, {a}}); for (long j = 0; j < n; j++) r.push_back({{i, j}, {a}}); } } return r; }
    static MenuR reps(const L& s, bool) { MenuR r; nmc::each_tuple(s.size(), 1, 2, [&](const L& t) { r.push_back({t}); }); return r; }
    static MenuR ddof_axis(const L& s, bool) { MenuR r; for (long a = 0; a < (long)s.size(); a++) for (long dd = 0; dd <= 1; dd++) if (s[(size_t)a] - dd > 0) r.push_back({{a}, {dd}}); return r; }
    static MenuR stack_axis(const L& s, bool) { MenuR r; long d = (long)s.size(); for (long a = 0; a <= d; a++) r.push_back({{a}}); return r; }
}
static bool has_one(const L& s) { for (long v : s) if (v == 1) return true; return false; }

#if C14_GROUP == 1
// ---- indexing / shape functors (long operands) ----
#include "nmtools/array/functional/atleast_1d.hpp"
#include "nmtools/array/functional/atleast_2d.hpp"
#include "nmtools/array/functional/atleast_nd.hpp"
#include "nmtools/array/functional/broadcast_to.hpp"
#include "nmtools/array/functional/compress.hpp"
#include "nmtools/array/functional/expand.hpp"
#include "nmtools/array/functional/expand_dims.hpp"
#include "nmtools/array/functional/flatten.hpp"
#include "nmtools/array/functional/flip.hpp"
#include "nmtools/array/functional/indexing.hpp"
#include "nmtools/array/functional/moveaxis.hpp"
#include "nmtools/array/functional/pad.hpp"
#include "nmtools/array/functional/repeat.hpp"
#include "nmtools/array/functional/reshape.hpp"
#include "nmtools/array/functional/resize.hpp"
#include "nmtools/array/functional/roll.hpp"
#include "nmtools/array/functional/squeeze.hpp"
#include "nmtools/array/functional/tile.hpp"
#include "nmtools/array/functional/transpose.hpp"
using namespace nmtools::literals;
static const auto& programs() {
    static const auto p = std::make_tuple(
        prog<1, long>("atleast_1d", D_INT, fn::atleast_1d, VIEWF(atleast_1d), DEC(), sp1()),
        prog<1, long>("atleast_2d", D_INT, fn::atleast_2d, VIEWF(atleast_2d), DEC(), sp1()),
        prog<1, long>("atleast_nd_ct3", D_INT, fn::atleast_nd, VIEWF(atleast_nd), DEC(3_ct), sp1()),
        prog<1, long>("broadcast_to", D_INT, fn::broadcast_to, VIEWF(broadcast_to), DEC(to_il(a[0])), sp1(mn::btargets)),
        prog<1, long>("compress", D_INT, fn::compress, [](const auto& x, const auto& cond, const auto& axis) { return view::compress(cond, x, axis); },
                      [](const LL& a) { nmtools_list<bool> m; for (long v : a[0]) m.push_back(v != 0); return std::make_tuple(m, (int)a[1][0]); }, sp1(mn::mask_axis)),
        prog<1, long>("expand", D_INT, fn::expand, VIEWF(expand), DEC((int)a[0][0], (int)a[1][0]), sp1(mn::axis_spacing)),
        prog<1, long>("expand_dims", D_INT, fn::expand_dims, VIEWF(expand_dims), DEC((int)a[0][0]), sp1(mn::axis_new)),
        prog<1, long>("expand_dims_list", D_INT, fn::expand_dims, VIEWF(expand_dims), DEC(to_il(a[0])), sp1([](const L& s, bool) { MenuR r; long d = (long)s.size(); for (long x = 0; x <= d; x++) for (long y = x + 1; y <= d + 1; y++) r.push_back({{x, y}}); return r; })),
        prog<1, long>("flatten", D_INT, fn::flatten, VIEWF(flatten), DEC(), sp1()),
        prog<1, long>("flip", D_INT, fn::flip, VIEWF(flip), DEC((int)a[0][0]), sp1(mn::axis_any)),
        prog<1, long>("flip_list", D_INT, fn::flip, VIEWF(flip), DEC(to_il(a[0])), sp1(mn::axis_list)),
        prog<1, long>("fliplr", D_INT, fn::fliplr, VIEWF(fliplr), DEC(), sp1(menu_none, 2)),
        prog<1, long>("flipud", D_INT, fn::flipud, VIEWF(flipud), DEC(), sp1()),
        prog_derived<1, long>("indexing_of_reshape", D_INT, fn::indexing, VIEWF(reshape), DEC(to_il(a[0])), [](const auto& v) { return std::make_tuple(v.attributes()); }, sp1(mn::reshapes)),
        prog_derived<1, long>("indexing_of_transpose", D_INT, fn::indexing, VIEWF(transpose), DEC(to_il(a[0])), [](const auto& v) { return std::make_tuple(v.attributes()); }, sp1(mn::perms)),
        prog<1, long>("moveaxis", D_INT, fn::moveaxis, VIEWF(moveaxis), DEC((int)a[0][0], (int)a[1][0]), sp1(mn::src_dst)),
        prog<1, long>("pad", D_INT, fn::pad, VIEWF(pad), DEC(to_il(a[0])), sp1(mn::pads)),
        prog<1, long>("pad_value", D_INT, fn::pad, VIEWF(pad), DEC(to_il(a[0]), (long)-7), sp1(mn::pads, 1, 2)),
        prog<1, long>("repeat", D_INT, fn::repeat, VIEWF(repeat), DEC((int)a[0][0], (int)a[1][0]), sp1(mn::repeats_axis)),
        prog<1, long>("repeat_flat", D_INT, fn::repeat, VIEWF(repeat), DEC((int)a[0][0], nm::None), sp1([](const L&, bool) { return MenuR{{{1}}, {{2}}, {{3}}}; })),
        prog<1, long>("reshape", D_INT, fn::reshape, VIEWF(reshape), DEC(to_il(a[0])), sp1(mn::reshapes)),
        prog<1, long>("resize", D_INT, fn::resize, VIEWF(resize), DEC(to_il(a[0])), sp1(mn::resizes)),
        prog<1, long>("roll", D_INT, fn::roll, VIEWF(roll), DEC((int)a[0][0], (int)a[1][0]), sp1(mn::shift_axis)),
        prog<1, long>("roll_flat", D_INT, fn::roll, VIEWF(roll), DEC((int)a[0][0]), sp1(mn::shift_flat)),
        prog<1, long>("squeeze", D_INT, fn::squeeze, VIEWF(squeeze), DEC(), [](bool, const SpaceSink& f) { for (auto& s : all_shapes()) if (nmc::prod(s) > 1) f({s}, LL{}); }),
        prog<1, long>("tile", D_INT, fn::tile, VIEWF(tile), DEC(to_il(a[0])), sp1(mn::reps)),
        prog<1, long>("transpose", D_INT, fn::transpose, VIEWF(transpose), DEC(to_il(a[0])), sp1(mn::perms)),
        prog<1, long>("transpose_default", D_INT, fn::transpose, VIEWF(transpose), DEC(), sp1())
    );
    return p;
}
#elif C14_GROUP == 2
// ---- selecting / joining / generating functors, matmul (long operands) ----
#include "nmtools/array/functional/slice.hpp"
#include "nmtools/array/functional/sliding_window.hpp"
#include "nmtools/array/functional/take.hpp"
#include "nmtools/array/functional/concatenate.hpp"
#include "nmtools/array/functional/hstack.hpp"
#include "nmtools/array/functional/vstack.hpp"
#include "nmtools/array/functional/stack.hpp"
#include "nmtools/array/functional/where.hpp"
#include "nmtools/array/functional/arange.hpp"
#include "nmtools/array/functional/full.hpp"
#include "nmtools/array/functional/ones.hpp"
#include "nmtools/array/functional/zeros.hpp"
#include "nmtools/array/functional/matmul.hpp"
static Space nullary(std::function<MenuR(bool)> menu) { return [=](bool th, const SpaceSink& f) { for (auto& at : menu(th)) f({}, at); }; }
static MenuR shapes_as_attr(bool) { MenuR r; for (auto& s : all_shapes()) r.push_back({s}); return r; }
static const auto& programs() {
    static const auto p = std::make_tuple(
        prog<1, long>("slice_range", D_INT, fn::slice, VIEWF(slice), DEC(nmtools_tuple<int, int>{(int)a[0][0], (int)a[0][1]}), sp1(mn::ranges, 1, 1)),
        prog<1, long>("slice_range_index", D_INT, fn::slice, VIEWF(slice), DEC(nmtools_tuple<int, int>{(int)a[0][0], (int)a[0][1]}, (int)a[1][0]), sp1(mn::range_index, 2, 2)),
        prog<1, long>("slice_ellipsis_index", D_INT, fn::slice, VIEWF(slice), DEC(nm::Ellipsis, (int)a[0][0]), sp1([](const L& s, bool) { MenuR r; for (long i = 0; i < s.back(); i++) r.push_back({{i}}); return r; }, 2, 3)),
        prog<1, long>("apply_slice", D_INT, fn::apply_slice, VIEWF(apply_slice), DEC(nmtools_tuple{nmtools_tuple<int, int>{(int)a[0][0], (int)a[0][1]}, (int)a[1][0]}), sp1(mn::range_index, 2, 2)),
        prog<1, long>("sliding_window", D_INT, fn::sliding_window, VIEWF(sliding_window), DEC((int)a[0][0], (int)a[1][0]), sp1(mn::window_axis)),
        prog<1, long>("take", D_INT, fn::take, VIEWF(take), DEC(to_il(a[0]), (int)a[1][0]), sp1(mn::takes)),
        prog<2, long>("concatenate", D_INT, fn::concatenate, VIEWF(concatenate), DEC((int)a[0][0]), sp2same(mn::axis_any)),
        prog<2, long>("concatenate_flat", D_INT, fn::concatenate, VIEWF(concatenate), DEC(nm::None), sp2()),
        prog<2, long>("hstack", D_INT, fn::hstack, VIEWF(hstack), DEC(), sp2same()),
        prog<2, long>("vstack", D_INT, fn::vstack, VIEWF(vstack), DEC(), sp2same()),
        prog<2, long>("stack", D_INT, fn::stack, VIEWF(stack), DEC((int)a[0][0]), sp2same(mn::stack_axis)),
        prog<3, long>("where", D_INT, fn::where, VIEWF(where), DEC(), [](bool, const SpaceSink& f) { for (auto& s : all_shapes()) for (auto& x : rm::companion_shapes(s)) for (auto& y : rm::companion_shapes(s)) f({s, x, y}, LL{}); }, 1),
        prog<0, long>("arange", D_INT, fn::arange, VIEWF(arange), DEC((int)a[0][0], (int)a[0][1], (int)a[0][2], nm::int64), nullary([](bool) { MenuR r; for (long st = -1; st <= 1; st++) for (long sp = st + 1; sp <= st + 5; sp++) for (long k = 1; k <= 2; k++) r.push_back({{st, sp, k}}); return r; })),
        prog<0, long>("arange_stop", D_INT, fn::arange, VIEWF(arange), DEC((int)a[0][0], nm::int64), nullary([](bool) { MenuR r; for (long n = 1; n <= 6; n++) r.push_back({{n}}); return r; })),
        prog<0, long>("full", D_INT, fn::full, VIEWF(full), DEC(to_il(a[0]), (long)9), nullary(shapes_as_attr)),
        prog<0, long>("ones", D_INT, fn::ones, VIEWF(ones), DEC(to_il(a[0]), nm::int64), nullary(shapes_as_attr)),
        prog<0, long>("zeros", D_INT, fn::zeros, VIEWF(zeros), DEC(to_il(a[0]), nm::int64), nullary(shapes_as_attr)),
        prog<2, long>("matmul", D_INT, fn::matmul, VIEWF(matmul), DEC(), [](bool, const SpaceSink& f) { for (auto& s : all_shapes(2, 3)) for (auto& b : rm::matmul_rhs_shapes(s)) f({s, b}, LL{}); })
    );
    return p;
}
#elif C14_GROUP == 3
// ---- reductions / accumulations / normalising wrappers ----
#include "nmtools/array/functional/sum.hpp"
#include "nmtools/array/functional/prod.hpp"
#include "nmtools/array/functional/mean.hpp"
#include "nmtools/array/functional/var.hpp"
#include "nmtools/array/functional/stddev.hpp"
#include "nmtools/array/functional/cumsum.hpp"
#include "nmtools/array/functional/cumprod.hpp"
#include "nmtools/array/functional/softmax.hpp"
#include "nmtools/array/functional/softmin.hpp"
static MenuR axes_keep(const L& s, bool th) { MenuR r; for (auto& ax : mn::axis_list(s, th)) for (long k = 0; k <= 1; k++) r.push_back({ax[0], {k}}); return r; }
static const auto& programs() {
    static const auto p = std::make_tuple(
        prog<1, long>("sum_axis", D_INT, fn::sum, VIEWF(sum), DEC((int)a[0][0]), sp1(mn::axis_any)),
        prog<1, long>("sum_axes", D_INT, fn::sum, VIEWF(sum), DEC(to_il(a[0])), sp1(mn::axis_list)),
        prog<1, long>("sum_keepdims", D_INT, fn::sum, VIEWF(sum), DEC((int)a[0][0], nm::None, nm::None, nm::True), sp1(mn::axis_any)),
        prog<1, long>("sum_initial_rtkeep", D_INT, fn::sum, VIEWF(sum), DEC(to_il(a[0]), nm::None, (long)5, (bool)(a[1][0] != 0)), sp1(axes_keep)),
        prog<1, long>("sum_dtype", D_INT, fn::sum, VIEWF(sum), DEC((int)a[0][0], nm::float64), sp1(mn::axis_any)),
        prog<1, double>("prod_axis", D_POS, fn::prod, VIEWF(prod), DEC((int)a[0][0]), sp1(mn::axis_any)),
        prog<1, double>("prod_keepdims", D_POS, fn::prod, VIEWF(prod), DEC(to_il(a[0]), nm::None, nm::None, nm::True), sp1(mn::axis_list)),
        prog<1, double>("mean_axis", D_ANY, fn::mean, VIEWF(mean), DEC((int)a[0][0]), sp1(mn::axis_any)),
        prog<1, double>("mean_keepdims", D_ANY, fn::mean, VIEWF(mean), DEC(to_il(a[0]), nm::None, nm::True), sp1(mn::axis_list)),
        prog<1, double>("var_axis", D_ANY, fn::var, VIEWF(var), DEC((int)a[0][0]), sp1(mn::axis_any)),
        prog<1, double>("var_ddof_keepdims", D_ANY, fn::var, VIEWF(var), DEC((int)a[0][0], nm::None, (int)a[1][0], nm::True), sp1(mn::ddof_axis)),
        prog<1, double>("stddev_axis", D_ANY, fn::stddev, VIEWF(stddev), DEC((int)a[0][0]), sp1(mn::axis_any)),
        prog<1, double>("stddev_ddof_keepdims", D_ANY, fn::stddev, VIEWF(stddev), DEC((int)a[0][0], nm::None, (int)a[1][0], nm::True), sp1(mn::ddof_axis)),
        prog<1, long>("cumsum", D_INT, fn::cumsum, VIEWF(cumsum), DEC((int)a[0][0]), sp1(mn::axis_any)),
        prog<1, long>("cumprod", D_INT, fn::cumprod, VIEWF(cumprod), DEC((int)a[0][0]), sp1(mn::axis_any)),
        prog<1, double>("softmax", D_ANY, fn::softmax, VIEWF(softmax), DEC((int)a[0][0]), sp1(mn::axis_any)),
        prog<1, double>("softmin", D_ANY, fn::softmin, VIEWF(softmin), DEC((int)a[0][0]), sp1(mn::axis_any))
    );
    return p;
}
#elif C14_GROUP == 4
// ---- binary ufuncs with their reduce_ / outer_ / accumulate_ functors, clip, the generic ufunc functors ----
#include "nmtools/array/functional/ufuncs/add.hpp"
#include "nmtools/array/functional/ufuncs/subtract.hpp"
#include "nmtools/array/functional/ufuncs/multiply.hpp"
#include "nmtools/array/functional/ufuncs/divide.hpp"
#include "nmtools/array/functional/ufuncs/maximum.hpp"
#include "nmtools/array/functional/ufuncs/minimum.hpp"
#include "nmtools/array/functional/ufuncs/arctan2.hpp"
#include "nmtools/array/functional/ufuncs/clip.hpp"
#include "nmtools/array/functional/ufuncs/negative.hpp"
#include "nmtools/array/functional/ufunc/ufunc.hpp"
#include "nmtools/array/functional/ufunc/reduce.hpp"
#include "nmtools/array/functional/ufunc/accumulate.hpp"
#include "nmtools/array/functional/ufunc/outer.hpp"
static Space outer_space() { return [](bool, const SpaceSink& f) { for (auto& s : all_shapes(1, 2)) for (auto& t : all_shapes(1, 2)) f({s, t}, LL{}); }; }
#define ATTRS_OF [](const auto& v) { return std::make_tuple(v.attributes()); }
#define FAMILY(X) \
        prog<2, long>(#X, D_INT, fn::X, VIEWF(X), DEC(), sp2()), \
        prog<1, long>("reduce_" #X, D_INT, fn::reduce_##X, [](const auto& x, const auto&... at) { return view::reduce(view::X##_t<>{}, x, at...); }, DEC((int)a[0][0]), sp1(mn::axis_any)), \
        prog<1, long>("reduce_" #X "_full", D_INT, fn::reduce_##X, [](const auto& x, const auto&... at) { return view::reduce(view::X##_t<>{}, x, at...); }, DEC((int)a[0][0], nm::None, (long)3, nm::True), sp1(mn::axis_pos)), \
        prog<2, long>("outer_" #X, D_INT, fn::outer_##X, [](const auto& x, const auto& y) { return view::outer(view::X##_t<>{}, x, y); }, DEC(), outer_space()), \
        prog<1, long>("accumulate_" #X, D_INT, fn::accumulate_##X, [](const auto& x, const auto&... at) { return view::accumulate(view::X##_t<>{}, x, at...); }, DEC((int)a[0][0]), sp1(mn::axis_any))
static const auto& programs() {
    static const auto p = std::make_tuple(
        FAMILY(add), FAMILY(subtract), FAMILY(multiply), FAMILY(maximum), FAMILY(minimum),
        prog<2, double>("divide", D_POS, fn::divide, VIEWF(divide), DEC(), sp2()),
        prog<2, double>("arctan2", D_ANY, fn::arctan2, VIEWF(arctan2), DEC(), sp2()),
        // clip: view::clip(dynamic, dynamic, dynamic) itself does not compile (where() on a maybe-valued comparison), so fn::clip cannot be driven here
        prog<1, long>("reduce_add_named_view", D_INT, fn::reduce_add, VIEWF(reduce_add), DEC(to_il(a[0])), sp1(mn::axis_list)),
        prog<2, long>("outer_add_named_view", D_INT, fn::outer_add, VIEWF(outer_add), DEC(), outer_space()),
        prog<1, long>("accumulate_add_named_view", D_INT, fn::accumulate_add, VIEWF(accumulate_add), DEC((int)a[0][0]), sp1(mn::axis_any)),
        prog_derived<1, long>("unary_ufunc_attr", D_INT, fn::unary_ufunc, VIEWF(negative), DEC(), ATTRS_OF, sp1()),
        prog_derived<2, long>("broadcast_binary_ufunc_attr", D_INT, fn::broadcast_binary_ufunc, VIEWF(subtract), DEC(), ATTRS_OF, sp2()),
        prog_derived<2, long>("binary_ufunc_attr", D_INT, fn::binary_ufunc, [](const auto& x, const auto& y) { return view::binary_ufunc(view::subtract_t<>{}, x, y); }, DEC(), ATTRS_OF, sp2same()),
        prog_derived<1, long>("reduce_attr", D_INT, fn::reduce, VIEWF(reduce_add), DEC((int)a[0][0]), ATTRS_OF, sp1(mn::axis_any)),
        prog_derived<1, long>("reduce_attr_full", D_INT, fn::reduce, VIEWF(reduce_add), DEC(to_il(a[0]), nm::None, (long)3, nm::True), ATTRS_OF, sp1(mn::axis_list)),
        prog_derived<1, long>("accumulate_attr", D_INT, fn::accumulate, VIEWF(accumulate_add), DEC((int)a[0][0]), ATTRS_OF, sp1(mn::axis_any)),
        prog_derived<2, long>("outer_attr", D_INT, fn::outer, VIEWF(outer_subtract), DEC(), ATTRS_OF, outer_space())
    );
    return p;
}
#elif C14_GROUP == 5
// ---- unary ufuncs (double operands in the function's domain; invert: long) ----
#include "nmtools/array/functional/ufuncs/arccos.hpp"
#include "nmtools/array/functional/ufuncs/arccosh.hpp"
#include "nmtools/array/functional/ufuncs/arcsin.hpp"
#include "nmtools/array/functional/ufuncs/arcsinh.hpp"
#include "nmtools/array/functional/ufuncs/arctan.hpp"
#include "nmtools/array/functional/ufuncs/arctanh.hpp"
#include "nmtools/array/functional/ufuncs/cbrt.hpp"
#include "nmtools/array/functional/ufuncs/ceil.hpp"
#include "nmtools/array/functional/ufuncs/cos.hpp"
#include "nmtools/array/functional/ufuncs/cosh.hpp"
#include "nmtools/array/functional/ufuncs/exp.hpp"
#include "nmtools/array/functional/ufuncs/exp2.hpp"
#include "nmtools/array/functional/ufuncs/expm1.hpp"
#include "nmtools/array/functional/ufuncs/fabs.hpp"
#include "nmtools/array/functional/ufuncs/floor.hpp"
#include "nmtools/array/functional/ufuncs/isfinite.hpp"
#include "nmtools/array/functional/ufuncs/isinf.hpp"
#include "nmtools/array/functional/ufuncs/isnan.hpp"
#include "nmtools/array/functional/ufuncs/log.hpp"
#include "nmtools/array/functional/ufuncs/log10.hpp"
#include "nmtools/array/functional/ufuncs/log1p.hpp"
#include "nmtools/array/functional/ufuncs/log2.hpp"
#include "nmtools/array/functional/ufuncs/negative.hpp"
#include "nmtools/array/functional/ufuncs/positive.hpp"
#include "nmtools/array/functional/ufuncs/reciprocal.hpp"
#include "nmtools/array/functional/ufuncs/rint.hpp"
#include "nmtools/array/functional/ufuncs/signbit.hpp"
#include "nmtools/array/functional/ufuncs/sin.hpp"
#include "nmtools/array/functional/ufuncs/sinh.hpp"
#include "nmtools/array/functional/ufuncs/sqrt.hpp"
#include "nmtools/array/functional/ufuncs/square.hpp"
#include "nmtools/array/functional/ufuncs/tan.hpp"
#include "nmtools/array/functional/ufuncs/tanh.hpp"
#include "nmtools/array/functional/ufuncs/invert.hpp"
static const auto& programs() {
    static const auto p = std::make_tuple(
        prog<1, double>("arccos", D_UNIT, fn::arccos, VIEWF(arccos), DEC(), sp1()),
        prog<1, double>("arccosh", D_GE1, fn::arccosh, VIEWF(arccosh), DEC(), sp1()),
        prog<1, double>("arcsin", D_UNIT, fn::arcsin, VIEWF(arcsin), DEC(), sp1()),
        prog<1, double>("arcsinh", D_ANY, fn::arcsinh, VIEWF(arcsinh), DEC(), sp1()),
        prog<1, double>("arctan", D_ANY, fn::arctan, VIEWF(arctan), DEC(), sp1()),
        prog<1, double>("arctanh", D_UNIT, fn::arctanh, VIEWF(arctanh), DEC(), sp1()),
        prog<1, double>("cbrt", D_ANY, fn::cbrt, VIEWF(cbrt), DEC(), sp1()),
        prog<1, double>("ceil", D_ANY, fn::ceil, VIEWF(ceil), DEC(), sp1()),
        prog<1, double>("cos", D_ANY, fn::cos, VIEWF(cos), DEC(), sp1()),
        prog<1, double>("cosh", D_ANY, fn::cosh, VIEWF(cosh), DEC(), sp1()),
        prog<1, double>("exp", D_ANY, fn::exp, VIEWF(exp), DEC(), sp1()),
        prog<1, double>("exp2", D_ANY, fn::exp2, VIEWF(exp2), DEC(), sp1()),
        prog<1, double>("expm1", D_ANY, fn::expm1, VIEWF(expm1), DEC(), sp1()),
        prog<1, double>("fabs", D_ANY, fn::fabs, VIEWF(fabs), DEC(), sp1()),
        prog<1, double>("floor", D_ANY, fn::floor, VIEWF(floor), DEC(), sp1()),
        prog<1, double>("isfinite", D_ANY, fn::isfinite, VIEWF(isfinite), DEC(), sp1()),
        prog<1, double>("isinf", D_ANY, fn::isinf, VIEWF(isinf), DEC(), sp1()),
        prog<1, double>("isnan", D_ANY, fn::isnan, VIEWF(isnan), DEC(), sp1()),
        prog<1, double>("log", D_POS, fn::log, VIEWF(log), DEC(), sp1()),
        prog<1, double>("log10", D_POS, fn::log10, VIEWF(log10), DEC(), sp1()),
        prog<1, double>("log1p", D_POS, fn::log1p, VIEWF(log1p), DEC(), sp1()),
        prog<1, double>("log2", D_POS, fn::log2, VIEWF(log2), DEC(), sp1()),
        prog<1, double>("negative", D_ANY, fn::negative, VIEWF(negative), DEC(), sp1()),
        prog<1, double>("positive", D_ANY, fn::positive, VIEWF(positive), DEC(), sp1()),
        prog<1, double>("reciprocal", D_POS, fn::reciprocal, VIEWF(reciprocal), DEC(), sp1()),
        prog<1, double>("rint", D_ANY, fn::rint, VIEWF(rint), DEC(), sp1()),
        prog<1, double>("signbit", D_ANY, fn::signbit, VIEWF(signbit), DEC(), sp1()),
        prog<1, double>("sin", D_ANY, fn::sin, VIEWF(sin), DEC(), sp1()),
        prog<1, double>("sinh", D_ANY, fn::sinh, VIEWF(sinh), DEC(), sp1()),
        prog<1, double>("sqrt", D_POS, fn::sqrt, VIEWF(sqrt), DEC(), sp1()),
        prog<1, double>("square", D_ANY, fn::square, VIEWF(square), DEC(), sp1()),
        prog<1, double>("tan", D_ANY, fn::tan, VIEWF(tan), DEC(), sp1()),
        prog<1, double>("tanh", D_ANY, fn::tanh, VIEWF(tanh), DEC(), sp1()),
        prog<1, long>("invert", D_INT, fn::invert, VIEWF(invert), DEC(), sp1())
    );
    return p;
}
#elif C14_GROUP == 6
// ---- activations ----
#include "nmtools/array/functional/activations/celu.hpp"
#include "nmtools/array/functional/activations/elu.hpp"
#include "nmtools/array/functional/activations/hardshrink.hpp"
#include "nmtools/array/functional/activations/hardswish.hpp"
#include "nmtools/array/functional/activations/hardtanh.hpp"
#include "nmtools/array/functional/activations/leaky_relu.hpp"
#include "nmtools/array/functional/activations/log_sigmoid.hpp"
#include "nmtools/array/functional/activations/mish.hpp"
#include "nmtools/array/functional/activations/prelu.hpp"
#include "nmtools/array/functional/activations/relu.hpp"
#include "nmtools/array/functional/activations/relu6.hpp"
#include "nmtools/array/functional/activations/selu.hpp"
#include "nmtools/array/functional/activations/sigmoid.hpp"
#include "nmtools/array/functional/activations/silu.hpp"
#include "nmtools/array/functional/activations/softplus.hpp"
#include "nmtools/array/functional/activations/softshrink.hpp"
#include "nmtools/array/functional/activations/softsign.hpp"
#include "nmtools/array/functional/activations/tanhshrink.hpp"
static double q(long v) { return (double)v / 4.0; }
static MenuR quarters1(const L&, bool) { return MenuR{{{1}}, {{2}}, {{4}}, {{8}}}; }
static MenuR min_max(const L&, bool) { MenuR r; for (long lo : {-4L, -2L}) for (long hi : {2L, 4L}) r.push_back({{lo}, {hi}}); return r; }
static const auto& programs() {
    static const auto p = std::make_tuple(
        prog<1, double>("celu", D_ANY, fn::celu, VIEWF(celu), DEC(), sp1()),
        prog<1, double>("elu", D_ANY, fn::elu, VIEWF(elu), DEC(), sp1()),
        prog<1, double>("hardshrink", D_ANY, fn::hardshrink, VIEWF(hardshrink), DEC(), sp1()),
        prog<1, double>("hardswish", D_ANY, fn::hardswish, VIEWF(hardswish), DEC(), sp1()),
        prog<1, double>("hardtanh", D_ANY, fn::hardtanh, VIEWF(hardtanh), DEC(), sp1()),
        prog<1, double>("leaky_relu", D_ANY, fn::leaky_relu, VIEWF(leaky_relu), DEC(), sp1()),
        prog<1, double>("log_sigmoid", D_ANY, fn::log_sigmoid, VIEWF(log_sigmoid), DEC(), sp1()),
        prog<1, double>("mish", D_ANY, fn::mish, VIEWF(mish), DEC(), sp1()),
        prog<1, double>("prelu", D_ANY, fn::prelu, VIEWF(prelu), DEC(), sp1()),
        prog<1, double>("relu", D_ANY, fn::relu, VIEWF(relu), DEC(), sp1()),
        prog<1, double>("relu6", D_ANY, fn::relu6, VIEWF(relu6), DEC(), sp1()),
        prog<1, double>("selu", D_ANY, fn::selu, VIEWF(selu), DEC(), sp1()),
        prog<1, double>("sigmoid", D_ANY, fn::sigmoid, VIEWF(sigmoid), DEC(), sp1()),
        prog<1, double>("silu", D_ANY, fn::silu, VIEWF(silu), DEC(), sp1()),
        prog<1, double>("softplus", D_ANY, fn::softplus, VIEWF(softplus), DEC(), sp1()),
        prog<1, double>("softshrink", D_ANY, fn::softshrink, VIEWF(softshrink), DEC(), sp1()),
        prog<1, double>("softsign", D_ANY, fn::softsign, VIEWF(softsign), DEC(), sp1()),
        prog<1, double>("tanhshrink", D_ANY, fn::tanhshrink, VIEWF(tanhshrink), DEC(), sp1()),
        // attribute forms (attribute values are quarters: the list holds 4 * value)
        prog<1, double>("celu_alpha", D_ANY, fn::celu, VIEWF(celu), DEC(q(a[0][0])), sp1(quarters1)),
        prog<1, double>("elu_alpha", D_ANY, fn::elu, VIEWF(elu), DEC(q(a[0][0])), sp1(quarters1)),
        prog<1, double>("hardshrink_lambda", D_ANY, fn::hardshrink, VIEWF(hardshrink), DEC(q(a[0][0])), sp1(quarters1)),
        prog<1, double>("hardtanh_min_max", D_ANY, fn::hardtanh, VIEWF(hardtanh), DEC(q(a[0][0]), q(a[1][0])), sp1(min_max)),
        prog<1, double>("leaky_relu_slope", D_ANY, fn::leaky_relu, VIEWF(leaky_relu), DEC(q(a[0][0])), sp1(quarters1)),
        prog<1, double>("prelu_alpha", D_ANY, fn::prelu, VIEWF(prelu), DEC(q(a[0][0])), sp1(quarters1)),
        prog<1, double>("softplus_beta_threshold", D_ANY, fn::softplus, VIEWF(softplus), DEC(q(a[0][0]), q(a[1][0])), sp1([](const L&, bool) { return MenuR{{{4}, {80}}, {{8}, {4}}, {{2}, {2}}}; })),
        prog<1, double>("softshrink_lambda", D_ANY, fn::softshrink, VIEWF(softshrink), DEC(q(a[0][0])), sp1(quarters1))
    );
    return p;
}
#elif C14_GROUP == 7
// ---- convolution, pooling, batch_norm (own small shape sets: these need (N,C,spatial...) inputs; batch size 1) ----
#include "nmtools/array/functional/conv1d.hpp"
#include "nmtools/array/functional/conv2d.hpp"
#include "nmtools/array/functional/pooling.hpp"
#include "nmtools/array/functional/batch_norm.hpp"
// channels (C,O,groups) in {(1,1,1),(2,1,1),(1,2,1),(2,2,1),(2,2,2)}; spatial extent 3..4; kernel 1..2; stride 1..2; padding 0..1; dilation 1
static void conv_space(int nd, bool bias, const SpaceSink& f) {
    const long ch[5][3] = {{1, 1, 1}, {2, 1, 1}, {1, 2, 1}, {2, 2, 1}, {2, 2, 2}};
    for (auto& c : ch) for (long n = 3; n <= (nd == 1 ? 4 : 3); n++) for (long k = 1; k <= 2; k++) for (long st = 1; st <= 2; st++) for (long pd = 0; pd <= 1; pd++) {
        L x{1, c[0]}, w{c[1], c[0] / c[2]}; for (int i = 0; i < nd; i++) { x.push_back(n); w.push_back(k); }
        std::vector<L> shapes{x, w}; if (bias) shapes.push_back(L{c[1]});
        if (nd == 1) f(shapes, LL{{st}, {pd}, {1}, {c[2]}}); else f(shapes, LL{L(2, st), L(2, pd), L(2, 1), {c[2]}});
    }
}
static void pool_space(const SpaceSink& f) {
    for (long H = 2; H <= 4; H++) for (long W = 2; W <= 4; W++) for (long kh = 1; kh <= 2; kh++) for (long kw = 1; kw <= 2; kw++) for (long st = 1; st <= 2; st++) for (long ce = 0; ce <= 1; ce++) {
        if (ce == 1 && st == 2) continue;   // the pooling VIEW itself dies with SIGFPE for ceil_mode with stride 2 on these extents (a C17 matter, not a functor matter)
        f({L{1, 1, H, W}}, LL{{kh, kw}, {st, st}, {ce}});
    }
}
static void bn_space(const SpaceSink& f, bool eps) { for (long C = 1; C <= 3; C++) for (long H = 1; H <= 2; H++) { L c{C}; if (eps) f({L{1, C, H, 2}, c, c, c, c}, LL{{1}}); else f({L{1, C, H, 2}, c, c, c, c}, LL{}); } }
static const auto& programs() {
    static const auto p = std::make_tuple(
        prog<2, long>("conv1d", D_INT, fn::conv1d, [](const auto& x, const auto& w, const auto&... at) { return view::conv1d(x, w, nm::None, at...); }, DEC((int)a[0][0], (int)a[1][0], (int)a[2][0], (int)a[3][0]), [](bool, const SpaceSink& f) { conv_space(1, false, f); }),
        prog<3, long>("conv1d_bias", D_INT, fn::conv1d_bias, VIEWF(conv1d), DEC((int)a[0][0], (int)a[1][0], (int)a[2][0], (int)a[3][0]), [](bool, const SpaceSink& f) { conv_space(1, true, f); }),
        prog<2, long>("conv2d", D_INT, fn::conv2d, [](const auto& x, const auto& w, const auto&... at) { return view::conv2d(x, w, nm::None, at...); }, DEC(to_il(a[0]), to_il(a[1]), to_il(a[2]), (int)a[3][0]), [](bool, const SpaceSink& f) { conv_space(2, false, f); }),
        prog<3, long>("conv2d_bias", D_INT, fn::conv2d_bias, VIEWF(conv2d), DEC(to_il(a[0]), to_il(a[1]), to_il(a[2]), (int)a[3][0]), [](bool, const SpaceSink& f) { conv_space(2, true, f); }),
        prog<1, long>("max_pool2d", D_INT, fn::max_pool2d, VIEWF(max_pool2d), DEC(to_il(a[0]), to_il(a[1]), (bool)(a[2][0] != 0)), [](bool, const SpaceSink& f) { pool_space(f); }),
        prog<1, double>("avg_pool2d", D_ANY, fn::avg_pool2d, VIEWF(avg_pool2d), DEC(to_il(a[0]), to_il(a[1]), (bool)(a[2][0] != 0)), [](bool, const SpaceSink& f) { pool_space(f); }),
        prog<5, double>("batch_norm", D_POS, fn::batch_norm, VIEWF(batch_norm), DEC(), [](bool, const SpaceSink& f) { bn_space(f, false); }),
        prog<5, double>("batch_norm_eps", D_POS, fn::batch_norm, VIEWF(batch_norm), DEC((double)a[0][0] / 1024.0), [](bool, const SpaceSink& f) { bn_space(f, true); })
    );
    return p;
}
#elif C14_GROUP == 8
// ---- operands that are views: a maybe-valued view (reshape to the same shape) or a plain view (negative) in either operand position ----
#include "nmtools/array/functional/ufuncs/subtract.hpp"
#include "nmtools/array/functional/ufuncs/negative.hpp"
#include "nmtools/array/functional/concatenate.hpp"
#include "nmtools/array/functional/reshape.hpp"
#include "nmtools/array/functional/where.hpp"
template <class A> static auto same_reshape(const A& a) { il s; for (size_t i = 0; i < (size_t)a.dim(); i++) s.push_back((int)nm::at(a.shape(), i)); return view::reshape(a, s); }
#define WRAP2(E0, E1) [](const auto& t) { const auto& x0 = std::get<0>(t); const auto& x1 = std::get<1>(t); (void)x0; (void)x1; return std::tuple<decltype(E0), decltype(E1)>(E0, E1); }
static const auto& programs() {
    static const auto p = std::make_tuple(
        prog_wrapped<2, long>("subtract_maybeview_array", D_INT, fn::subtract, VIEWF(subtract), DEC(), WRAP2(same_reshape(x0), (x1)), sp2()),
        prog_wrapped<2, long>("subtract_array_maybeview", D_INT, fn::subtract, VIEWF(subtract), DEC(), WRAP2((x0), same_reshape(x1)), sp2()),
        prog_wrapped<2, long>("subtract_view_array", D_INT, fn::subtract, VIEWF(subtract), DEC(), WRAP2(view::negative(x0), (x1)), sp2()),
        prog_wrapped<2, long>("subtract_array_view", D_INT, fn::subtract, VIEWF(subtract), DEC(), WRAP2((x0), view::negative(x1)), sp2()),
        prog_wrapped<2, long>("subtract_maybeview_maybeview", D_INT, fn::subtract, VIEWF(subtract), DEC(), WRAP2(same_reshape(x0), same_reshape(x1)), sp2()),
        prog_wrapped<2, long>("concatenate_maybeview_array", D_INT, fn::concatenate, VIEWF(concatenate), DEC((int)a[0][0]), WRAP2(same_reshape(x0), (x1)), sp2same(mn::axis_any)),
        prog_wrapped<2, long>("concatenate_array_view", D_INT, fn::concatenate, VIEWF(concatenate), DEC((int)a[0][0]), WRAP2((x0), view::negative(x1)), sp2same(mn::axis_any)),
        prog_wrapped<1, long>("reshape_of_maybeview", D_INT, fn::reshape, VIEWF(reshape), DEC(to_il(a[0])), [](const auto& t) { return std::make_tuple(same_reshape(std::get<0>(t))); }, sp1(mn::reshapes)),
        prog_wrapped<1, long>("negative_of_maybeview", D_INT, fn::negative, VIEWF(negative), DEC(), [](const auto& t) { return std::make_tuple(same_reshape(std::get<0>(t))); }, sp1())
    );
    return p;
}
#endif

void nmc_enumerate(const nmc::Tier& t, const nmc::Sink& emit) { enumerate_progs(programs(), t.thorough(), emit); }
Outcome nmc_execute(const Case& c) {
    if (c.op.rfind("cur:", 0) != 0) nmc::die("unknown op");
    return run_progs(programs(), c);
}
#include "nmtools/array/functional/ufuncs/subtract.hpp"
void nmc_selftest() {
    // a functor that forwards its operands in the wrong order must be flagged
    auto a = mk<long>(L{2, 3}, 0); auto b = mk<long>(L{3}, 1);
    const auto right = view::subtract(a, b); const auto wrong = fn::subtract(b)(a);
    if (diff_res(observe_any(wrong), observe_any(right)).empty()) nmc::die("selftest: oracle blind to operand order");
    const auto ok = fn::subtract(a)(b);
    if (!diff_res(observe_any(ok), observe_any(right)).empty()) nmc::die("selftest: subtract(a)(b) should equal the view");
    // split bookkeeping: binary functor with 1 attribute has 3 splits, ternary without attributes 4, unary with 4 attributes 1
    auto count = [](int N, int K) { long n = 0; for (long s = 0; s < n_split_codes(N, K); s++) n += split_ok(N, K, s); return n; };
    if (count(2, 1) != 3 || count(3, 0) != 4 || count(1, 4) != 1 || count(2, 4) != 6 || count(0, 3) != 1 || count(3, 1) != 8) nmc::die("selftest: split enumeration");
}
#endif

#if C14_PART == 2
// ---------------------------------------------------------------------------------------------------------------- (ii)
#ifndef C14_LEN
#define C14_LEN 2
#endif
#ifndef C14_SLICE
#define C14_SLICE -1
#endif
namespace lt = c14::letters;
#if C14_LEN <= 3
using alphabet = std::tuple<lt::U, lt::B, lt::R, lt::S, lt::T, lt::F, lt::C, lt::M, lt::w, lt::d, lt::g, lt::y>;
#else
using alphabet = std::tuple<lt::U, lt::B, lt::R, lt::T, lt::M, lt::w, lt::d>;    // 4-chains: reduced alphabet (see the report)
#endif
#ifndef C14_SUB
#define C14_SUB -1
#endif
using unit = c14::chains<alphabet, C14_LEN, C14_SLICE, C14_SUB>;

void nmc_enumerate(const nmc::Tier& t, const nmc::Sink& emit) {
    if (C14_LEN >= 4 && !t.thorough()) return;      // 4-chains belong to the thorough tier
    unit::enumerate(t.thorough(), emit);
}
Outcome nmc_execute(const Case& c) {
    if (c.op.rfind("cmp:", 0) != 0) nmc::die("unknown op");
    return unit::run(c);
}
void nmc_selftest() {
    // a composition that applies its functors in the wrong order must be flagged: compare negative(sum(a-b)) with sum(negative(a)-b)
    auto a = mk<long>(L{2, 3}, 0); auto b = mk<long>(L{3}, 1);
    const auto right = view::sum(view::subtract(view::negative(a), b), 0);
    const auto wrong = (fn::negative * fn::sum[0] * fn::subtract)(a, b);
    if (diff_res(observe_any(wrong), observe_any(right)).empty()) nmc::die("selftest: oracle blind to the order of composition");
    // swapped operands must be flagged
    const auto d1 = view::subtract(a, b); const auto d2 = (fn::subtract * cb::swap)(a, b);
    if (diff_res(observe_any(d2), observe_any(d1)).empty()) nmc::die("selftest: oracle blind to operand order");
    const auto d3 = (fn::subtract * cb::swap)(b, a);
    if (!diff_res(observe_any(d3), observe_any(d1)).empty()) nmc::die("selftest: subtract*swap (b,a) should equal subtract(a,b)");
}
#endif

#if C14_PART == 3
// ---------------------------------------------------------------------------------------------------------------- (iii)
// Non-triviality rule (part 3): apply check: the view has a value with >= 2 elements; operands check: the view has >= 2 leaf
// occurrences (or >= 2 elements); graph check: always (the graph is a property of the program).
// Programs: nested views of depth 1..3 (quick) / 1..4 (thorough) over {negative, add/subtract/multiply (broadcasting), sum(axis),
// reshape, transpose, flatten, broadcast_to, matmul}; leaves a, b (companion of a), m (right matmul operand); capital letters in a
// name = the leaf is wrapped in view::alias(leaf, id).  Each program carries the graph built by hand.
#ifndef C14_GROUP
#error "define C14_GROUP (1..3)"
#endif
using namespace nmtools::literals;
static il flat_of(const arr_t& a) { long n = 1; for (size_t i = 0; i < (size_t)a.dim(); i++) n *= (long)nm::at(a.shape(), i); il r; r.push_back((int)n); return r; }
static il shape_il(const arr_t& a) { il r; for (size_t i = 0; i < (size_t)a.dim(); i++) r.push_back((int)nm::at(a.shape(), i)); return r; }
// Two patterns are rejected by the COMPILER (fail types inside nmtools, so they are not instantiated; both are reported):
//   NO_GRAPH: get_compute_graph of a non-ufunc operation (matmul) whose view operand is followed by an un-aliased leaf (CT_MAP_OUT_OF_RANGE)
//   NO_APPLY: get_function_composition of a unary ufunc applied directly to view::alias(leaf, id) (GET_FUNCTION_UNSUPPORTED<alias view>)
#ifdef C14_ASSUME_ALIAS_FIX      // build with this once get_function_composition skips an alias under a unary ufunc
enum { ALL = 7, NO_GRAPH = 3, NO_APPLY = 7 };
#else
enum { ALL = 7, NO_GRAPH = 3, NO_APPLY = 6 };
#endif
#define XB [](const arr_t& a, const arr_t& b, const arr_t& m, int axis)
#define HG []() -> HGraph
static const auto& xprograms() {
    static const auto p = std::make_tuple(
#if C14_GROUP == 1
        xprog<ALL>("neg_a", 1, USE_A, XB { return view::negative(a); }, HG { HGraph g; int a = g.leaf(0); g.op("negative", {a}); return g; }),
        xprog<ALL>("sub_a_b", 1, USE_A | USE_B, XB { return view::subtract(a, b); }, HG { HGraph g; int a = g.leaf(0), b = g.leaf(1); g.op("subtract", {a, b}); return g; }),
        xprog<ALL>("sum_a", 1, USE_A | USE_AXIS, XB { return view::sum(a, axis); }, HG { HGraph g; int a = g.leaf(0); g.op("sum", {a}); return g; }),
        xprog<ALL>("reshape_a", 1, USE_A, XB { return view::reshape(a, flat_of(a)); }, HG { HGraph g; int a = g.leaf(0); g.op("reshape", {a}); return g; }),
        xprog<ALL>("transpose_a", 1, USE_A, XB { return view::transpose(a); }, HG { HGraph g; int a = g.leaf(0); g.op("transpose", {a}); return g; }),
        xprog<ALL>("flatten_a", 1, USE_A, XB { return view::flatten(a); }, HG { HGraph g; int a = g.leaf(0); g.op("flatten", {a}); return g; }),
        xprog<ALL>("broadcast_to_b", 1, USE_A | USE_B, XB { return view::broadcast_to(b, shape_il(a)); }, HG { HGraph g; int b = g.leaf(1); g.op("broadcast_to", {b}); return g; }),
        xprog<ALL>("matmul_a_m", 1, USE_A | USE_M, XB { return view::matmul(a, m); }, HG { HGraph g; int a = g.leaf(0), m = g.leaf(2); g.op("matmul", {a, m}); return g; }),
        xprog<ALL>("sub_a_a", 1, USE_A, XB { return view::subtract(a, a); }, HG { HGraph g; int a1 = g.leaf(0), a2 = g.leaf(0); g.op("subtract", {a1, a2}); return g; }),
        xprog<ALL>("sub_A_A", 1, USE_A, XB { auto A = view::alias(a, 0_ct); return view::subtract(A, A); }, HG { HGraph g; int a = g.leaf(0); g.op("subtract", {a, a}); return g; })
#elif C14_GROUP == 2
        xprog<ALL>("neg_transpose_a", 2, USE_A, XB { return view::negative(view::transpose(a)); }, HG { HGraph g; int a = g.leaf(0); int t = g.op("transpose", {a}); g.op("negative", {t}); return g; }),
        xprog<ALL>("sum_mul_a_b", 2, USE_A | USE_B | USE_AXIS, XB { return view::sum(view::multiply(a, b), axis); }, HG { HGraph g; int a = g.leaf(0), b = g.leaf(1); int x = g.op("multiply", {a, b}); g.op("sum", {x}); return g; }),
        xprog<ALL>("transpose_sub_a_b", 2, USE_A | USE_B, XB { return view::transpose(view::subtract(a, b)); }, HG { HGraph g; int a = g.leaf(0), b = g.leaf(1); int x = g.op("subtract", {a, b}); g.op("transpose", {x}); return g; }),
        xprog<ALL>("add_mul_a_b_b", 2, USE_A | USE_B, XB { return view::add(view::multiply(a, b), b); }, HG { HGraph g; int a = g.leaf(0), b = g.leaf(1); int x = g.op("multiply", {a, b}); int b2 = g.leaf(1); g.op("add", {x, b2}); return g; }),
        xprog<ALL>("add_mul_A_B_B", 2, USE_A | USE_B, XB { auto A = view::alias(a, 0_ct); auto B = view::alias(b, 1_ct); return view::add(view::multiply(A, B), B); }, HG { HGraph g; int a = g.leaf(0), b = g.leaf(1); int x = g.op("multiply", {a, b}); g.op("add", {x, b}); return g; }),
        xprog<ALL>("mul_sumkeep_a_a", 2, USE_A | USE_AXIS, XB { return view::multiply(view::sum(a, axis, nm::None, nm::None, nm::True), a); }, HG { HGraph g; int a = g.leaf(0); int x = g.op("sum", {a}); int a2 = g.leaf(0); g.op("multiply", {x, a2}); return g; }),
        xprog<ALL>("reshape_neg_a", 2, USE_A, XB { return view::reshape(view::negative(a), flat_of(a)); }, HG { HGraph g; int a = g.leaf(0); int x = g.op("negative", {a}); g.op("reshape", {x}); return g; }),
        xprog<ALL>("matmul_a_neg_m", 2, USE_A | USE_M, XB { return view::matmul(a, view::negative(m)); }, HG { HGraph g; int a = g.leaf(0), m = g.leaf(2); int x = g.op("negative", {m}); g.op("matmul", {a, x}); return g; }),
        xprog<NO_APPLY>("matmul_A_neg_M", 2, USE_A | USE_M, XB { auto A = view::alias(a, 0_ct); auto M = view::alias(m, 1_ct); return view::matmul(A, view::negative(M)); }, HG { HGraph g; int a = g.leaf(0), m = g.leaf(2); int x = g.op("negative", {m}); g.op("matmul", {a, x}); return g; }),
        xprog<NO_GRAPH>("matmul_neg_a_m", 2, USE_A | USE_M, XB { return view::matmul(view::negative(a), m); }, HG { HGraph g; int a = g.leaf(0); int x = g.op("negative", {a}); int m = g.leaf(2); g.op("matmul", {x, m}); return g; }),
        xprog<NO_APPLY>("matmul_neg_A_M", 2, USE_A | USE_M, XB { auto A = view::alias(a, 0_ct); auto M = view::alias(m, 1_ct); return view::matmul(view::negative(A), M); }, HG { HGraph g; int a = g.leaf(0); int x = g.op("negative", {a}); int m = g.leaf(2); g.op("matmul", {x, m}); return g; }),
        xprog<ALL>("sub_a_neg_b", 2, USE_A | USE_B, XB { return view::subtract(a, view::negative(b)); }, HG { HGraph g; int a = g.leaf(0), b = g.leaf(1); int x = g.op("negative", {b}); g.op("subtract", {a, x}); return g; }),
        xprog<NO_APPLY>("sub_A_neg_B", 2, USE_A | USE_B, XB { auto A = view::alias(a, 0_ct); auto B = view::alias(b, 1_ct); return view::subtract(A, view::negative(B)); }, HG { HGraph g; int a = g.leaf(0), b = g.leaf(1); int x = g.op("negative", {b}); g.op("subtract", {a, x}); return g; }),
        xprog<ALL>("flatten_broadcast_to_b", 2, USE_A | USE_B, XB { return view::flatten(view::broadcast_to(b, shape_il(a))); }, HG { HGraph g; int b = g.leaf(1); int x = g.op("broadcast_to", {b}); g.op("flatten", {x}); return g; }),
        // an EXPLICIT broadcast_to below a ufunc, to a shape the leaves would not broadcast to on their own (seeded change m14b: extraction skipped it together with the implicit wrapper)
        xprog<ALL>("add_broadcast_to_b_b", 2, USE_A | USE_B, XB { return view::add(view::broadcast_to(b, shape_il(a)), b); }, HG { HGraph g; int b = g.leaf(1); int x = g.op("broadcast_to", {b}); int b2 = g.leaf(1); g.op("add", {x, b2}); return g; }),
        xprog<ALL>("neg_broadcast_to_b", 2, USE_A | USE_B, XB { return view::negative(view::broadcast_to(b, shape_il(a))); }, HG { HGraph g; int b = g.leaf(1); int x = g.op("broadcast_to", {b}); g.op("negative", {x}); return g; })
#else
        xprog<ALL>("reshape_add_mul_a_b_b", 3, USE_A | USE_B, XB { return view::reshape(view::add(view::multiply(a, b), b), flat_of(a)); }, HG { HGraph g; int a = g.leaf(0), b = g.leaf(1); int x = g.op("multiply", {a, b}); int b2 = g.leaf(1); int y = g.op("add", {x, b2}); g.op("reshape", {y}); return g; }),
        xprog<ALL>("sum_transpose_mul_a_b", 3, USE_A | USE_B | USE_AXIS, XB { return view::sum(view::transpose(view::multiply(a, b)), axis); }, HG { HGraph g; int a = g.leaf(0), b = g.leaf(1); int x = g.op("multiply", {a, b}); int y = g.op("transpose", {x}); g.op("sum", {y}); return g; }),
        xprog<ALL>("neg_sum_sub_a_b", 3, USE_A | USE_B | USE_AXIS, XB { return view::negative(view::sum(view::subtract(a, b), axis)); }, HG { HGraph g; int a = g.leaf(0), b = g.leaf(1); int x = g.op("subtract", {a, b}); int y = g.op("sum", {x}); g.op("negative", {y}); return g; }),
        xprog<ALL>("mul_sub_a_b_add_a_b", 3, USE_A | USE_B, XB { return view::multiply(view::subtract(a, b), view::add(a, b)); }, HG { HGraph g; int a = g.leaf(0), b = g.leaf(1); int x = g.op("subtract", {a, b}); int a2 = g.leaf(0), b2 = g.leaf(1); int y = g.op("add", {a2, b2}); g.op("multiply", {x, y}); return g; }),
        xprog<ALL>("mul_sub_A_B_add_A_B", 3, USE_A | USE_B, XB { auto A = view::alias(a, 0_ct); auto B = view::alias(b, 1_ct); return view::multiply(view::subtract(A, B), view::add(A, B)); }, HG { HGraph g; int a = g.leaf(0), b = g.leaf(1); int x = g.op("subtract", {a, b}); int y = g.op("add", {a, b}); g.op("multiply", {x, y}); return g; }),
        xprog<ALL>("transpose_reshape_neg_a", 3, USE_A, XB { return view::transpose(view::reshape(view::negative(a), flat_of(a))); }, HG { HGraph g; int a = g.leaf(0); int x = g.op("negative", {a}); int y = g.op("reshape", {x}); g.op("transpose", {y}); return g; }),
        xprog<ALL>("sub_neg_neg_a_neg_b", 3, USE_A | USE_B, XB { return view::subtract(view::negative(view::negative(a)), view::negative(b)); }, HG { HGraph g; int a = g.leaf(0); int x = g.op("negative", {a}); int y = g.op("negative", {x}); int b = g.leaf(1); int z = g.op("negative", {b}); g.op("subtract", {y, z}); return g; }),
        xprog<NO_APPLY>("matmul_neg_A_neg_M", 3, USE_A | USE_M, XB { auto A = view::alias(a, 0_ct); auto M = view::alias(m, 1_ct); return view::matmul(view::negative(A), view::negative(M)); }, HG { HGraph g; int a = g.leaf(0); int x = g.op("negative", {a}); int m = g.leaf(2); int y = g.op("negative", {m}); g.op("matmul", {x, y}); return g; }),
        xprog<ALL>("neg_reshape_add_mul_a_b_b", 4, USE_A | USE_B, XB { return view::negative(view::reshape(view::add(view::multiply(a, b), b), flat_of(a))); }, HG { HGraph g; int a = g.leaf(0), b = g.leaf(1); int x = g.op("multiply", {a, b}); int b2 = g.leaf(1); int y = g.op("add", {x, b2}); int z = g.op("reshape", {y}); g.op("negative", {z}); return g; }),
        xprog<ALL>("neg_sum_transpose_sub_a_b", 4, USE_A | USE_B | USE_AXIS, XB { return view::negative(view::sum(view::transpose(view::subtract(a, b)), axis)); }, HG { HGraph g; int a = g.leaf(0), b = g.leaf(1); int x = g.op("subtract", {a, b}); int y = g.op("transpose", {x}); int z = g.op("sum", {y}); g.op("negative", {z}); return g; }),
        xprog<ALL>("flatten_mul_sumkeep_sub_A_B_A", 4, USE_A | USE_B | USE_AXIS, XB { auto A = view::alias(a, 0_ct); auto B = view::alias(b, 1_ct); return view::flatten(view::multiply(view::sum(view::subtract(A, B), axis, nm::None, nm::None, nm::True), A)); }, HG { HGraph g; int a = g.leaf(0), b = g.leaf(1); int x = g.op("subtract", {a, b}); int y = g.op("sum", {x}); int z = g.op("multiply", {y, a}); g.op("flatten", {z}); return g; })
#endif
    );
    return p;
}
void nmc_enumerate(const nmc::Tier& t, const nmc::Sink& emit) { enumerate_xprogs(xprograms(), t.thorough(), emit); }
Outcome nmc_execute(const Case& c) {
    if (c.op.rfind("ext:", 0) != 0) nmc::die("unknown op");
    return run_xprogs(xprograms(), c);
}
void nmc_selftest() {
    // the graph comparison must reject a graph with a missing leaf node / a redirected edge, and accept a renumbering
    HGraph h; int a = h.leaf(0), m = h.leaf(2); int x = h.op("negative", {m}); h.op("matmul", {a, x});
    int A = 1, M = 2; std::vector<const void*> leaves{&A, &A, &M};
    AGraph good; good.nodes = {{7, false, &A, {}}, {3, false, &M, {}}, {500, true, nullptr, {3}}, {9, true, nullptr, {7, 500}}}; good.edges = {{3, 500}, {7, 9}, {500, 9}};
    if (!compare_graphs(good, h, leaves).empty()) nmc::die("selftest: isomorphic graph rejected");
    AGraph lost; lost.nodes = {{0, false, &A, {}}, {500, true, nullptr, {0}}, {9, true, nullptr, {0, 500}}}; lost.edges = {{0, 500}, {0, 9}, {500, 9}};
    if (compare_graphs(lost, h, leaves).empty()) nmc::die("selftest: graph with a lost leaf accepted");
    AGraph redirected = good; redirected.edges = {{7, 500}, {7, 9}, {500, 9}};
    if (compare_graphs(redirected, h, leaves).empty()) nmc::die("selftest: graph with a redirected edge accepted");
    AGraph swapped = good; swapped.nodes[3].operands = {500, 7};
    if (compare_graphs(swapped, h, leaves).empty()) nmc::die("selftest: operand order of an operation not checked");
    // operand order derived from the hand graph
    std::vector<int> order; h.operand_order(h.root, order); if (order != std::vector<int>{0, 2}) nmc::die("selftest: operand order");
}
#endif
