// C06 - broadcasting follows NumPy's rules and is symmetric, associative, idempotent (E1)
#include "nmtools/array/index/broadcast_shape.hpp"
#include "nmtools/array/view/broadcast_to.hpp"
#include "nmtools/array/view/broadcast_arrays.hpp"
#include "nmtools/array/array/broadcast_to.hpp"
#include "nmtools/array/array/broadcast_arrays.hpp"
#include "nmtools/array/index/free_axes.hpp"
#define NMC_MAIN
#include "common.hpp"

const char* nmc_property() { return "C06"; }

void nmc_enumerate(const nmc::Tier& t, const nmc::Sink& emit) {
    std::vector<L> S04_4, S03_3, S04_3, S14_3;
    nmc::each_shape_range(0, 4, 4, [&](const L& s) { S04_4.push_back(s); });
    nmc::each_shape_range(0, 3, 3, [&](const L& s) { S03_3.push_back(s); });
    nmc::each_shape_range(0, 4, 3, [&](const L& s) { S04_3.push_back(s); });
    nmc::each_shape_range(1, 4, 3, [&](const L& s) { S14_3.push_back(s); });
    for (auto& a : S04_4) for (auto& b : S04_4) emit(Case("bs2", {a, b}));
    // index::free_axes(result shape, original shape) for every broadcastable pair of S(0..3,3) (the helper is in the property's anchors although no view calls it):
    // an axis of the RESULT is free iff it is prepended or the original extent there is 1
    for (auto& a : S03_3) for (auto& b : S03_3) { if (b.empty()) continue; emit(Case("fax", {a, b})); }
    auto& T = t.thorough() ? S04_3 : S03_3;
    for (auto& a : T) for (auto& b : T) for (auto& c : T) emit(Case("bs3", {a, b, c}));
    if (t.thorough()) {   // pairs up to dim 6 over extents {1,2,3}
        std::vector<L> S56; nmc::each_shape_range(5, 6, 3, [&](const L& s) { S56.push_back(s); });
        for (auto& a : S56) for (auto& b : S04_3) { emit(Case("bs2", {a, b})); emit(Case("bs2", {b, a})); }
        for (size_t i = 0; i < S56.size(); i += 7) for (size_t j = 0; j < S56.size(); j += 5) emit(Case("bs2", {S56[i], S56[j]}));
    }
    // mixed container kinds (0 list, 1 fixed array, 2 static_vector, 3 clipped array (bound 2), 4 run-time tuple, 5 clipped array (bound 3), 6 tuple of compile-time constants): all pairs of S(1..3,3) (q: S(1..3,2) + extent 3 in dim<=2)
    {
        std::vector<L> K; nmc::each_shape_range(1, 3, t.thorough() ? 4 : 3, [&](const L& s) { K.push_back(s); });
        auto fits = [](int k, const L& s) { long bound = k == 3 ? 2 : ((k == 5 || k == 6) ? 3 : 99); for (long v : s) if (v > bound) return false; return true; };   // a clipped container can only hold values up to its bound
        for (int ka = 0; ka < 6; ka++) for (int kb = 0; kb < 6; kb++) { if (ka == 0 && kb == 0) continue; for (auto& a : K) for (auto& b : K) if (fits(ka, a) && fits(kb, b)) emit(Case("bs2k", {{ka}, {kb}, a, b})); }
        // kind 6 = a tuple of compile-time constants (extents <= 3): against every run-time kind, in both operand orders ("constant with dynamic" of the property text;
        // seeded change m06c lived in the result-type selection for constant x fixed-rank run-time shapes).  constant x constant is the uniform case of C09's kind matrix.
        for (int kb = 0; kb < 6; kb++) for (auto& a : K) for (auto& b : K) if (fits(6, a) && fits(kb, b)) { emit(Case("bs2k", {{6}, {kb}, a, b})); emit(Case("bs2k", {{kb}, {6}, b, a})); }
    }
    // element level: every (source, target) pair, compatible or not, every element index
    for (auto& s : S14_3) for (auto& d : S04_3) emit(Case("bto", {s, d}));
    for (auto& d : S04_3) emit(Case("bto_scalar", {d}));
    auto& P = t.thorough() ? S14_3 : S14_3;
    for (auto& a : P) for (auto& b : P) { if (!t.thorough() && a.size() + b.size() > 6) continue; emit(Case("barr", {a, b})); }
    // ---- overloads / argument kinds the cases above never pass (audit of optional parameters / overloads)
    std::vector<L> S13_2, S12_3, G4;
    nmc::each_shape_range(1, 3, 2, [&](const L& s) { S13_2.push_back(s); });
    nmc::each_shape_range(1, 2, 3, [&](const L& s) { S12_3.push_back(s); });
    // barr|a|b|1: the EAGER array::broadcast_arrays (pairs of S(1..3,2); thorough also S(1..2,3))
    for (auto& a : S13_2) for (auto& b : S13_2) emit(Case("barr", {a, b, {1}}));
    if (t.thorough()) for (auto& a : S12_3) for (auto& b : S12_3) emit(Case("barr", {a, b, {1}}));
    // barr3|a|b|c: THREE operands, lazy and eager (triples of S(1..3,2), quick: dims summing <= 7; thorough also triples of S(1..2,3))
    for (auto& a : S13_2) for (auto& b : S13_2) for (auto& c : S13_2) { if (!t.thorough() && a.size() + b.size() + c.size() > 7) continue; emit(Case("barr3", {a, b, c})); }
    if (t.thorough()) for (auto& a : S12_3) for (auto& b : S12_3) for (auto& c : S12_3) emit(Case("barr3", {a, b, c}));
    // barrs|pos|a[|b]: a SCALAR operand (position pos) mixed with one or two arrays, lazy and eager
    for (auto& a : S13_2) { emit(Case("barrs", {{0}, a})); emit(Case("barrs", {{1}, a})); }
    for (auto& a : S13_2) for (auto& b : S13_2) { if (!t.thorough() && a.size() + b.size() > 4) continue; for (long pos = 0; pos <= 2; pos++) emit(Case("barrs", {{pos}, a, b})); }
    // bs4|a|b|c|d: index::broadcast_shape with FOUR shapes: all quadruples of a small grid holding 0..2-d shapes with extents 1, 2, 3 (an incompatible shape
    // occurs in every position); thorough: all quadruples of S(0..2,3)
    if (t.thorough()) nmc::each_shape_range(0, 2, 3, [&](const L& s) { G4.push_back(s); });
    else G4 = {L{}, L{1}, L{2}, L{3}, L{1, 2}, L{2, 1}, L{3, 1}, L{2, 3}};
    for (auto& a : G4) for (auto& b : G4) for (auto& c : G4) for (auto& d : G4) emit(Case("bs4", {a, b, c, d}));
    // bto_scalar|d|1: the EAGER array::broadcast_to with a scalar source
    for (auto& d : S04_3) emit(Case("bto_scalar", {d, {1}}));
}

// ---- container kinds for the mixed-kind matrix: 0 list, 1 fixed array, 2 static_vector<.,4>, 3 array of clipped_size_t<2>, 4 run-time tuple, 5 array of clipped_size_t<3>
template <typename C> static C fillc(const L& s) { C c{}; if constexpr (meta::is_resizable_v<C>) c.resize(s.size()); for (size_t i = 0; i < s.size(); i++) nm::at(c, i) = s[i]; return c; }
template <size_t... I> static auto mk_tuple(const L& s, std::index_sequence<I...>) { return nmtools_tuple<decltype((void)I, size_t{})...>{(size_t)s[I]...}; }
template <size_t D, typename F> static auto with_dim(int kind, const L& s, F&& f) {
    switch (kind) {
    case 1: return f(fillc<nmtools_array<size_t, D>>(s));
    case 3: return f(fillc<nmtools_array<nm::clipped_size_t<2>, D>>(s));
    case 5: return f(fillc<nmtools_array<nm::clipped_size_t<3>, D>>(s));
    default: return f(mk_tuple(s, std::make_index_sequence<D>{}));
    }
}
// kind 6: the shape as a tuple of meta::ct constants, extents 1..3, dim 1..3 (values must be template arguments: a three-level switch)
template <size_t... V> static auto ct_tuple() { return nmtools_tuple{meta::ct_v<V>...}; }
template <size_t A, size_t B, typename F> static auto with_ct3(long c, F&& f) { switch (c) { case 1: return f(ct_tuple<A, B, 1>()); case 2: return f(ct_tuple<A, B, 2>()); default: return f(ct_tuple<A, B, 3>()); } }
template <size_t A, typename F> static auto with_ct2(const L& s, F&& f) {
    if (s.size() == 2) { switch (s[1]) { case 1: return f(ct_tuple<A, 1>()); case 2: return f(ct_tuple<A, 2>()); default: return f(ct_tuple<A, 3>()); } }
    switch (s[1]) { case 1: return with_ct3<A, 1>(s[2], f); case 2: return with_ct3<A, 2>(s[2], f); default: return with_ct3<A, 3>(s[2], f); }
}
template <typename F> static auto with_ct(const L& s, F&& f) {
    if (s.size() == 1) { switch (s[0]) { case 1: return f(ct_tuple<1>()); case 2: return f(ct_tuple<2>()); default: return f(ct_tuple<3>()); } }
    switch (s[0]) { case 1: return with_ct2<1>(s, f); case 2: return with_ct2<2>(s, f); default: return with_ct2<3>(s, f); }
}
template <typename F> static auto with_kind(int kind, const L& s, F&& f) {
    if (kind == 6) return with_ct(s, f);
    if (kind == 0) return f(fillc<nmtools_list<size_t>>(s));
    if (kind == 2) return f(fillc<nmtools_static_vector<size_t, 4>>(s));
    switch (s.size()) { case 1: return with_dim<1>(kind, s, f); case 2: return with_dim<2>(kind, s, f); default: return with_dim<3>(kind, s, f); }
}

template <typename M> static std::optional<L> shape_of(const M& m) {
    if constexpr (meta::is_maybe_v<M>) { if (!nm::has_value(m)) return std::nullopt; return nmc::to_L(*m); }
    else return nmc::to_L(m);
}
static std::string show(const std::optional<L>& s) { return s ? nmc::str(*s) : std::string("fail"); }

// every member of a broadcast_arrays result (tuple of views, or of evaluated arrays; maybe-wrapped) against the model broadcast_to(source_i, common shape)
template <typename R> static Outcome judge_pack(const R& res, const std::vector<RArr>& srcs, const std::optional<L>& bs, bool nontriv, const std::string& what) {
    if constexpr (meta::is_maybe_v<R>) {
        if (!nm::has_value(res)) { if (!bs) return Outcome::ok(true, 17); return Outcome::bad("rejects-valid", what + ": broadcast_arrays reported Nothing, expected shape " + nmc::str(*bs)); }
        return judge_pack(*res, srcs, bs, nontriv, what);
    } else {
        if (!bs) return Outcome::bad("accepts-invalid", what + ": broadcast_arrays accepted incompatible shapes");
        constexpr auto N = meta::len_v<R>;
        if ((size_t)N != srcs.size()) return Outcome::bad("wrong", what + ": the result has " + std::to_string((long)N) + " members for " + std::to_string(srcs.size()) + " operands");
        Outcome acc = Outcome::ok(nontriv, 0); bool failed = false;
        meta::template_for<N>([&](auto i) {
            constexpr size_t I = decltype(i)::value; if (failed) return;
            Outcome o = judge(nmc::observe(nm::get<I>(res)), ref::broadcast_to(srcs[I], *bs), nontriv);
            if (!o.fail.empty()) { o.fail = what + ", operand " + std::to_string(I) + ": " + o.fail; acc = o; failed = true; } else acc.outcome ^= nmc::mix(o.outcome + I);
        });
        return acc;
    }
}
template <typename V, typename E> static Outcome pack_both(const V& lazy, const E& eager, const std::vector<RArr>& srcs, const std::vector<L>& shapes) {
    auto bs = ref::broadcast_shapes(shapes);
    bool nontriv = !bs; if (bs) for (auto& s : shapes) if (s != *bs) nontriv = true;
    Outcome o = judge_pack(lazy, srcs, bs, nontriv, "view");
    if (!o.fail.empty()) return o;
    Outcome e = judge_pack(eager, srcs, bs, nontriv, "array");
    if (!e.fail.empty()) return e;
    if (e.outcome != o.outcome) return Outcome::bad("wrong", "view::broadcast_arrays and array::broadcast_arrays disagree", nontriv, o.outcome);
    return o;
}

Outcome nmc_execute(const Case& c) {
    if (c.op == "bs2") {
        auto a = to_sl(c.a[0]), b = to_sl(c.a[1]);
        auto want = ref::broadcast_shapes({c.a[0], c.a[1]});
        auto got = shape_of(ix::broadcast_shape(a, b));
        bool stretched = want && (*want != c.a[0] || *want != c.a[1]);
        uint64_t h = got ? nmc::hash_vec(*got) : 17;
        if (got != want) return Outcome::bad(!want ? "accepts-invalid" : (!got ? "rejects-valid" : "wrong"), "broadcast_shape" + nmc::str(c.a[0]) + nmc::str(c.a[1]) + " = " + show(got) + " expected " + show(want), true, h);
        auto rev = shape_of(ix::broadcast_shape(b, a));
        if (rev != got) return Outcome::bad("wrong", "not symmetric: (a,b)=" + show(got) + " (b,a)=" + show(rev), true, h);
        auto self = shape_of(ix::broadcast_shape(a, a));
        if (!self || *self != c.a[0]) return Outcome::bad("wrong", "not idempotent: (a,a)=" + show(self), true, h);
        if (got) { auto r = to_sl(*got); auto again = shape_of(ix::broadcast_shape(a, r)); if (again != got) return Outcome::bad("wrong", "bs(a,bs(a,b)) = " + show(again) + " != bs(a,b) = " + show(got), true, h); }
        return Outcome::ok(stretched || !want, h);
    }
    if (c.op == "fax") {
        auto bs = ref::broadcast_shapes({c.a[0], c.a[1]});
        if (!bs) return Outcome::ok(false, 23);                      // not broadcastable: free_axes is not defined
        const L& r = *bs; const L& o = c.a[1];
        L want(r.size(), 0); for (size_t i = 0; i < r.size(); i++) { long bi = (long)o.size() - (long)(r.size() - i); want[i] = (bi < 0 || o[(size_t)bi] == 1) ? 1 : 0; }
        auto got = ix::free_axes(to_sl(r), to_sl(o));
        L g; for (size_t i = 0; i < (size_t)nm::len(got); i++) g.push_back(nm::at(got, i) ? 1 : 0);
        uint64_t h = nmc::hash_vec(g) ^ nmc::mix(nmc::hash_vec(r));
        if (g != want) return Outcome::bad("wrong", "free_axes" + nmc::str(r) + nmc::str(o) + " = " + nmc::str(g) + " expected " + nmc::str(want), true, h);
        return Outcome::ok(r != o, h);
    }
    if (c.op == "bs2k") {
        auto want = ref::broadcast_shapes({c.a[2], c.a[3]});
        std::optional<L> got = with_kind((int)c.a[0][0], c.a[2], [&](const auto& a) { return with_kind((int)c.a[1][0], c.a[3], [&](const auto& b) -> std::optional<L> {
            // constant x constant is never enumerated here (an incompatible pair of constant shapes is rejected by the COMPILER): not instantiated
            if constexpr (meta::is_constant_index_array_v<meta::remove_cvref_t<decltype(a)>> && meta::is_constant_index_array_v<meta::remove_cvref_t<decltype(b)>>) return std::nullopt;
            else return shape_of(ix::broadcast_shape(a, b)); }); });
        uint64_t h = (got ? nmc::hash_vec(*got) : 17) ^ nmc::mix((uint64_t)(c.a[0][0] * 8 + c.a[1][0]));
        if (got != want) return Outcome::bad(!want ? "accepts-invalid" : (!got ? "rejects-valid" : "wrong"), "kinds " + std::to_string(c.a[0][0]) + "x" + std::to_string(c.a[1][0]) + ": broadcast_shape" + nmc::str(c.a[2]) + nmc::str(c.a[3]) + " = " + show(got) + " expected " + show(want), true, h);
        return Outcome::ok(!want || *want != c.a[2] || *want != c.a[3], h);
    }
    if (c.op == "bs3") {
        auto a = to_sl(c.a[0]), b = to_sl(c.a[1]), d = to_sl(c.a[2]);
        auto want = ref::broadcast_shapes({c.a[0], c.a[1], c.a[2]});
        auto got = shape_of(ix::broadcast_shape(a, b, d));
        uint64_t h = got ? nmc::hash_vec(*got) : 17;
        if (got != want) return Outcome::bad(!want ? "accepts-invalid" : (!got ? "rejects-valid" : "wrong"), "broadcast_shape(a,b,c) = " + show(got) + " expected " + show(want), true, h);
        auto left = shape_of(ix::broadcast_shape(ix::broadcast_shape(a, b), d));
        auto right = shape_of(ix::broadcast_shape(a, ix::broadcast_shape(b, d)));
        if (left != got || right != got) return Outcome::bad("wrong", "not associative: ((a,b),c)=" + show(left) + " (a,(b,c))=" + show(right) + " (a,b,c)=" + show(got), true, h);
        bool stretched = want && (*want != c.a[0] || *want != c.a[1] || *want != c.a[2]);
        return Outcome::ok(stretched || !want, h);
    }
    if (c.op == "bto") {
        RArr r = RArr::iota(c.a[0]); auto a = make_arr<long>(c.a[0]); auto d = to_sl(c.a[1]);
        ROpt want = ref::broadcast_to(r, c.a[1]);
        bool nontriv = !want || want->shape != r.shape;
        Outcome o = judge(nmc::observe(view::broadcast_to(a, d)), want, nontriv);
        if (!o.fail.empty()) { o.fail = "view: " + o.fail; return o; }
        Outcome e = judge(nmc::observe(na::broadcast_to(a, d)), want, nontriv);
        if (!e.fail.empty()) { e.fail = "array: " + e.fail; return e; }
        return o;
    }
    if (c.op == "bto_scalar") {
        RArr r(L{}, {7.0}); auto d = to_sl(c.a[0]); long x = 7;
        ROpt want = ref::broadcast_to(r, c.a[0]);
        if (c.a.size() > 1) { Outcome e = judge(nmc::observe(na::broadcast_to(x, d)), want, true); if (!e.fail.empty()) e.fail = "array: " + e.fail; return e; }
        return judge(nmc::observe(view::broadcast_to(x, d)), want, true);
    }
    if (c.op == "barr" && c.a.size() > 2) {   // eager form
        RArr ra = RArr::iota(c.a[0]), rb = RArr::iota(c.a[1], 100);
        auto a = make_arr<long>(c.a[0]); auto b = make_arr<long>(c.a[1], 100);
        const auto lazy = view::broadcast_arrays(a, b); const auto eager = na::broadcast_arrays(a, b);
        return pack_both(lazy, eager, {ra, rb}, {c.a[0], c.a[1]});
    }
    if (c.op == "barr3") {
        RArr ra = RArr::iota(c.a[0]), rb = RArr::iota(c.a[1], 100), rc = RArr::iota(c.a[2], 200);
        auto a = make_arr<long>(c.a[0]); auto b = make_arr<long>(c.a[1], 100); auto d = make_arr<long>(c.a[2], 200);
        const auto lazy = view::broadcast_arrays(a, b, d); const auto eager = na::broadcast_arrays(a, b, d);
        return pack_both(lazy, eager, {ra, rb, rc}, {c.a[0], c.a[1], c.a[2]});
    }
    if (c.op == "barrs") {
        long pos = c.a[0][0]; long x = 7; RArr rx(L{}, {7.0});
        RArr ra = RArr::iota(c.a[1]); auto a = make_arr<long>(c.a[1]);
        if (c.a.size() == 2) {
            if (pos == 0) { const auto lazy = view::broadcast_arrays(x, a); const auto eager = na::broadcast_arrays(x, a); return pack_both(lazy, eager, {rx, ra}, {L{}, c.a[1]}); }
            const auto lazy = view::broadcast_arrays(a, x); const auto eager = na::broadcast_arrays(a, x); return pack_both(lazy, eager, {ra, rx}, {c.a[1], L{}});
        }
        RArr rb = RArr::iota(c.a[2], 100); auto b = make_arr<long>(c.a[2], 100);
        if (pos == 0) { const auto lazy = view::broadcast_arrays(x, a, b); const auto eager = na::broadcast_arrays(x, a, b); return pack_both(lazy, eager, {rx, ra, rb}, {L{}, c.a[1], c.a[2]}); }
        if (pos == 1) { const auto lazy = view::broadcast_arrays(a, x, b); const auto eager = na::broadcast_arrays(a, x, b); return pack_both(lazy, eager, {ra, rx, rb}, {c.a[1], L{}, c.a[2]}); }
        const auto lazy = view::broadcast_arrays(a, b, x); const auto eager = na::broadcast_arrays(a, b, x); return pack_both(lazy, eager, {ra, rb, rx}, {c.a[1], c.a[2], L{}});
    }
    if (c.op == "bs4") {
        auto a = to_sl(c.a[0]), b = to_sl(c.a[1]), d = to_sl(c.a[2]), e = to_sl(c.a[3]);
        auto want = ref::broadcast_shapes({c.a[0], c.a[1], c.a[2], c.a[3]});
        auto got = shape_of(ix::broadcast_shape(a, b, d, e));
        uint64_t h = got ? nmc::hash_vec(*got) : 17;
        if (got != want) return Outcome::bad(!want ? "accepts-invalid" : (!got ? "rejects-valid" : "wrong"), "broadcast_shape(a,b,c,d) = " + show(got) + " expected " + show(want), true, h);
        auto nested = shape_of(ix::broadcast_shape(ix::broadcast_shape(a, b), ix::broadcast_shape(d, e)));
        if (nested != got) return Outcome::bad("wrong", "((a,b),(c,d)) = " + show(nested) + " but (a,b,c,d) = " + show(got), true, h);
        bool stretched = want && (*want != c.a[0] || *want != c.a[1] || *want != c.a[2] || *want != c.a[3]);
        return Outcome::ok(stretched || !want, h);
    }
    if (c.op == "barr") {
        RArr ra = RArr::iota(c.a[0]), rb = RArr::iota(c.a[1], 100);
        auto a = make_arr<long>(c.a[0]); auto b = make_arr<long>(c.a[1], 100);
        auto bs = ref::broadcast_shapes({c.a[0], c.a[1]});
        ROpt wa, wb; if (bs) { wa = ref::broadcast_to(ra, *bs); wb = ref::broadcast_to(rb, *bs); }
        const auto res = view::broadcast_arrays(a, b);
        bool nontriv = !bs || *bs != c.a[0] || *bs != c.a[1];
        if constexpr (meta::is_maybe_v<meta::remove_cvref_t<decltype(res)>>) {
            if (!nm::has_value(res)) { if (!bs) return Outcome::ok(true, 17); return Outcome::bad("rejects-valid", "broadcast_arrays reported Nothing, expected shape " + nmc::str(*bs)); }
            if (!bs) return Outcome::bad("accepts-invalid", "broadcast_arrays accepted incompatible shapes");
            const auto& tup = *res;
            Outcome o1 = judge(nmc::observe(nm::get<0>(tup)), wa, nontriv); if (!o1.fail.empty()) { o1.fail = "first: " + o1.fail; return o1; }
            Outcome o2 = judge(nmc::observe(nm::get<1>(tup)), wb, nontriv); if (!o2.fail.empty()) { o2.fail = "second: " + o2.fail; return o2; }
            o1.outcome ^= o2.outcome; return o1;
        } else {
            Outcome o1 = judge(nmc::observe(nm::get<0>(res)), wa, nontriv); if (!o1.fail.empty()) { o1.fail = "first: " + o1.fail; return o1; }
            Outcome o2 = judge(nmc::observe(nm::get<1>(res)), wb, nontriv); if (!o2.fail.empty()) { o2.fail = "second: " + o2.fail; return o2; }
            o1.outcome ^= o2.outcome; return o1;
        }
    }
    nmc::die("unknown op");
}

void nmc_selftest() {
    // a broadcast that right-pads instead of left-pads must be seen
    auto w = ref::broadcast_shapes({L{2, 1}, L{3}});
    if (!w || *w != L{2, 3}) nmc::die("selftest: model broadcast (2,1),(3)");
    if (ref::broadcast_shapes({L{2, 3}, L{2}})) nmc::die("selftest: model accepts (2,3),(2)");
    RArr r = RArr::iota(L{3, 1});
    ROpt b = ref::broadcast_to(r, L{2, 3, 2});
    if (!b || b->data[1] != 1 || b->data[2] != 2 || b->data[6] != 1) nmc::die("selftest: broadcast_to model");
    auto w4 = ref::broadcast_shapes({L{2, 1}, L{3}, L{}, L{1, 1, 1}});
    if (!w4 || *w4 != L{1, 2, 3}) nmc::die("selftest: model broadcast of four shapes");
    if (ref::broadcast_shapes({L{2}, L{1}, L{1}, L{3}})) nmc::die("selftest: model accepts (2),(1),(1),(3)");
    // a broadcast_arrays that hands back the operands in the wrong order must be seen
    std::vector<RArr> srcs{RArr::iota(L{2, 1}), RArr::iota(L{3}, 100)};
    Obs swapped = ref::broadcast_to(srcs[1], L{2, 3})->obs();
    if (nmc::diff(swapped, ref::broadcast_to(srcs[0], L{2, 3})).empty()) nmc::die("selftest: oracle blind to swapped operands");
}
