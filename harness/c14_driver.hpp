// c14_driver.hpp - generic driver for C14 (functors, currying, composition and extraction are equivalent to direct views).
//
// Programs are TYPES (a functor with its attribute kinds / a chain of functors / a nested view); this header contains the
// generic machinery, c14_functional.cpp instantiates the program lists (one unit per -DC14_PART / -DC14_GROUP / -DC14_LEN / -DC14_SLICE).
//
// Oracle: differential.  The expected value of every functor / composition / extracted-function call is the DIRECT view call on
// the same operands and attributes, read at every index with nmc::observe (shape + every element; Nothing must agree too).  The only
// hand-written expectations are (a) the stack permutations of the four combinators (swap, dup, dig2, bury2) and (b) the compute
// graph that part 3 builds by hand next to every nested view.  nmtools::utils::isequal / isclose are never used.
#pragma once
#include "nmtools/array/functional/functor.hpp"
#include "nmtools/array/functional/combinator.hpp"
#include "common.hpp"
#include "nmc_ref_c14.hpp"
#include <tuple>
#include <array>
#include <cmath>
#include <cstring>
#include <utility>
#include <type_traits>
#include <typeinfo>
#include <cxxabi.h>

namespace c14 {
namespace fn = nmtools::functional;
namespace cb = nmtools::combinator;
namespace rm = nmc::ref::c14;
using rm::Shapes;

template <class X> inline const auto& deref(const X& x) { if constexpr (std::is_pointer_v<X>) return *x; else return x; }

// ------------------------------------------------------------------------------------------------ operands
// operand number k of a case: all values distinct inside the operand and (for k < 5) across operands of up to 27 elements
enum Dom { D_INT, D_ANY, D_POS, D_UNIT, D_GE1 };
template <class T> inline dyn_t<T> mk(const L& shape, int k, int dom = D_INT) {
    dyn_t<T> a; a.resize(to_sl(shape));
    long n = nmc::prod(shape);
    for (long i = 0; i < n; i++) {
        double v;
        switch (dom) {
        case D_ANY:  v = (0.25 * (double)(i + 1) + 7.0 * k) * ((i & 1) ? -1.0 : 1.0); break;
        case D_POS:  v = 0.25 * (double)(i + 1) + 7.0 * k; break;
        case D_UNIT: v = ((double)(i + 1) / (double)(n + 2 + k)) * 0.9 * ((i & 1) ? -1.0 : 1.0); break;
        case D_GE1:  v = 1.0 + 0.25 * (double)(i + 1) + 7.0 * k; break;
        default:     v = (double)(1 + i + 30 * k); break;
        }
        a.data_[(size_t)i] = (T)v;
    }
    return a;
}

// ------------------------------------------------------------------------------------------------ observation of any result
// a result is an array-like (array, view, maybe of them, number) or an operand pack (tuple of pointers to arrays / views)
struct Res {
    bool pack = false;
    bool nested = false;               // a pack that contains a pack (possibly inside a maybe) instead of being flat
    std::string weird;                 // type of the first element that is neither an array-like nor a pack
    int foreign = -1;                  // index of the first pack element that points to an object which is not one of the case's operands
    const std::vector<const void*>* known = nullptr;   // addresses of the case's operand arrays (when given, other pointers are not dereferenced)
    std::vector<Obs> items;
    std::vector<const void*> addr;     // address of the array for items that are passed-through operands (pointers), else nullptr
    uint64_t hash() const { uint64_t h = pack ? 77 : 79; for (auto& o : items) h = nmc::mix(h * 1099511628211ULL + o.hash()); return h; }
    long elements() const { long n = 0; for (auto& o : items) n += (long)o.data.size(); return n; }
    bool all_have() const { for (auto& o : items) if (!o.has) return false; return !items.empty(); }
    std::string str() const { std::string s = pack ? "pack{" : ""; for (size_t i = 0; i < items.size(); i++) { if (i) s += " ; "; s += items[i].str(12); } return s + (pack ? "}" : ""); }
};
template <class T> struct is_std_tuple : std::false_type {};
template <class... Ts> struct is_std_tuple<std::tuple<Ts...>> : std::true_type {};
template <class T> constexpr bool is_pack_v = is_std_tuple<T>::value || (meta::is_tuple_v<T> && !meta::is_ndarray_v<T> && !meta::is_view_v<T>);
template <class T> inline std::string type_of() { int st = 0; char* d = abi::__cxa_demangle(typeid(T).name(), nullptr, nullptr, &st); std::string r = d ? d : typeid(T).name(); free(d); if (r.size() > 160) r = r.substr(0, 160) + "..."; return r; }
template <class R> inline void observe_into(Res& x, const R& r, int depth);
template <class E> inline void observe_item(Res& r, const E& e, int depth) {
    if constexpr (std::is_pointer_v<E>) {
        if (r.known && std::find(r.known->begin(), r.known->end(), (const void*)e) == r.known->end()) {   // a pointer into nowhere (e.g. to a destroyed temporary copy): never dereferenced
            if (r.foreign < 0) r.foreign = (int)r.items.size();
            Obs o; o.has = false; r.items.push_back(o); r.addr.push_back((const void*)e);
        } else { r.items.push_back(nmc::observe(*e)); r.addr.push_back((const void*)e); }
    }
    else if constexpr (meta::is_maybe_v<E>) { if (!nm::has_value(e)) { Obs o; o.has = false; r.items.push_back(o); r.addr.push_back(nullptr); } else observe_item(r, *e, depth); }
    else if constexpr (is_pack_v<E>) { if (depth > 0) r.nested = true; observe_into(r, e, depth + 1); }
    else if constexpr (meta::is_num_v<E> || meta::is_ndarray_v<E> || meta::is_view_v<E> || meta::is_either_v<E>) { r.items.push_back(nmc::observe(e)); r.addr.push_back(nullptr); }
    else { if (r.weird.empty()) r.weird = type_of<E>(); Obs o; o.has = false; r.items.push_back(o); r.addr.push_back(nullptr); }   // e.g. a functor that is still waiting for operands
}
template <class R> inline void observe_into(Res& x, const R& r, int depth) {
    if constexpr (is_std_tuple<R>::value) std::apply([&](const auto&... e) { (observe_item(x, e, depth), ...); }, r);
    else { constexpr auto N = meta::len_v<R>; meta::template_for<N>([&](auto i) { observe_item(x, nm::get<decltype(i)::value>(r), depth); }); }
}
template <class R> inline Res observe_any(const R& r, const std::vector<const void*>* known = nullptr) {
    Res x; x.known = known;
    if constexpr (meta::is_maybe_v<R>) { if (!nm::has_value(r)) { Obs o; o.has = false; x.items.push_back(o); x.addr.push_back(nullptr); return x; } return observe_any(*r, known); }
    else if constexpr (is_pack_v<R>) { observe_into(x, r, 1); x.pack = x.items.size() != 1; return x; }
    else { observe_item(x, r, 0); return x; }
}
inline bool same_value(double a, double b) { return a == b ? (std::signbit(a) == std::signbit(b) || a != 0) : (std::isnan(a) && std::isnan(b)); }
// "" = equal
inline std::string diff_obs(const Obs& got, const Obs& want) {
    if (got.bad_shape) return "absurd shape " + nmc::str(got.shape);
    if (got.has != want.has) return got.has ? ("has a value where the direct call is Nothing; got " + got.str(12)) : ("is Nothing, direct call gives " + want.str(12));
    if (!got.has) return "";
    if (got.scalar != want.scalar) return std::string("is ") + (got.scalar ? "a number" : "an array") + ", direct call gives " + (want.scalar ? "a number" : "an array");
    if (got.shape != want.shape) return "shape " + nmc::str(got.shape) + ", direct call has " + nmc::str(want.shape);
    if (got.data.size() != want.data.size()) return "element count " + std::to_string(got.data.size()) + ", direct call has " + std::to_string(want.data.size());
    for (size_t i = 0; i < got.data.size(); i++) if (!same_value(got.data[i], want.data[i])) { char b[200]; snprintf(b, sizeof b, "element %zu = %.17g, direct call has %.17g (shape %s)", i, got.data[i], want.data[i], nmc::str(got.shape).c_str()); return b; }
    return "";
}
inline std::string diff_res(const Res& got, const Res& want) {
    if (!got.weird.empty()) return "result contains an object that is neither an array nor an operand pack: " + got.weird + " (direct evaluation: " + want.str() + ")";
    if (got.foreign >= 0) return "pack element " + std::to_string(got.foreign) + " is a pointer to an object that is none of the operands passed to the call (a dangling pointer to a temporary copy; not dereferenced); direct evaluation: " + want.str();
    if (got.nested) return "result is a nested operand pack (a pack inside a pack), the direct evaluation gives the flat pack " + want.str();
    if (got.items.size() == 1 && want.items.size() == 1 && !got.items[0].has && !want.items[0].has) return "";
    if (got.pack != want.pack || got.items.size() != want.items.size()) return "result is " + std::string(got.pack ? "a pack of " : "a single value (") + std::to_string(got.items.size()) + "), expected " + (want.pack ? "a pack of " : "a single value (") + std::to_string(want.items.size()) + ")";
    for (size_t i = 0; i < got.items.size(); i++) {
        std::string d = diff_obs(got.items[i], want.items[i]);
        if (!d.empty()) return (got.pack ? "pack element " + std::to_string(i) + ": " : std::string()) + d;
        if (got.addr[i] != want.addr[i]) {
            if (got.addr[i] && want.addr[i]) return "pack element " + std::to_string(i) + " is a different array object (address) than the operand that the direct evaluation passes through";
            if (want.addr[i]) continue;   // a passed-through operand may be wrapped, its value was compared
        }
    }
    return "";
}
inline Outcome verdict(const Res& got, const Res& want, bool nontriv, const std::string& what) {
    std::string d = diff_res(got, want);
    if (d.empty()) return Outcome::ok(nontriv, want.hash());
    const char* kind = "wrong";
    if (got.items.size() == 1 && want.items.size() == 1) { if (!got.items[0].has && want.items[0].has) kind = "rejects-valid"; else if (got.items[0].has && !want.items[0].has) kind = "accepts-invalid"; }
    return Outcome::bad(kind, what + ": " + d, nontriv, got.hash());
}

// ================================================================================================ PART 1: currying
// A split of f[a_0]...[a_{K-1}](x_0,...,x_{N-1}) is a composition of N into successive call groups (mask over the N-1 cut positions)
// together with the group index p_j after which attribute a_j is applied (0 = before any operand; non-decreasing; every attribute is
// applied before the last group, because the last group evaluates the functor).  operator[] takes one attribute at a time, so the
// attribute list itself has exactly one composition; what varies is where the [..] applications sit between the (..) applications.
// split id = mask + n_masks * sum_j p_j * G^j   with G = max(N,1)
constexpr int n_masks(int N) { return N <= 1 ? 1 : (1 << (N - 1)); }
constexpr int popcount_(int m) { int c = 0; while (m) { c += m & 1; m >>= 1; } return c; }
constexpr int gmax(int N) { return N < 1 ? 1 : N; }
constexpr long n_split_codes(int N, int K) { long r = n_masks(N); for (int j = 0; j < K; j++) r *= gmax(N); return r; }
constexpr int split_mask(int N, long s) { return (int)(s % n_masks(N)); }
constexpr int split_pos(int N, long s, int j) { long c = s / n_masks(N); for (int i = 0; i < j; i++) c /= gmax(N); return (int)(c % gmax(N)); }
constexpr bool split_ok(int N, int K, long s) {
    if (s < 0 || s >= n_split_codes(N, K)) return false;
    int g = popcount_(split_mask(N, s)) + 1, prev = 0;
    for (int j = 0; j < K; j++) { int p = split_pos(N, s, j); if (p < prev || p >= g) return false; prev = p; }
    return true;
}
constexpr int group_end(int N, int mask, int i) { int e = i + 1; while (e < N && !((mask >> (e - 1)) & 1)) e++; return e; }
inline std::string split_name(int N, int K, long s) {
    std::string r = "f"; int g = 0, j = 0, i = 0, mask = split_mask(N, s);
    auto attrs = [&]() { while (j < K && split_pos(N, s, j) == g) { r += "[a" + std::to_string(j) + "]"; j++; } };
    attrs();
    if (N == 0) return r + "()";
    while (i < N) { int e = group_end(N, mask, i); r += "("; for (int k = i; k < e; k++) { if (k > i) r += ","; r += "x" + std::to_string(k); } r += ")"; i = e; g++; attrs(); }
    return r;
}
template <int I, int E, class F, class Ops, size_t... X> inline auto call_range_(const F& f, const Ops& ops, std::index_sequence<X...>) { return f(std::get<I + X>(ops)...); }
template <int N, int K, long S, int I, int J, int G, class F, class Ops, class At> inline auto apply_split(const F& f, const Ops& ops, const At& at) {
    if constexpr (J < K && split_pos(N, S, (J < K ? J : 0)) == G) return apply_split<N, K, S, I, J + 1, G>(f[std::get<(J < K ? J : 0)>(at)], ops, at);
    else if constexpr (I < N) { constexpr int E = group_end(N, split_mask(N, S), I); return apply_split<N, K, S, E, J, G + 1>(call_range_<I, E>(f, ops, std::make_index_sequence<(size_t)(E - I)>{}), ops, at); }
    else if constexpr (N == 0) return f();
    else return f;
}

using SpaceSink = std::function<void(const std::vector<L>& shapes, const LL& attrs)>;
using Space = std::function<void(bool thorough, const SpaceSink&)>;
struct no_derive { };
// NOPS operands of element type T (values from domain `dom`; opmod 1: operand 0 is a 0/1 mask); fn = the functor; direct(ops..., attrs...) =
// the view call; decode(LL) -> std::tuple of attribute objects; derive(view) -> std::tuple of functor attributes taken from the direct view
// (generic functors that are driven with view.attributes()); space = the finite input space of the program.
struct no_wrap { template <class Ops> const Ops& operator()(const Ops& ops) const { return ops; } };
template <int NOPS_, class T_, class Fn, class Direct, class Decode, class Derive = no_derive, class Wrap = no_wrap> struct prog_t {
    static constexpr int NOPS = NOPS_; using T = T_;
    const char* name; int dom; int opmod; Fn fn; Direct direct; Decode decode; Space space; Derive derive; Wrap wrap;
    static constexpr bool derived = !std::is_same_v<Derive, no_derive>;
};
template <int NOPS, class T, class Fn, class Direct, class Decode> inline auto prog(const char* name, int dom, Fn fn, Direct direct, Decode decode, Space space, int opmod = 0) {
    return prog_t<NOPS, T, Fn, Direct, Decode>{name, dom, opmod, fn, direct, decode, std::move(space), no_derive{}, no_wrap{}};
}
template <int NOPS, class T, class Fn, class Direct, class Decode, class Derive> inline auto prog_derived(const char* name, int dom, Fn fn, Direct direct, Decode decode, Derive derive, Space space) {
    return prog_t<NOPS, T, Fn, Direct, Decode, Derive>{name, dom, 0, fn, direct, decode, std::move(space), derive, no_wrap{}};
}
// operands that are themselves views: wrap(tuple of arrays) -> tuple of the operands handed to the functor and to the direct call
template <int NOPS, class T, class Fn, class Direct, class Decode, class Wrap> inline auto prog_wrapped(const char* name, int dom, Fn fn, Direct direct, Decode decode, Wrap wrap, Space space) {
    return prog_t<NOPS, T, Fn, Direct, Decode, no_derive, Wrap>{name, dom, 0, fn, direct, decode, std::move(space), no_derive{}, wrap};
}
template <class V> inline const auto& unwrapped(const V& v) { if constexpr (meta::is_maybe_v<V>) return *v; else return v; }
template <class T, size_t... I> inline auto make_ops(const Case& c, int dom, int opmod, std::index_sequence<I...>) {
    auto t = std::make_tuple(mk<T>(c.a[1 + I], (int)I, dom)...);
    if constexpr (sizeof...(I) > 0) if (opmod == 1) { auto& m = std::get<0>(t); long n = nmc::prod(c.a[1]); for (long i = 0; i < n; i++) m.data_[(size_t)i] = (T)((i * 5 + 1) % 3 != 0); }
    return t;
}
// key of a currying case:  cur:<program> | split id | shape of operand 0 | ... | attribute list 0 | ...
template <class P> inline Outcome run_prog(const P& p, const Case& c) {
    constexpr int N = P::NOPS;
    long split = c.a[0][0];
    if ((int)c.a.size() < 1 + N) nmc::die("currying case: wrong number of fields");
    const auto arrays = make_ops<typename P::T>(c, p.dom, p.opmod, std::make_index_sequence<(size_t)N>{});
    const auto& ops = p.wrap(arrays);
    const LL attrs(c.a.begin() + 1 + N, c.a.end());
    const auto at = p.decode(attrs);
    const auto v = std::apply([&](const auto&... x) { return std::apply([&](const auto&... a) { return p.direct(x..., a...); }, at); }, ops);
    const Res want = observe_any(v);
    bool nontriv = want.all_have() && want.elements() >= 2;
    auto go = [&](const auto& fat) -> Outcome {
        constexpr int K = (int)std::tuple_size_v<meta::remove_cvref_t<decltype(fat)>>;
        Outcome out; bool done = false;
        meta::template_for<(size_t)n_split_codes(N, K)>([&](auto si) {
            constexpr long S = (long)decltype(si)::value;
            if constexpr (split_ok(N, K, S)) {
                if (done || S != split) return;
                done = true;
                const auto r = apply_split<N, K, S, 0, 0, 0>(p.fn, ops, fat);
                out = verdict(observe_any(r), want, nontriv, split_name(N, K, S));
            }
        });
        if (!done) nmc::die("currying case: invalid split id");
        return out;
    };
    if constexpr (P::derived) {
        if constexpr (meta::is_maybe_v<meta::remove_cvref_t<decltype(v)>>) { if (!nm::has_value(v)) { nmc::count("direct_is_nothing"); return Outcome::ok(false, want.hash()); } }
        return go(p.derive(unwrapped(v)));
    } else return go(at);
}
template <class P> constexpr int prog_K() {     // number of attributes the functor receives (a derived program receives exactly one: view.attributes())
    using At = decltype(std::declval<const P&>().decode(std::declval<const LL&>()));
    if constexpr (P::derived) return 1; else return (int)std::tuple_size_v<At>;
}
template <class Progs> inline void enumerate_progs(const Progs& progs, bool thorough, const nmc::Sink& emit) {
    std::apply([&](const auto&... p) {
        auto one = [&](const auto& pr) {
            using P = meta::remove_cvref_t<decltype(pr)>;
            constexpr int N = P::NOPS; constexpr int K = prog_K<P>();
            pr.space(thorough, [&](const std::vector<L>& shapes, const LL& attrs) {
                if ((int)shapes.size() != N) nmc::die("program space: wrong number of operand shapes");
                for (long s = 0; s < n_split_codes(N, K); s++) if (split_ok(N, K, s)) { Case c(std::string("cur:") + pr.name); c.arg(s); for (auto& sh : shapes) c.arg(sh); for (auto& a : attrs) c.arg(a); emit(c); }
            });
        };
        (one(p), ...);
    }, progs);
}
template <class Progs> inline Outcome run_progs(const Progs& progs, const Case& c) {
    std::string name = c.op.substr(4);
    Outcome out; bool found = false;
    std::apply([&](const auto&... p) { ((!found && name == p.name ? (found = true, out = run_prog(p, c), 0) : 0), ...); }, progs);
    if (!found) nmc::die("currying case: program is not part of this unit");
    return out;
}

// ---- spaces ----
inline std::vector<L> all_shapes(int dlo = 1, int dhi = 3) { std::vector<L> r; nmc::each_shape_range(dlo, dhi, 3, [&](const L& s) { r.push_back(s); }); return r; }
using Menu1 = std::function<std::vector<LL>(const L& s, bool thorough)>;
using Menu2 = std::function<std::vector<LL>(const L& a, const L& b, bool thorough)>;
inline std::vector<LL> menu_none(const L&, bool) { return {LL{}}; }
// unary: every shape of S(dlo..dhi,3) x menu
inline Space sp1(Menu1 menu = menu_none, int dlo = 1, int dhi = 3) { return [=](bool th, const SpaceSink& f) { for (auto& s : all_shapes(dlo, dhi)) for (auto& at : menu(s, th)) f({s}, at); }; }
// binary broadcasting: S x companion shapes x menu
inline Space sp2(Menu2 menu = [](const L&, const L&, bool) { return std::vector<LL>{LL{}}; }) { return [=](bool th, const SpaceSink& f) { for (auto& s : all_shapes()) for (auto& b : rm::companion_shapes(s)) for (auto& at : menu(s, b, th)) f({s, b}, at); }; }
// binary with equal shapes
inline Space sp2same(Menu1 menu = menu_none, int dlo = 1) { return [=](bool th, const SpaceSink& f) { for (auto& s : all_shapes(dlo)) for (auto& at : menu(s, th)) f({s, s}, at); }; }

// ================================================================================================ PART 2: compositions
// A letter describes one functor of the alphabet:
//   code, arity, nout; functor(attr) -> the nmtools functor (attributes applied); step(attr, stack) -> the stack after the DIRECT
//   evaluation (view call on the first `arity` stack elements, the rest passed on); run-time info for the enumerator (menu / shape).
template <class Ltr, class St, size_t... I, size_t... R>
inline auto view_step_(const L& at, const St& st, std::index_sequence<I...>, std::index_sequence<R...>) {
    return std::make_tuple(Ltr::direct(at, deref(std::get<I>(st))...), std::get<Ltr::arity + R>(st)...);
}
template <class Ltr, class St> inline auto view_step(const L& at, const St& st) {
    constexpr size_t n = std::tuple_size_v<St>;
    static_assert(n >= (size_t)Ltr::arity, "direct evaluation: stack underflow");
    return view_step_<Ltr>(at, st, std::make_index_sequence<Ltr::arity>{}, std::make_index_sequence<n - Ltr::arity>{});
}
template <class St, size_t... I> inline auto pick(const St& st, std::index_sequence<I...>) { return std::make_tuple(std::get<I>(st)...); }
template <size_t Off, class St, size_t... I> inline auto pick_from(const St& st, std::index_sequence<I...>) { return std::make_tuple(std::get<Off + I>(st)...); }

struct LetterInfo {
    char code; int arity, nout;
    std::vector<L> (*menu)(const Shapes& st, bool thorough);   // attribute values for the inputs at the top of the stack
    bool (*apply)(const L& at, Shapes& st);                     // shape effect on the stack; false = not well defined
};
inline std::vector<L> no_attr(const Shapes&, bool) { return {L{}}; }

// chain of letters (left to right as written: Ls0 * Ls1 * ... ; applied right to left)
template <class... Ls> struct chain_traits {
    static constexpr int N = sizeof...(Ls);
    static constexpr int ar[N] = {Ls::arity...};
    static constexpr int no[N] = {Ls::nout...};
    static constexpr rm::Need need = rm::chain_need(ar, no, N);
    static std::string code() { return std::string{Ls::code...}; }
};

constexpr int n_parens(int n) { return n <= 2 ? 1 : (n == 3 ? 2 : (n == 4 ? 5 : 0)); }
inline const char* paren_name(int n, int p) {
    static const char* n3[] = {"(f*g)*h", "f*(g*h)"};
    static const char* n4[] = {"((f*g)*h)*k", "(f*(g*h))*k", "(f*g)*(h*k)", "f*((g*h)*k)", "f*(g*(h*k))"};
    return n <= 2 ? "f*g" : (n == 3 ? n3[p] : n4[p]);
}
template <int P, class F> inline auto compose(const F& fs) {
    constexpr size_t N = std::tuple_size_v<F>;
    if constexpr (N == 1) return std::get<0>(fs);
    else if constexpr (N == 2) return std::get<0>(fs) * std::get<1>(fs);
    else if constexpr (N == 3) {
        if constexpr (P == 0) return (std::get<0>(fs) * std::get<1>(fs)) * std::get<2>(fs);
        else return std::get<0>(fs) * (std::get<1>(fs) * std::get<2>(fs));
    } else {
        static_assert(N == 4, "chains of 2..4 functors");
        const auto& f = std::get<0>(fs); const auto& g = std::get<1>(fs); const auto& h = std::get<2>(fs); const auto& k = std::get<3>(fs);
        if constexpr (P == 0) return ((f * g) * h) * k;
        else if constexpr (P == 1) return (f * (g * h)) * k;
        else if constexpr (P == 2) return (f * g) * (h * k);
        else if constexpr (P == 3) return f * ((g * h) * k);
        else return f * (g * (h * k));
    }
}

// direct evaluation: letters applied right to left on the operand stack
template <int I, class LsTuple, class St> inline auto direct_eval(const std::vector<L>& attrs, const St& st) {
    if constexpr (I < 0) return st;
    else { using Ltr = std::tuple_element_t<(size_t)I, LsTuple>; return direct_eval<I - 1, LsTuple>(attrs, Ltr::step(attrs[(size_t)I], st)); }
}
template <class A, size_t... I> inline auto ptr_stack(const std::vector<A>& ops, std::index_sequence<I...>) { return std::make_tuple((const A*)&ops[I]...); }
template <class F, class A, size_t... I> inline auto call_all(const F& f, const std::vector<A>& ops, std::index_sequence<I...>) { return f(ops[I]...); }

// key of a composition case:  cmp:<codes> | paren | shape of operand 0 | ... | attribute of letter 0 | ... ("_" = none)
template <class... Ls> inline Outcome run_chain(const Case& c) {
    using CT = chain_traits<Ls...>;
    constexpr int N = CT::N, NEED = CT::need.operands;
    using LsTuple = std::tuple<Ls...>;
    if ((int)c.a.size() != 1 + NEED + N) nmc::die("composition case: wrong number of fields");
    int paren = (int)c.a[0][0];
    std::vector<arr_t> ops; ops.reserve((size_t)NEED);
    for (int k = 0; k < NEED; k++) ops.push_back(mk<long>(c.a[(size_t)(1 + k)], k));
    std::vector<L> attrs(c.a.begin() + 1 + NEED, c.a.end());
    // direct evaluation
    const auto st0 = ptr_stack(ops, std::make_index_sequence<(size_t)NEED>{});
    const auto stN = direct_eval<N - 1, LsTuple>(attrs, st0);
    const Res want = observe_any(stN);
    bool nontriv = want.all_have() && want.elements() >= 2;
    if (!want.all_have()) nmc::count("direct_is_nothing");
    // the composition
    size_t ai = 0;
    const std::tuple<decltype(Ls::functor(std::declval<const L&>()))...> fs{Ls::functor(attrs[ai++])...};   // braced: evaluated left to right
    Outcome out;
    bool done = false;
    meta::template_for<(size_t)n_parens(N)>([&](auto p) {
        constexpr int P = (int)decltype(p)::value;
        if (done || P != paren) return;
        done = true;
        const auto comp = compose<P>(fs);
        const auto r = call_all(comp, ops, std::make_index_sequence<(size_t)NEED>{});
        std::vector<const void*> known; for (auto& o : ops) known.push_back((const void*)&o);
        const Res got = observe_any(r, &known);
        out = verdict(got, want, nontriv, std::string(paren_name(N, P)));
    });
    if (!done) nmc::die("composition case: unknown parenthesisation");
    return out;
}

// ------------------------------------------------------------------------------------------------ the alphabet
} // namespace c14
#include "nmtools/array/functional/ufuncs/negative.hpp"
#include "nmtools/array/functional/ufuncs/subtract.hpp"
#include "nmtools/array/functional/sum.hpp"
#include "nmtools/array/functional/reshape.hpp"
#include "nmtools/array/functional/transpose.hpp"
#include "nmtools/array/functional/flatten.hpp"
#include "nmtools/array/functional/broadcast_to.hpp"
#include "nmtools/array/functional/matmul.hpp"
namespace c14 {
namespace letters {
    // U: unary ufunc (negative)            B: broadcasting binary ufunc (subtract: operand order is visible)
    // R: reduce (sum over one axis)        S: reshape[shape]      T: transpose[axes]     F: flatten     C: broadcast_to[shape]
    // M: matmul                            w: swap    d: dup    g: dig2    y: bury2
    struct U { static constexpr char code = 'U'; static constexpr int arity = 1, nout = 1;
        static auto functor(const L&) { return fn::negative; }
        template <class A> static auto direct(const L&, const A& a) { return view::negative(a); }
        template <class St> static auto step(const L& at, const St& st) { return view_step<U>(at, st); } };
    struct B { static constexpr char code = 'B'; static constexpr int arity = 2, nout = 1;
        static auto functor(const L&) { return fn::subtract; }
        template <class A, class Bt> static auto direct(const L&, const A& a, const Bt& b) { return view::subtract(a, b); }
        template <class St> static auto step(const L& at, const St& st) { return view_step<B>(at, st); } };
    struct R { static constexpr char code = 'R'; static constexpr int arity = 1, nout = 1;
        static auto functor(const L& at) { return fn::sum[(int)at[0]]; }
        template <class A> static auto direct(const L& at, const A& a) { return view::sum(a, (int)at[0]); }
        template <class St> static auto step(const L& at, const St& st) { return view_step<R>(at, st); } };
    struct S { static constexpr char code = 'S'; static constexpr int arity = 1, nout = 1;
        static auto functor(const L& at) { return fn::reshape[to_il(at)]; }
        template <class A> static auto direct(const L& at, const A& a) { return view::reshape(a, to_il(at)); }
        template <class St> static auto step(const L& at, const St& st) { return view_step<S>(at, st); } };
    struct T { static constexpr char code = 'T'; static constexpr int arity = 1, nout = 1;
        static auto functor(const L& at) { return fn::transpose[to_il(at)]; }
        template <class A> static auto direct(const L& at, const A& a) { return view::transpose(a, to_il(at)); }
        template <class St> static auto step(const L& at, const St& st) { return view_step<T>(at, st); } };
    struct F { static constexpr char code = 'F'; static constexpr int arity = 1, nout = 1;
        static auto functor(const L&) { return fn::flatten; }
        template <class A> static auto direct(const L&, const A& a) { return view::flatten(a); }
        template <class St> static auto step(const L& at, const St& st) { return view_step<F>(at, st); } };
    struct C { static constexpr char code = 'C'; static constexpr int arity = 1, nout = 1;
        static auto functor(const L& at) { return fn::broadcast_to[to_il(at)]; }
        template <class A> static auto direct(const L& at, const A& a) { return view::broadcast_to(a, to_il(at)); }
        template <class St> static auto step(const L& at, const St& st) { return view_step<C>(at, st); } };
    struct M { static constexpr char code = 'M'; static constexpr int arity = 2, nout = 1;
        static auto functor(const L&) { return fn::matmul; }
        template <class A, class Bt> static auto direct(const L&, const A& a, const Bt& b) { return view::matmul(a, b); }
        template <class St> static auto step(const L& at, const St& st) { return view_step<M>(at, st); } };
    // combinators: the expectation is the stack permutation itself
    struct w { static constexpr char code = 'w'; static constexpr int arity = 2, nout = 2;
        static auto functor(const L&) { return cb::swap; }
        template <class St> static auto step(const L&, const St& st) { constexpr size_t n = std::tuple_size_v<St>; return std::tuple_cat(std::make_tuple(std::get<1>(st), std::get<0>(st)), pick_from<2>(st, std::make_index_sequence<n - 2>{})); } };
    struct d { static constexpr char code = 'd'; static constexpr int arity = 1, nout = 2;
        static auto functor(const L&) { return cb::dup; }
        template <class St> static auto step(const L&, const St& st) { constexpr size_t n = std::tuple_size_v<St>; return std::tuple_cat(std::make_tuple(std::get<0>(st), std::get<0>(st)), pick_from<1>(st, std::make_index_sequence<n - 1>{})); } };
    struct g { static constexpr char code = 'g'; static constexpr int arity = 3, nout = 3;      // dig2: (a,b,c) -> (c,a,b)
        static auto functor(const L&) { return cb::dig2; }
        template <class St> static auto step(const L&, const St& st) { constexpr size_t n = std::tuple_size_v<St>; return std::tuple_cat(std::make_tuple(std::get<2>(st), std::get<0>(st), std::get<1>(st)), pick_from<3>(st, std::make_index_sequence<n - 3>{})); } };
    struct y { static constexpr char code = 'y'; static constexpr int arity = 3, nout = 3;      // bury2: (a,b,c) -> (b,c,a)
        static auto functor(const L&) { return cb::bury2; }
        template <class St> static auto step(const L&, const St& st) { constexpr size_t n = std::tuple_size_v<St>; return std::tuple_cat(std::make_tuple(std::get<1>(st), std::get<2>(st), std::get<0>(st)), pick_from<3>(st, std::make_index_sequence<n - 3>{})); } };
} // namespace letters

// run-time descriptions of the same letters for the enumerator (shape model: nmc_ref_c14.hpp)
inline const LetterInfo* letter_info(char code) {
    static const LetterInfo tab[] = {
        {'U', 1, 1, no_attr, [](const L&, Shapes&) { return true; }},
        {'B', 2, 1, no_attr, [](const L&, Shapes& st) { auto r = rm::bshape(st[0], st[1]); if (!r) return false; st.erase(st.begin()); st[0] = *r; return true; }},
        {'R', 1, 1, [](const Shapes& st, bool) { return st[0].size() >= 2 ? rm::axes_of(st[0]) : std::vector<L>{}; }, [](const L& at, Shapes& st) { auto r = rm::reduce_shape(st[0], at[0]); if (!r || r->empty()) return false; st[0] = *r; return true; }},
        {'S', 1, 1, [](const Shapes& st, bool th) { return rm::reshape_targets(st[0], th); }, [](const L& at, Shapes& st) { auto r = rm::reshape_shape(st[0], at); if (!r) return false; st[0] = *r; return true; }},
        {'T', 1, 1, [](const Shapes& st, bool) { return rm::permutations(st[0]); }, [](const L& at, Shapes& st) { auto r = rm::transpose_shape(st[0], at); if (!r) return false; st[0] = *r; return true; }},
        {'F', 1, 1, no_attr, [](const L&, Shapes& st) { st[0] = L{nmc::prod(st[0])}; return true; }},
        {'C', 1, 1, [](const Shapes& st, bool) { return rm::broadcast_targets(st[0]); }, [](const L& at, Shapes& st) { auto r = rm::broadcast_to_shape(st[0], at); if (!r) return false; st[0] = *r; return true; }},
        {'M', 2, 1, no_attr, [](const L&, Shapes& st) { auto r = rm::matmul_shape(st[0], st[1]); if (!r) return false; st.erase(st.begin()); st[0] = *r; return true; }},
        {'w', 2, 2, no_attr, [](const L&, Shapes& st) { std::swap(st[0], st[1]); return true; }},
        {'d', 1, 2, no_attr, [](const L&, Shapes& st) { st.insert(st.begin(), st[0]); return true; }},
        {'g', 3, 3, no_attr, [](const L&, Shapes& st) { L c = st[2]; st.erase(st.begin() + 2); st.insert(st.begin(), c); return true; }},
        {'y', 3, 3, no_attr, [](const L&, Shapes& st) { L a = st[0]; st.erase(st.begin()); st.insert(st.begin() + 2, a); return true; }},
    };
    for (auto& t : tab) if (t.code == code) return &t;
    nmc::die("unknown letter");
}

// enumerate every (operand shapes, attributes) of one chain: operand 0 from S(1..3,3); an operand first needed by letter X is chosen from
// X's companion menu relative to the top of the stack (matmul: its right-operand menu); attributes from the letter's menu for the shape
// at the top of the stack; combinations the shape model calls ill-formed are not emitted.  max_dim bounds intermediate results.
inline void enumerate_chain(const std::string& codes, bool thorough, const std::function<void(const std::vector<L>& operands, const std::vector<L>& attrs)>& emit) {
    int n = (int)codes.size();
    std::vector<L> operands, attrs((size_t)n);
    std::function<void(int, Shapes)> rec = [&](int pos, Shapes st) {
        if (pos < 0) { emit(operands, attrs); return; }
        const LetterInfo* li = letter_info(codes[(size_t)pos]);
        if ((int)st.size() < li->arity) {   // one more fresh operand, then retry this letter
            std::vector<L> choices;
            if (st.empty()) nmc::each_shape_range(1, 3, 3, [&](const L& s) { choices.push_back(s); });
            else if (li->code == 'M' && st.size() == 1) choices = rm::matmul_rhs_shapes(st[0]);
            else choices = rm::companion_shapes(st[0]);
            for (auto& s : choices) { Shapes st2(st); st2.push_back(s); operands.push_back(s); rec(pos, st2); operands.pop_back(); }
            return;
        }
        for (auto& at : li->menu(st, thorough)) {
            Shapes st2(st);
            if (!li->apply(at, st2)) continue;
            bool ok = true; for (auto& s : st2) if (s.size() > 4 || nmc::prod(s) > 200) ok = false;
            if (!ok) continue;
            attrs[(size_t)pos] = at; rec(pos - 1, st2);
        }
    };
    rec(n - 1, Shapes{});
}

// ---- which chains does the COMPILER accept?  nmtools rejects some combinations with fail types / static_asserts (inside the views or inside
// the operand-pack plumbing); such chains are not instantiated (and are counted).  The decision walks the chain over the REAL element types of
// the direct evaluation (so it follows the library when a view starts / stops returning maybe), with these structural rules, fitted to an
// exhaustive compile sweep of all 12^2 + 12^3 chains (each chain compiled on its own):
//   m = an operand is maybe-valued, f = an operand has a fixed dimension of 1 (flatten, and what negative / transpose make of it),
//   z = an operand is a number / 0-dim (sum over a fixed 1-dim array)
//   - matmul with an f or z operand, sum / transpose of a z operand: rejected by the views themselves
//   - matmul with a maybe operand: compiles, but the VIEW view::matmul(maybe<view>, array) is itself memory-unsafe (it is built from
//     unwrap(array), a temporary copy, and keeps a pointer to it), so there is no direct evaluation to compare with: excluded, reported
//   - dig2 / bury2 with a maybe or z among their three operands: rejected (tuple_slice of maybe<tuple>)
//   - swap with a maybe operand returns maybe<tuple>: fine as the leftmost functor; otherwise the next functor receives ONE operand of type
//     maybe<tuple>: negative / sum / transpose / flatten / broadcast_to reject it (matmul: see above); subtract, reshape, swap, dup, dig2, bury2 compile
//     (and are therefore instantiated and run) when they are the leftmost functor
template <class E> constexpr int fixed_dim_of() {
    using P = std::remove_cv_t<std::remove_pointer_t<meta::remove_cvref_t<E>>>;
    if constexpr (meta::is_maybe_v<P>) return fixed_dim_of<meta::get_maybe_type_t<P>>();
    else if constexpr (meta::is_num_v<P>) return 0;
    else { using S = meta::remove_cvref_t<decltype(nm::shape(std::declval<const P&>()))>; constexpr auto n = meta::len_v<S>; return n > 0 ? (int)n : -1; }
}
template <class E> constexpr bool is_maybe_elem() { return meta::is_maybe_v<std::remove_cv_t<meta::remove_cvref_t<E>>>; }
template <class Ltr, class St> constexpr auto elem_flags() {
    struct R { bool m = false, f = false, z = false; } r;
    meta::template_for<(size_t)Ltr::arity>([&](auto i) { using E = std::tuple_element_t<decltype(i)::value, St>; r.m = r.m || is_maybe_elem<E>(); r.f = r.f || fixed_dim_of<E>() == 1; r.z = r.z || fixed_dim_of<E>() == 0; });
    return r;
}
template <int I, class LsTuple, class St> constexpr bool chain_accepted() {
    if constexpr (I < 0) return true;
    else {
        using Ltr = std::tuple_element_t<(size_t)I, LsTuple>;
        constexpr char c = Ltr::code;
        constexpr auto fl = elem_flags<Ltr, St>();
        if constexpr ((c == 'M' && (fl.f || fl.z || fl.m)) || ((c == 'R' || c == 'T') && fl.z) || ((c == 'g' || c == 'y') && (fl.m || fl.z))) return false;
        else if constexpr (c == 'w' && fl.m && I > 0) {
            if constexpr (I != 1) return false;
            else { using Nx = std::tuple_element_t<0, LsTuple>; constexpr char n = Nx::code; return (n == 'B' || n == 'S' || n == 'w' || n == 'd' || n == 'g' || n == 'y'); }
        }
        else { using Next = decltype(Ltr::step(std::declval<const L&>(), std::declval<const St&>())); return chain_accepted<I - 1, LsTuple, Next>(); }
    }
}
template <class T, size_t... I> std::tuple<std::enable_if_t<(I >= 0), const T*>...> ptr_tuple_of(std::index_sequence<I...>);
template <class... Ls> constexpr bool chain_compiles() {
    using CT = chain_traits<Ls...>;
    using St0 = decltype(ptr_tuple_of<arr_t>(std::make_index_sequence<(size_t)CT::need.operands>{}));
    return chain_accepted<CT::N - 1, std::tuple<Ls...>, St0>();
}

// all chains of length N over an alphabet std::tuple<Ls...>; a unit owns the chains whose RIGHTMOST letter has index SLICE (or all: SLICE < 0)
// and, if SUB >= 0, whose second letter from the right has index SUB
template <class Alphabet, int N, int SLICE, int SUB = -1> struct chains {
    static constexpr long A = (long)std::tuple_size_v<Alphabet>;
    static constexpr long ipow(long b, int e) { long r = 1; while (e-- > 0) r *= b; return r; }
    static constexpr long COUNT = SLICE < 0 ? ipow(A, N) : (SUB < 0 ? ipow(A, N - 1) : ipow(A, N - 2));
    // chain number J (0 <= J < COUNT) -> digit of position I (0 = leftmost letter)
    static constexpr long full_index(long j) { return SLICE < 0 ? j : (SUB < 0 ? j * A + SLICE : (j * A + SUB) * A + SLICE); }
    static constexpr long digit(long j, int i) { long x = full_index(j); for (int k = N - 1; k > i; k--) x /= A; return x % A; }
    template <long J, size_t... I> static constexpr bool compiles_j(std::index_sequence<I...>) { return chain_compiles<std::tuple_element_t<(size_t)digit(J, (int)I), Alphabet>...>(); }
    template <long J, size_t... I> static Outcome run_j(const Case& c, std::index_sequence<I...>) {
        if constexpr (compiles_j<J>(std::index_sequence<I...>{})) return run_chain<std::tuple_element_t<(size_t)digit(J, (int)I), Alphabet>...>(c);
        else nmc::die("composition case: this chain is rejected by the compiler and not instantiated");
    }
    template <size_t... J> static bool accepted_(long j, std::index_sequence<J...>) { static const bool tab[] = {compiles_j<(long)J>(std::make_index_sequence<(size_t)N>{})...}; return tab[j]; }
    static bool accepted(long j) { return accepted_(j, std::make_index_sequence<(size_t)COUNT>{}); }
    template <size_t... I> static std::string codes_of(std::index_sequence<I...>) { return std::string{std::tuple_element_t<I, Alphabet>::code...}; }
    static std::string alphabet_codes() { return codes_of(std::make_index_sequence<(size_t)A>{}); }
    static std::string code_of(long j) { std::string al = alphabet_codes(), s; for (int i = 0; i < N; i++) s += al[(size_t)digit(j, i)]; return s; }
    template <size_t... J> static Outcome dispatch(const Case& c, const std::string& code, std::index_sequence<J...>) {
        Outcome out; bool found = false;
        ((!found && code_of((long)J) == code ? (found = true, out = run_j<(long)J>(c, std::make_index_sequence<(size_t)N>{}), 0) : 0), ...);
        if (!found) nmc::die("composition case: chain is not part of this unit");
        return out;
    }
    static Outcome run(const Case& c) { return dispatch(c, c.op.substr(4), std::make_index_sequence<(size_t)COUNT>{}); }
    static void enumerate(bool thorough, const nmc::Sink& emit) {
        long n_acc = 0; for (long j = 0; j < COUNT; j++) n_acc += accepted(j);
        nmc::count_max("chains_instantiated", n_acc); nmc::count_max("chains_rejected_by_compiler", COUNT - n_acc);
        for (long j = 0; j < COUNT; j++) {
            std::string code = code_of(j);
            if (!accepted(j)) continue;
            enumerate_chain(code, thorough, [&](const std::vector<L>& operands, const std::vector<L>& attrs) {
                for (int p = 0; p < n_parens(N); p++) { Case c("cmp:" + code); c.arg((long)p); for (auto& s : operands) c.arg(s); for (auto& a : attrs) c.arg(a); emit(c); }
            });
        }
    }
};

} // namespace c14

// ================================================================================================ PART 3: extraction
#include "nmtools/array/functional/ufuncs/add.hpp"
#include "nmtools/array/functional/ufuncs/multiply.hpp"
#include "nmtools/array/view/alias.hpp"
namespace c14 {

// the graph the harness builds by hand next to a nested view: one node per leaf OCCURRENCE (an aliased leaf: one node per alias id)
// and one per operation; an operation lists its input nodes in operand order.
struct HGraph {
    struct Node { bool is_op; int leaf; std::vector<int> in; std::string label; };
    std::vector<Node> nodes; int root = -1;
    int leaf(int k) { nodes.push_back({false, k, {}, "leaf" + std::to_string(k)}); return (int)nodes.size() - 1; }
    int op(const char* label, std::vector<int> in) { nodes.push_back({true, -1, std::move(in), label}); root = (int)nodes.size() - 1; return root; }
    // leaves in evaluation order (depth first, operands left to right): the operand list of the extracted function
    void operand_order(int n, std::vector<int>& out) const { const Node& x = nodes[(size_t)n]; if (!x.is_op) { out.push_back(x.leaf); return; } for (int i : x.in) operand_order(i, out); }
    std::vector<std::pair<int, int>> edges() const { std::vector<std::pair<int, int>> e; for (size_t o = 0; o < nodes.size(); o++) if (nodes[o].is_op) for (int i : nodes[o].in) { std::pair<int, int> p{i, (int)o}; if (std::find(e.begin(), e.end(), p) == e.end()) e.push_back(p); } return e; }
};
// what get_compute_graph returned, read through the ct_digraph API (nodes(), nodes(id), out_edges())
struct AGraph {
    struct Node { long id; bool is_op; const void* addr; std::vector<long> operands; };
    std::vector<Node> nodes; std::vector<std::pair<long, long>> edges;
    std::string str(const std::vector<const void*>& leaves) const {
        std::string s = "nodes:";
        for (auto& n : nodes) { s += " " + std::to_string(n.id) + "="; if (n.is_op) { s += "op("; for (size_t i = 0; i < n.operands.size(); i++) s += (i ? "," : "") + std::to_string(n.operands[i]); s += ")"; } else { int k = -1; for (size_t i = 0; i < leaves.size(); i++) if (leaves[i] == n.addr) k = (int)i; s += k >= 0 ? "leaf" + std::to_string(k) : std::string("leaf?"); } }
        s += " edges:"; for (auto& e : edges) s += " " + std::to_string(e.first) + "->" + std::to_string(e.second);
        return s;
    }
};
template <class G> inline AGraph read_graph(const G& g) {
    AGraph r;
    const auto ids = g.nodes();
    constexpr auto N = meta::len_v<meta::remove_cvref_t<decltype(ids)>>;
    meta::template_for<N>([&](auto i) {
        auto id = nm::get<decltype(i)::value>(ids);
        const auto nd = g.nodes(id);
        using nd_t = meta::remove_cvref_t<decltype(nd)>;
        AGraph::Node n; n.id = (long)decltype(id)::value; n.addr = nullptr; n.is_op = false;
        if constexpr (std::is_pointer_v<nd_t>) n.addr = (const void*)nd;
        else if constexpr (meta::is_num_v<nd_t> || meta::is_ndarray_v<nd_t>) n.addr = nullptr;
        else {
            n.is_op = true;
            constexpr auto K = meta::len_v<meta::remove_cvref_t<decltype(nd.operands)>>;
            meta::template_for<K>([&](auto j) { n.operands.push_back((long)meta::remove_cvref_t<decltype(nm::get<decltype(j)::value>(nd.operands))>::value); });
        }
        r.nodes.push_back(n);
    });
    const auto es = g.out_edges();
    constexpr auto E = meta::len_v<meta::remove_cvref_t<decltype(es)>>;
    meta::template_for<E>([&](auto i) {
        auto e = nm::get<decltype(i)::value>(es);
        r.edges.push_back({(long)meta::remove_cvref_t<decltype(nm::get<0>(e))>::value, (long)meta::remove_cvref_t<decltype(nm::get<1>(e))>::value});
    });
    return r;
}
// "" = the extracted graph equals the hand graph up to a bijection of node ids
inline std::string compare_graphs(const AGraph& a, const HGraph& h, const std::vector<const void*>& leaves) {
    for (size_t i = 0; i < a.nodes.size(); i++) for (size_t j = i + 1; j < a.nodes.size(); j++) if (a.nodes[i].id == a.nodes[j].id) return "two nodes share the id " + std::to_string(a.nodes[i].id);
    auto he = h.edges();
    std::string sizes = std::to_string(a.nodes.size()) + " nodes / " + std::to_string(a.edges.size()) + " edges, by hand " + std::to_string(h.nodes.size()) + " nodes / " + std::to_string(he.size()) + " edges";
    if (a.nodes.size() != h.nodes.size()) return "node count: " + sizes;
    if (a.edges.size() != he.size()) return "edge count: " + sizes;
    size_t n = h.nodes.size();
    std::vector<int> map(n, -1); std::vector<char> used(n, 0);   // hand node -> index of the extracted node
    auto id_of = [&](int hn) { return a.nodes[(size_t)map[(size_t)hn]].id; };
    std::function<bool(size_t)> rec = [&](size_t k) -> bool {
        if (k == n) {
            for (auto& e : he) { std::pair<long, long> want{id_of(e.first), id_of(e.second)}; if (std::find(a.edges.begin(), a.edges.end(), want) == a.edges.end()) return false; }
            for (size_t o = 0; o < n; o++) if (h.nodes[o].is_op) { const auto& an = a.nodes[(size_t)map[o]]; if (an.operands.size() != h.nodes[o].in.size()) return false; for (size_t i = 0; i < an.operands.size(); i++) if (an.operands[i] != id_of(h.nodes[o].in[i])) return false; }
            return true;
        }
        for (size_t c = 0; c < n; c++) {
            if (used[c]) continue;
            const auto& an = a.nodes[c]; const auto& hn = h.nodes[k];
            if (an.is_op != hn.is_op) continue;
            if (!hn.is_op && an.addr != leaves[(size_t)hn.leaf]) continue;
            if (hn.is_op && an.operands.size() != hn.in.size()) continue;
            used[c] = 1; map[k] = (int)c;
            if (rec(k + 1)) return true;
            used[c] = 0; map[k] = -1;
        }
        return false;
    };
    if (!rec(0)) return "no bijection of node ids maps the hand-built graph (leaf identity, operand order, edges) onto the extracted one";
    return "";
}

// a nested-view program: build(a, b, m, axis) -> view; hand(): its graph; uses: which of the operands a(1) b(2) m(4) and axis(8) it reads;
// CHECKS: bit mask (1 << check) of the checks the compiler accepts for the program (see the .cpp for the two rejected patterns)
template <int CHECKS, class Build> struct xprog_t { static constexpr int checks = CHECKS; const char* name; int depth; int uses; Build build; HGraph (*hand)(); };
template <int CHECKS, class Build> inline xprog_t<CHECKS, Build> xprog(const char* name, int depth, int uses, Build b, HGraph (*hand)()) { return {name, depth, uses, b, hand}; }
enum { USE_A = 1, USE_B = 2, USE_M = 4, USE_AXIS = 8 };
enum { CHK_APPLY = 0, CHK_OPERANDS = 1, CHK_GRAPH = 2 };

// key: ext:<program> | check | shape a | shape b or _ | shape m or _ | axis or _
template <class P> inline Outcome run_xprog(const P& p, const Case& c) {
    constexpr bool GRAPH = (P::checks >> 2) & 1, APPLY = P::checks & 1;
    long check = c.a[0][0];
    const arr_t a = mk<long>(c.a[1], 0);
    const arr_t b = c.a[2].empty() ? mk<long>(L{1}, 1) : mk<long>(c.a[2], 1);
    const arr_t m = c.a[3].empty() ? mk<long>(L{1, 1}, 2) : mk<long>(c.a[3], 2);
    int axis = c.a[4].empty() ? 0 : (int)c.a[4][0];
    const std::vector<const void*> leaves{&a, &b, &m};
    const auto v = p.build(a, b, m, axis);
    const Res want = observe_any(v);
    bool nontriv = want.all_have() && want.elements() >= 2;
    const HGraph h = p.hand();
    if (check == CHK_APPLY) {
        if constexpr (APPLY) {
            const auto f = fn::get_function_composition(v);
            const auto ops = fn::get_function_operands(v);
            const auto r = fn::apply(f, ops);
            return verdict(observe_any(r), want, nontriv, "apply(get_function_composition(v), get_function_operands(v))");
        } else nmc::die("extraction case: the function composition of this program is not instantiated");
    }
    if (check == CHK_OPERANDS) {
        std::vector<int> order; h.operand_order(h.root, order);
        const auto ops = fn::get_function_operands(v);
        if constexpr (meta::is_maybe_v<meta::remove_cvref_t<decltype(ops)>>) { if (!nm::has_value(ops)) return want.all_have() ? Outcome::bad("rejects-valid", "get_function_operands is Nothing although the view has a value", nontriv) : Outcome::ok(false, 3); }
        const auto& o = unwrapped(ops);
        constexpr auto N = meta::len_v<meta::remove_cvref_t<decltype(o)>>;
        std::vector<const void*> got;
        meta::template_for<N>([&](auto i) { got.push_back((const void*)&deref(nm::get<decltype(i)::value>(o))); });
        auto name = [&](const void* q) { for (size_t i = 0; i < leaves.size(); i++) if (leaves[i] == q) return std::string(1, "abm"[i]); return std::string("?(not an original leaf)"); };
        std::string gs, ws; for (auto q : got) gs += name(q) + " "; for (int k : order) ws += std::string(1, "abm"[k]) + " ";
        uint64_t hh = nmc::fnv(gs.data(), gs.size());
        if (got.size() != order.size()) return Outcome::bad("wrong", "extracted operands: " + gs + "; leaves of the view in evaluation order: " + ws, nontriv, hh);
        for (size_t i = 0; i < got.size(); i++) if (got[i] != leaves[(size_t)order[i]]) return Outcome::bad("wrong", "extracted operand " + std::to_string(i) + " is " + name(got[i]) + "; extracted: " + gs + "; leaves of the view in evaluation order: " + ws, nontriv, hh);
        return Outcome::ok(order.size() >= 2 || nontriv, hh);
    }
    if (check == CHK_GRAPH) {
        if constexpr (GRAPH) {
            const auto g = fn::get_compute_graph(v);
            if constexpr (meta::is_maybe_v<meta::remove_cvref_t<decltype(g)>>) { if (!nm::has_value(g)) return want.all_have() ? Outcome::bad("rejects-valid", "get_compute_graph is Nothing although the view has a value", nontriv) : Outcome::ok(false, 5); }
            const AGraph ag = read_graph(unwrapped(g));
            std::string gs = ag.str(leaves); uint64_t hh = nmc::fnv(gs.data(), gs.size());
            if (getenv("C14_DUMP")) fprintf(stderr, "%s\n", gs.c_str());
            std::string d = compare_graphs(ag, h, leaves);
            if (!d.empty()) return Outcome::bad("wrong", d + "; extracted " + gs, true, hh);
            return Outcome::ok(true, hh);
        } else nmc::die("extraction case: the compute graph of this program is not instantiated");
    }
    nmc::die("extraction case: unknown check");
}
template <class Progs> inline void enumerate_xprogs(const Progs& progs, bool thorough, const nmc::Sink& emit) {
    std::apply([&](const auto&... p) {
        auto one = [&](const auto& pr) {
            if (pr.depth > (thorough ? 4 : 3)) return;
            auto emit_all = [&](const L& a, const L& b, const L& m, const L& ax) { for (long chk = 0; chk <= 2; chk++) { if (!((pr.checks >> chk) & 1)) continue; emit(Case(std::string("ext:") + pr.name, {{chk}, a, b, m, ax})); } };
            for (auto& a : all_shapes((pr.uses & (USE_M | USE_AXIS)) ? 2 : 1, 3)) {
                std::vector<L> bs = (pr.uses & USE_B) ? rm::companion_shapes(a) : std::vector<L>{L{}};
                std::vector<L> ms = (pr.uses & USE_M) ? rm::matmul_rhs_shapes(a) : std::vector<L>{L{}};
                std::vector<L> axs; if (pr.uses & USE_AXIS) { for (long x = 0; x < (long)a.size(); x++) axs.push_back(L{x}); } else axs.push_back(L{});
                for (auto& b : bs) for (auto& m : ms) for (auto& ax : axs) emit_all(a, b, m, ax);
            }
        };
        (one(p), ...);
    }, progs);
}
template <class Progs> inline Outcome run_xprogs(const Progs& progs, const Case& c) {
    std::string name = c.op.substr(4);
    Outcome out; bool found = false;
    std::apply([&](const auto&... p) { ((!found && name == p.name ? (found = true, out = run_xprog(p, c), 0) : 0), ...); }, progs);
    if (!found) nmc::die("extraction case: program is not part of this unit");
    return out;
}
} // namespace c14
