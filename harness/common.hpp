// common.hpp - shared by harnesses that drive nmtools with all-dynamic operands.
#pragma once
#include "nmtools/array/ndarray.hpp"
#include "nmtools/constants.hpp"
#include "nmc.hpp"
#include "nmc_enum.hpp"
#include "nmc_ref.hpp"
#include "nmc_obs.hpp"

namespace nm = nmtools;
namespace na = nmtools::array;
namespace view = nmtools::view;
namespace meta = nmtools::meta;
namespace ix = nmtools::index;
using nmc::L; using nmc::LL; using nmc::Case; using nmc::Outcome; using nmc::RArr; using nmc::ROpt; using nmc::Obs;
namespace ref = nmc::ref;

using il = nmtools_list<int>;
using sl = nmtools_list<size_t>;
template <typename T> using dyn_t = na::ndarray_t<nmtools_list<T>, nmtools_list<size_t>>;
using arr_t = dyn_t<long>;
using darr_t = dyn_t<double>;

inline il to_il(const L& v) { il r; for (long x : v) r.push_back((int)x); return r; }
inline sl to_sl(const L& v) { sl r; for (long x : v) r.push_back((size_t)x); return r; }

// operand with all-distinct element values base, base+1, ... (any permutation / wrong source is visible)
template <typename T = long> inline dyn_t<T> make_arr(const L& shape, long base = 1) {
    dyn_t<T> a; a.resize(to_sl(shape));
    long n = nmc::prod(shape);
    for (long i = 0; i < n; i++) a.data_[(size_t)i] = (T)(base + i);
    return a;
}
template <typename T = long> inline dyn_t<T> make_arr(const RArr& r) {
    dyn_t<T> a; a.resize(to_sl(r.shape));
    for (size_t i = 0; i < r.data.size(); i++) a.data_[i] = (T)r.data[i];
    return a;
}

// compare helper: observation vs model -> Outcome
inline Outcome judge(const Obs& got, const ROpt& want, bool nontrivial, double rtol = 0) {
    std::string d = nmc::diff(got, want, rtol);
    uint64_t h = got.hash();
    if (d.empty()) return Outcome::ok(nontrivial, h);
    const char* kind = !want ? "accepts-invalid" : (!got.has ? "rejects-valid" : "wrong");
    return Outcome::bad(kind, d, nontrivial, h);
}
// two observations of the implementation must agree (lazy view vs evaluated array, ...)
inline std::string same(const Obs& a, const Obs& b, const char* what) {
    if (a.has != b.has) return std::string(what) + ": has_value differs";
    if (!a.has) return "";
    if (a.shape != b.shape) return std::string(what) + ": shape " + nmc::str(a.shape) + " vs " + nmc::str(b.shape);
    if (a.data != b.data) return std::string(what) + ": elements differ: " + a.str() + " vs " + b.str();
    return "";
}
