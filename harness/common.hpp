// common.hpp - shared by harnesses that drive nmtools with all-dynamic operands.
#pragma once
#include "nmtools/array/ndarray.hpp"
#include "nmtools/constants.hpp"
#ifdef C02_HOOKS
#define NMC_POST_CASE      // C02 re-runs this harness with the NMTOOLS_VERIF hooks installed: see nmc_post_case below
#endif
#include "nmc.hpp"
#include "nmc_enum.hpp"
#include "nmc_ref.hpp"
#include "nmc_obs.hpp"

namespace nm = nmtools;
namespace na = nmtools::array;
namespace view = nmtools::view;
namespace meta = nmtools::meta;
namespace ix = nmtools::index;
using nmc::L; using nmc::LL; using nmc::Case; using nmc::Outcome; using nmc::RArr; using nmc::ROpt; using nmc::Obs;
namespace ref = nmc::ref;

using il = nmtools_list<int>;
using sl = nmtools_list<size_t>;
template <typename T> using dyn_t = na::ndarray_t<nmtools_list<T>, nmtools_list<size_t>>;
using arr_t = dyn_t<long>;
using darr_t = dyn_t<double>;

inline il to_il(const L& v) { il r; for (long x : v) r.push_back((int)x); return r; }
inline sl to_sl(const L& v) { sl r; for (long x : v) r.push_back((size_t)x); return r; }

// operand with all-distinct element values base, base+1, ... (any permutation / wrong source is visible)
template <typename T = long> inline dyn_t<T> make_arr(const L& shape, long base = 1) {
    dyn_t<T> a; a.resize(to_sl(shape));
    long n = nmc::prod(shape);
    for (long i = 0; i < n; i++) a.data_[(size_t)i] = (T)(base + i);
    return a;
}
template <typename T = long> inline dyn_t<T> make_arr(const RArr& r) {
    dyn_t<T> a; a.resize(to_sl(r.shape));
    for (size_t i = 0; i < r.data.size(); i++) a.data_[i] = (T)r.data[i];
    return a;
}

// compare helper: observation vs model -> Outcome
inline Outcome judge(const Obs& got, const ROpt& want, bool nontrivial, double rtol = 0) {
    std::string d = nmc::diff(got, want, rtol);
    uint64_t h = got.hash();
    if (d.empty()) return Outcome::ok(nontrivial, h);
    const char* kind = !want ? "accepts-invalid" : (!got.has ? "rejects-valid" : "wrong");
    return Outcome::bad(kind, d, nontrivial, h);
}
// two observations of the implementation must agree (lazy view vs evaluated array, ...)
inline std::string same(const Obs& a, const Obs& b, const char* what) {
    if (a.has != b.has) return std::string(what) + ": has_value differs";
    if (!a.has) return "";
    if (a.shape != b.shape) return std::string(what) + ": shape " + nmc::str(a.shape) + " vs " + nmc::str(b.shape);
    if (a.data != b.data) return std::string(what) + ": elements differ: " + a.str() + " vs " + b.str();
    return "";
}

#ifdef C02_HOOKS
// C02 ("element access never leaves the operands' storage") re-runs the single-view harnesses of C03/C04/C05/C06/C08 with the
// BOUNDS hook installed: a case's verdict becomes "an index was used outside its extent" (kind hook); the harness's own verdict
// (wrong value, Nothing ...) belongs to its own property and is dropped here.  CAPACITY events are not judged in these units (refused
// requests on bounded containers are legitimate inside the library's own fallbacks); the pipeline units of C02 judge them.
#include "nmtools/verif.hpp"
namespace c02 {
inline long g_bad = 0, g_seen = 0; inline char g_msg[200] = {0};
inline void bounds_sink(int site, long long i, long long n) { g_seen++; if (i < 0 || i >= n) { if (!g_bad) snprintf(g_msg, sizeof g_msg, "index %lld used on an axis / buffer of extent %lld (hook site %d)", i, n, site); g_bad++; } }
inline int g_installed = (nmtools::verif::on_bounds = bounds_sink, 1);
}
void nmc_post_case(const nmc::Case&, nmc::Outcome& r) {
    nmc::count("bounds_events_checked", c02::g_seen); nmc::count("transitions", 1); nmc::count("traces_validated", 1);
    if (c02::g_bad) { std::string why = std::string(c02::g_msg) + " (" + std::to_string(c02::g_bad) + " such event(s) in this case)"; r = Outcome::bad("hook", why, true, r.outcome); }
    else r.fail.clear();
    c02::g_bad = 0; c02::g_seen = 0;
}
#endif
