// C05 - slicing follows Python/NumPy basic-indexing semantics (E1 over the per-axis alphabet + multi-axis combinations)
// ops: s1 / d1 / i1 (one axis), nd (1..3 axes, ranges spelled as full triples), big (index math), and - argument kinds the former never pass -
//      es|shape|part...      typed parts that KEEP their None parts next to integers / ":" / Ellipsis: view::slice, array::slice, array::apply_slice(tuple),
//                            list-of-either (view:: and array::apply_slice) where one either type can hold the parts
//      ct|shape|form|x[,y]   integers / range parts as compile-time constants mixed with run-time values (forms: CT_FORMS)
//      short|shape|part...   fewer parts than axes, no Ellipsis (NumPy keeps the remaining axes whole)
//      e2|shape|part...      list-of-either whose either type has TWO range alternatives ({s,None} and {None,e}) besides int and Ellipsis
// non-trivial (es, ct, short, e2 as for nd): the selection is not the whole source, or Python gives an empty result
#include "nmtools/array/view/slice.hpp"
#include "nmtools/array/array/slice.hpp"
#define NMC_MAIN
#include "common.hpp"

const char* nmc_property() { return "C05"; }
using nm::None;
using namespace nm::literals;

// part encoding inside a key:  kind,v...   kind 0 = integer i | 1 = range (mask,start,stop,step; mask bit0 start bit1 stop bit2 step present) | 2 = ":" | 3 = ellipsis
enum { K_INT = 0, K_RANGE = 1, K_ALL = 2, K_ELL = 3 };


// ---- "es" / "ct": type patterns and menus (declared before the enumerator, which only emits what is instantiated) -------------------------
// part type codes: 0..7 = range with that None mask (0 = ":" as {None,None}), 8 = run-time integer, 9 = Ellipsis, -1 = no part
enum { P_INT = 8, P_ELL = 9, P_END = -1 };
constexpr int ES_PT[][3] = {
    // integer / Ellipsis next to every None pattern, both orders
    {8, 1, -1}, {8, 2, -1}, {8, 3, -1}, {8, 4, -1}, {8, 5, -1}, {8, 6, -1},   {1, 8, -1}, {2, 8, -1}, {3, 8, -1}, {4, 8, -1}, {5, 8, -1}, {6, 8, -1},
    {9, 1, -1}, {9, 2, -1}, {9, 3, -1}, {9, 4, -1}, {9, 5, -1}, {9, 6, -1},   {1, 9, -1}, {2, 9, -1}, {3, 9, -1}, {4, 9, -1}, {5, 9, -1}, {6, 9, -1},
    // two ranges with different None patterns
    {1, 2, -1}, {2, 1, -1}, {4, 3, -1}, {3, 4, -1}, {5, 6, -1}, {6, 5, -1}, {0, 1, -1}, {4, 0, -1},
    // three parts: integer + Ellipsis + range in several orders, integer between / before / after ranges, three ranges
    {8, 9, 1}, {8, 9, 2}, {8, 9, 3}, {8, 9, 4}, {8, 9, 5}, {8, 9, 6},   {1, 9, 8}, {2, 9, 8}, {3, 9, 8}, {4, 9, 8}, {5, 9, 8}, {6, 9, 8},
    {8, 1, 9}, {8, 2, 9}, {8, 4, 9},   {9, 3, 8}, {9, 5, 8}, {9, 6, 8},   {9, 8, 1}, {9, 8, 4},   {2, 8, 9}, {6, 8, 9},
    {1, 8, 2}, {4, 8, 3}, {6, 8, 5},   {8, 2, 4}, {8, 3, 1},   {5, 6, 8}, {1, 4, 8},   {1, 2, 4}, {3, 5, 6},
    // eager form of the kinds the lazy "nd" family already passes (full triples, ":", integers, Ellipsis)
    {7, 8, -1}, {8, 7, -1}, {0, 7, 8}, {8, 9, 7}, {7, 9, 8}, {8, 8, 7}, {7, 0, 9},
    // a single range part on a 1-d array (the pack holds ONE tuple: it must be wrapped, not copied)
    {1, -1, -1}, {2, -1, -1}, {3, -1, -1}, {4, -1, -1}, {5, -1, -1}, {6, -1, -1},
};
constexpr size_t ES_NPT = sizeof ES_PT / sizeof ES_PT[0];
static int part_code(const L& p) { return p[0] == K_INT ? P_INT : (p[0] == K_ELL ? P_ELL : (p[0] == K_ALL ? 0 : (int)p[1])); }
// value menu of one part of type `code` on an axis of extent n: in range, Python length >= 1 (clamping / emptiness per axis: s1, d1)
static std::vector<L> es_menu(int code, long n) {
    std::vector<L> r; auto R = [&](long mask, long s, long e, long st) { r.push_back({K_RANGE, mask, s, e, st}); };
    switch (code) {
    case P_INT: r.push_back({K_INT, 0}); r.push_back({K_INT, -1}); if (n > 2) r.push_back({K_INT, 1}); break;
    case 0: r.push_back({K_ALL}); break;
    case 1: if (n > 1) R(1, 1, 0, 0); R(1, -1, 0, 0); if (n > 2) R(1, -n, 0, 0); break;
    case 2: if (n > 1) { R(2, 0, n - 1, 0); R(2, 0, -1, 0); } R(2, 0, 1, 0); break;
    case 3: if (n > 1) { R(3, 1, n, 0); R(3, -n, -1, 0); } R(3, -1, n, 0); break;
    case 4: R(4, 0, 0, -1); R(4, 0, 0, 2); if (n > 2) R(4, 0, 0, -2); break;
    case 5: if (n > 1) R(5, 1, 0, 2); R(5, -1, 0, -1); if (n > 2) R(5, n - 2, 0, -2); break;
    case 6: if (n > 1) R(6, 0, 0, -1); R(6, 0, n, 2); if (n > 2) R(6, 0, -n, -2); break;
    default: if (n > 1) R(7, 1, n, 1); R(7, n - 1, -n - 1, -1); if (n > 2) R(7, 0, n, 2); break;
    }
    return r;
}
// compile-time-constant forms: X(number, number of run-time values, Python parts as LL, the C++ arguments)   (x, y = run-time values)
#define CT_FORMS(X) \
    X(0, 0, (LL{{K_INT, 0}, {K_ELL}}), 0_ct, nm::Ellipsis) \
    X(1, 0, (LL{{K_INT, -1}, {K_ELL}}), "-1"_ct, nm::Ellipsis) \
    X(2, 0, (LL{{K_ELL}, {K_INT, 1}}), nm::Ellipsis, 1_ct) \
    X(3, 1, (LL{{K_INT, x}, {K_ELL}, {K_INT, -1}}), (int)x, nm::Ellipsis, "-1"_ct) \
    X(4, 1, (LL{{K_INT, 1}, {K_RANGE, 1, x, 0, 0}, {K_ELL}}), 1_ct, nmtools_tuple{(int)x, None}, nm::Ellipsis) \
    X(5, 0, (LL{{K_RANGE, 3, 0, 2, 0}, {K_ELL}}), nmtools_tuple{0_ct, 2_ct}, nm::Ellipsis) \
    X(6, 1, (LL{{K_RANGE, 1, 1, 0, 0}, {K_ELL}, {K_INT, x}}), nmtools_tuple{1_ct, None}, nm::Ellipsis, (int)x) \
    X(7, 1, (LL{{K_RANGE, 2, 0, -1, 0}, {K_ELL}, {K_INT, x}}), nmtools_tuple{None, "-1"_ct}, nm::Ellipsis, (int)x) \
    X(8, 1, (LL{{K_RANGE, 3, x, 2, 0}, {K_ELL}}), nmtools_tuple{(int)x, 2_ct}, nm::Ellipsis) \
    X(9, 2, (LL{{K_RANGE, 7, 1, x, y}, {K_ELL}}), nmtools_tuple{1_ct, (int)x, (int)y}, nm::Ellipsis) \
    X(10, 1, (LL{{K_RANGE, 5, -2, 0, x}, {K_ELL}}), nmtools_tuple{"-2"_ct, None, (int)x}, nm::Ellipsis) \
    X(11, 0, (LL{{K_RANGE, 4, 0, 0, 2}, {K_ELL}, {K_INT, 0}}), nmtools_tuple{None, None, 2_ct}, nm::Ellipsis, 0_ct) \
    X(12, 0, (LL{{K_ELL}, {K_RANGE, 7, 0, -1, 1}}), nm::Ellipsis, nmtools_tuple{0_ct, "-1"_ct, 1_ct}) \
    X(13, 0, (LL{{K_RANGE, 7, 0, 2, 1}, {K_INT, 1}, {K_ELL}}), nmtools_tuple{0_ct, 2_ct, 1_ct}, 1_ct, nm::Ellipsis) \
    X(14, 2, (LL{{K_INT, x}, {K_RANGE, 3, y, -1, 0}, {K_INT, -1}}), (int)x, nmtools_tuple{(int)y, "-1"_ct}, "-1"_ct) \
    X(15, 1, (LL{{K_RANGE, 5, x, 0, 2}, {K_ELL}}), nmtools_tuple{(int)x, None, 2_ct}, nm::Ellipsis) \
    X(16, 1, (LL{{K_INT, 0}, {K_INT, x}, {K_ELL}}), 0_ct, (int)x, nm::Ellipsis) \
    X(17, 0, (LL{{K_INT, -1}, {K_INT, 0}, {K_ELL}}), "-1"_ct, 0_ct, nm::Ellipsis)
constexpr long CT_NFORMS = 18;
static int ct_nparams(long f) { switch (f) {
#define X(N, NP, PARTS, ...) case N: return NP;
    CT_FORMS(X)
#undef X
    } nmc::die("ct: unknown form"); }
static LL ct_parts(long f, long x, long y) { (void)x; (void)y; switch (f) {
#define X(N, NP, PARTS, ...) case N: return PARTS;
    CT_FORMS(X)
#undef X
    } nmc::die("ct: unknown form"); }
static ROpt model_nd(const RArr& a, const LL& parts, bool& zero_extent, bool& index_error);

void nmc_enumerate(const nmc::Tier& t, const nmc::Sink& emit_) {
    std::set<uint64_t> seen_keys;   // the per-focus menus overlap: emit every distinct key once
    auto emit = [&](const Case& c) { char b[1024]; size_t n = c.key_into(b, sizeof b); if (seen_keys.insert(nmc::fnv(b, n)).second) emit_(c); };
    // one axis: exactly the property's alphabet
    for (long n = 1; n <= 6; n++) {
        for (int mask = 0; mask < 8; mask++) {
            L sv, ev, tv;
            if (mask & 1) for (long v = -(n + 2); v <= n + 2; v++) sv.push_back(v); else sv.push_back(0);
            if (mask & 2) for (long v = -(n + 2); v <= n + 2; v++) ev.push_back(v); else ev.push_back(0);
            if (mask & 4) { for (long v = -3; v <= 3; v++) if (v) tv.push_back(v); } else tv.push_back(0);
            for (long s : sv) for (long e : ev) for (long st : tv) {
                emit(Case("s1", {{n}, {mask, s, e, st}}));              // packed: typed tuple with None for absent parts
                if (mask == 7) emit(Case("d1", {{n}, {s, e, st}}));     // dynamic: list of array<int,3>
                if (mask == 3) emit(Case("d1", {{n}, {s, e}}));         // dynamic: list of array<int,2>
            }
        }
        if (n <= 4) for (long i = -n; i < n; i++) emit(Case("i1", {{n}, {i}}));
    }
    // combinations over 1..3 axes: per axis an integer, ":" or one representative of each sign/order class of range; ellipsis in every position incl. none
    long emax = t.thorough() ? 4 : 3;
    auto reps = [&](long n) {
        std::vector<L> r;
        r.push_back({K_ALL});
        r.push_back({K_INT, 0}); r.push_back({K_INT, -1}); if (n > 2) r.push_back({K_INT, 1});
        // classes: (start sign) x (stop sign) x (step sign) x (order)
        // in-range bounds only and Python length >= 1: clamping and emptiness are per-axis phenomena, covered exhaustively by s1/d1
        long vals[] = {0, 1, n - 1, n, -1, -n};
        std::set<L> seen;
        for (long s : vals) for (long e : vals) for (long st : {1L, 2L, -1L, -2L}) {
            long f, sp, len; ref::PySlice ps{true, true, true, s, e, st}; ref::slice_adjust(n, ps, f, sp, len);
            if (len < 1) continue;
            L part{K_RANGE, 7, s, e, st}; if (seen.insert(part).second) r.push_back(part);
        }
        if (n > 1) { r.push_back({K_RANGE, 1, 1, 0, 0}); r.push_back({K_RANGE, 2, 0, -1, 0}); } r.push_back({K_RANGE, 4, 0, 0, -1}); r.push_back({K_RANGE, 6, 0, 1, 2});
        return r;
    };
    for (int d = 1; d <= 3; d++) nmc::each_shape(d, emax, [&](const L& shp) {
        // choose per-axis parts (reduced menu for dims 2,3: every axis gets the full class list while the others take ":" / int / one range)
        std::vector<std::vector<L>> menus;
        for (int a = 0; a < d; a++) menus.push_back(reps(shp[(size_t)a]));
        auto small = [&](long n) { std::vector<L> r{{K_ALL}, {K_INT, -1}, {K_RANGE, 4, 0, 0, -1}, {K_RANGE, 3, 0, n > 1 ? n - 1 : 1, 0}}; return r; };
        for (int focus = 0; focus < d; focus++) {
            std::vector<std::vector<L>> m;
            for (int a = 0; a < d; a++) m.push_back(a == focus ? menus[(size_t)a] : small(shp[(size_t)a]));
            L lo((size_t)d, 0), hi; for (auto& x : m) hi.push_back((long)x.size() - 1);
            nmc::each_tuple(lo, hi, [&](const L& pick) {
                LL parts; for (int a = 0; a < d; a++) parts.push_back(m[(size_t)a][(size_t)pick[(size_t)a]]);
                Case c("nd"); c.a.push_back(shp); for (auto& p : parts) c.a.push_back(p); emit(c);
                // ellipsis variants: replace a run of ":" ... simplest: drop trailing/leading axes into an ellipsis
                for (int pos = 0; pos <= d; pos++) for (int drop = 0; drop <= d; drop++) {
                    if (pos + drop > d) continue;
                    bool all = true; for (int a = pos; a < pos + drop; a++) if (parts[(size_t)a][0] != K_ALL) all = false;
                    if (!all) continue;
                    if ((int)parts.size() - drop + 1 > 3) continue;   // packed encoding instantiated for <= 3 parts
                    Case e("nd"); e.a.push_back(shp);
                    for (int a = 0; a < pos; a++) e.a.push_back(parts[(size_t)a]);
                    e.a.push_back({K_ELL});
                    for (int a = pos + drop; a < d; a++) e.a.push_back(parts[(size_t)a]);
                    emit(e);
                }
            });
        }
    });
    // ---- argument kinds the families above never pass (audit of optional parameters / overloads / argument kinds) -------------------
    // es: typed parts that KEEP their None parts ({s,None}, {None,e}, {None,None,st}, {s,e}, {s,None,st}, {None,e,st}) combined with integers, ":"
    //     and an Ellipsis on 2-d / 3-d arrays (a lone range: 1-d); lazy view::slice, eager array::slice, array::apply_slice(tuple) and - where one either type can hold
    //     the parts - the list-of-either encoding (view::apply_slice / array::apply_slice).  Only the type patterns of ES_PT are instantiated
    //     (every None pattern next to an integer / an Ellipsis / another range, in every position); per part a 2-3 value menu with Python length >= 1.
    {
        long lo = t.thorough() ? 1 : 2, hi = t.thorough() ? 4 : 3;
        for (size_t pi = 0; pi < ES_NPT; pi++) {
            int np = 0, nell = 0; for (int k = 0; k < 3; k++) if (ES_PT[pi][k] != P_END) { np++; if (ES_PT[pi][k] == P_ELL) nell++; }
            for (int d = (np == 1 && !nell) ? 1 : std::max(2, np - nell); d <= (nell ? 3 : np - nell); d++) nmc::each_tuple((size_t)d, lo, hi, [&](const L& shp) {
                std::vector<std::vector<L>> m; size_t ax = 0;
                for (int k = 0; k < np; k++) {
                    int code = ES_PT[pi][k];
                    if (code == P_ELL) { m.push_back({L{K_ELL}}); ax += (size_t)(d - (np - nell)); continue; }
                    m.push_back(es_menu(code, shp[ax])); ax++;
                }
                L l0(m.size(), 0), h0; for (auto& x : m) h0.push_back((long)x.size() - 1);
                nmc::each_tuple(l0, h0, [&](const L& pick) { Case c("es"); c.a.push_back(shp); for (size_t k = 0; k < m.size(); k++) c.a.push_back(m[k][(size_t)pick[k]]); emit(c); });
            });
        }
    }
    // ct: integers / range parts given as compile-time constants (0_ct, "-1"_ct, tuples of constants) mixed with run-time parts; the forms are the
    //     fixed expressions of CT_FORMS, the run-time values x, y come from a small menu; kept when Python accepts the index (no IndexError).
    //     (a NEGATIVE compile-time step does not compile - index/slice.hpp:841 casts to make_unsigned_t<integral_constant> - and is not instantiated.)
    {
        long lo = t.thorough() ? 1 : 2, hi = t.thorough() ? 4 : 3;
        for (long f = 0; f < CT_NFORMS; f++) for (int d = 2; d <= 3; d++) nmc::each_tuple((size_t)d, lo, hi, [&](const L& shp) {
            int npar = ct_nparams(f);
            L xs = npar >= 1 ? L{0, 1, 2, -1, -2, 3} : L{0}, ys = npar >= 2 ? L{1, 2, -1, -2} : L{0};
            for (long x : xs) for (long y : ys) {
                LL parts = ct_parts(f, x, y); int consumed = 0; for (auto& p : parts) if (p[0] != K_ELL) consumed++;
                bool has_ell = consumed != (int)parts.size();
                if (consumed > d || (!has_ell && consumed != d)) continue;
                bool zero, ierr; RArr r(shp); model_nd(r, parts, zero, ierr); if (ierr) continue;
                L v; if (npar >= 1) v.push_back(x); if (npar >= 2) v.push_back(y);
                emit(Case("ct", {shp, {f}, v}));
            }
        });
    }
    // short: FEWER parts than axes and no Ellipsis (a[i], a[1:] on a 2-d / 3-d array: NumPy keeps the remaining axes whole); packed and list-of-either
    for (int d = 2; d <= 3; d++) nmc::each_tuple((size_t)d, t.thorough() ? 1L : 2L, t.thorough() ? 4L : 3L, [&](const L& shp) {
        for (int np = 1; np < d; np++) {
            std::vector<std::vector<L>> m;
            for (int k = 0; k < np; k++) { long n = shp[(size_t)k]; std::vector<L> r{{K_INT, -1}, {K_ALL}, {K_RANGE, 4, 0, 0, -1}}; if (n > 1 && t.thorough()) r.push_back({K_RANGE, 7, 1, n, 1}); m.push_back(r); }
            L l0(m.size(), 0), h0; for (auto& x : m) h0.push_back((long)x.size() - 1);
            nmc::each_tuple(l0, h0, [&](const L& pick) { Case c("short"); c.a.push_back(shp); for (size_t k = 0; k < m.size(); k++) c.a.push_back(m[k][(size_t)pick[k]]); emit(c); });
        }
    });
    // e2: the run-time encoding with an either type that has two different range alternatives: every sequence over {integer, {s,None}, {None,e}} for all axes
    for (int d = 2; d <= 3; d++) nmc::each_tuple((size_t)d, t.thorough() ? 1L : 2L, t.thorough() ? 4L : 3L, [&](const L& shp) {
        nmc::each_tuple((size_t)d, 0, 2, [&](const L& kind) {
            Case c("e2"); c.a.push_back(shp);
            for (int k = 0; k < d; k++) { long n = shp[(size_t)k]; c.a.push_back(kind[(size_t)k] == 0 ? L{K_INT, -1} : (kind[(size_t)k] == 1 ? L{K_RANGE, 1, n > 1 ? 1 : 0, 0, 0} : L{K_RANGE, 2, 0, n > 1 ? -1 : 1, 0})); }
            emit(c);
        });
    });
    // huge extents, index math only (the length goes through float)
    for (long n : {(1L << 16) + 1, (1L << 24) - 1, (1L << 24) + 1, (1L << 31) - 1})
        for (long s : {0L, 1L, n - 1, n, -1L, -n}) for (long e : {0L, 1L, n - 1, n, -1L, -n}) for (long st : {1L, 2L, 3L, -1L})
            emit(Case("big", {{n}, {s, e, st}}));
}

// expected 1-d selection: (first, step, len) from Python's rule
struct Sel { long first, step, len; };
static bool py_sel(long n, const L& r /*mask,start,stop,step*/, Sel& o) {
    ref::PySlice s{(r[0] & 1) != 0, (r[0] & 2) != 0, (r[0] & 4) != 0, r[1], r[2], r[3]};
    return ref::slice_adjust(n, s, o.first, o.step, o.len);
}

// model of a full basic index on an RArr; when a kept axis has length 0 the model is the empty array of that shape (zero_extent is set)
static ROpt model_nd(const RArr& a, const LL& parts, bool& zero_extent, bool& index_error) {
    zero_extent = false; index_error = false;
    int d = a.dim(); int nell = 0, consumed = 0;
    for (auto& p : parts) { if (p[0] == K_ELL) nell++; else consumed++; }
    if (nell > 1 || consumed > d) { index_error = true; return std::nullopt; }
    LL full; for (auto& p : parts) { if (p[0] == K_ELL) { for (int k = 0; k < d - consumed; k++) full.push_back({K_ALL}); } else full.push_back(p); }
    while ((int)full.size() < d) full.push_back({K_ALL});
    L rs; std::vector<Sel> sel((size_t)d); std::vector<char> keep((size_t)d, 1);
    for (int x = 0; x < d; x++) {
        long n = a.shape[(size_t)x]; auto& p = full[(size_t)x];
        if (p[0] == K_INT) { long i = p[1]; if (i < -n || i >= n) { index_error = true; return std::nullopt; } if (i < 0) i += n; sel[(size_t)x] = {i, 1, 1}; keep[(size_t)x] = 0; }
        else if (p[0] == K_ALL) { sel[(size_t)x] = {0, 1, n}; rs.push_back(n); }
        else { Sel s; L r(p.begin() + 1, p.end()); if (!py_sel(n, r, s)) { index_error = true; return std::nullopt; } sel[(size_t)x] = s; rs.push_back(s.len); if (s.len == 0) zero_extent = true; }
    }
    if (zero_extent) return ROpt(RArr(rs));   // the conforming answer is the EMPTY array of exactly this shape (a zero extent, no element)
    return ref::gather(a, rs, [&](const L& i) { L s((size_t)d); size_t k = 0; for (int x = 0; x < d; x++) { long j = keep[(size_t)x] ? i[k++] : 0; s[(size_t)x] = sel[(size_t)x].first + j * sel[(size_t)x].step; } return s; });
}

// ---- packed (typed) encodings
template <typename A> static Obs packed_range(const A& a, const L& r) {
    int s = (int)r[1], e = (int)r[2], st = (int)r[3];
    switch (r[0]) {
    case 0: return nmc::observe(view::slice(a, nmtools_tuple{None, None}));
    case 1: return nmc::observe(view::slice(a, nmtools_tuple{s, None}));
    case 2: return nmc::observe(view::slice(a, nmtools_tuple{None, e}));
    case 3: return nmc::observe(view::slice(a, nmtools_tuple{s, e}));
    case 4: return nmc::observe(view::slice(a, nmtools_tuple{None, None, st}));
    case 5: return nmc::observe(view::slice(a, nmtools_tuple{s, None, st}));
    case 6: return nmc::observe(view::slice(a, nmtools_tuple{None, e, st}));
    default: return nmc::observe(view::slice(a, nmtools_tuple{s, e, st}));
    }
}
template <int NE = 0, typename A, typename... Ts> static Obs packed_nd(const A& a, const LL& parts, size_t pos, Ts... ts) {
    if constexpr (sizeof...(Ts) > 0) { if (pos == parts.size()) return nmc::observe(view::slice(a, ts...)); }
    if constexpr (sizeof...(Ts) < 3) {
        const L& p = parts[pos];
        switch (p[0]) {
        case K_INT: return packed_nd<NE>(a, parts, pos + 1, ts..., (int)p[1]);
        case K_ALL: return packed_nd<NE>(a, parts, pos + 1, ts..., nmtools_tuple{None, None});
        case K_ELL: if constexpr (NE == 0) return packed_nd<1>(a, parts, pos + 1, ts..., nm::Ellipsis); else nmc::die("two ellipses");
        default: {   // ranges inside combinations are passed as full (start,stop,step) int triples, absent parts substituted by Python's defaults
            return packed_nd<NE>(a, parts, pos + 1, ts..., nmtools_tuple{(int)p[2], (int)p[3], (int)p[4]});
        }
        }
    }
    nmc::die("too many parts for the packed encoding");
}
// for combinations every range is spelled with three integers; normalise the model's view of it the same way
static LL spell_full(const L& shape, const LL& parts) {
    LL out; size_t ax = 0; int consumed = 0; for (auto& p : parts) if (p[0] != K_ELL) consumed++;
    for (auto& p : parts) {
        if (p[0] == K_ELL) { ax += shape.size() - (size_t)consumed; out.push_back(p); continue; }
        if (p[0] == K_RANGE && p[1] != 7) {
            long n = shape[ax]; long st = (p[1] & 4) ? p[4] : 1;
            long s = (p[1] & 1) ? p[2] : (st < 0 ? n - 1 : 0);
            long e = (p[1] & 2) ? p[3] : (st < 0 ? -(n + 1) : n);
            out.push_back({K_RANGE, 7, s, e, st});
        } else out.push_back(p);
        ax++;
    }
    return out;
}
// ---- dynamic encodings
using tri_t = nmtools_array<int, 3>;
using duo_t = nmtools_array<int, 2>;
using dpart_t = nmtools_either<int, nmtools_either<tri_t, nmtools_either<nmtools_tuple<nm::none_t, nm::none_t>, nm::ellipsis_t>>>;

template <typename A> static Obs dynamic_nd(const A& a, const LL& parts) {
    nmtools_list<dpart_t> sl;
    for (auto& p : parts) {
        switch (p[0]) {
        case K_INT: sl.push_back(dpart_t{(int)p[1]}); break;
        case K_ALL: sl.push_back(dpart_t{nmtools_either<tri_t, nmtools_either<nmtools_tuple<nm::none_t, nm::none_t>, nm::ellipsis_t>>{nmtools_either<nmtools_tuple<nm::none_t, nm::none_t>, nm::ellipsis_t>{nmtools_tuple{None, None}}}}); break;
        case K_ELL: sl.push_back(dpart_t{nmtools_either<tri_t, nmtools_either<nmtools_tuple<nm::none_t, nm::none_t>, nm::ellipsis_t>>{nmtools_either<nmtools_tuple<nm::none_t, nm::none_t>, nm::ellipsis_t>{nm::Ellipsis}}}); break;
        default: sl.push_back(dpart_t{nmtools_either<tri_t, nmtools_either<nmtools_tuple<nm::none_t, nm::none_t>, nm::ellipsis_t>>{tri_t{(int)p[2], (int)p[3], (int)p[4]}}}); break;
        }
    }
    return nmc::observe(view::apply_slice(a, sl));
}


// ---- "es": typed parts that keep their None parts; lazy, eager and (where one either type can hold the parts) list-of-either
template <int K> static auto mk_part(const L& p) {
    if constexpr (K == P_INT) return (int)p[1];
    else if constexpr (K == P_ELL) return nm::Ellipsis;
    else if constexpr (K == 0) return nmtools_tuple{None, None};
    else {
        int s = (int)p[2], e = (int)p[3], st = (int)p[4];
        if constexpr (K == 1) return nmtools_tuple{s, None};
        else if constexpr (K == 2) return nmtools_tuple{None, e};
        else if constexpr (K == 3) return nmtools_tuple{s, e};
        else if constexpr (K == 4) return nmtools_tuple{None, None, st};
        else if constexpr (K == 5) return nmtools_tuple{s, None, st};
        else if constexpr (K == 6) return nmtools_tuple{None, e, st};
        else return nmtools_tuple{s, e, st};
    }
}
struct EsObs { Obs lazy, eager, eager_apply; };
template <typename A, typename... P> static void es_call(const A& a, EsObs& o, P... p) {
    o.lazy = nmc::observe(view::slice(a, p...));
    o.eager = nmc::observe(na::slice(a, p...));
    o.eager_apply = nmc::observe(na::apply_slice(a, nmtools_tuple<P...>{p...}));
}
template <size_t I, typename A> static void es_pattern(const A& a, const LL& parts, EsObs& o) {
    constexpr int k0 = ES_PT[I][0], k1 = ES_PT[I][1], k2 = ES_PT[I][2];
    if constexpr (k1 == P_END) es_call(a, o, mk_part<k0>(parts[0]));
    else if constexpr (k2 == P_END) es_call(a, o, mk_part<k0>(parts[0]), mk_part<k1>(parts[1]));
    else es_call(a, o, mk_part<k0>(parts[0]), mk_part<k1>(parts[1]), mk_part<k2>(parts[2]));
}
template <typename A, size_t... I> static bool es_dispatch(const A& a, const LL& parts, EsObs& o, std::index_sequence<I...>) {
    int code[3] = {P_END, P_END, P_END}; if (parts.size() > 3) return false;
    for (size_t k = 0; k < parts.size(); k++) code[k] = part_code(parts[k]);
    bool done = false;
    auto one = [&](auto idx) { constexpr size_t J = decltype(idx)::value; if (!done && ES_PT[J][0] == code[0] && ES_PT[J][1] == code[1] && ES_PT[J][2] == code[2]) { es_pattern<J>(a, parts, o); done = true; } };
    (one(std::integral_constant<size_t, I>{}), ...);
    return done;
}
// list-of-either encoding with ONE range type (index::get_tuple finds only the first tuple alternative of a nested either): int | range<M> | Ellipsis
template <int M, typename A> static void es_dynamic(const A& a, const LL& parts, Obs& lazy, Obs& eager) {
    using rng_t = decltype(mk_part<M>(L{})); using inner_t = nmtools_either<rng_t, nm::ellipsis_t>; using part_t = nmtools_either<int, inner_t>;
    nmtools_list<part_t> sl;
    for (auto& p : parts) {
        if (p[0] == K_INT) sl.push_back(part_t{(int)p[1]});
        else if (p[0] == K_ELL) sl.push_back(part_t{inner_t{nm::Ellipsis}});
        else sl.push_back(part_t{inner_t{mk_part<M>(p)}});
    }
    lazy = nmc::observe(view::apply_slice(a, sl));
    eager = nmc::observe(na::apply_slice(a, sl));
}
// ---- "ct": the fixed expressions of CT_FORMS
template <typename A> static void ct_call(const A& a, long f, long x, long y, Obs& lazy, Obs& eager) {
    (void)x; (void)y;
    switch (f) {
#define X(N, NP, PARTS, ...) case N: lazy = nmc::observe(view::slice(a, __VA_ARGS__)); eager = nmc::observe(na::slice(a, __VA_ARGS__)); return;
    CT_FORMS(X)
#undef X
    }
    nmc::die("ct: unknown form");
}

static Outcome verdict(const Obs& got, const ROpt& want, bool zero, bool ierr, bool nontriv, const char* enc) {
    uint64_t h = got.hash();
    if (zero) {   // Python gives an empty result: the only conforming answer is an array of exactly the model's shape (with its zero extent) and no element
        if (!got.has) return Outcome::bad("rejects-valid", std::string(enc) + ": Python gives a zero-length axis, nmtools reports Nothing", true, h);
        if (want && got.shape == want->shape && got.data.empty()) return Outcome::ok(true, h);
        return Outcome::bad("wrong", std::string(enc) + ": Python gives a zero-length axis, got " + got.str(), true, h);
    }
    if (ierr) { if (!got.has) return Outcome::ok(true, h); return Outcome::bad("accepts-invalid", std::string(enc) + ": Python raises IndexError, got " + got.str(), true, h); }
    Outcome o = judge(got, want, nontriv);
    if (!o.fail.empty()) o.fail = std::string(enc) + ": " + o.fail;
    return o;
}

Outcome nmc_execute(const Case& c) {
    if (c.op == "s1" || c.op == "d1") {
        long n = c.a[0][0]; RArr r = RArr::iota(L{n}); auto a = make_arr<long>(L{n});
        L rng = c.op == "s1" ? c.a[1] : (c.a[1].size() == 3 ? L{7, c.a[1][0], c.a[1][1], c.a[1][2]} : L{3, c.a[1][0], c.a[1][1], 0});
        bool zero, ierr; ROpt want = model_nd(r, LL{{K_RANGE, rng[0], rng[1], rng[2], rng[3]}}, zero, ierr);
        bool nontriv = want && want->size() >= 1 && want->data != r.data;
        if (c.op == "s1") {
            Obs g = packed_range(a, rng);
            Outcome o = verdict(g, want, zero, ierr, nontriv, "packed");
            if (!o.fail.empty() || !want) return o;
            const auto ev = (c.a[1][0] == 7) ? nmc::observe(na::slice(a, nmtools_tuple{(int)rng[1], (int)rng[2], (int)rng[3]})) : g;
            std::string s = same(g, ev, "view vs array::slice"); if (!s.empty()) return Outcome::bad("wrong", s);
            return o;
        } else {
            Obs g;
            if (c.a[1].size() == 3) { nmtools_list<tri_t> sl; sl.push_back(tri_t{(int)rng[1], (int)rng[2], (int)rng[3]}); g = nmc::observe(view::apply_slice(a, sl)); }
            else { nmtools_list<duo_t> sl; sl.push_back(duo_t{(int)rng[1], (int)rng[2]}); g = nmc::observe(view::apply_slice(a, sl)); }
            Outcome o = verdict(g, want, zero, ierr, nontriv, "dynamic");
            if (!o.fail.empty()) return o;
            // both encodings must agree
            Obs p = packed_range(a, rng);
            std::string s = same(g, p, "dynamic vs packed"); if (!s.empty()) return Outcome::bad("wrong", s);
            return o;
        }
    }
    if (c.op == "i1") {
        long n = c.a[0][0], i = c.a[1][0]; RArr r = RArr::iota(L{n, 2}); auto a = make_arr<long>(L{n, 2});
        bool zero, ierr; ROpt want = model_nd(r, LL{{K_INT, i}}, zero, ierr);
        Obs g = nmc::observe(view::slice(a, (int)i, nmtools_tuple{None, None}));
        Outcome o = verdict(g, want, zero, ierr, true, "packed");
        if (!o.fail.empty()) return o;
        Obs g2 = nmc::observe(view::slice(a, (int)i, nm::Ellipsis));
        return verdict(g2, want, zero, ierr, true, "packed+ellipsis");
    }
    if (c.op == "nd") {
        const L& shp = c.a[0]; LL parts(c.a.begin() + 1, c.a.end());
        RArr r = RArr::iota(shp); auto a = make_arr<long>(shp);
        LL full = spell_full(shp, parts);
        bool zero, ierr; ROpt want = model_nd(r, parts, zero, ierr);
        bool nontriv = want && want->data != r.data;
        Obs g = packed_nd(a, full, 0);
        Outcome o = verdict(g, want, zero, ierr, nontriv, "packed");
        if (!o.fail.empty()) return o;
        Obs dg = dynamic_nd(a, full);
        Outcome o2 = verdict(dg, want, zero, ierr, nontriv, "dynamic");
        if (!o2.fail.empty()) return o2;
        return o;
    }
    if (c.op == "es") {
        const L& shp = c.a[0]; LL parts(c.a.begin() + 1, c.a.end());
        RArr r = RArr::iota(shp); auto a = make_arr<long>(shp);
        bool zero, ierr; ROpt want = model_nd(r, parts, zero, ierr);
        bool nontriv = want && want->data != r.data;
        EsObs o; if (!es_dispatch(a, parts, o, std::make_index_sequence<ES_NPT>{})) nmc::die("es: type pattern not instantiated");
        Outcome v = verdict(o.lazy, want, zero, ierr, nontriv, "view::slice");
        if (!v.fail.empty()) return v;
        Outcome e = verdict(o.eager, want, zero, ierr, nontriv, "array::slice");
        if (!e.fail.empty()) return e;
        std::string s = same(o.lazy, o.eager, "view::slice vs array::slice"); if (!s.empty()) return Outcome::bad("wrong", s, nontriv, o.lazy.hash());
        s = same(o.eager, o.eager_apply, "array::slice vs array::apply_slice(tuple)"); if (!s.empty()) return Outcome::bad("wrong", s, nontriv, o.lazy.hash());
        // list-of-either: possible when every range part has the same None pattern M (and there is no ":" next to it)
        int M = -1; bool dyn_ok = true;
        for (auto& p : parts) { int k = part_code(p); if (k == P_INT || k == P_ELL) continue; if (M == -1) M = k; else if (M != k) dyn_ok = false; }
        if (dyn_ok && M >= 1 && M <= 6) {
            Obs dl, de;
            switch (M) { case 1: es_dynamic<1>(a, parts, dl, de); break; case 2: es_dynamic<2>(a, parts, dl, de); break; case 3: es_dynamic<3>(a, parts, dl, de); break;
                         case 4: es_dynamic<4>(a, parts, dl, de); break; case 5: es_dynamic<5>(a, parts, dl, de); break; default: es_dynamic<6>(a, parts, dl, de); break; }
            Outcome d1 = verdict(dl, want, zero, ierr, nontriv, "view::apply_slice(list of either)");
            if (!d1.fail.empty()) return d1;
            Outcome d2 = verdict(de, want, zero, ierr, nontriv, "array::apply_slice(list of either)");
            if (!d2.fail.empty()) return d2;
            nmc::count("es_list_of_either");
        }
        return v;
    }
    if (c.op == "ct") {
        const L& shp = c.a[0]; long f = c.a[1][0], x = c.a[2].size() > 0 ? c.a[2][0] : 0, y = c.a[2].size() > 1 ? c.a[2][1] : 0;
        RArr r = RArr::iota(shp); auto a = make_arr<long>(shp);
        LL parts = ct_parts(f, x, y);
        bool zero, ierr; ROpt want = model_nd(r, parts, zero, ierr);
        bool nontriv = !want || want->data != r.data;
        Obs lazy, eager; ct_call(a, f, x, y, lazy, eager);
        Outcome v = verdict(lazy, want, zero, ierr, nontriv, "view::slice(ct)");
        if (!v.fail.empty()) return v;
        Outcome e = verdict(eager, want, zero, ierr, nontriv, "array::slice(ct)");
        if (!e.fail.empty()) return e;
        return v;
    }
    if (c.op == "e2") {
        const L& shp = c.a[0]; LL parts(c.a.begin() + 1, c.a.end());
        RArr r = RArr::iota(shp); auto a = make_arr<long>(shp);
        bool zero, ierr; ROpt want = model_nd(r, parts, zero, ierr);
        bool nontriv = want && want->data != r.data;
        using t1 = nmtools_tuple<int, nm::none_t>; using t2 = nmtools_tuple<nm::none_t, int>;
        using in2_t = nmtools_either<t2, nm::ellipsis_t>; using in1_t = nmtools_either<t1, in2_t>; using part_t = nmtools_either<int, in1_t>;
        nmtools_list<part_t> sl;
        for (auto& p : parts) {
            int k = part_code(p);
            if (k == P_INT) sl.push_back(part_t{(int)p[1]});
            else if (k == P_ELL) sl.push_back(part_t{in1_t{in2_t{nm::Ellipsis}}});
            else if (k == 1) sl.push_back(part_t{in1_t{t1{(int)p[2], None}}});
            else if (k == 2) sl.push_back(part_t{in1_t{in2_t{t2{None, (int)p[3]}}}});
            else nmc::die("e2: part kind not representable");
        }
        return verdict(nmc::observe(view::apply_slice(a, sl)), want, zero, ierr, nontriv, "list of either with two range alternatives");
    }
    if (c.op == "short") {
        const L& shp = c.a[0]; LL parts(c.a.begin() + 1, c.a.end());
        RArr r = RArr::iota(shp); auto a = make_arr<long>(shp);
        LL full = spell_full(shp, parts);
        bool zero, ierr; ROpt want = model_nd(r, parts, zero, ierr);
        bool nontriv = want && want->data != r.data;
        Outcome o = verdict(packed_nd(a, full, 0), want, zero, ierr, nontriv, "packed, fewer parts than axes");
        if (!o.fail.empty()) return o;
        Outcome o2 = verdict(dynamic_nd(a, full), want, zero, ierr, nontriv, "dynamic, fewer parts than axes");
        if (!o2.fail.empty()) return o2;
        return o;
    }
    if (c.op == "big") {   // index math only: shape_slice + one element mapping at both ends
        long n = c.a[0][0]; int s = (int)c.a[1][0], e = (int)c.a[1][1], st = (int)c.a[1][2];
        Sel sel; if (!py_sel(n, L{7, s, e, st}, sel)) nmc::die("step 0");
        nmtools_list<size_t> shp; shp.push_back((size_t)n);
        const auto res = ix::shape_slice(shp, nmtools_tuple{s, e, st});
        L got = nmc::to_L(nm::unwrap(res));
        uint64_t h = nmc::hash_vec(got);
        if (sel.len == 0) { if (got == L{0}) return Outcome::ok(true, h); return Outcome::bad("wrong", "Python gives a zero-length axis, shape_slice gives " + nmc::str(got), true, h); }
        if (got != L{sel.len}) return Outcome::bad("wrong", "shape_slice = " + nmc::str(got) + " expected (" + std::to_string(sel.len) + ")", true, h);
        for (long k : {0L, sel.len - 1, sel.len / 2}) {
            nmtools_list<size_t> idx; idx.push_back((size_t)k);
            const auto src = ix::slice(idx, shp, nmtools_tuple{s, e, st});
            L gs = nmc::to_L(nm::unwrap(src));
            if (gs != L{sel.first + k * sel.step}) return Outcome::bad("wrong", "element " + std::to_string(k) + " maps to " + nmc::str(gs) + " expected " + std::to_string(sel.first + k * sel.step), true, h);
        }
        return Outcome::ok(true, h);
    }
    nmc::die("unknown op");
}

void nmc_selftest() {
    // Python: range(5)[4:0:-2] = [4,2]; [::-1] full reverse; [10:20] empty; [-100:2] = [0,1]
    Sel s; py_sel(5, L{7, 4, 0, -2}, s); if (s.first != 4 || s.len != 2 || s.step != -2) nmc::die("selftest slice 4:0:-2");
    py_sel(5, L{4, 0, 0, -1}, s); if (s.first != 4 || s.len != 5) nmc::die("selftest ::-1");
    py_sel(5, L{3, 10, 20, 0}, s); if (s.len != 0) nmc::die("selftest 10:20");
    py_sel(5, L{3, -100, 2, 0}, s); if (s.first != 0 || s.len != 2) nmc::die("selftest -100:2");
    RArr r = RArr::iota(L{5}); bool z, e; ROpt m = model_nd(r, LL{{K_RANGE, 7, 4, 0, -2}}, z, e);
    Obs wrong; wrong.shape = {2}; wrong.data = {5, 4};
    if (nmc::diff(wrong, m).empty()) nmc::die("selftest: oracle blind to wrong step");
    // None parts next to an integer: arange(12).reshape(3,4)[1, 1:] = [6 7 8] (iota base 1), [::-2, -1] = [12 4]
    RArr r2 = RArr::iota(L{3, 4}); ROpt m2 = model_nd(r2, LL{{K_INT, 1}, {K_RANGE, 1, 1, 0, 0}}, z, e);
    if (!m2 || m2->shape != L{3} || m2->data != std::vector<double>{6, 7, 8}) nmc::die("selftest: model a[1,1:]");
    ROpt m3 = model_nd(r2, LL{{K_RANGE, 4, 0, 0, -2}, {K_INT, -1}}, z, e);
    if (!m3 || m3->shape != L{2} || m3->data != std::vector<double>{12, 4}) nmc::die("selftest: model a[::-2,-1]");
    Obs w2; w2.shape = {3}; w2.data = {5, 6, 7};   // an implementation that drops the None and reads start 0
    if (nmc::diff(w2, m2).empty()) nmc::die("selftest: oracle blind to a dropped None part");
    if (ct_parts(4, 2, 0) != LL{{K_INT, 1}, {K_RANGE, 1, 2, 0, 0}, {K_ELL}}) nmc::die("selftest: ct form table");
}
