// C09 - container-kind matrix (E5): "results are independent of container kind and of compile- vs run-time knowledge".
//
// Oracle = differential, no hand-written expectations.  For each operation and each member of its COMMON INPUT SET (value tuples
// given as template parameters) the result obtained with every argument in the all-dynamic kind (nmtools_list<nm_index_t>, run-time
// int / bool, dyn ndarray) is the reference; every other supported kind combination within the deviation bound must give the
// identical normalised observation (has_value, scalar-ness, shape, every element).
//   Case key:  <operation>|<input-set index>|<kind id per argument>       kind ids: see c09_driver.hpp (0 dyn 1 ct 2 clipped 3 fixed
//              4 bounded 5 rtuple 6 raw 7 clipped_arr; scalars: 0 run-time int 1 ct 2 clipped; flags: 0 bool 1 constant;
//              8 clipped_tight (tuple of clipped_size_t with bound == value; units *_clt_*, which enumerate exactly the tuples containing it);
//              array operands (part 3): 0 dyn 1 raw 2 nested_arr 3 fixed_ndarray 4 hybrid_ndarray 5 dynamic_ndarray 6..20 cast kinds
//              cs_fb cs_hb cs_db fs_fb fs_hb fs_db hs_fb hs_hb hs_db ds_fb ds_hb ds_db ls_fb ls_hb ls_db; slices: see S_* in c09_driver.hpp)
//   Tiers:     quick    = every combination with <= 1 deviation from all-dynamic + the UNIFORM combinations (all arguments of one
//                         kind: that is what upstream tests exercise and where all-constant arguments give compile-time results);
//                         index functions with <= 2 arguments: the complete kind x kind matrix (2 deviations; it is cheap and it is
//                         where clipped x fixed pairs live);
//              thorough = deviations <= C09_DEV (compile with -DC09_DEV=2, or 3 for index functions with <= 3 arguments) + uniform.
//              A build enumerates only what it compiled: the deviation bound of a thorough run is the bound of the build, reported
//              as COUNT deviation_bound_compiled (max over the operations executed).
//   Units:     -DC09_PART=1 index functions, 2 views with shape-like arguments (dyn array operand), 3 array-operand kinds;
//              -DC09_OPS=<bit mask of operation numbers of that part> selects operations (default: all);
//              -DC09_IMOD=m -DC09_IREM=r keeps only the inputs with index % m == r (splits one heavy operation over several units).
//              -DC09_KMOD=m -DC09_KREM=r keeps only the kind tuples whose first kind id % m == r (same purpose).
//              Measured partition (g++ 12 -O0, every unit < 90 s on an idle machine, < 180 s under load 18):
//                idx_q_a            quick    -DC09_PART=1 -DC09_DEV=1 -DC09_CONSTEXPR -DC09_OPS=0xfULL
//                idx_q_b            quick    -DC09_PART=1 -DC09_DEV=1 -DC09_CONSTEXPR -DC09_OPS=0x3f0ULL
//                idx_q_c            quick    -DC09_PART=1 -DC09_DEV=1 -DC09_CONSTEXPR -DC09_OPS=0x1fc00ULL
//                idx_q_d            quick    -DC09_PART=1 -DC09_DEV=1 -DC09_CONSTEXPR -DC09_OPS=0x3e0000ULL
//                idx_q_e            quick    -DC09_PART=1 -DC09_DEV=1 -DC09_CONSTEXPR -DC09_OPS=0x1c00000ULL
//                view_q_a           quick    -DC09_PART=2 -DC09_DEV=1 -DC09_OPS=0x3ffULL
//                view_q_b           quick    -DC09_PART=2 -DC09_DEV=1 -DC09_OPS=0x3fc00ULL
//                idx_q_clt_a        quick    -DC09_PART=1 -DC09_DEV=1 -DC09_CLT -DC09_OPS=0xfULL
//                idx_q_clt_b        quick    -DC09_PART=1 -DC09_DEV=1 -DC09_CLT -DC09_OPS=0x3f0ULL
//                idx_q_clt_c        quick    -DC09_PART=1 -DC09_DEV=1 -DC09_CLT -DC09_OPS=0x1fc00ULL
//                idx_q_clt_d        quick    -DC09_PART=1 -DC09_DEV=1 -DC09_CLT -DC09_OPS=0x3e0000ULL
//                idx_q_clt_e        quick    -DC09_PART=1 -DC09_DEV=1 -DC09_CLT -DC09_OPS=0x1c00000ULL
//                view_q_clt_a       quick    -DC09_PART=2 -DC09_DEV=1 -DC09_CLT -DC09_OPS=0x3ffULL
//                view_q_clt_b       quick    -DC09_PART=2 -DC09_DEV=1 -DC09_CLT -DC09_OPS=0x3fc00ULL
//                arr_q_a            quick    -DC09_PART=3 -DC09_DEV=1 -DC09_OPS=0x3ULL
//                arr_q_b            quick    -DC09_PART=3 -DC09_DEV=1 -DC09_OPS=0x4ULL
//                arr_q_c            quick    -DC09_PART=3 -DC09_DEV=1 -DC09_IMOD=2 -DC09_IREM=0 -DC09_OPS=0x8ULL
//                arr_q_d            quick    -DC09_PART=3 -DC09_DEV=1 -DC09_IMOD=2 -DC09_IREM=1 -DC09_OPS=0x8ULL
//                arr_t_reshape_0    thorough -DC09_PART=3 -DC09_DEV=2 -DC09_IMOD=3 -DC09_IREM=0 -DC09_OPS=0x1ULL
//                arr_t_reshape_1    thorough -DC09_PART=3 -DC09_DEV=2 -DC09_IMOD=3 -DC09_IREM=1 -DC09_OPS=0x1ULL
//                arr_t_reshape_2    thorough -DC09_PART=3 -DC09_DEV=2 -DC09_IMOD=3 -DC09_IREM=2 -DC09_OPS=0x1ULL
//                arr_t_transpose_0  thorough -DC09_PART=3 -DC09_DEV=2 -DC09_IMOD=3 -DC09_IREM=0 -DC09_OPS=0x2ULL
//                arr_t_transpose_1  thorough -DC09_PART=3 -DC09_DEV=2 -DC09_IMOD=3 -DC09_IREM=1 -DC09_OPS=0x2ULL
//                arr_t_transpose_2  thorough -DC09_PART=3 -DC09_DEV=2 -DC09_IMOD=3 -DC09_IREM=2 -DC09_OPS=0x2ULL
//                arr_t_sum_0        thorough -DC09_PART=3 -DC09_DEV=2 -DC09_IMOD=3 -DC09_IREM=0 -DC09_OPS=0x4ULL
//                arr_t_sum_1        thorough -DC09_PART=3 -DC09_DEV=2 -DC09_IMOD=3 -DC09_IREM=1 -DC09_OPS=0x4ULL
//                arr_t_sum_2        thorough -DC09_PART=3 -DC09_DEV=2 -DC09_IMOD=3 -DC09_IREM=2 -DC09_OPS=0x4ULL
//                arr_t_add_0_0      thorough -DC09_PART=3 -DC09_DEV=2 -DC09_IMOD=4 -DC09_IREM=0 -DC09_KMOD=3 -DC09_KREM=0 -DC09_OPS=0x8ULL
//                arr_t_add_0_1      thorough -DC09_PART=3 -DC09_DEV=2 -DC09_IMOD=4 -DC09_IREM=0 -DC09_KMOD=3 -DC09_KREM=1 -DC09_OPS=0x8ULL
//                arr_t_add_0_2      thorough -DC09_PART=3 -DC09_DEV=2 -DC09_IMOD=4 -DC09_IREM=0 -DC09_KMOD=3 -DC09_KREM=2 -DC09_OPS=0x8ULL
//                arr_t_add_1_0      thorough -DC09_PART=3 -DC09_DEV=2 -DC09_IMOD=4 -DC09_IREM=1 -DC09_KMOD=3 -DC09_KREM=0 -DC09_OPS=0x8ULL
//                arr_t_add_1_1      thorough -DC09_PART=3 -DC09_DEV=2 -DC09_IMOD=4 -DC09_IREM=1 -DC09_KMOD=3 -DC09_KREM=1 -DC09_OPS=0x8ULL
//                arr_t_add_1_2      thorough -DC09_PART=3 -DC09_DEV=2 -DC09_IMOD=4 -DC09_IREM=1 -DC09_KMOD=3 -DC09_KREM=2 -DC09_OPS=0x8ULL
//                arr_t_add_2_0      thorough -DC09_PART=3 -DC09_DEV=2 -DC09_IMOD=4 -DC09_IREM=2 -DC09_KMOD=3 -DC09_KREM=0 -DC09_OPS=0x8ULL
//                arr_t_add_2_1      thorough -DC09_PART=3 -DC09_DEV=2 -DC09_IMOD=4 -DC09_IREM=2 -DC09_KMOD=3 -DC09_KREM=1 -DC09_OPS=0x8ULL
//                arr_t_add_2_2      thorough -DC09_PART=3 -DC09_DEV=2 -DC09_IMOD=4 -DC09_IREM=2 -DC09_KMOD=3 -DC09_KREM=2 -DC09_OPS=0x8ULL
//                arr_t_add_3_0      thorough -DC09_PART=3 -DC09_DEV=2 -DC09_IMOD=4 -DC09_IREM=3 -DC09_KMOD=3 -DC09_KREM=0 -DC09_OPS=0x8ULL
//                arr_t_add_3_1      thorough -DC09_PART=3 -DC09_DEV=2 -DC09_IMOD=4 -DC09_IREM=3 -DC09_KMOD=3 -DC09_KREM=1 -DC09_OPS=0x8ULL
//                arr_t_add_3_2      thorough -DC09_PART=3 -DC09_DEV=2 -DC09_IMOD=4 -DC09_IREM=3 -DC09_KMOD=3 -DC09_KREM=2 -DC09_OPS=0x8ULL
//                idx_t_00           thorough -DC09_PART=1 -DC09_DEV=3 -DC09_CONSTEXPR -DC09_IMOD=2 -DC09_IREM=0 -DC09_OPS=0x2ULL
//                idx_t_01           thorough -DC09_PART=1 -DC09_DEV=3 -DC09_CONSTEXPR -DC09_IMOD=2 -DC09_IREM=1 -DC09_OPS=0x2ULL
//                idx_t_02           thorough -DC09_PART=1 -DC09_DEV=3 -DC09_CONSTEXPR  -DC09_OPS=0x5ULL
//                idx_t_03           thorough -DC09_PART=1 -DC09_DEV=3 -DC09_CONSTEXPR  -DC09_OPS=0x38ULL
//                idx_t_04           thorough -DC09_PART=1 -DC09_DEV=3 -DC09_CONSTEXPR  -DC09_OPS=0x40ULL
//                idx_t_05           thorough -DC09_PART=1 -DC09_DEV=3 -DC09_CONSTEXPR  -DC09_OPS=0x380ULL
//                idx_t_06           thorough -DC09_PART=1 -DC09_DEV=3 -DC09_CONSTEXPR  -DC09_OPS=0xc00ULL
//                idx_t_07           thorough -DC09_PART=1 -DC09_DEV=3 -DC09_CONSTEXPR  -DC09_OPS=0x1000ULL
//                idx_t_08           thorough -DC09_PART=1 -DC09_DEV=3 -DC09_CONSTEXPR  -DC09_OPS=0x1e000ULL
//                idx_t_09           thorough -DC09_PART=1 -DC09_DEV=3 -DC09_CONSTEXPR  -DC09_OPS=0x60000ULL
//                idx_t_10           thorough -DC09_PART=1 -DC09_DEV=3 -DC09_CONSTEXPR  -DC09_OPS=0x180000ULL
//                idx_t_11           thorough -DC09_PART=1 -DC09_DEV=3 -DC09_CONSTEXPR  -DC09_OPS=0x200000ULL
//                idx_t_12           thorough -DC09_PART=1 -DC09_DEV=3 -DC09_CONSTEXPR  -DC09_OPS=0x400000ULL
//                idx_t_13           thorough -DC09_PART=1 -DC09_DEV=3 -DC09_CONSTEXPR  -DC09_OPS=0x1800000ULL
//                view_t_a           thorough -DC09_PART=2 -DC09_DEV=2 -DC09_OPS=0x7fULL
//                view_t_b           thorough -DC09_PART=2 -DC09_DEV=2 -DC09_OPS=0xf80ULL
//                view_t_c           thorough -DC09_PART=2 -DC09_DEV=2 -DC09_OPS=0x1000ULL
//                view_t_d           thorough -DC09_PART=2 -DC09_DEV=2 -DC09_OPS=0x3e000ULL
//   Counters:  supported/<op>, skipped_unsupported/<op> (fail type), excluded_hard_error/<op> (table), compile_time_results_compared,
//              constexpr_results_compared, deviation_bound_compiled.
//   Compile-time vs run-time: with constant (ct) arguments most index functions return a constant index array, whose value is read
//              from the TYPE (meta::to_value_v, inside nmc::to_L) and compared with the run-time (all-dynamic) result of the same call
//              (COUNT compile_time_results_compared).  -DC09_CONSTEXPR additionally evaluates `constexpr auto r = f(args)` for the
//              literal kinds (ct, clipped, fixed, rtuple, raw, clipped_arr) of the operations marked constexpr_ok and compares r with
//              the run-time reference (case family <operation>@cx).
//   Unsupported combinations: resolve_optype answering with a fail type (or a fail-type result) = skipped, COUNT skipped_unsupported.
//              Combinations that HARD-error at compile time are listed in each operation's `excluded` table with the reason.
//   Non-triviality rule: a case is non-trivial iff at least one argument departs from the dynamic kind and the combination is
//              supported (the all-dynamic case is the reference itself; unsupported combinations are only counted).
#ifndef C09_PART
#define C09_PART 1
#endif
#ifndef C09_OPS
#define C09_OPS 0xffffffffffffffffULL
#endif
#define SEL(n) ((C09_OPS >> (n)) & 1ULL)

#if C09_PART == 1
#include "nmtools/array/index/broadcast_shape.hpp"
#include "nmtools/array/index/broadcast_to.hpp"
#include "nmtools/array/index/reshape.hpp"
#include "nmtools/array/index/compute_strides.hpp"
#include "nmtools/array/index/compute_offset.hpp"
#include "nmtools/array/index/compute_indices.hpp"
#include "nmtools/array/index/transpose.hpp"
#include "nmtools/array/index/tile.hpp"
#include "nmtools/array/index/expand_dims.hpp"
#include "nmtools/array/index/concatenate.hpp"
#include "nmtools/array/index/normalize_axis.hpp"
#include "nmtools/array/index/sum.hpp"
#include "nmtools/array/index/product.hpp"
#include "nmtools/array/index/remove_dims.hpp"
#include "nmtools/array/index/pad.hpp"
#include "nmtools/array/index/repeat.hpp"
#include "nmtools/array/index/take.hpp"
#include "nmtools/array/index/squeeze.hpp"
#endif
#if C09_PART == 2
#include "nmtools/array/view/reshape.hpp"
#include "nmtools/array/view/transpose.hpp"
#include "nmtools/array/view/flip.hpp"
#include "nmtools/array/view/expand_dims.hpp"
#include "nmtools/array/view/tile.hpp"
#include "nmtools/array/view/broadcast_to.hpp"
#include "nmtools/array/view/sum.hpp"
#include "nmtools/array/view/take.hpp"
#include "nmtools/array/view/roll.hpp"
#include "nmtools/array/view/pad.hpp"
#include "nmtools/array/view/slice.hpp"
#include "nmtools/array/view/repeat.hpp"
#include "nmtools/array/view/moveaxis.hpp"
#endif
#if C09_PART == 3
#define C09_ARRAY_KINDS 21
#include "nmtools/array/array/reshape.hpp"
#include "nmtools/array/array/transpose.hpp"
#include "nmtools/array/array/sum.hpp"
#include "nmtools/array/array/ufuncs/add.hpp"
#include "nmtools/array/array/flip.hpp"
#endif
#define NMC_MAIN
#include "c09_driver.hpp"
using namespace c09;

#define OP_HEAD(NAME) static constexpr const char* name = NAME; static constexpr bool index_result = true;
#define CX_ALL template <size_t I, int K> static constexpr bool constexpr_ok() { return true; }
#define CX_NONE template <size_t I, int K> static constexpr bool constexpr_ok() { return false; }
#define OP_TAG(TAG) template <typename... A> static constexpr bool unsupported() { return meta::is_fail_v<meta::resolve_optype_t<TAG, A...>>; }
#define NO_EXCLUSIONS template <size_t I, int... Ks> static constexpr bool excluded() { return false; }

struct nil_op { static constexpr const char* name = ""; static constexpr bool index_result = true; using inputs = tl<>; NO_EXCLUSIONS CX_NONE
    template <typename... A> static constexpr bool unsupported() { return false; } template <typename... A> static int call(const A&...) { return 0; } };

#if C09_PART == 1
// =====================================================================================================================
// PART 1 - index functions
// =====================================================================================================================
#if SEL(0)
struct op_broadcast_shape2 { OP_HEAD("broadcast_shape") CX_ALL OP_TAG(ix::broadcast_shape_t) NO_EXCLUSIONS
    using inputs = tl<
        in<vals<2,1,3>, vals<4,3>>,       // success, size-1 axis stretched  (the known clipped finding lives here)
        in<vals<2,3>, vals<3,2>>,         // failure
        in<vals<1>, vals<5,4>>,
        in<vals<5,4>, vals<1>>,
        in<vals<8,1,6,1>, vals<7,1,5>>,
        in<vals<2,3>, vals<2,3>>,
        in<vals<2,1>, vals<1,3>>,
        in<vals<4,3>, vals<2,1,3>>,
        in<vals<2,3>, vals<2>>            // failure
    >;
    template <typename... A> static constexpr auto call(const A&... a) { return ix::broadcast_shape(a...); }
};
#define OP0 , op_broadcast_shape2
#else
#define OP0
#endif

#if SEL(1)
struct op_broadcast_shape3 { OP_HEAD("broadcast_shape3") CX_ALL NO_EXCLUSIONS
    // variadic form: broadcast_shape(a,b,c) = broadcast_shape(broadcast_shape(a,b),c) with maybe lifting
    template <typename A, typename B, typename C> static constexpr bool unsupported() {
        using ab_t = meta::resolve_optype_t<ix::broadcast_shape_t, A, B>;
        if constexpr (meta::is_fail_v<ab_t>) return true;
        else return meta::is_fail_v<meta::resolve_optype_t<ix::broadcast_shape_t, ab_t, C>>;
    }
    using inputs = tl<
        in<vals<2,1,3>, vals<4,3>, vals<1>>,
        in<vals<2,3>, vals<3,2>, vals<1>>,      // failure (first pair)
        in<vals<1>, vals<1>, vals<5>>,
        in<vals<3,1>, vals<1,4>, vals<2,1,1>>,
        in<vals<2,3>, vals<2,3>, vals<2,3>>,
        in<vals<2>, vals<1>, vals<3>>           // failure (second step)
    >;
    template <typename... A> static constexpr auto call(const A&... a) { return ix::broadcast_shape(a...); }
};
#define OP1 , op_broadcast_shape3
#endif
#if SEL(2)
struct op_shape_reshape { OP_HEAD("shape_reshape") CX_ALL OP_TAG(ix::shape_reshape_t)
    // HARD ERRORS: dst_shape as run-time tuple (reshape.hpp:130: run-time index into a tuple, element type unresolved) and as array of clipped
    // (reshape.hpp:292: clipped_min_v of an ARRAY of clipped is CLIPPED_MIN_UNSUPPORTED, then indexed)
    template <size_t I, int... Ks> static constexpr bool excluded() { return kind_at<1, Ks...>() == TUP || kind_at<1, Ks...>() == CLA; }
    using inputs = tl<
        in<vals<2,3>, vals<3,2>>,
        in<vals<2,3>, vals<6>>,
        in<vals<2,3>, vals<-1,2>>,              // negative entry
        in<vals<2,3>, vals<4,2>>,               // failure
        in<vals<1,6>, vals<2,-1>>,
        in<vals<6>, vals<1,1,6>>,               // size-1 axes
        in<vals<2,3,4>, vals<4,-1,2>>,
        in<vals<2,3>, vals<-1>>,
        in<vals<2,1,3>, vals<3,2,1>>,
        in<vals<2,3>, vals<-1,4>>,              // failure with -1
        in<vals<2,6>, vals<2,3>>,               // failure: the target element count is a PROPER DIVISOR of the source's (a seeded change accepted exactly this for constant targets)
        in<vals<2,3>, vals<3>>                  // failure: same, rank-reducing
    >;
    template <typename... A> static constexpr auto call(const A&... a) { return ix::shape_reshape(a...); }
};
#define OP2 , op_shape_reshape
#endif
#if SEL(3)
struct op_compute_strides { OP_HEAD("compute_strides") CX_ALL OP_TAG(ix::compute_strides_t) NO_EXCLUSIONS
    using inputs = tl< in<vals<2,3>>, in<vals<1>>, in<vals<5>>, in<vals<2,1,3>>, in<vals<1,1>>, in<vals<4,3,2>>, in<vals<2,3,1,2>> >;
    template <typename... A> static constexpr auto call(const A&... a) { return ix::compute_strides(a...); }
};
#define OP3 , op_compute_strides
#endif
#if SEL(4)
struct op_compute_offset { OP_HEAD("compute_offset") CX_ALL OP_TAG(ix::compute_offset_t) NO_EXCLUSIONS
    using inputs = tl<
        in<vals<1,2>, vals<3,1>>, in<vals<0,0>, vals<3,1>>, in<vals<1,0,2>, vals<3,3,1>>, in<vals<4>, vals<1>>,
        in<vals<1,2,0,1>, vals<6,2,2,1>>, in<vals<1,1>, vals<1,2>>, in<vals<0,2>, vals<3,1>>
    >;
    template <typename... A> static constexpr auto call(const A&... a) { return ix::compute_offset(a...); }
};
#define OP4 , op_compute_offset
#endif
#if SEL(5)
struct op_compute_indices { OP_HEAD("compute_indices") CX_ALL NO_EXCLUSIONS
    // (offset, shape): strides are computed inside
    using inputs = tl<
        in<scal<5>, vals<2,3>>, in<scal<0>, vals<2,3>>, in<scal<3>, vals<1,4>>, in<scal<7>, vals<2,1,2,2>>, in<scal<4>, vals<5>>,
        in<scal<11>, vals<2,3,2>>, in<scal<0>, vals<1>>
    >;
    template <typename O, typename S> static constexpr bool unsupported() {
        using strides_t = meta::resolve_optype_t<ix::compute_strides_t, S>;
        return meta::is_fail_v<strides_t> || meta::is_fail_v<meta::resolve_optype_t<ix::compute_indices_t, O, S, strides_t>>;
    }
    template <typename... A> static constexpr auto call(const A&... a) { return ix::compute_indices(a...); }
};
#define OP5 , op_compute_indices
#endif
#if SEL(6)
struct op_compute_indices3 { OP_HEAD("compute_indices3") CX_ALL OP_TAG(ix::compute_indices_t) NO_EXCLUSIONS
    // (offset, shape, strides)
    using inputs = tl<
        in<scal<5>, vals<2,3>, vals<3,1>>, in<scal<0>, vals<2,3>, vals<3,1>>, in<scal<3>, vals<1,4>, vals<4,1>>,
        in<scal<7>, vals<2,1,2,2>, vals<4,4,2,1>>, in<scal<4>, vals<5>, vals<1>>, in<scal<11>, vals<2,3,2>, vals<6,2,1>>
    >;
    template <typename... A> static constexpr auto call(const A&... a) { return ix::compute_indices(a...); }
};
#define OP6 , op_compute_indices3
#endif
#if SEL(7)
struct op_shape_transpose { OP_HEAD("shape_transpose") CX_ALL OP_TAG(ix::shape_transpose_t) NO_EXCLUSIONS
    using inputs = tl<
        in<vals<2,3>, vals<1,0>>, in<vals<2,3,4>, vals<2,0,1>>, in<vals<2,1,3>, vals<0,2,1>>, in<vals<2,3>, vals<0,1>>, in<vals<5>, vals<0>>,
        in<vals<1,2,3,4>, vals<3,1,2,0>>, in<vals<1,1>, vals<1,0>>
    >;
    template <typename... A> static constexpr auto call(const A&... a) { return ix::shape_transpose(a...); }
};
#define OP7 , op_shape_transpose
#endif
#if SEL(8)
struct op_shape_transpose_none { OP_HEAD("shape_transpose_none") CX_ALL OP_TAG(ix::shape_transpose_t)
    // HARD ERROR: shape as array of clipped: result is a TUPLE of clipped indexed with a run-time index (transpose.hpp:56)
    template <size_t I, int... Ks> static constexpr bool excluded() { return kind_at<0, Ks...>() == CLA; }
    using inputs = tl< in<vals<2,3>, fix<nm::none_t>>, in<vals<2,3,4>, fix<nm::none_t>>, in<vals<5>, fix<nm::none_t>>, in<vals<2,1,3,1>, fix<nm::none_t>>, in<vals<1,1>, fix<nm::none_t>>, in<vals<1,4>, fix<nm::none_t>> >;
    template <typename... A> static constexpr auto call(const A&... a) { return ix::shape_transpose(a...); }
};
#define OP8 , op_shape_transpose_none
#endif
#if SEL(9)
struct op_shape_tile { OP_HEAD("shape_tile") CX_ALL OP_TAG(ix::shape_tile_t) NO_EXCLUSIONS
    using inputs = tl<
        in<vals<2,3>, vals<2,2>>, in<vals<2,3>, vals<2>>, in<vals<3>, vals<2,2>>, in<vals<1>, vals<3>>, in<vals<2,1,3>, vals<1,2,1>>,
        in<vals<2,3>, vals<1,1,2>>, in<vals<2,3>, vals<1,1>>, in<vals<1,1>, vals<3,1,2>>
    >;
    template <typename... A> static constexpr auto call(const A&... a) { return ix::shape_tile(a...); }
};
#define OP9 , op_shape_tile
#endif
#if SEL(10)
struct op_shape_expand_dims { OP_HEAD("shape_expand_dims")
    // constant evaluation rejected: input 6 with clipped axes hits the assertion that also aborts at run time (family clipped-negative-axis)
    template <size_t I, int K> static constexpr bool constexpr_ok() { return !(I == 6 && K == CL); } OP_TAG(ix::shape_expand_dims_t)
    // HARD ERROR: shape as array of clipped (expand_dims.hpp:65: `?:` with int and clipped operands)
    template <size_t I, int... Ks> static constexpr bool excluded() { return kind_at<0, Ks...>() == CLA; }
    using inputs = tl<
        in<vals<2,3>, vals<0>>, in<vals<2,3>, vals<0,1>>, in<vals<2,3>, vals<2>>, in<vals<3>, vals<0,2>>, in<vals<1>, vals<1>>,
        in<vals<2,3>, vals<-1>>, in<vals<2,3>, vals<1,-1>>, in<vals<2,1,3>, vals<1>>
    >;
    template <typename... A> static constexpr auto call(const A&... a) { return ix::shape_expand_dims(a...); }
};
#define OP10 , op_shape_expand_dims
#endif
#if SEL(11)
struct op_shape_expand_dims_scalar { OP_HEAD("shape_expand_dims_scalar") CX_ALL OP_TAG(ix::shape_expand_dims_t)
    // HARD ERROR: as shape_expand_dims
    template <size_t I, int... Ks> static constexpr bool excluded() { return kind_at<0, Ks...>() == CLA; }
    using inputs = tl< in<vals<2,3>, scal<0>>, in<vals<2,3>, scal<1>>, in<vals<2,3>, scal<2>>, in<vals<2,3>, scal<-1>>, in<vals<1>, scal<0>>, in<vals<2,1,3>, scal<-2>> >;
    template <typename... A> static constexpr auto call(const A&... a) { return ix::shape_expand_dims(a...); }
};
#define OP11 , op_shape_expand_dims_scalar
#endif
#if SEL(12)
template <typename S> struct flagged { bool ok; S value; };
struct op_shape_concatenate { OP_HEAD("shape_concatenate") CX_ALL
    // HARD ERROR (loud rejection of a rank mismatch known at compile time): input 7 (ranks 2 and 1) with ashape a run-time tuple and bshape of any
    // fixed-length kind: template_for over the result indexes bshape past its length (std::get / std::array static assertions)
    template <size_t I, int... Ks> static constexpr bool excluded() {
        constexpr int a = kind_at<0, Ks...>(), b = kind_at<1, Ks...>();
        return I == 7 && a == TUP && (b == CT || b == CL || b == TUP || b == FIX || b == CLA);
    }
    using inputs = tl<
        in<vals<2,3>, vals<2,3>, scal<0>>, in<vals<2,3>, vals<4,3>, scal<0>>, in<vals<2,3>, vals<2,1>, scal<1>>, in<vals<2,3>, vals<2,1>, scal<-1>>,
        in<vals<2,3>, vals<3,2>, scal<0>>,      // failure: mismatch off the axis
        in<vals<2,3>, vals<2,3>, scal<2>>,      // failure: axis out of range
        in<vals<1>, vals<4>, scal<0>>,
        in<vals<2,3>, vals<3>, scal<0>>,        // failure: rank mismatch
        in<vals<1,2,1>, vals<1,2,3>, scal<-1>>
    >;
    template <typename A, typename B, typename X> static constexpr bool unsupported() { return meta::is_fail_v<meta::resolve_optype_t<ix::shape_concatenate_t, A, B, X, nm_size_t, nm_size_t>>; }
    // the function answers with tuple{success, shape}
    template <typename... A> static constexpr auto call(const A&... a) { const auto r = ix::shape_concatenate(a...); return ok_shape(nm::get<0>(r), nm::get<1>(r)); }
    template <typename B, typename S> static constexpr auto ok_shape(const B& ok, const S& s) { using m_t = nmtools_maybe<S>; return static_cast<bool>(ok) ? m_t{s} : m_t{meta::Nothing}; }
};
#define OP12 , op_shape_concatenate
#endif
#if SEL(13)
struct op_normalize_axis { OP_HEAD("normalize_axis") CX_ALL OP_TAG(ix::normalize_axis_t) NO_EXCLUSIONS
    using inputs = tl<
        in<vals<0,1>, scal<3>>, in<vals<-1,0>, scal<3>>, in<vals<2,-2>, scal<3>>,
        in<vals<3>, scal<3>>,                    // failure
        in<vals<0>, scal<1>>, in<vals<-1,-2,-3>, scal<3>>,
        in<vals<0,-4>, scal<3>>,                 // failure (negative side)
        in<vals<1>, scal<2>>
    >;
    template <typename... A> static constexpr auto call(const A&... a) { return ix::normalize_axis(a...); }
};
#define OP13 , op_normalize_axis
#endif
#if SEL(14)
struct op_normalize_axis_scalar { OP_HEAD("normalize_axis_scalar") CX_ALL OP_TAG(ix::normalize_axis_t) NO_EXCLUSIONS
    using inputs = tl< in<scal<0>, scal<3>>, in<scal<2>, scal<3>>, in<scal<-1>, scal<3>>, in<scal<-3>, scal<3>>, in<scal<3>, scal<3>>, in<scal<-4>, scal<3>>, in<scal<0>, scal<1>>, in<scal<-1>, scal<1>> >;
    template <typename... A> static constexpr auto call(const A&... a) { return ix::normalize_axis(a...); }
};
#define OP14 , op_normalize_axis_scalar
#endif
#if SEL(15)
struct op_sum { OP_HEAD("index_sum") CX_ALL OP_TAG(ix::sum_t) NO_EXCLUSIONS
    using inputs = tl< in<vals<2,3>>, in<vals<1>>, in<vals<5,4,3>>, in<vals<1,1,1>>, in<vals<0,2>>, in<vals<2,3,1,2>> >;
    template <typename... A> static constexpr auto call(const A&... a) { return ix::sum(a...); }
};
#define OP15 , op_sum
#endif
#if SEL(16)
struct op_product { OP_HEAD("index_product") CX_ALL OP_TAG(ix::product_t) NO_EXCLUSIONS
    using inputs = tl< in<vals<2,3>>, in<vals<1>>, in<vals<5,4,3>>, in<vals<1,1,1>>, in<vals<7>>, in<vals<2,3,1,2>> >;
    template <typename... A> static constexpr auto call(const A&... a) { return ix::product(a...); }
};
#define OP16 , op_product
#endif
#if SEL(17)
struct op_remove_dims { OP_HEAD("remove_dims")
    // constant evaluation rejected (std::array indexed out of range inside the constant expression): run-time keepdims=true with a fixed-length shape, the
    // same defect that throws / gives a wrong rank at run time (family remove_dims-runtime-keepdims)
    template <size_t I, int K> static constexpr bool constexpr_ok() { return !(I == 1 || I == 3 || I == 5); } OP_TAG(ix::remove_dims_t)
    // HARD ERRORS: axis as tuple of clipped / run-time tuple (remove_dims.hpp:112: loop index type = element type of a tuple = error type),
    // axis as array of clipped (remove_dims.hpp:115/128: idx++ on a clipped integer), shape as array of clipped (remove_dims.hpp:128: `?:` of int and clipped)
    template <size_t I, int... Ks> static constexpr bool excluded() {
        constexpr int a = kind_at<1, Ks...>();
        return a == CL || a == TUP || a == CLA || kind_at<0, Ks...>() == CLA;
    }
    // (shape, axis list, keepdims)
    using inputs = tl<
        in<vals<2,3,4>, vals<1>, flag<false>>, in<vals<2,3,4>, vals<1>, flag<true>>, in<vals<2,3,4>, vals<0,2>, flag<false>>, in<vals<2,3,4>, vals<0,2>, flag<true>>,
        in<vals<2,1,3>, vals<-1>, flag<false>>, in<vals<2,1,3>, vals<-2,0>, flag<true>>, in<vals<2,3>, vals<0,1>, flag<true>>, in<vals<2,3>, vals<1,0>, flag<false>>
    >;
    template <typename... A> static constexpr auto call(const A&... a) { return ix::remove_dims(a...); }
};
#define OP17 , op_remove_dims
#endif
#if SEL(18)
struct op_remove_dims_scalar { OP_HEAD("remove_dims_scalar")
    // as remove_dims
    template <size_t I, int K> static constexpr bool constexpr_ok() { return !(I == 1 || I == 3); } OP_TAG(ix::remove_dims_t)
    // HARD ERRORS: as remove_dims (a clipped scalar axis makes the loop index a clipped integer)
    template <size_t I, int... Ks> static constexpr bool excluded() {
        constexpr int a = kind_at<1, Ks...>();
        return a == CL || kind_at<0, Ks...>() == CLA;
    }
    using inputs = tl<
        in<vals<2,3,4>, scal<1>, flag<false>>, in<vals<2,3,4>, scal<1>, flag<true>>, in<vals<2,3,4>, scal<-1>, flag<false>>, in<vals<2,3,4>, scal<-3>, flag<true>>,
        in<vals<2,1>, scal<1>, flag<false>>, in<vals<5>, scal<0>, flag<true>>
    >;
    template <typename... A> static constexpr auto call(const A&... a) { return ix::remove_dims(a...); }
};
#define OP18 , op_remove_dims_scalar
#endif
#if SEL(19)
struct op_shape_pad { OP_HEAD("shape_pad") CX_ALL OP_TAG(ix::shape_pad_t) NO_EXCLUSIONS
    // pad_width = [before_0..before_d-1, after_0..after_d-1]
    using inputs = tl<
        in<vals<2,3>, vals<0,1,2,0>>, in<vals<2,3>, vals<0,0,0,0>>, in<vals<3>, vals<1,2>>, in<vals<2,1,3>, vals<1,0,0,0,2,1>>,
        in<vals<2,3>, vals<1,1>>,                // failure: wrong length
        in<vals<1>, vals<3,3>>, in<vals<2,3>, vals<1,1,1,1,1,1>>   // failure
    >;
    template <typename... A> static constexpr auto call(const A&... a) { return ix::shape_pad(a...); }
};
#define OP19 , op_shape_pad
#endif
#if SEL(20)
struct op_shape_repeat { OP_HEAD("shape_repeat") CX_ALL OP_TAG(ix::shape_repeat_t) NO_EXCLUSIONS
    // (shape, repeats scalar, axis scalar)
    using inputs = tl<
        in<vals<2,3>, scal<2>, scal<0>>, in<vals<2,3>, scal<3>, scal<1>>, in<vals<2,3>, scal<2>, scal<-1>>, in<vals<2,1,3>, scal<2>, scal<1>>,
        in<vals<4>, scal<1>, scal<0>>, in<vals<2,3,2>, scal<2>, scal<-3>>
    >;
    template <typename... A> static constexpr auto call(const A&... a) { return ix::shape_repeat(a...); }
};
#define OP20 , op_shape_repeat
#endif
#if SEL(21)
struct op_shape_repeat_list { OP_HEAD("shape_repeat_list") CX_ALL OP_TAG(ix::shape_repeat_t)
    // HARD ERROR: clipped shape x {constant, clipped} repeats x constant axis: resolve_optype (repeat.hpp:130) evaluates shape_repeat on the BOUNDS of the
    // clipped shape in a constant expression and the consistency assertion len(repeats) == bound(shape[axis]) (repeat.hpp:77) fails there
    template <size_t I, int... Ks> static constexpr bool excluded() {
        constexpr int a = kind_at<0, Ks...>(), b = kind_at<1, Ks...>();
        return (a == CL || a == CLA) && (b == CT || b == CL || b == CLA) && kind_at<2, Ks...>() == CT;
    }
    // (shape, repeats per element, axis scalar)
    using inputs = tl<
        in<vals<2,3>, vals<1,2>, scal<0>>, in<vals<2,3>, vals<2,1,3>, scal<1>>, in<vals<2,3>, vals<1,1,1>, scal<-1>>, in<vals<2,1,3>, vals<4>, scal<1>>,
        in<vals<3>, vals<2,2,2>, scal<0>>, in<vals<2,2>, vals<3,1>, scal<-2>>
    >;
    template <typename... A> static constexpr auto call(const A&... a) { return ix::shape_repeat(a...); }
};
#define OP21 , op_shape_repeat_list
#endif
#if SEL(22)
struct op_shape_take { OP_HEAD("shape_take") CX_ALL OP_TAG(ix::shape_take_t)
    // HARD ERROR: constant indices of length 1 (tuple<ct<1>>) unless everything is constant: len() of it (utility/shape.hpp:38: `LEN` is not usable in a
    // constant expression, inconsistent return type deduction)
    template <size_t I, int... Ks> static constexpr bool excluded() { return I == 1 && kind_at<1, Ks...>() == CT && !(kind_at<0, Ks...>() == CT && kind_at<2, Ks...>() == CT); }
    using inputs = tl<
        in<vals<2,3>, vals<0,2>, scal<1>>, in<vals<2,3>, vals<1>, scal<0>>, in<vals<2,3>, vals<2,0,1,1>, scal<-1>>, in<vals<2,1,3>, vals<0,0>, scal<1>>,
        in<vals<4>, vals<3,0,0>, scal<0>>, in<vals<2,3,2>, vals<1,0>, scal<-3>>
    >;
    template <typename... A> static constexpr auto call(const A&... a) { return ix::shape_take(a...); }
};
#define OP22 , op_shape_take
#endif
#if SEL(23)
struct op_shape_squeeze { OP_HEAD("shape_squeeze")
    // constant evaluation rejected (std::array indexed out of range): array of clipped, the same defect that throws at run time (family squeeze-clipped)
    template <size_t I, int K> static constexpr bool constexpr_ok() { return K != CLA; } OP_TAG(ix::shape_squeeze_t) NO_EXCLUSIONS
    using inputs = tl< in<vals<2,1,3>>, in<vals<1,2>>, in<vals<2,3>>, in<vals<1,1,4,1>>, in<vals<5>>, in<vals<2,1>>, in<vals<1,3,1,2>>,
                       /* a 1 followed by two or more extents != 1 (seeded change m09b: the running offset of the tuple-result algorithm) */ in<vals<1,2,3>>, in<vals<2,1,3,4>>, in<vals<1,2,3,2>>, in<vals<1,1,2,3>> >;
    template <typename... A> static constexpr auto call(const A&... a) { return ix::shape_squeeze(a...); }
};
#define OP23 , op_shape_squeeze
#endif
#if SEL(24)
struct op_shape_broadcast_to { OP_HEAD("shape_broadcast_to") CX_NONE OP_TAG(ix::shape_broadcast_to_t) NO_EXCLUSIONS
    // answers maybe<tuple{shape, free_axes}>: both are observed (concatenated)
    using inputs = tl<
        in<vals<1,3>, vals<2,3>>, in<vals<3>, vals<2,3>>, in<vals<2,1,3>, vals<2,4,3>>, in<vals<2,3>, vals<2,3>>,
        in<vals<2,3>, vals<3,2>>,                // failure
        in<vals<2,3>, vals<3>>,                  // failure: fewer dimensions
        in<vals<1>, vals<1,1,5>>, in<vals<4,1>, vals<2,4,2>>
    >;
    template <typename... A> static auto call(const A&... a) { return both(ix::shape_broadcast_to(a...)); }
    template <typename R> static auto both(const R& r) {
        if constexpr (meta::is_maybe_v<R>) { using t = decltype(both(*r)); using m_t = nmtools_maybe<t>; return nm::has_value(r) ? m_t{both(*r)} : m_t{meta::Nothing}; }
        else { L l = nmc::to_L(nm::get<0>(r)); for (long x : nmc::to_L(nm::get<1>(r))) l.push_back(x ? 1 : 0); nmtools_list<nm_index_t> o; for (long x : l) o.push_back((nm_index_t)x); return o; }
    }
};
#define OP24 , op_shape_broadcast_to
#endif
#endif // part 1


#if C09_PART == 2
// =====================================================================================================================
// PART 2 - views with shape-like arguments; the array operand is always the dynamic ndarray (arrv<...> has one kind here)
// =====================================================================================================================
#define VIEW_HEAD(NAME) static constexpr const char* name = NAME; static constexpr bool index_result = false; \
    template <typename... A> static constexpr bool unsupported() { return false; } CX_NONE
#if SEL(0)
struct v_reshape { VIEW_HEAD("view_reshape")
    // HARD ERRORS: as index::shape_reshape (dst_shape as run-time tuple / array of clipped)
    template <size_t I, int... Ks> static constexpr bool excluded() { return kind_at<1, Ks...>() == TUP || kind_at<1, Ks...>() == CLA; }
    using inputs = tl<
        in<arrv<2,3>, vals<3,2>>, in<arrv<2,3>, vals<6>>, in<arrv<2,3>, vals<-1,2>>,
        in<arrv<2,3>, vals<4,2>>,                // failure
        in<arrv<2,1,3>, vals<3,2>>, in<arrv<4>, vals<2,2>>, in<arrv<2,3>, vals<1,6,1>>, in<arrv<2,3,2>, vals<4,-1>>,
        in<arrv<2,6>, vals<2,3>>                 // failure: target element count is a proper divisor of the source's
    >;
    template <typename... A> static auto call(const A&... a) { return view::reshape(a...); }
};
#define OP0 , v_reshape
#endif
#if SEL(1)
struct v_transpose { VIEW_HEAD("view_transpose") NO_EXCLUSIONS
    using inputs = tl<
        in<arrv<2,3>, vals<1,0>>, in<arrv<2,3,2>, vals<2,0,1>>, in<arrv<2,1,3>, vals<0,2,1>>, in<arrv<2,3>, vals<0,1>>, in<arrv<2,3>, vals<-1,0>>, in<arrv<4>, vals<0>>,
        in<arrv<2,3,2>, vals<-1,-3,1>>
    >;
    template <typename... A> static auto call(const A&... a) { return view::transpose(a...); }
};
#define OP1 , v_transpose
#endif
#if SEL(2)
struct v_flip { VIEW_HEAD("view_flip") NO_EXCLUSIONS
    using inputs = tl< in<arrv<2,3>, scal<0>>, in<arrv<2,3>, scal<1>>, in<arrv<2,3>, scal<-1>>, in<arrv<2,1,3>, scal<1>>, in<arrv<4>, scal<0>>, in<arrv<2,3,2>, scal<-3>> >;
    template <typename... A> static auto call(const A&... a) { return view::flip(a...); }
};
#define OP2 , v_flip
#endif
#if SEL(3)
struct v_flip_list { VIEW_HEAD("view_flip_list") NO_EXCLUSIONS
    using inputs = tl< in<arrv<2,3>, vals<0,1>>, in<arrv<2,3>, vals<1>>, in<arrv<2,3,2>, vals<0,-1>>, in<arrv<2,1,3>, vals<1,2>>, in<arrv<4>, vals<0>>, in<arrv<2,3>, vals<-2>> >;
    template <typename... A> static auto call(const A&... a) { return view::flip(a...); }
};
#define OP3 , v_flip_list
#endif
#if SEL(4)
struct v_expand_dims { VIEW_HEAD("view_expand_dims") NO_EXCLUSIONS
    using inputs = tl< in<arrv<2,3>, vals<0>>, in<arrv<2,3>, vals<0,1>>, in<arrv<2,3>, vals<2>>, in<arrv<4>, vals<0,2>>, in<arrv<2,3>, vals<-1>>, in<arrv<2,1,3>, vals<1>> >;
    template <typename... A> static auto call(const A&... a) { return view::expand_dims(a...); }
};
#define OP4 , v_expand_dims
#endif
#if SEL(5)
struct v_expand_dims_scalar { VIEW_HEAD("view_expand_dims_scalar") NO_EXCLUSIONS
    using inputs = tl< in<arrv<2,3>, scal<0>>, in<arrv<2,3>, scal<1>>, in<arrv<2,3>, scal<2>>, in<arrv<2,3>, scal<-1>>, in<arrv<4>, scal<0>>, in<arrv<2,1,3>, scal<-2>> >;
    template <typename... A> static auto call(const A&... a) { return view::expand_dims(a...); }
};
#define OP5 , v_expand_dims_scalar
#endif
#if SEL(6)
struct v_tile { VIEW_HEAD("view_tile") NO_EXCLUSIONS
    using inputs = tl< in<arrv<2,3>, vals<2,2>>, in<arrv<2,3>, vals<2>>, in<arrv<4>, vals<2,2>>, in<arrv<2,1,3>, vals<1,2,1>>, in<arrv<2,3>, vals<1,1,2>>, in<arrv<2,3>, vals<1,1>> >;
    template <typename... A> static auto call(const A&... a) { return view::tile(a...); }
};
#define OP6 , v_tile
#endif
#if SEL(7)
struct v_broadcast_to { VIEW_HEAD("view_broadcast_to") NO_EXCLUSIONS
    using inputs = tl<
        in<arrv<1,3>, vals<2,3>>, in<arrv<3>, vals<2,3>>, in<arrv<2,1,3>, vals<2,4,3>>, in<arrv<2,3>, vals<2,3>>,
        in<arrv<2,3>, vals<3,2>>,                // failure
        in<arrv<2,3>, vals<3>>,                  // failure
        in<arrv<1>, vals<1,1,4>>, in<arrv<4,1>, vals<2,4,2>>
    >;
    template <typename... A> static auto call(const A&... a) { return view::broadcast_to(a...); }
};
#define OP7 , v_broadcast_to
#endif
#if SEL(8)
struct v_sum { VIEW_HEAD("view_sum")
    // HARD ERROR: as index::remove_dims (clipped scalar axis: the loop index becomes a clipped integer, remove_dims.hpp:115)
    template <size_t I, int... Ks> static constexpr bool excluded() { return kind_at<1, Ks...>() == CL; }
    // sum(a, axis, dtype=None, initial=None, keepdims)
    using inputs = tl<
        in<arrv<2,3>, scal<0>, flag<false>>, in<arrv<2,3>, scal<1>, flag<true>>, in<arrv<2,3>, scal<-1>, flag<false>>, in<arrv<2,1,3>, scal<1>, flag<true>>,
        in<arrv<2,3,2>, scal<-3>, flag<false>>, in<arrv<4>, scal<0>, flag<true>>
    >;
    template <typename A, typename X, typename K> static auto call(const A& a, const X& axis, const K& keepdims) { return view::sum(a, axis, nm::None, nm::None, keepdims); }
};
#define OP8 , v_sum
#endif
#if SEL(9)
struct v_sum_list { VIEW_HEAD("view_sum_list")
    // HARD ERRORS: as index::remove_dims (axis as tuple of clipped / run-time tuple / array of clipped)
    template <size_t I, int... Ks> static constexpr bool excluded() { constexpr int a = kind_at<1, Ks...>(); return a == CL || a == TUP || a == CLA; }
    using inputs = tl<
        in<arrv<2,3,2>, vals<0,2>, flag<false>>, in<arrv<2,3,2>, vals<0,2>, flag<true>>, in<arrv<2,3,2>, vals<-1>, flag<false>>, in<arrv<2,1,3>, vals<1,-1>, flag<true>>,
        in<arrv<2,3>, vals<0>, flag<false>>, in<arrv<2,3>, vals<0,1>, flag<true>>
    >;
    template <typename A, typename X, typename K> static auto call(const A& a, const X& axis, const K& keepdims) { return view::sum(a, axis, nm::None, nm::None, keepdims); }
};
#define OP9 , v_sum_list
#endif
#if SEL(10)
struct v_take { VIEW_HEAD("view_take") NO_EXCLUSIONS
    using inputs = tl<
        in<arrv<2,3>, vals<0,2>, scal<1>>, in<arrv<2,3>, vals<1>, scal<0>>, in<arrv<2,3>, vals<2,0,1,1>, scal<-1>>, in<arrv<2,1,3>, vals<0,0>, scal<1>>,
        in<arrv<4>, vals<3,0,0>, scal<0>>, in<arrv<2,3,2>, vals<1,0>, scal<-3>>
    >;
    template <typename... A> static auto call(const A&... a) { return view::take(a...); }
};
#define OP10 , v_take
#endif
#if SEL(11)
struct v_roll { VIEW_HEAD("view_roll") NO_EXCLUSIONS
    using inputs = tl<
        in<arrv<2,3>, scal<1>, scal<1>>, in<arrv<2,3>, scal<-1>, scal<0>>, in<arrv<2,3>, scal<2>, scal<-1>>, in<arrv<2,1,3>, scal<1>, scal<1>>,
        in<arrv<4>, scal<3>, scal<0>>, in<arrv<2,3,2>, scal<1>, scal<-3>>
    >;
    template <typename... A> static auto call(const A&... a) { return view::roll(a...); }
};
#define OP11 , v_roll
#endif
#if SEL(12)
struct v_roll_list { VIEW_HEAD("view_roll_list") NO_EXCLUSIONS
    using inputs = tl<
        in<arrv<2,3>, vals<1,1>, vals<0,1>>, in<arrv<2,3>, vals<1>, vals<1>>, in<arrv<2,3,2>, vals<1,-1>, vals<0,2>>, in<arrv<2,3,2>, vals<1,2>, vals<-1,-2>>,
        in<arrv<4>, vals<2>, vals<0>>, in<arrv<2,1,3>, vals<1,2>, vals<1,2>>
    >;
    template <typename... A> static auto call(const A&... a) { return view::roll(a...); }
};
#define OP12 , v_roll_list
#endif
#if SEL(13)
struct v_roll_none { VIEW_HEAD("view_roll_flat") NO_EXCLUSIONS
    using inputs = tl< in<arrv<2,3>, scal<1>>, in<arrv<2,3>, scal<-2>>, in<arrv<4>, scal<3>>, in<arrv<2,1,3>, scal<5>>, in<arrv<2,3,2>, scal<-1>>, in<arrv<2,3>, scal<0>> >;
    template <typename... A> static auto call(const A&... a) { return view::roll(a...); }
};
#define OP13 , v_roll_none
#endif
#if SEL(14)
struct v_pad { VIEW_HEAD("view_pad") NO_EXCLUSIONS
    using inputs = tl<
        in<arrv<2,3>, vals<0,1,2,0>>, in<arrv<2,3>, vals<0,0,0,0>>, in<arrv<4>, vals<1,2>>, in<arrv<2,1,3>, vals<1,0,0,0,2,1>>,
        in<arrv<2,3>, vals<1,1>>,                // failure: wrong length
        in<arrv<2,3>, vals<1,1,1,1>>
    >;
    template <typename... A> static auto call(const A&... a) { return view::pad(a...); }
};
#define OP14 , v_pad
#endif
#if SEL(15)
struct v_slice { VIEW_HEAD("view_slice")
    // HARD ERROR: a negative compile-time step (input 3): index/slice.hpp:982 builds integral_constant<int,-1> from a run-time value
    template <size_t I, int... Ks> static constexpr bool excluded() { return I == 3 && (kind_at<1, Ks...>() == S_VARIADIC_CT || kind_at<1, Ks...>() == S_PACKED_CT); }
    // one (start, stop, step) triple per axis; packed vs list vs variadic vs constant encodings
    using inputs = tl<
        in<arrv<2,3>, slc<0,2,1, 1,3,1>>, in<arrv<2,3>, slc<0,1,1, 0,3,2>>, in<arrv<2,3>, slc<1,2,1, 0,-1,1>>, in<arrv<2,3>, slc<0,2,1, 2,0,-1>>,
        in<arrv<4>, slc<1,3,1>>, in<arrv<4>, slc<0,4,2>>, in<arrv<4>, slc<-3,-1,1>>, in<arrv<2,3,2>, slc<0,2,1, 1,2,1, 0,2,1>>
    >;
    template <typename A, typename S> static auto call(const A& a, const S& s) { return view::apply_slice(a, s); }
    template <typename A, typename T> static auto call(const A& a, const variadic_pack<T>& s) { return expand(a, s.t, meta::make_index_sequence<meta::len_v<T>>{}); }
    template <typename A, typename T, size_t... I> static auto expand(const A& a, const T& t, meta::index_sequence<I...>) { return view::slice(a, nm::get<I>(t)...); }
};
#define OP15 , v_slice
#endif
#if SEL(16)
struct v_repeat { VIEW_HEAD("view_repeat") NO_EXCLUSIONS
    using inputs = tl<
        in<arrv<2,3>, scal<2>, scal<0>>, in<arrv<2,3>, scal<3>, scal<1>>, in<arrv<2,3>, scal<2>, scal<-1>>, in<arrv<2,1,3>, scal<2>, scal<1>>, in<arrv<4>, scal<1>, scal<0>>,
        in<arrv<2,3,2>, scal<2>, scal<-3>>
    >;
    template <typename... A> static auto call(const A&... a) { return view::repeat(a...); }
};
#define OP16 , v_repeat
#endif
#if SEL(17)
struct v_moveaxis { VIEW_HEAD("view_moveaxis") NO_EXCLUSIONS
    using inputs = tl<
        in<arrv<2,3>, scal<0>, scal<1>>, in<arrv<2,3,2>, scal<0>, scal<-1>>, in<arrv<2,3,2>, scal<-1>, scal<0>>, in<arrv<2,1,3>, scal<1>, scal<1>>, in<arrv<2,3,2>, scal<1>, scal<2>>,
        in<arrv<4>, scal<0>, scal<0>>
    >;
    template <typename... A> static auto call(const A&... a) { return view::moveaxis(a...); }
};
#define OP17 , v_moveaxis
#endif
#endif // part 2

#if C09_PART == 3
// =====================================================================================================================
// PART 3 - array-operand kinds (21 kinds), lazy view and eager evaluation
// =====================================================================================================================
#define VIEW_HEAD(NAME) static constexpr const char* name = NAME; static constexpr bool index_result = false; \
    template <typename... A> static constexpr bool unsupported() { return false; } CX_NONE
#define RESHAPE_INPUTS tl< in<arrv<2,3>, vals<3,2>>, in<arrv<2,3>, vals<6>>, in<arrv<2,3>, vals<-1,2>>, in<arrv<2,3>, vals<4,2>>, in<arrv<3>, vals<3,1>>, in<arrv<2,1,2>, vals<4>> >
#define TRANSPOSE_INPUTS tl< in<arrv<2,3>, vals<1,0>>, in<arrv<2,3>, vals<0,1>>, in<arrv<2,3>, vals<-1,0>>, in<arrv<3>, vals<0>>, in<arrv<2,1,2>, vals<2,0,1>>, in<arrv<2,1,2>, vals<0,2,1>> >
#define SUM_INPUTS tl< in<arrv<2,3>, scal<0>, flag<false>>, in<arrv<2,3>, scal<1>, flag<true>>, in<arrv<2,3>, scal<-1>, flag<false>>, in<arrv<3>, scal<0>, flag<true>>, \
                       in<arrv<2,1,2>, scal<1>, flag<false>>, in<arrv<2,1,2>, scal<-3>, flag<true>> >
// (4 inputs only: one (kind, kind) instantiation of a broadcasting ufunc costs ~0.6 s of compile time)
#define ADD_INPUTS tl< in<arrv<2,3>, arrv<2,3>>, in<arrv<2,3>, arrv<3>>, in<arrv<2,1,2>, arrv<2,3>> /* failure */, in<arrv<2,1,2>, arrv<2>> >
// array kinds whose shape is known at compile time: raw, nested array, fixed_ndarray, cs_fb, cs_hb, cs_db
constexpr bool const_shape_kind(int k) { return k == A_RAW || k == A_NESTED || k == A_FIXED || k == 6 || k == 7 || k == 8; }
// every operation observes the lazy view AND the eager evaluation of the same call (both observations are part of the normalised result)
#if SEL(0)
struct a_reshape { VIEW_HEAD("reshape") using inputs = RESHAPE_INPUTS;
    // HARD ERRORS: as index::shape_reshape (dst_shape as run-time tuple / array of clipped); a clipped dst_shape containing -1 (input 2): the evaluator sizes
    // its buffer from the clipped bounds ("size 18446744073709551598 of array exceeds maximum object size"); and (loud rejection) the failing reshape
    // (input 3) when both the source shape and dst_shape are compile-time constants (eval.hpp:193)
    template <size_t I, int... Ks> static constexpr bool excluded() {
        return kind_at<1, Ks...>() == TUP || kind_at<1, Ks...>() == CLA || (I == 2 && kind_at<1, Ks...>() == CL) || (I == 3 && kind_at<1, Ks...>() == CT && const_shape_kind(kind_at<0, Ks...>()));
    }
    template <typename... A> static auto call(const A&... a) { return lazy_and_eager(view::reshape(a...), na::reshape(a...)); } };
#define OP0 , a_reshape
#endif
#if SEL(1)
struct a_transpose { VIEW_HEAD("transpose") using inputs = TRANSPOSE_INPUTS;
    // HARD ERROR: axes as raw C array in the eager form (index/transpose.hpp:68, view/transpose.hpp:45: the attribute does not survive the forwarding path)
    template <size_t I, int... Ks> static constexpr bool excluded() { return kind_at<1, Ks...>() == RAW; }
    template <typename... A> static auto call(const A&... a) { return lazy_and_eager(view::transpose(a...), na::transpose(a...)); } };
#define OP1 , a_transpose
#endif
#if SEL(2)
struct a_sum { VIEW_HEAD("sum") using inputs = SUM_INPUTS;
    // HARD ERROR: clipped scalar axis (index/remove_dims.hpp:115)
    template <size_t I, int... Ks> static constexpr bool excluded() { return kind_at<1, Ks...>() == CL; }
    template <typename A, typename X, typename K> static auto call(const A& a, const X& axis, const K& keepdims) {
        return lazy_and_eager(view::sum(a, axis, nm::None, nm::None, keepdims), na::sum(a, axis, nm::None, nm::None, keepdims)); } };
#define OP2 , a_sum
#endif
#if SEL(3)
struct a_add { VIEW_HEAD("add") using inputs = ADD_INPUTS;
    // HARD ERROR (loud rejection): the incompatible pair (input 2) when both shapes are compile-time constants
    template <size_t I, int... Ks> static constexpr bool excluded() { return I == 2 && const_shape_kind(kind_at<0, Ks...>()) && const_shape_kind(kind_at<1, Ks...>()); }
    template <typename... A> static auto call(const A&... a) { return lazy_and_eager(view::add(a...), na::add(a...)); } };
#define OP3 , a_add
#endif
#endif // part 3

#ifndef OP0
#define OP0
#endif
#ifndef OP1
#define OP1
#endif
#ifndef OP2
#define OP2
#endif
#ifndef OP3
#define OP3
#endif
#ifndef OP4
#define OP4
#endif
#ifndef OP5
#define OP5
#endif
#ifndef OP6
#define OP6
#endif
#ifndef OP7
#define OP7
#endif
#ifndef OP8
#define OP8
#endif
#ifndef OP9
#define OP9
#endif
#ifndef OP10
#define OP10
#endif
#ifndef OP11
#define OP11
#endif
#ifndef OP12
#define OP12
#endif
#ifndef OP13
#define OP13
#endif
#ifndef OP14
#define OP14
#endif
#ifndef OP15
#define OP15
#endif
#ifndef OP16
#define OP16
#endif
#ifndef OP17
#define OP17
#endif
#ifndef OP18
#define OP18
#endif
#ifndef OP19
#define OP19
#endif
#ifndef OP20
#define OP20
#endif
#ifndef OP21
#define OP21
#endif
#ifndef OP22
#define OP22
#endif
#ifndef OP23
#define OP23
#endif
#ifndef OP24
#define OP24
#endif
#ifndef OP25
#define OP25
#endif
#ifndef OP26
#define OP26
#endif
#ifndef OP27
#define OP27
#endif
#ifndef OP28
#define OP28
#endif
#ifndef OP29
#define OP29
#endif
#ifndef OP30
#define OP30
#endif
#ifndef OP31
#define OP31
#endif
#ifndef OP32
#define OP32
#endif
#ifndef OP33
#define OP33
#endif
#ifndef OP34
#define OP34
#endif
#ifndef OP35
#define OP35
#endif
#ifndef OP36
#define OP36
#endif
#ifndef OP37
#define OP37
#endif
#ifndef OP38
#define OP38
#endif
#ifndef OP39
#define OP39
#endif

// a deliberately kind-dependent "implementation" for the self test: every non-dynamic kind gets its first element clamped to 2
struct selftest_bad_op { static constexpr const char* name = "selftest_bad"; static constexpr bool index_result = true; NO_EXCLUSIONS CX_NONE
    using inputs = tl< in<vals<4, 3>> >;
    template <typename... A> static constexpr bool unsupported() { return false; }
    template <typename A> static auto call(const A& a) {
        nmtools_list<nm_index_t> r; for (long x : nmc::to_L(a)) r.push_back((nm_index_t)x);
        if constexpr (!meta::is_same_v<A, nmtools_list<nm_index_t>>) r[0] = 2;
        return r;
    }
};
using ops = oplist<nil_op OP0 OP1 OP2 OP3 OP4 OP5 OP6 OP7 OP8 OP9 OP10 OP11 OP12 OP13 OP14 OP15 OP16 OP17 OP18 OP19 OP20 OP21 OP22 OP23 OP24 OP25 OP26 OP27 OP28 OP29 OP30 OP31 OP32 OP33 OP34 OP35 OP36 OP37 OP38 OP39>;
const char* nmc_property() { return "C09"; }
void nmc_enumerate(const nmc::Tier& t, const nmc::Sink& emit) { ops::enumerate(t, emit); }
Outcome nmc_execute(const Case& c) { return ops::execute(c); }
void nmc_selftest() {
    // the comparison must flag a clamped extent, a lost failure and a scalar/array confusion
    Obs a; a.shape = {3}; a.data = {2, 4, 3};
    Obs b = a; b.data[1] = 2;
    if (obs_diff(a, b).empty()) nmc::die("selftest: differing elements not flagged");
    Obs n; n.has = false;
    if (obs_diff(a, n).empty() || obs_diff(n, a).empty()) nmc::die("selftest: has_value difference not flagged");
    Obs s; s.scalar = true; s.data = {5}; Obs v; v.shape = {1}; v.data = {5};
    if (obs_diff(s, v).empty()) nmc::die("selftest: scalar vs 1-element array not flagged");
    if (!obs_diff(a, a).empty()) nmc::die("selftest: equal observations flagged");
    // a kind-dependent implementation must be flagged by the real instantiate-run-normalise-compare path, the all-dynamic case must pass
    {   // (instantiated directly: the unit-splitting filters C09_IMOD / C09_KMOD must not hide the self-test case)
        using args_t = tl_at_t<0, selftest_bad_op::inputs>;
        const Obs ref = inst<selftest_bad_op, 0, meta::integer_sequence<int, DYN>, args_t>::run();
        const Obs bad = inst<selftest_bad_op, 0, meta::integer_sequence<int, FIX>, args_t>::run();
        if (obs_diff(ref, bad).empty()) nmc::die("selftest: kind-dependent result not flagged");
        if (!obs_diff(ref, ref).empty() || ref.data != std::vector<double>{4, 3}) nmc::die("selftest: all-dynamic reference wrong");
    }
    // lift: every kind carries the same values
    if (nmc::to_L(lift<2, 1, 3>(kind_c<CT>{})) != L{2, 1, 3} || nmc::to_L(lift<2, 1, 3>(kind_c<CL>{})) != L{2, 1, 3} || nmc::to_L(lift<2, 1, 3>(kind_c<CLA>{})) != L{2, 1, 3}
        || nmc::to_L(lift<2, 1, 3>(kind_c<FIX>{})) != L{2, 1, 3} || nmc::to_L(lift<2, 1, 3>(kind_c<BND>{})) != L{2, 1, 3} || nmc::to_L(lift<2, 1, 3>(kind_c<TUP>{})) != L{2, 1, 3}
        || nmc::to_L(lift<2, 1, 3>(kind_c<DYN>{})) != L{2, 1, 3} || nmc::to_L(lift<-1, 0>(kind_c<CL>{})) != L{-1, 0} || nmc::to_L(lift<-1, 0>(kind_c<CT>{})) != L{-1, 0})
        nmc::die("selftest: lift does not preserve values");
}
