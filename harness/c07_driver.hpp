// c07_driver.hpp - generic driver for C07 (element-wise functions apply the scalar operation to broadcast operands).
//
// Oracle (DESIGN.md section 3, C07): the scalar function is NOT re-modelled.  For every case the driver
//   1. builds operands with all-distinct, in-domain element values (per-type grids incl. negatives, zero, extremes, inf/NaN
//      where the operation is defined for them),
//   2. computes with the naive NumPy rule (nmc_ref_c07.hpp) which operand elements meet at every result index,
//   3. applies the library's own functor type (view::fun::xxx / view::xxx_t, the type named in the ufunc header; the driver also
//      demands that the view really stores a functor of that type) to those elements, in the operand element types,
//   4. demands shape == reference broadcast shape and every element BIT-identical (memcmp; NaN == NaN) for the lazy view AND the
//      evaluated array, and meta::get_element_type_t<result> == decltype(op(a_elem, b_elem)) (or the requested dtype) - the type
//      comparison is a std::is_same_v evaluated into a run-time bool and reported as a FAIL line, never a static_assert.
//   Incompatible shapes must be reported as Nothing by both forms.
// Observation reads the shape with nmtools::shape and EVERY element with nmtools::apply_at, keeping the element type
// (nmc::observe would go through double and lose int64 / type information).  isequal / isclose are never used.
#pragma once
#include "nmtools/array/view/transpose.hpp"
#include "nmtools/array/eval.hpp"
#include "common.hpp"
#include "nmc_ref_c07.hpp"
#include <cstring>
#include <cmath>
#include <limits>
#include <tuple>
#include <type_traits>
#include <typeinfo>
#include <cxxabi.h>

namespace c07 {
using nmc::ref::TArr;

// ------------------------------------------------------------------------------------------------ element types
using i8 = int8_t; using i16 = int16_t; using i32 = int32_t; using i64 = int64_t; using u8 = uint8_t; using u32 = uint32_t; using f32 = float; using f64 = double;
template <typename... Ts> struct tl {};                      // list of operand-type tuples
template <typename... Ts> struct tt { static constexpr size_t n = sizeof...(Ts); template <size_t I> using at = std::tuple_element_t<I, std::tuple<Ts...>>; };
template <typename... Ls> struct cat;
template <typename... A> struct cat<tl<A...>> { using type = tl<A...>; };
template <typename... A, typename... B, typename... R> struct cat<tl<A...>, tl<B...>, R...> { using type = typename cat<tl<A..., B...>, R...>::type; };
template <typename... Ls> using cat_t = typename cat<Ls...>::type;
template <typename A, typename BL> struct row;
template <typename A, typename... B> struct row<A, tl<B...>> { using type = tl<tt<A, B>...>; };
template <typename AL, typename BL> struct cross;
template <typename... A, typename BL> struct cross<tl<A...>, BL> { using type = cat_t<typename row<A, BL>::type...>; };
template <typename AL, typename BL> using cross_t = typename cross<AL, BL>::type;
template <typename L1> struct diag;
template <typename... A> struct diag<tl<A...>> { using type = tl<tt<A, A>...>; };
template <typename L1> using diag_t = typename diag<L1>::type;
template <typename L1> struct singles;
template <typename... A> struct singles<tl<A...>> { using type = tl<tt<A>...>; };
template <typename L1> using singles_t = typename singles<L1>::type;   // one tuple of operand element types
template <typename T> constexpr int tid() {
    if constexpr (std::is_same_v<T, i8>) return 0; else if constexpr (std::is_same_v<T, i16>) return 1; else if constexpr (std::is_same_v<T, i32>) return 2;
    else if constexpr (std::is_same_v<T, i64>) return 3; else if constexpr (std::is_same_v<T, u8>) return 4; else if constexpr (std::is_same_v<T, u32>) return 5;
    else if constexpr (std::is_same_v<T, f32>) return 6; else if constexpr (std::is_same_v<T, f64>) return 7; else if constexpr (std::is_same_v<T, bool>) return 8; else return -1;
}
template <typename T> inline std::string tname() {
    if constexpr (tid<T>() >= 0) { static const char* n[] = {"int8", "int16", "int32", "int64", "uint8", "uint32", "float", "double", "bool"}; return n[tid<T>()]; }
    else { int st = 0; char* p = abi::__cxa_demangle(typeid(T).name(), nullptr, nullptr, &st); std::string s = p ? p : typeid(T).name(); free(p); return s; }
}

// ------------------------------------------------------------------------------------------------ value grids
// g(k) = 1,-2,3,-4,... (signed) / 1,2,3,... (unsigned); the right operand (role 1) is shifted by one position so that
// b[j] == a[j+1]: comparisons have both outcomes, equal() is true exactly when i == j+1.  Floating values are g * 0.3
// computed in the element type (so the float and the double grid differ in their low bits).
enum Dom {
    D_FULL,    // small +-, zero, min/max of every type, +inf and NaN for floating types   (no arithmetic on the values)
    D_ARITH,   // small +-, zero, min/max only where arithmetic cannot overflow a signed type (types narrower than int, unsigned, floating)
    D_SMALL,   // small +-, zero
    D_NZ,      // as D_ARITH without zero (divisors)
    D_NZS,     // small +-, no zero
    D_POS,     // > 0
    D_UNIT,    // [-1,1]   (floating: |x| < 1 distinct; integers: 0/1)
    D_UNITO,   // (-1,1)   (integers: 0)
    D_GE1,     // >= 1
    D_GTM1,    // > -1
    D_SHL,     // left operand of left_shift: 0,1,2,... (non-negative, < 2^5.. so that no signed overflow occurs with D_SHIFT limits)
    D_SHIFT,   // shift counts 0..smax (smax from the promoted left type)
    D_LOGIC    // truth values: zeros on a third of the positions
};
template <typename T> inline std::vector<T> gen(int dom, long n, int role, long smax = 0) {
    constexpr bool F = std::is_floating_point_v<T>, S = std::is_signed_v<T>;
    std::vector<T> v((size_t)n);
    for (long k = 0; k < n; k++) {
        long m = k + 1 + role;
        long g = S ? ((m & 1) ? m : -m) : m;
        T x;
        switch (dom) {
        case D_POS:   x = F ? T(T(m) * T(0.3)) : T(m); break;
        case D_UNIT:  x = F ? T(T(g) * T(0.3) / T(n + 3)) : T((k + role) % 2); break;
        case D_UNITO: x = F ? T(T(g) * T(0.3) / T(n + 3)) : T(0); break;
        case D_GE1:   x = F ? T(T(1) + T(m) * T(0.3)) : T(m); break;
        case D_GTM1:  x = F ? T(T(m) * T(0.3) - T(0.9)) : T(m - 1); break;
        case D_SHL:   x = T(k + role); break;
        case D_SHIFT: x = T((k == n - 1 && n > 1) ? smax : k % (smax + 1)); break;
        case D_LOGIC: x = ((k * 5 + 1 + role) % 3 == 0) ? T(0) : (F ? T(T(g) * T(0.3)) : T(g)); break;
        default:      x = F ? T(T(g) * T(0.3)) : T(g); break;
        }
        v[(size_t)k] = x;
    }
    bool zero_ok = dom == D_FULL || dom == D_ARITH || dom == D_SMALL;
    bool ext = dom == D_FULL || ((dom == D_ARITH || dom == D_NZ) && (sizeof(T) < 4 || !S || F));
    if (zero_ok && n >= 2) v[(size_t)n - 1] = T(0);
    if (ext && n >= 4) { v[(size_t)n - 2] = std::numeric_limits<T>::max(); if (S) v[(size_t)n - 3] = std::numeric_limits<T>::lowest(); }
    if constexpr (F) if (dom == D_FULL && n >= 6) { v[(size_t)n - 4] = std::numeric_limits<T>::infinity(); v[(size_t)n - 5] = std::numeric_limits<T>::quiet_NaN(); }
    return v;
}
template <typename T> inline TArr<T> gen_arr(const L& shape, int dom, int role, long smax = 0) { TArr<T> r; r.shape = shape; r.data = gen<T>(dom, nmc::prod(shape), role, smax); return r; }

// ------------------------------------------------------------------------------------------------ operands
enum Kind { K_A = 0, K_V = 1, K_S = 2 };   // ndarray / lazy transposed view of an ndarray / plain number
template <typename T> inline dyn_t<T> mk_array(const TArr<T>& r) {
    dyn_t<T> a; a.resize(to_sl(r.shape));
    for (size_t i = 0; i < r.data.size(); i++) a.data_[i] = r.data[i];
    return a;
}
// storage whose transposed view (axes reversed) presents the logical array r
template <typename T> inline dyn_t<T> mk_tbase(const TArr<T>& r) {
    L rs(r.shape.rbegin(), r.shape.rend());
    dyn_t<T> a; a.resize(to_sl(rs));
    long k = 0;
    nmc::each_index(r.shape, [&](const L& i) { L j(i.rbegin(), i.rend()); a.data_[(size_t)nmc::flat_of(j, rs)] = r.data[(size_t)k++]; });
    return a;
}
// calls f(operand) with the operand presented in kind K
template <int K, typename T, typename F> inline auto with_operand(const TArr<T>& r, F&& f) {
    if constexpr (K == K_S) { const T s = r.data[0]; return f(s); }
    else if constexpr (K == K_A) { const auto a = mk_array(r); return f(a); }
    else { const auto base = mk_tbase(r); const auto v = view::transpose(base); return f(v); }
}

// ------------------------------------------------------------------------------------------------ typed observation
template <typename E> struct TObs { bool has = true; bool bad_shape = false; bool scalar = false; L shape; std::vector<E> data; };
template <typename V> struct unwrapped { using type = V; };
template <typename V> struct unwrapped<nmtools_maybe<V>> { using type = V; };
template <typename V> using unwrapped_t = typename unwrapped<meta::remove_cvref_t<V>>::type;
template <typename V> using elem_t = meta::get_element_type_t<unwrapped_t<V>>;

template <typename V> inline TObs<elem_t<V>> observe_t(const V& v) {
    using E = elem_t<V>;
    TObs<E> o;
    if constexpr (meta::is_maybe_v<V>) { if (!nm::has_value(v)) { o.has = false; return o; } return observe_t(*v); }
    else if constexpr (meta::is_num_v<V>) { o.scalar = true; o.data.push_back(static_cast<E>(v)); return o; }
    else {
        const auto s = nm::shape(v);
        o.shape = nmc::to_L(s);
        for (long e : o.shape) if (e < 0 || e > (1L << 20)) { o.bad_shape = true; return o; }
        long N = nmc::prod(o.shape);
        if (N > (1L << 22)) { o.bad_shape = true; return o; }
        size_t d = o.shape.size();
        nmtools_list<size_t> ix(d, 0);
        for (long k = 0; k < N; k++) {
            o.data.push_back(static_cast<E>(nm::apply_at(v, ix)));
            for (int a = (int)d - 1; a >= 0; a--) { if ((long)++nm::at(ix, a) < o.shape[(size_t)a]) break; nm::at(ix, a) = 0; }
        }
        return o;
    }
}

template <typename E> inline std::string vstr(E x) {
    char b[64];
    if constexpr (std::is_floating_point_v<E>) snprintf(b, sizeof b, "%.17g", (double)x);
    else if constexpr (std::is_signed_v<E>) snprintf(b, sizeof b, "%lld", (long long)x);
    else snprintf(b, sizeof b, "%llu", (unsigned long long)x);
    return b;
}
// bit-identical (same type) / same mathematical value (different types; every value of the 8 element types is exact in long double)
template <typename E, typename X> inline bool same_value(E got, X want) {
    if constexpr (std::is_same_v<E, X>) {
        if constexpr (std::is_floating_point_v<E>) { if (std::isnan(got) && std::isnan(want)) return true; return std::memcmp(&got, &want, sizeof(E)) == 0; }
        else return got == want;
    } else if constexpr (std::is_arithmetic_v<E> && std::is_arithmetic_v<X>) {
        long double a = (long double)got, b = (long double)want;
        if (std::isnan(a) && std::isnan(b)) return true;
        return a == b && std::signbit(a) == std::signbit(b);
    } else return false;
}
// "" = observation equals expectation in shape, every element and element type.  want == nullopt: Nothing expected.
template <typename E, typename X> inline std::string diff_t(const TObs<E>& got, const std::optional<TArr<X>>& want) {
    if (got.bad_shape) return "absurd shape " + nmc::str(got.shape);
    if (!want) return got.has ? ("accepted incompatible shapes; got shape " + nmc::str(got.shape)) : "";
    if (!got.has) return "reported Nothing, expected shape " + nmc::str(want->shape);
    if (got.shape != want->shape) return "shape " + nmc::str(got.shape) + " expected " + nmc::str(want->shape);
    if (got.data.size() != want->data.size()) return "element count " + std::to_string(got.data.size()) + " expected " + std::to_string(want->data.size());
    for (size_t i = 0; i < got.data.size(); i++) {
        E g = got.data[i]; X w = want->data[i];
        if (!same_value(g, w)) return "element " + std::to_string(i) + " = " + vstr(g) + " expected " + vstr(w) + " (shape " + nmc::str(got.shape) + ")";
    }
    constexpr bool same_type = std::is_same_v<E, X>;     // evaluated into a run-time verdict, not a static_assert
    bool st = same_type;
    if (!st) return "element type " + tname<E>() + " expected " + tname<X>();
    return "";
}
template <typename E> inline uint64_t hash_t(const TObs<E>& o) {
    uint64_t h = o.has ? 11 : 13; if (!o.has) return h;
    h = nmc::fnv(o.shape.data(), o.shape.size() * sizeof(long), h + (uint64_t)tid<E>() * 131 + o.scalar);
    for (size_t i = 0; i < o.data.size(); i++) { long double x = (long double)o.data[i]; if (std::isnan(x)) x = -12345.678L; double dbl = (double)x; long long ll = std::is_floating_point_v<E> ? 0 : (long long)o.data[i]; h = nmc::fnv(&dbl, sizeof dbl, h); h = nmc::fnv(&ll, sizeof ll, h); }
    return h;
}

// verdict over the lazy view and the evaluated array
template <typename X, typename LV, typename EV> inline Outcome verdict(const LV& lazy, const EV& eager, const std::optional<TArr<X>>& want, bool nontriv) {
    const auto ol = observe_t(lazy);
    const auto oe = observe_t(eager);
    uint64_t h = hash_t(ol);
    const char* kind = !want ? "accepts-invalid" : "wrong";
    std::string d = diff_t(ol, want);
    if (!d.empty()) return Outcome::bad((want && !ol.has) ? "rejects-valid" : kind, "view: " + d, nontriv, h);
    d = diff_t(oe, want);
    if (!d.empty()) return Outcome::bad((want && !oe.has) ? "rejects-valid" : kind, "array: " + d, nontriv, h);
    return Outcome::ok(nontriv, h);
}

// the functor type stored in a ufunc view must be the one the header names for this function
template <typename OP, typename LV> inline bool op_type_matches(const LV&) {
    using V = unwrapped_t<LV>;
    if constexpr (std::is_arithmetic_v<V>) return true;
    else { constexpr bool same = std::is_same_v<meta::remove_cvref_t<decltype(std::declval<const V&>().op)>, OP>; bool r = same; return r; }
}

// ------------------------------------------------------------------------------------------------ runners
// FN (function descriptor) provides: id, name, op() -> functor, lazy(operands...), eager(operands...), static doms.
template <typename FN, typename T, int K> inline Outcome run_unary(const L& s) {
    using OP = decltype(FN::op());
    using X = meta::remove_cvref_t<decltype(FN::op()(std::declval<const T&>()))>;
    const TArr<T> r = gen_arr<T>(K == K_S ? L{} : s, FN::template dom<T>(0), 0);
    TArr<X> w; w.shape = r.shape;
    const auto op = FN::op();
    for (const T& x : r.data) w.data.push_back(op(x));
    std::optional<TArr<X>> want = w;
    bool nontriv = w.data.size() >= 2;
    return with_operand<K>(r, [&](const auto& a) -> Outcome {
        const auto lv = FN::lazy(a);
        if constexpr (FN::check_op) { if (!op_type_matches<OP>(lv)) return Outcome::bad("wrong", std::string("view stores a functor other than ") + tname<OP>(), nontriv); }
        const auto ev = FN::eager(a);
        return verdict<X>(lv, ev, want, nontriv);
    });
}

template <typename FN, typename TA, typename TB, int KA, int KB> inline Outcome run_binary(const L& sa0, const L& sb0) {
    using OP = decltype(FN::op());
    using X = meta::remove_cvref_t<decltype(FN::op()(std::declval<const TA&>(), std::declval<const TB&>()))>;
    const L sa = KA == K_S ? L{} : sa0, sb = KB == K_S ? L{} : sb0;
    const TArr<TA> ra = gen_arr<TA>(sa, FN::template dom<TA>(0), 0);
    const TArr<TB> rb = gen_arr<TB>(sb, FN::template dom<TB>(1), 1, FN::template smax<TA>());
    L rs; auto pairing = nmc::ref::bcast_pairing({sa, sb}, &rs);
    std::optional<TArr<X>> want;
    bool nontriv = false;
    if (pairing) {
        TArr<X> w; w.shape = rs; const auto op = FN::op();
        for (auto& p : *pairing) w.data.push_back(op(ra.data[(size_t)p[0]], rb.data[(size_t)p[1]]));
        nontriv = w.data.size() >= 2 && (sa != rs || sb != rs || (KA == K_V && sa.size() >= 2) || (KB == K_V && sb.size() >= 2) || !std::is_same_v<TA, TB>);
        want = std::move(w);
    }
    return with_operand<KA>(ra, [&](const auto& a) -> Outcome {
        return with_operand<KB>(rb, [&](const auto& b) -> Outcome {
            const auto lv = FN::lazy(a, b);
            if constexpr (FN::check_op) { if (!op_type_matches<OP>(lv)) return Outcome::bad("wrong", std::string("view stores a functor other than ") + tname<OP>(), nontriv); }
            const auto ev = FN::eager(a, b);
            return verdict<X>(lv, ev, want, nontriv);
        });
    });
}

// where(condition, x, y): scalar operation c ? x : y, element type of the conditional expression over the x / y element types
template <typename FN, typename TC, typename TX, typename TY, int KC, int KX, int KY> inline Outcome run_where(const L& sc0, const L& sx0, const L& sy0) {
    using X = meta::remove_cvref_t<decltype(true ? std::declval<TX>() : std::declval<TY>())>;
    const L sc = KC == K_S ? L{} : sc0, sx = KX == K_S ? L{} : sx0, sy = KY == K_S ? L{} : sy0;
    const TArr<TC> rc = gen_arr<TC>(sc, D_LOGIC, 0);
    const TArr<TX> rx = gen_arr<TX>(sx, D_FULL, 0);
    const TArr<TY> ry = gen_arr<TY>(sy, D_FULL, 1);
    L rs; auto pairing = nmc::ref::bcast_pairing({sc, sx, sy}, &rs);
    std::optional<TArr<X>> want;
    bool nontriv = false;
    if (pairing) {
        TArr<X> w; w.shape = rs;
        for (auto& p : *pairing) { const TC c = rc.data[(size_t)p[0]]; const TX x = rx.data[(size_t)p[1]]; const TY y = ry.data[(size_t)p[2]]; w.data.push_back(c ? x : y); }
        nontriv = w.data.size() >= 2 && (sc != rs || sx != rs || sy != rs || (KC == K_V && sc.size() >= 2) || (KX == K_V && sx.size() >= 2) || (KY == K_V && sy.size() >= 2) || !std::is_same_v<TX, TY>);
        want = std::move(w);
    }
    return with_operand<KC>(rc, [&](const auto& c) -> Outcome {
        return with_operand<KX>(rx, [&](const auto& x) -> Outcome {
            return with_operand<KY>(ry, [&](const auto& y) -> Outcome {
                const auto lv = FN::lazy(c, x, y);
                const auto ev = FN::eager(c, x, y);
                return verdict<X>(lv, ev, want, nontriv);
            });
        });
    });
}

// outer: shape(a)+shape(b), element (i,j) = op(a[i], b[j]); DT = requested dtype (void: none)
template <typename FN, typename TA, typename TB, typename DT, int KA, int KB> inline Outcome run_outer(const L& sa, const L& sb) {
    using R0 = meta::remove_cvref_t<decltype(FN::op()(std::declval<const TA&>(), std::declval<const TB&>()))>;
    using X = std::conditional_t<std::is_void_v<DT>, R0, DT>;
    constexpr bool dt = !std::is_void_v<DT>;
    const TArr<TA> ra = gen_arr<TA>(sa, dt ? (int)D_SMALL : FN::template dom<TA>(0), 0);
    const TArr<TB> rb = gen_arr<TB>(sb, dt ? (FN::template dom<TB>(1) == D_NZ ? (int)D_NZS : (int)D_SMALL) : FN::template dom<TB>(1), 1, FN::template smax<TA>());
    L rs; auto pairs = nmc::ref::outer_pairing(sa, sb, &rs);
    TArr<X> w; w.shape = rs; const auto op = FN::op();
    for (auto& p : pairs) w.data.push_back(static_cast<X>(op(ra.data[(size_t)p.first], rb.data[(size_t)p.second])));
    bool nontriv = ra.data.size() >= 2 && rb.data.size() >= 2;
    std::optional<TArr<X>> want = std::move(w);
    return with_operand<KA>(ra, [&](const auto& a) -> Outcome {
        return with_operand<KB>(rb, [&](const auto& b) -> Outcome {
            if constexpr (dt) { const auto lv = FN::lazy_outer(a, b, nm::dtype_t<DT>{}); const auto ev = FN::eager_outer(a, b, nm::dtype_t<DT>{}); return verdict<X>(lv, ev, want, nontriv); }
            else { const auto lv = FN::lazy_outer(a, b, nm::None); const auto ev = FN::eager_outer(a, b, nm::None); return verdict<X>(lv, ev, want, nontriv); }
        });
    });
}

// ------------------------------------------------------------------------------------------------ shape alphabets
// DESIGN.md: operand shapes from S(0..3,3) (quick) / S(0..4,3) (thorough).  0-dim arrays do not exist in nmtools: the 0-dim member of
// the alphabet is a plain number (operand kind S).  ALL ordered pairs are enumerated - compatible ones (every broadcast pattern class:
// same shape, size-1 axis on the left / right / in the middle / in both operands, rank extension of either operand) and incompatible
// ones (Nothing expected).
//   pairs   : quick S(1..3,3)^2 = 1521, thorough S(1..4,3)^2 = 14400; both tiers + the pairs of S(1..2,4) containing an extent 4 (384);
//             thorough + 9 larger pairs in both orders (up to 120 elements)
//   triples : quick S(1..3,2)^3 + S(1..2,3)^3 = 2744 + 1728, thorough S(1..3,3)^3 = 59319            (where)
//   single  : quick S(1..3,3) + S(4,2), thorough S(1..4,3); both + S(1..2,4) with an extent 4; thorough + 4 larger shapes   (unary; the array side of array-with-scalar)
//   outer   : quick S(1..2,3)^2 = 144 (DESIGN.md), thorough S(1..3,3)^2 = 1521
inline bool has_extent4(const L& s) { for (long v : s) if (v >= 4) return true; return false; }
// "sampled larger" of the property's quantifier: a fixed list (no sampling) of larger operands, thorough tier only
inline const std::vector<std::pair<L, L>>& larger_pairs() {
    static const std::vector<std::pair<L, L>> p = {
        {{7}, {7}}, {{5, 1}, {1, 6}}, {{4, 1, 5}, {3, 5}}, {{2, 3, 4, 5}, {4, 1}}, {{6}, {2, 1}}, {{5, 7}, {7}}, {{2, 1, 4, 1}, {3, 1, 5}}, {{5, 7}, {5}}, {{4, 5}, {5, 4}},
    };
    return p;
}
template <typename F> inline void each_shape_pair(bool thorough, F&& f) {
    std::vector<L> sh;
    nmc::each_shape_range(1, thorough ? 4 : 3, 3, [&](const L& s) { sh.push_back(s); });
    for (auto& a : sh) for (auto& b : sh) f(a, b);
    std::vector<L> s4;                                                                  // extent-4 boundary: pairs of S(1..2,4) with an extent 4
    nmc::each_shape_range(1, 2, 4, [&](const L& s) { s4.push_back(s); });
    for (auto& a : s4) for (auto& b : s4) if (has_extent4(a) || has_extent4(b)) f(a, b);
    if (thorough) for (auto& p : larger_pairs()) { f(p.first, p.second); if (p.first != p.second) f(p.second, p.first); }
}
template <typename F> inline void each_single_shape(bool thorough, F&& f) {
    nmc::each_shape_range(1, thorough ? 4 : 3, 3, [&](const L& s) { f(s); });
    if (!thorough) nmc::each_shape(4, 2, [&](const L& s) { f(s); });
    nmc::each_shape_range(1, 2, 4, [&](const L& s) { if (has_extent4(s)) f(s); });
    if (thorough) { f(L{7}); f(L{5, 7}); f(L{2, 3, 4, 5}); f(L{4, 1, 5}); }
}
template <typename F> inline void each_outer_pair(bool thorough, F&& f) {
    std::vector<L> sh;
    nmc::each_shape_range(1, thorough ? 3 : 2, 3, [&](const L& s) { sh.push_back(s); });
    for (auto& a : sh) for (auto& b : sh) f(a, b);
}
template <typename F> inline void each_shape_triple(bool thorough, F&& f) {
    auto cube = [&](int dhi, long e, auto&& skip) {
        std::vector<L> sh; nmc::each_shape_range(1, dhi, e, [&](const L& s) { sh.push_back(s); });
        for (auto& a : sh) for (auto& b : sh) for (auto& c : sh) if (!skip(a, b, c)) f(a, b, c);
    };
    auto le2 = [](const L& s) { for (long v : s) if (v > 2) return false; return true; };
    if (thorough) cube(3, 3, [](const L&, const L&, const L&) { return false; });
    else { cube(3, 2, [](const L&, const L&, const L&) { return false; }); cube(2, 3, [&](const L& a, const L& b, const L& c) { return le2(a) && le2(b) && le2(c); }); }   // second cube: skip triples already emitted
}

// ------------------------------------------------------------------------------------------------ type-list dispatch
template <typename F, typename... Tup> inline void each_types(tl<Tup...>, F&& f) { (f(Tup{}), ...); }

} // namespace c07
