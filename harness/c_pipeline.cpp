// C10 / C11 / C02 node checks over the E2 pipeline explorer (harness/pipeline.hpp); -DPIPE_PROP=10|11|2 selects the property.
//
//  C10: at every node of the program tree the lazy nested view, eval(view) with the row-major and the column-major
//       resolver, eval into a caller-supplied output of the right shape, and the step-wise eager chain
//       (array::op applied to the previous CONCRETE array) are read at every index and compared with the reference
//       model; no evaluator may return early on a shape mismatch (hook).
//  C11: for every view type the explorer instantiates (5 static-knowledge kinds of start array x pipelines with run-time
//       and compile-time arguments) the statically reported fixed_shape / fixed_dim / fixed_size / bounded_dim /
//       bounded_size of the view type AND of its evaluation result type are compared with every run-time object of
//       that type the menus produce; the evaluated result must have the full shape and values (nothing clipped), no
//       bounded container may be asked to hold more than its capacity (hook).
//  C02: every BOUNDS hook event raised while every element of the view is read and while the view is evaluated must
//       satisfy 0 <= index < extent, and no CAPACITY event may fire for an accepted argument.
// Non-trivial node: result has > 1 element and (C11) the type carries some static knowledge / (C10, C02) depth >= 1.
#ifndef PIPE_PROP
#define PIPE_PROP 10
#endif
#define NMC_MAIN
#include "pipeline.hpp"
#if PIPE_PROP == 15
#include "nmtools/array/functional.hpp"
#endif

const char* nmc_property() { return PIPE_PROP == 10 ? "C10" : (PIPE_PROP == 11 ? "C11" : (PIPE_PROP == 15 ? "C15" : "C02")); }

static long g_eval_mismatch = 0, g_capacity = 0, g_bounds_bad = 0, g_bounds_seen = 0; static std::string g_first_bad;
static void eval_sink(int) { g_eval_mismatch++; }
static void cap_sink(int site, long long want, long long cap) { g_capacity++; if (g_first_bad.empty()) g_first_bad = "a bounded container of capacity " + std::to_string(cap) + " was asked to hold " + std::to_string(want) + " (hook site " + std::to_string(site) + ")"; }
static void bounds_sink(int site, long long i, long long n) { g_bounds_seen++; if (i < 0 || i >= n) { g_bounds_bad++; if (g_first_bad.empty()) g_first_bad = "index " + std::to_string(i) + " used on an axis / buffer of extent " + std::to_string(n) + " (hook site " + std::to_string(site) + ")"; } }
static void reset_hooks() { g_eval_mismatch = g_capacity = g_bounds_bad = g_bounds_seen = 0; g_first_bad.clear(); }

template <class X> static L static_list(const X& x) { L r; for (size_t i = 0; i < (size_t)nm::len(x); i++) r.push_back((long)nm::at(x, i)); return r; }

namespace ppl {
template <class V, class E> Outcome check_node(const V& v, const E& e, const RArr& r, const Case& c, Ctx& ctx, int depth) {
    std::string where = "  [" + describe(c) + "]";
    ROpt want(r); bool nontriv = r.size() > 1 && depth >= 1;
    nm::verif::on_eval_shape_mismatch = eval_sink; nm::verif::on_capacity = cap_sink; nm::verif::on_bounds = bounds_sink; reset_hooks();
#if PIPE_PROP == 10
    Obs lazy = nmc::observe(v);
    std::string d = nmc::diff(lazy, want); if (!d.empty()) return Outcome::bad("wrong", "lazy view: " + d + where, nontriv, lazy.hash());
    { const auto ev = na::eval(v); Obs o = nmc::observe(ev); d = nmc::diff(o, want); if (!d.empty()) return Outcome::bad("wrong", "eval(view): " + d + where, nontriv, lazy.hash()); }
    if (g_eval_mismatch) return Outcome::bad("hook", "eval(view) into a library-allocated output returned early on a shape mismatch" + where, nontriv, lazy.hash());
    { const auto ev = na::eval(v, nm::None, nm::None, na::ColumnMajorResolver); Obs o = nmc::observe(ev); d = nmc::diff(o, want); if (!d.empty()) return Outcome::bad("wrong", "eval(view, ColumnMajorResolver): " + d + where, nontriv, lazy.hash()); }
    if (g_eval_mismatch) return Outcome::bad("hook", "eval(view, ColumnMajorResolver) returned early on a shape mismatch" + where, nontriv, lazy.hash());
    { k_dyn_t out; out.resize(to_sl(r.shape)); for (auto& x : out.data_) x = -99999; na::eval(v, nm::None, out); Obs o = nmc::observe(out); d = nmc::diff(o, want); if (!d.empty()) return Outcome::bad("wrong", "eval(view) into a caller-supplied output of the right shape: " + d + where, nontriv, lazy.hash()); }
    if (g_eval_mismatch) return Outcome::bad("hook", "eval into a caller-supplied output of the right shape returned early" + where, nontriv, lazy.hash());
    { Obs o = nmc::observe(e); d = nmc::diff(o, want); if (!d.empty()) return Outcome::bad("wrong", "step-wise eager chain: " + d + where, nontriv, lazy.hash()); }
    nmc::count("transitions", 1); nmc::count("traces_validated", 1);
    return Outcome::ok(nontriv, lazy.hash() ^ nmc::mix((uint64_t)depth));
#elif PIPE_PROP == 11
    using V_ = meta::remove_cvref_t<V>;
    Obs lazy = nmc::observe(v); bool known = false; std::string err;
    auto check_type = [&](auto tag, const Obs& o, const char* what) {
        using T = meta::type_t<decltype(tag)>;
        [[maybe_unused]] constexpr auto fs = meta::fixed_shape_v<T>; [[maybe_unused]] constexpr auto fd = meta::fixed_dim_v<T>; [[maybe_unused]] constexpr auto fz = meta::fixed_size_v<T>;
        [[maybe_unused]] constexpr auto bd = meta::bounded_dim_v<T>; [[maybe_unused]] constexpr auto bz = meta::bounded_size_v<T>;
        long dim = (long)o.shape.size(), size = nmc::prod(o.shape);
        if constexpr (!meta::is_fail_v<decltype(fs)>) { known = true; L s = static_list(fs); if (s != o.shape && err.empty()) err = std::string(what) + ": fixed_shape_v = " + nmc::str(s) + " but this object has shape " + nmc::str(o.shape); }
        if constexpr (!meta::is_fail_v<decltype(fd)>) { known = true; if ((long)fd != dim && err.empty()) err = std::string(what) + ": fixed_dim_v = " + std::to_string((long)fd) + " but this object has dim " + std::to_string(dim); }
        if constexpr (!meta::is_fail_v<decltype(fz)>) { known = true; if ((long)fz != size && err.empty()) err = std::string(what) + ": fixed_size_v = " + std::to_string((long)fz) + " but this object has " + std::to_string(size) + " elements"; }
        if constexpr (!meta::is_fail_v<decltype(bd)>) { known = true; if ((long)bd < dim && err.empty()) err = std::string(what) + ": bounded_dim_v = " + std::to_string((long)bd) + " but this object has dim " + std::to_string(dim); }
        if constexpr (!meta::is_fail_v<decltype(bz)>) { known = true; if ((long)bz < size && err.empty()) err = std::string(what) + ": bounded_size_v = " + std::to_string((long)bz) + " but this object has " + std::to_string(size) + " elements"; }
    };
    if (!lazy.has || lazy.bad_shape) return Outcome::bad("wrong", "view not observable" + where);
    check_type(meta::as_value_v<V_>, lazy, "view type");
    if (c.op == "pt") {   // type-only case: static traits of the view type against this run-time object, nothing is evaluated
        nmc::count("transitions", 1); nmc::count("traces_validated", 1); if (known) nmc::count("nodes_with_static_knowledge", 1);
        if (lazy.shape != r.shape && err.empty()) err = "view shape " + nmc::str(lazy.shape) + " differs from the model's " + nmc::str(r.shape);
        if (!err.empty()) return Outcome::bad("wrong", err + where, true, lazy.hash());
        return Outcome::ok(known && r.size() > 1, lazy.hash() ^ nmc::mix((uint64_t)depth + (known ? 29 : 3)));
    }
    reset_hooks();
    const auto ev = na::eval(v); Obs o = nmc::observe(ev);
    if (g_capacity) return Outcome::bad("hook", "while evaluating: " + g_first_bad + where, true, lazy.hash());
    std::string d = nmc::diff(o, want); if (!d.empty()) return Outcome::bad("wrong", "evaluated result is clipped / differs from the full result: " + d + where, true, lazy.hash());
    { auto* pe = strip(ev); if (pe) { using R_ = meta::remove_cvref_t<decltype(*pe)>; check_type(meta::as_value_v<R_>, o, "evaluation result type"); } }
    if (lazy.shape != r.shape) return Outcome::bad("wrong", "view shape " + nmc::str(lazy.shape) + " differs from the model's " + nmc::str(r.shape) + where, true, lazy.hash());
    nmc::count("transitions", 1); nmc::count("traces_validated", 1); if (known) nmc::count("nodes_with_static_knowledge", 1);
    if (!err.empty()) return Outcome::bad("wrong", err + where, true, lazy.hash());
    return Outcome::ok(known && r.size() > 1, lazy.hash() ^ nmc::mix((uint64_t)depth + (known ? 17 : 0)));
#elif PIPE_PROP == 15
    // propagation of Nothing: an EMPTY optional of this node's view type fed into every further stage, into eval and into
    // get_function_composition must stay empty (and nothing may be dereferenced: ASan / _GLIBCXX_ASSERTIONS shadow build)
    using V_ = meta::remove_cvref_t<V>;
    const nmtools_maybe<V_> none = meta::Nothing;
    std::string err; long stages = 0;
    auto try_op = [&](auto tag) {
        constexpr int OP = decltype(tag)::value;
        // view::flip and view::expand_dims do not lift an optional operand: the call is rejected at compile time (loud), not instantiated
        if constexpr (OP == O_FLIP || OP == O_EXPAND || OP == O_FLIP_CT || OP == O_EXPAND_CT) return; else {
        if (!err.empty()) return;
        auto m = menu(OP, r); if (m.empty()) return;
        const auto res = view_apply<OP>(none, m[0], r, ctx);
        using R = meta::remove_cvref_t<decltype(res)>;
        if constexpr (meta::is_fail_v<R> || meta::is_same_v<R, nm::none_t>) { return; }
        else if constexpr (!meta::is_maybe_v<R>) { err = std::string(op_name(OP)) + " of an empty optional returned a non-optional view"; }
        else {
            stages++;
            if (nm::has_value(res)) { err = std::string(op_name(OP)) + " of an empty optional has a value"; return; }
            const auto ev = na::eval(res);
            if constexpr (meta::is_maybe_v<meta::remove_cvref_t<decltype(ev)>>) { if (nm::has_value(ev)) err = std::string("eval(") + op_name(OP) + "(Nothing)) has a value"; }
            else err = std::string("eval(") + op_name(OP) + "(Nothing)) is not an optional";
            const auto f = nmtools::functional::get_function_composition(res);
            if constexpr (meta::is_maybe_v<meta::remove_cvref_t<decltype(f)>>) { if (nm::has_value(f)) err = std::string("get_function_composition(") + op_name(OP) + "(Nothing)) has a value"; }
            else err = std::string("get_function_composition(") + op_name(OP) + "(Nothing)) is not an optional";
        }
        }
    };
    meta::template_for<O_ROLL>([&](auto i) { try_op(meta::ct_v<(int)decltype(i)::value>); });
    { const auto ev = na::eval(none); if (nm::has_value(ev)) err = "eval(Nothing) has a value"; }
    nmc::count("transitions", stages); nmc::count("traces_validated", 1); nmc::count("propagation_stages", stages);
    if (!err.empty()) return Outcome::bad("wrong", err + where, true, 7);
    return Outcome::ok(true, nmc::mix((uint64_t)stages * 131 + (uint64_t)r.dim() * 7 + (uint64_t)r.size()));
#else
    Obs lazy = nmc::observe(v);
    long seen_read = g_bounds_seen;
    if (g_bounds_bad || g_capacity) return Outcome::bad("hook", "while reading every element of the view: " + g_first_bad + where, nontriv, lazy.hash());
    { const auto ev = na::eval(v); Obs o = nmc::observe(ev); (void)o; }
    if (g_bounds_bad || g_capacity) return Outcome::bad("hook", "while evaluating the view: " + g_first_bad + where, nontriv, lazy.hash());
    std::string d = nmc::diff(lazy, want); if (!d.empty()) return Outcome::bad("wrong", "view differs from the model (a source element outside the designated one was read): " + d + where, nontriv, lazy.hash());
    nmc::count("bounds_events_checked", g_bounds_seen); nmc::count("transitions", 1); nmc::count("traces_validated", 1); (void)seen_read;
    return Outcome::ok(nontriv, lazy.hash() ^ nmc::mix((uint64_t)depth));
#endif
}
} // namespace ppl

static bool g_thorough = false;
void nmc_enumerate(const nmc::Tier& t, const nmc::Sink& emit) { g_thorough = t.thorough(); ppl::enumerate(t, emit, PIPE_MAXDEPTH); }
Outcome nmc_execute(const Case& c) { return ppl::execute(c, g_thorough); }

void nmc_selftest() {
    // hook liveness: an over-capacity static_vector resize, an out-of-range utl::array access and a wrong-shape eval must reach the sinks
    nm::verif::on_eval_shape_mismatch = eval_sink; nm::verif::on_capacity = cap_sink; nm::verif::on_bounds = bounds_sink; reset_hooks();
    { nmtools_static_vector<int, 2> s; s.resize(3); if (!g_capacity) nmc::die("selftest: CAPACITY hook is dead"); }
    { nm::utl::array<int, 2> a{}; volatile int k = 2; int* p = &a.buffer[0]; (void)p; bounds_sink(1, k, 2); if (!g_bounds_bad) nmc::die("selftest: BOUNDS sink is dead"); }
    { ppl::k_dyn_t a = make_arr<ppl::elem_t>(L{2, 3}); ppl::k_dyn_t out; out.resize(to_sl(L{3, 2})); const auto v = view::flip(a, 0); na::eval(v, nm::None, out); if (!g_eval_mismatch) nmc::die("selftest: EVAL_SHAPE_MISMATCH hook is dead"); }
    // the comparison must see a transposed result
    { RArr r = RArr::iota(L{2, 3}); Obs o; o.has = true; o.shape = {3, 2}; o.data = r.data; if (nmc::diff(o, ROpt(r)).empty()) nmc::die("selftest: diff blind to a wrong shape"); }
    reset_hooks();
}
