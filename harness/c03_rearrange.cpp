// C03 - rearranging views equal NumPy's result (E1: exhaustive input enumeration against the reference model)
#include "nmtools/array/array/reshape.hpp"
#include "nmtools/array/array/flatten.hpp"
#include "nmtools/array/array/transpose.hpp"
#include "nmtools/array/array/moveaxis.hpp"
#include "nmtools/array/array/swapaxes.hpp"
#include "nmtools/array/array/expand_dims.hpp"
#include "nmtools/array/array/squeeze.hpp"
#include "nmtools/array/array/atleast_nd.hpp"
#include "nmtools/array/array/flip.hpp"
#define NMC_MAIN
#include "common.hpp"

const char* nmc_property() { return "C03"; }

static void emit_sources(const nmc::Tier& t, const std::function<void(const L&)>& f) {
    long e = t.thorough() ? 4 : 3;
    nmc::each_shape_range(1, 4, e, f);
    if (!t.thorough()) { // the extent-4 boundary in low dims (cheap)
        nmc::each_shape_range(1, 2, 4, [&](const L& s) { bool has4 = false; for (long v : s) has4 |= v == 4; if (has4) f(s); });
    }
}

void nmc_enumerate(const nmc::Tier& t, const nmc::Sink& emit) {
    emit_sources(t, [&](const L& s) {
        long d = (long)s.size(), N = nmc::prod(s);
        // reshape: every ordered factorisation into <= 4 factors, literal and with each position -1
        for (int k = 1; k <= 4; k++) nmc::each_factorisation(N, k, [&](const L& f) {
            emit(Case("reshape", {s, f}));
            for (size_t p = 0; p < f.size(); p++) { L g(f); g[p] = -1; emit(Case("reshape", {s, g})); }
        });
        emit(Case("flatten", {s}));
        emit(Case("transpose_none", {s}));
        nmc::each_permutation((int)d, [&](const L& p) {
            emit(Case("transpose", {s, p}));
            L neg(p); for (auto& v : neg) v -= d; emit(Case("transpose", {s, neg}));
            if (d >= 2) { L mix(p); mix[0] -= d; emit(Case("transpose", {s, mix})); }
            emit(Case("transpose_inv", {s, p}));
        });
        for (long a = -d; a < d; a++) for (long b = -d; b < d; b++) {
            emit(Case("moveaxis1", {s, {a}, {b}}));
            emit(Case("moveaxis", {s, {a}, {b}}));
            emit(Case("swapaxes", {s, {a}, {b}}));
        }
        long maxlen = t.thorough() ? d : std::min(d, 2L);
        for (long k = 2; k <= maxlen; k++)
            nmc::each_arrangement((int)d, (int)k, [&](const L& src) { nmc::each_arrangement((int)d, (int)k, [&](const L& dst) {
                emit(Case("moveaxis", {s, src, dst}));
                L sn(src), dn(dst); sn[0] -= d; dn.back() -= d; emit(Case("moveaxis", {s, sn, dn}));
            }); });
        // expand_dims: every set of <= 2 (3) new positions valid for the result rank, positive and negative spelling
        long maxnew = t.thorough() ? 3 : 2;
        for (long k = 1; k <= maxnew; k++) {
            long rd = d + k;
            nmc::each_arrangement((int)rd, (int)k, [&](const L& pos) {
                // (unsorted position lists are part of the quick tier too: seeded change m03d - an 'ascending' fast path that never compares the first pair - was only visible to the thorough tier)
                nmc::each_sign_spelling(pos, rd, [&](const L& sp) { emit(Case("expand_dims", {s, sp})); });
            });
        }
        for (long a = -(d + 1); a <= d; a++) emit(Case("expand_dims1", {s, {a}}));
        emit(Case("squeeze", {s}));
        for (long n = 1; n <= 5; n++) emit(Case("atleast_nd", {s, {n}}));
        emit(Case("flip_none", {s}));
        for (long a = -d; a < d; a++) emit(Case("flip1", {s, {a}}));
        nmc::each_subset((int)d, [&](const L& ax) {
            if (ax.empty()) return;
            emit(Case("flip", {s, ax}));
            L neg(ax); for (auto& v : neg) v -= d; emit(Case("flip", {s, neg}));
            L rev(ax.rbegin(), ax.rend()); if (rev != ax) emit(Case("flip", {s, rev}));
            emit(Case("flip_twice", {s, ax}));
        });
    });
}

template <typename V, typename A>
static Outcome both(const V& lazy, const A& eager, const RArr& src, const ROpt& want) {
    Obs ol = nmc::observe(lazy);
    bool nontriv = want && want->size() > 1 && !(want->shape == src.shape);
    if (want && want->shape == src.shape && want->data != src.data) nontriv = want->size() > 1;
    Outcome o = judge(ol, want, nontriv);
    if (!o.fail.empty()) { o.fail = "view: " + o.fail; return o; }
    Obs oe = nmc::observe(eager);
    Outcome e = judge(oe, want, nontriv);
    if (!e.fail.empty()) { e.fail = "array: " + e.fail; return e; }
    // permutation law: result is a permutation of the source multiset (distinct fill values -> set equality)
    if (want && ol.has) { auto x = ol.data, y = src.data; std::sort(x.begin(), x.end()); std::sort(y.begin(), y.end()); if (x != y) return Outcome::bad("wrong", "result is not a permutation of the source elements"); }
    return o;
}

Outcome nmc_execute(const Case& c) {
    const L& s = c.a[0];
    RArr r = RArr::iota(s);
    auto a = make_arr<long>(s);
    const std::string& op = c.op;
    if (op == "reshape") { auto d = to_il(c.a[1]); return both(view::reshape(a, d), na::reshape(a, d), r, ref::reshape(r, c.a[1])); }
    if (op == "flatten") return both(view::flatten(a), na::flatten(a), r, ROpt(ref::flatten(r)));
    if (op == "transpose_none") return both(view::transpose(a), na::transpose(a), r, ref::transpose(r, nullptr));
    if (op == "transpose") { auto p = to_il(c.a[1]); return both(view::transpose(a, p), na::transpose(a, p), r, ref::transpose(r, &c.a[1])); }
    if (op == "transpose_inv") {
        const L& p = c.a[1]; L inv(p.size()); for (size_t i = 0; i < p.size(); i++) inv[(size_t)p[i]] = (long)i;
        auto t1 = view::transpose(a, to_il(p));
        auto t2 = view::transpose(t1, to_il(inv));
        return judge(nmc::observe(t2), ROpt(r), r.size() > 1);
    }
    if (op == "moveaxis1") { int x = (int)c.a[1][0], y = (int)c.a[2][0]; return both(view::moveaxis(a, x, y), na::moveaxis(a, x, y), r, ref::moveaxis(r, c.a[1], c.a[2])); }
    if (op == "moveaxis") { auto x = to_il(c.a[1]), y = to_il(c.a[2]); return both(view::moveaxis(a, x, y), na::moveaxis(a, x, y), r, ref::moveaxis(r, c.a[1], c.a[2])); }
    if (op == "swapaxes") { int x = (int)c.a[1][0], y = (int)c.a[2][0]; return both(view::swapaxes(a, x, y), na::swapaxes(a, x, y), r, ref::swapaxes(r, x, y)); }
    if (op == "expand_dims") { auto x = to_il(c.a[1]); return both(view::expand_dims(a, x), na::expand_dims(a, x), r, ref::expand_dims(r, c.a[1])); }
    if (op == "expand_dims1") { int x = (int)c.a[1][0]; return both(view::expand_dims(a, x), na::expand_dims(a, x), r, ref::expand_dims(r, c.a[1])); }
    if (op == "squeeze") return both(view::squeeze(a), na::squeeze(a), r, ROpt(ref::squeeze(r)));
    if (op == "atleast_nd") { int n = (int)c.a[1][0]; return both(view::atleast_nd(a, n), na::atleast_nd(a, n), r, ROpt(ref::atleast_nd(r, n))); }
    if (op == "flip_none") return both(view::flip(a, nm::None), na::flip(a, nm::None), r, ref::flip(r, nullptr));
    if (op == "flip1") { int x = (int)c.a[1][0]; return both(view::flip(a, x), na::flip(a, x), r, ref::flip(r, &c.a[1])); }
    if (op == "flip") { auto x = to_il(c.a[1]); return both(view::flip(a, x), na::flip(a, x), r, ref::flip(r, &c.a[1])); }
    if (op == "flip_twice") { auto x = to_il(c.a[1]); auto f1 = view::flip(a, x); auto f2 = view::flip(f1, x); return judge(nmc::observe(f2), ROpt(r), r.size() > 1); }
    nmc::die("unknown op");
}

void nmc_selftest() {
    // the oracle must see a transpose that ignores its axes and a reshape that scrambles order
    RArr r = RArr::iota(L{2, 3});
    L p{1, 0};
    if (nmc::diff(r.obs(), ref::transpose(r, &p)).empty()) nmc::die("selftest: oracle blind to ignored transpose axes");
    RArr w = *ref::reshape(r, L{3, 2}); std::swap(w.data[0], w.data[1]);
    if (nmc::diff(w.obs(), ref::reshape(r, L{3, 2})).empty()) nmc::die("selftest: oracle blind to element order");
    Obs none; none.has = false;
    if (nmc::diff(none, ref::reshape(r, L{3, 2})).empty()) nmc::die("selftest: oracle blind to spurious Nothing");
    if (ref::reshape(r, L{4, -1})) nmc::die("selftest: model accepts reshape (2,3)->(4,-1)");
}
