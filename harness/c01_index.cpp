// C01 - multi-index <-> flat offset addressing is an order-preserving bijection (E1 + container kinds)
#include "nmtools/array/index/compute_strides.hpp"
#include "nmtools/array/index/compute_offset.hpp"
#include "nmtools/array/index/compute_indices.hpp"
#include "nmtools/array/index/ndindex.hpp"
#include "nmtools/array/index/product.hpp"
#include "nmtools/utl.hpp"
#define NMC_MAIN
#include "common.hpp"

const char* nmc_property() { return "C01"; }

// container kinds: 0 list<size_t>  1 list<int>  2 fixed array<size_t,D>  3 static_vector<size_t,6>
//                  4 run-time tuple<size_t...>  5 list<long long>  6 utl::vector<size_t>  7 fixed array<int,D>
//                  8 compile-time constant tuple (only for the registered constant shapes)
static const int NKIND = 8;
static const char* KNAME[] = {"list<size_t>", "list<int>", "array<size_t,D>", "static_vector<size_t,6>", "tuple<size_t...>", "list<int64>", "utl::vector<size_t>", "array<int,D>", "tuple<ct<>...>"};

void nmc_enumerate(const nmc::Tier& t, const nmc::Sink& emit) {
    auto shapes = [&](const std::function<void(const L&)>& f) {
        if (!t.thorough()) { nmc::each_shape_range(1, 4, 6, f); nmc::each_shape(5, 4, f); nmc::each_shape(6, 3, f); }
        else { nmc::each_shape_range(1, 3, 12, f); nmc::each_shape(4, 8, f); nmc::each_shape(5, 5, f); nmc::each_shape(6, 4, f); }
    };
    shapes([&](const L& s) { for (int k = 0; k < NKIND; k++) emit(Case("idx", {{k}, s})); });
    nmc::each_shape_range(1, 3, 3, [&](const L& s) { emit(Case("idx", {{8}, s})); });   // compile-time constant shapes (39 types)
    // both buffer layouts: fill through a(i...), read back, offsets vs reference formula, injectivity
    nmc::each_shape_range(1, 4, t.thorough() ? 5 : 4, [&](const L& s) { emit(Case("layout", {s})); });
    // overflow / rounding boundary grid (index math only, no storage)
    L ext{1, 2, 3, 1L << 15, (1L << 16) - 1, 1L << 16, (1L << 16) + 1, (1L << 31) - 1, 1L << 31, (1L << 32) + 1};
    for (int d = 1; d <= 3; d++) {
        L pick((size_t)d, 0);
        nmc::each_tuple((size_t)d, 0, (long)ext.size() - 1, [&](const L& p) {
            L s; __int128 tot = 1; for (long i : p) { s.push_back(ext[(size_t)i]); tot *= ext[(size_t)i]; }
            if (tot >= ((__int128)1 << 62)) return;
            if (tot < (1L << 20)) return;    // small ones are covered exhaustively above
            emit(Case("big", {{0}, s}));
            emit(Case("big", {{5}, s}));
            if (tot < (1L << 31)) { emit(Case("big", {{1}, s})); emit(Case("big", {{2}, s})); emit(Case("big", {{3}, s})); }
        });
    }
}

template <typename C> static C fill_container(const L& s) {
    C c{};
    if constexpr (meta::is_resizable_v<C>) c.resize(s.size());
    for (size_t i = 0; i < s.size(); i++) nm::at(c, i) = (meta::remove_cvref_t<decltype(nm::at(c, 0))>)s[i];
    return c;
}
template <typename T, size_t... I> static auto make_tuple_impl(const L& s, std::index_sequence<I...>) { return nmtools_tuple<decltype((void)I, T{})...>{(T)s[I]...}; }

static L ref_strides(const L& s) { return nmc::row_major_strides(s); }

// the checks for one shape held in container `shp`; offsets to visit given by `offs` (empty = all)
template <typename S> static std::string check_shape(const S& shp, const L& s, const L& offs) {
    long N = 1; for (long v : s) N *= v;
    L st = ref_strides(s);
    const auto strides = ix::compute_strides(shp);
    L got_st = nmc::to_L(strides);
    if (got_st != st) return "strides " + nmc::str(got_st) + " expected " + nmc::str(st);
    long P = (long)ix::product(shp);
    if (P != N) return "product " + std::to_string(P) + " expected " + std::to_string(N);
    auto one = [&](long k, const L& want) -> std::string {
        const auto ind = ix::compute_indices((size_t)k, shp);
        L gi = nmc::to_L(ind);
        if (gi != want) return "compute_indices(" + std::to_string(k) + ") = " + nmc::str(gi) + " expected " + nmc::str(want);
        for (size_t a = 0; a < s.size(); a++) if (gi[a] < 0 || gi[a] >= s[a]) return "index outside shape";
        const auto off = ix::compute_offset(ind, strides);
        if ((long)off != k) return "compute_offset(compute_indices(" + std::to_string(k) + ")) = " + std::to_string((long)off);
        // the other way round, from an independently built multi-index
        auto mi = [&]() { if constexpr (meta::is_tuple_v<S> || meta::is_fixed_index_array_v<S>) return fill_container<nmtools_list<size_t>>(want); else return fill_container<nmtools_list<size_t>>(want); }();
        const auto off2 = ix::compute_offset(mi, strides);
        if ((long)off2 != k) return "compute_offset(" + nmc::str(want) + ") = " + std::to_string((long)off2) + " expected " + std::to_string(k);
        return "";
    };
    if (offs.empty()) {
        const auto nd = ix::ndindex(shp);
        if ((long)nd.size() != N) return "len(ndindex) = " + std::to_string((long)nd.size()) + " expected " + std::to_string(N);
        long k = 0; std::string err;
        nmc::each_index(s, [&](const L& want) {
            if (!err.empty()) return;
            err = one(k, want);
            if (err.empty()) { L g = nmc::to_L(nd[(size_t)k]); if (g != want) err = "ndindex[" + std::to_string(k) + "] = " + nmc::str(g) + " expected " + nmc::str(want); }
            k++;
        });
        if (k != N && err.empty()) err = "enumeration count";
        return err;
    }
    for (long k : offs) { if (k < 0 || k >= N) continue; std::string e = one(k, nmc::unflat(k, s)); if (!e.empty()) return e; }
    return "";
}

template <typename T, size_t D> static std::string with_array(const L& s, const L& offs) { return check_shape(fill_container<nmtools_array<T, D>>(s), s, offs); }
template <size_t D> static std::string with_tuple(const L& s, const L& offs) { return check_shape(make_tuple_impl<size_t>(s, std::make_index_sequence<D>{}), s, offs); }

template <long... E> static std::string const_shape(const L& offs) { const auto shp = nmtools_tuple{meta::ct_v<(size_t)E>...}; return check_shape(shp, L{E...}, offs); }
template <long... E> static std::string const_dispatch(const L& s, size_t pos) {
    if constexpr (sizeof...(E) > 0) { if (pos == s.size()) return const_shape<E...>(L{}); }
    if constexpr (sizeof...(E) < 3) {
        switch (s[pos]) { case 1: return const_dispatch<E..., 1>(s, pos + 1); case 2: return const_dispatch<E..., 2>(s, pos + 1); case 3: return const_dispatch<E..., 3>(s, pos + 1); }
    }
    nmc::die("constant shape outside S(1..3,3)");
}

static std::string dispatch(int kind, const L& s, const L& offs) {
    size_t d = s.size();
    switch (kind) {
    case 0: return check_shape(fill_container<nmtools_list<size_t>>(s), s, offs);
    case 1: return check_shape(fill_container<nmtools_list<int>>(s), s, offs);
    case 2: switch (d) { case 1: return with_array<size_t, 1>(s, offs); case 2: return with_array<size_t, 2>(s, offs); case 3: return with_array<size_t, 3>(s, offs); case 4: return with_array<size_t, 4>(s, offs); case 5: return with_array<size_t, 5>(s, offs); case 6: return with_array<size_t, 6>(s, offs); } break;
    case 3: return check_shape(fill_container<nmtools_static_vector<size_t, 6>>(s), s, offs);
    case 4: switch (d) { case 1: return with_tuple<1>(s, offs); case 2: return with_tuple<2>(s, offs); case 3: return with_tuple<3>(s, offs); case 4: return with_tuple<4>(s, offs); case 5: return with_tuple<5>(s, offs); case 6: return with_tuple<6>(s, offs); } break;
    case 5: return check_shape(fill_container<nmtools_list<long long>>(s), s, offs);
    case 6: return check_shape(fill_container<nm::utl::vector<size_t>>(s), s, offs);
    case 8: return const_dispatch<>(s, 0);
    case 7: switch (d) { case 1: return with_array<int, 1>(s, offs); case 2: return with_array<int, 2>(s, offs); case 3: return with_array<int, 3>(s, offs); case 4: return with_array<int, 4>(s, offs); case 5: return with_array<int, 5>(s, offs); case 6: return with_array<int, 6>(s, offs); } break;
    }
    nmc::die("bad kind/dim");
}

// size / buffer accessors: ndarray_t has size() and data(); the legacy dynamic_ndarray exposes the member `data` (a std::vector) and no size()
template <typename A> static long arr_size(const A& a) { if constexpr (meta::is_same_v<A, na::dynamic_ndarray<long>>) return (long)a.data.size(); else return (long)a.size(); }
template <typename A> static auto* arr_data(A& a) { if constexpr (meta::is_same_v<meta::remove_cvref_t<A>, na::dynamic_ndarray<long>>) return a.data.data(); else return a.data(); }
template <typename A> static std::string layout_check(const L& s, bool colmajor) {
    // the object is first given ANOTHER shape of the same rank (the reversed one): strides / offset functors cached by an earlier resize must not survive (seeded change m01c)
    // ... and then a shape that differs from s in the LEADING extent only (row-major strides do not depend on it, column-major ones do: seeded changes m20 / m01d)
    A a; { L rev(s.rbegin(), s.rend()); a.resize(to_sl(rev)); } { L lead(s); lead[0] += 1; a.resize(to_sl(lead)); } a.resize(to_sl(s));
    long N = nmc::prod(s); size_t d = s.size();
    if (arr_size(a) != N) return "size() != product(shape)";
    // reference strides for the layout
    L st(d, 1);
    if (!colmajor) st = nmc::row_major_strides(s); else for (size_t i = 1; i < d; i++) st[i] = st[i - 1] * s[i - 1];
    std::set<long> seen; std::string err; long k = 0;
    // addresses first (nothing is written or read yet): a wrong offset must be reported, not allowed to corrupt the heap of the runner
    nmc::each_index(s, [&](const L& i) {
        if (!err.empty()) return;
        auto ii = to_sl(i);
        long off = &nm::apply_at(a, ii) - arr_data(a);
        long want = 0; for (size_t x = 0; x < d; x++) want += i[x] * st[x];
        if (off != want) err = std::string(colmajor ? "column" : "row") + "-major offset of " + nmc::str(i) + " = " + std::to_string(off) + " expected " + std::to_string(want);
    });
    if (!err.empty()) return err;
    nmc::each_index(s, [&](const L& i) { if (!err.empty()) return; auto ii = to_sl(i); nm::apply_at(a, ii) = 1000 + k; k++; });
    k = 0;
    nmc::each_index(s, [&](const L& i) {
        if (!err.empty()) return;
        auto ii = to_sl(i);
        long v = nm::apply_at(a, ii);
        if (v != 1000 + k) err = "read-back at " + nmc::str(i) + " = " + std::to_string(v);
        long off = &nm::apply_at(a, ii) - arr_data(a);
        long want = 0; for (size_t x = 0; x < d; x++) want += i[x] * st[x];
        if (off != want) err = std::string(colmajor ? "column" : "row") + "-major offset of " + nmc::str(i) + " = " + std::to_string(off) + " expected " + std::to_string(want);
        if (off < 0 || off >= N) err = "offset outside buffer";
        seen.insert(off); k++;
    });
    if (err.empty() && (long)seen.size() != N) err = "offsets not injective";
    if (!err.empty()) return err;
    // the same addressing through a copy-constructed and a copy-assigned object (the layout travels with the object)
    auto recheck = [&](const A& b, const char* how) {
        long kk = 0;
        nmc::each_index(s, [&](const L& i) {
            if (!err.empty()) return;
            auto ii = to_sl(i);
            long off = &nm::apply_at(b, ii) - arr_data(b);
            long want = 0; for (size_t x = 0; x < d; x++) want += i[x] * st[x];
            if (off != want) err = std::string(how) + ": " + (colmajor ? "column" : "row") + "-major offset of " + nmc::str(i) + " = " + std::to_string(off) + " expected " + std::to_string(want);
            else if (nm::apply_at(b, ii) != 1000 + kk) err = std::string(how) + ": read-back at " + nmc::str(i) + " = " + std::to_string((long)nm::apply_at(b, ii));
            kk++;
        });
    };
    { A b(a); recheck(b, "copy-constructed"); }
    if (err.empty()) { A c2; c2 = a; recheck(c2, "copy-assigned"); }
    return err;
}

Outcome nmc_execute(const Case& c) {
    if (c.op == "idx") {
        std::string e = dispatch((int)c.a[0][0], c.a[1], L{});
        long N = nmc::prod(c.a[1]);
        uint64_t h = nmc::hash_vec(c.a[1]) ^ nmc::mix((uint64_t)c.a[0][0]);
        nmc::count("index_roundtrips", N);
        if (!e.empty()) return Outcome::bad("wrong", std::string(KNAME[c.a[0][0]]) + ": " + e, N > 1, h);
        return Outcome::ok(N > 1 && c.a[1].size() > 1, h);
    }
    if (c.op == "layout") {
        using row_t = na::ndarray_t<nmtools_list<long>, nmtools_list<size_t>>;
        using col_t = na::column_major_ndarray_t<nmtools_list<long>, nmtools_list<size_t>>;
        std::string e = layout_check<row_t>(c.a[0], false);
        if (e.empty()) e = layout_check<col_t>(c.a[0], true);
        if (e.empty()) { std::string l = layout_check<na::dynamic_ndarray<long>>(c.a[0], false); if (!l.empty()) e = "legacy dynamic_ndarray: " + l; }
        if (e.empty()) {   // same logical element in both layouts
            row_t r; col_t q; r.resize(to_sl(c.a[0])); q.resize(to_sl(c.a[0])); long k = 0;
            nmc::each_index(c.a[0], [&](const L& i) { auto ii = to_sl(i); nm::apply_at(r, ii) = k; nm::apply_at(q, ii) = k; k++; });
            nmc::each_index(c.a[0], [&](const L& i) { auto ii = to_sl(i); if (nm::apply_at(r, ii) != nm::apply_at(q, ii)) e = "row/column-major arrays disagree at " + nmc::str(i); });
        }
        uint64_t h = nmc::hash_vec(c.a[0]) + 5;
        if (!e.empty()) return Outcome::bad("wrong", e, true, h);
        return Outcome::ok(c.a[0].size() > 1 && nmc::prod(c.a[0]) > 1, h);
    }
    if (c.op == "big") {
        const L& s = c.a[1]; L st = nmc::row_major_strides(s); long N = 1; for (long v : s) N *= v;
        L offs{0, 1, N - 1, N - 2, N / 2};
        for (long x : st) { offs.push_back(x - 1); offs.push_back(x); offs.push_back(x + 1); }
        std::string e = dispatch((int)c.a[0][0], s, offs);
        uint64_t h = nmc::hash_vec(s) ^ nmc::mix((uint64_t)c.a[0][0] + 99);
        nmc::count("boundary_offsets", (long)offs.size());
        if (!e.empty()) return Outcome::bad("wrong", std::string(KNAME[c.a[0][0]]) + ": " + e, true, h);
        return Outcome::ok(true, h);
    }
    nmc::die("unknown op");
}

void nmc_selftest() {
    // an oracle that accepts column-major strides for a row-major request is blind
    L s{2, 3}; if (ref_strides(s) != L{3, 1}) nmc::die("selftest strides");
    if (nmc::unflat(4, s) != L{1, 1} || nmc::flat_of(L{1, 1}, s) != 4) nmc::die("selftest unflat");
}
