// C13 - the per-thread device kernel body reproduces host evaluation for any launch geometry (E4: schedule explorer)
//
// System explored: T = grid*block "threads"; thread (b,t) is ONE call of the real kernel body shared by the
// CUDA / HIP / SYCL / OpenCL back ends (include/nmtools/array/eval/kernel_helper.hpp):
//     output   = create_mutable_array(out_ptr, out_shape_ptr, out_dim)
//     operands = create_array(data_ptr_i, shape_ptr_i, dim_i) ...      (rebuilt from raw triples)
//     result   = functional::apply(extracted function composition, operands)
//     assign_result(output, result, thread_id, block_id, block_size)
// Shared state: the raw output buffer (guard pages on both sides, poisoned); inputs are copied to "device"
// pages that are PROT_READ while threads run.
// For every (program, operand shapes, block, grid):
//   1. footprint of every thread (run alone on two different poison backgrounds): it writes exactly cell
//      idx = b*block+t if idx < n and nothing otherwise, the value does not depend on the background and equals
//      host evaluation, inputs untouched (page protection), slack and guard untouched;
//   2. if T <= bound: ALL T! execution orders (each on a fresh poisoned buffer), and all orders with one thread
//      executed twice (smaller bound): final buffer == host evaluation;
//   3. otherwise (1) makes any two thread steps independent (disjoint write sets, no read of the output), so
//      all T! orders form one Mazurkiewicz trace: ascending, descending, even/odd interleaved and block-reversed
//      representatives are executed, and the union of the measured write sets must be exactly [0,n).
// Non-trivial case: output has > 1 element and the launch has more than one thread.
#include "nmtools/array/eval/kernel_helper.hpp"
#include "nmtools/array/functional.hpp"
#include "nmtools/array/array/ufuncs/add.hpp"
#include "nmtools/array/array/ufuncs/multiply.hpp"
#include "nmtools/array/array/ufuncs/negative.hpp"
#include "nmtools/array/array/ufuncs/square.hpp"
#include "nmtools/array/array/ufuncs/subtract.hpp"
#include "nmtools/array/array/activations/leaky_relu.hpp"
#include "nmtools/array/array/activations/hardtanh.hpp"
#include "nmtools/array/array/expand_dims.hpp"
#include "nmtools/array/array/sum.hpp"
#include "nmtools/array/array/transpose.hpp"
#include "nmtools/array/array/reshape.hpp"
#include "nmtools/array/array/flatten.hpp"
#include "nmtools/array/array/broadcast_to.hpp"
#include "nmtools/array/eval.hpp"
#include <set>
#include <algorithm>
#ifdef C13_TSAN
#include <thread>
#endif
#define NMC_MAIN
#include "common.hpp"

const char* nmc_property() { return "C13"; }
namespace fn = nmtools::functional;
using farr_t = dyn_t<float>;

// ---- programs (device-supported view compositions of depth 1..3) ---------------------------------------------------
enum { P_ADD, P_SQUARE, P_SUM, P_TRANSPOSE, P_RESHAPE, P_FLATTEN, P_BROADCAST_TO, P_MULADD, P_SUM_MUL, P_T_ADD, P_NEG_T, P_RESHAPE_MULADD, P_SUM_T_MUL, P_MUL_SUMKEEP, P_SUB_A_SQB, P_LRELU_NEG, P_HTANH_SUB, P_EXPAND2, NPROG };
static const char* prog_name(int p) { static const char* n[] = {"add(a,b)", "square(a)", "sum(a,axis)", "transpose(a)", "reshape(a,(N,))", "flatten(a)", "broadcast_to(b,shape(a))", "add(multiply(a,b),b)", "sum(multiply(a,b),axis)", "transpose(add(a,b))", "negative(transpose(a))", "reshape(add(multiply(a,b),b),(N,))", "sum(transpose(multiply(a,b)),axis)", "multiply(sum(a,axis,keepdims),a)", "subtract(a,square(b))", "leaky_relu(negative(a),0.2)", "hardtanh(subtract(a,b),-0.5,0.75)", "expand_dims(negative(a),(0,2))"}; return n[p]; }
static bool uses_b(int p) { return p == P_ADD || p == P_BROADCAST_TO || p == P_MULADD || p == P_SUM_MUL || p == P_T_ADD || p == P_RESHAPE_MULADD || p == P_SUM_T_MUL || p == P_SUB_A_SQB || p == P_HTANH_SUB; }
static bool uses_axis(int p) { return p == P_SUM || p == P_SUM_MUL || p == P_SUM_T_MUL || p == P_MUL_SUMKEEP; }
static int depth_of(int p) { return p <= P_BROADCAST_TO ? 1 : (p <= P_NEG_T ? 2 : ((p == P_MUL_SUMKEEP || p == P_SUB_A_SQB || p == P_LRELU_NEG || p == P_HTANH_SUB || p == P_EXPAND2) ? 2 : 3)); }

template <int P> static auto build(const farr_t& a, const farr_t& b, int axis) {
    long N = 1; for (size_t i = 0; i < (size_t)a.dim(); i++) N *= (long)nm::at(a.shape(), i);
    il flat; flat.push_back((int)N);
    if constexpr (P == P_ADD) return view::add(a, b);
    else if constexpr (P == P_SQUARE) return view::square(a);
    else if constexpr (P == P_SUM) return view::sum(a, axis);
    else if constexpr (P == P_TRANSPOSE) return view::transpose(a);
    else if constexpr (P == P_RESHAPE) return view::reshape(a, flat);
    else if constexpr (P == P_FLATTEN) return view::flatten(a);
    else if constexpr (P == P_BROADCAST_TO) { sl s; for (size_t i = 0; i < (size_t)a.dim(); i++) s.push_back((size_t)nm::at(a.shape(), i)); return view::broadcast_to(b, s); }
    else if constexpr (P == P_MULADD) return view::add(view::multiply(a, b), b);
    else if constexpr (P == P_SUM_MUL) return view::sum(view::multiply(a, b), axis);
    else if constexpr (P == P_T_ADD) return view::transpose(view::add(a, b));
    else if constexpr (P == P_NEG_T) return view::negative(view::transpose(a));
    else if constexpr (P == P_RESHAPE_MULADD) return view::reshape(view::add(view::multiply(a, b), b), flat);
    else if constexpr (P == P_SUM_T_MUL) return view::sum(view::transpose(view::multiply(a, b)), axis);
    else if constexpr (P == P_SUB_A_SQB) return view::subtract(a, view::square(b));   // a view as the SECOND operand of a non-commutative ufunc
    // activations whose functor carries STATE, built with non-default parameters on data where the parameter matters (seeded change m13b:
    // the extracted function forgot the parameters)
    else if constexpr (P == P_LRELU_NEG) return view::leaky_relu(view::negative(a), 0.2f);
    else if constexpr (P == P_HTANH_SUB) return view::hardtanh(view::subtract(a, b), -0.5f, 0.75f);
    // an OUTPUT of higher rank than any operand (rank d+2: 5 for the 3-d shapes of the quick tier, 6 for the 4-d ones of the thorough tier): the kernel rebuilds the
    // output's shape in a bounded per-thread vector (seeded change m13c lowered its capacity to 4)
    else if constexpr (P == P_EXPAND2) { il ax; ax.push_back(0); ax.push_back(2); return view::expand_dims(view::negative(a), ax); }
    else return view::multiply(view::sum(a, axis, nm::None, nm::None, nm::True), a);
}

// ---- "device memory": pages with guards ---------------------------------------------------------------------------------
struct Region {
    char* base = nullptr; size_t pages = 0; static constexpr size_t PG = 4096;
    void init(size_t data_pages) { pages = data_pages; base = (char*)mmap(nullptr, (pages + 2) * PG, PROT_NONE, MAP_PRIVATE | MAP_ANONYMOUS, -1, 0); if (base == MAP_FAILED) nmc::die("mmap region"); mprotect(base + PG, pages * PG, PROT_READ | PROT_WRITE); }
    char* lo() { return base + PG; } char* hi() { return base + PG + pages * PG; }
    void ro() { mprotect(base + PG, pages * PG, PROT_READ); } void rw() { mprotect(base + PG, pages * PG, PROT_READ | PROT_WRITE); }
};
static Region g_in, g_out;
static const uint32_t POISON1 = 0x7fc0dea1u, POISON2 = 0x7fc1beefu;
static inline uint32_t bits(float f) { uint32_t u; memcpy(&u, &f, 4); return u; }
static void fill(float* p, size_t n, uint32_t pat) { for (size_t i = 0; i < n; i++) memcpy(p + i, &pat, 4); }

template <class X> static const auto& deref(const X& x) { if constexpr (std::is_pointer_v<X>) return *x; else return x; }

struct Launch { size_t block, grid; };
static std::set<uint64_t>* g_states = nullptr;

template <class View> static Outcome run_view(const View& v, const Case& c, size_t block, size_t grid, bool thorough) {
    // host evaluation (the oracle)
    const auto host = na::eval(v);
    Obs hobs = nmc::observe(host);
    const auto vs = nm::shape(v); L oshape_l = nmc::to_L(vs);
    size_t odim = oshape_l.size(), n = (size_t)nmc::prod(oshape_l);
    if (hobs.shape != oshape_l || hobs.data.size() != n) return Outcome::bad("wrong", "host evaluation disagrees with the view's own shape");
    std::vector<float> want(n); for (size_t i = 0; i < n; i++) want[i] = (float)hobs.data[i];
    // function + leaf operands, copied to read-only "device" pages as (pointer, shape pointer, dim) triples
    auto f = fn::get_function_composition(v);
    const auto& ops = fn::get_function_operands(v);
    constexpr auto NOPS = meta::len_v<meta::remove_cvref_t<decltype(ops)>>;
    g_in.rw();
    char* cur = g_in.lo(); const float* ptrs[NOPS > 0 ? NOPS : 1]; const size_t* shps[NOPS > 0 ? NOPS : 1]; size_t dims[NOPS > 0 ? NOPS : 1];
    meta::template_for<NOPS>([&](auto I) {
        const auto& x = deref(nm::get<I>(ops)); size_t d = (size_t)x.dim(); size_t m = 1;
        size_t* sp = (size_t*)cur; for (size_t i = 0; i < d; i++) { sp[i] = (size_t)nm::at(x.shape(), i); m *= sp[i]; } cur += 8 * ((d + 1) & ~size_t(1));
        float* dp = (float*)cur; for (size_t i = 0; i < m; i++) dp[i] = x.data()[i]; cur += 4 * ((m + 3) & ~size_t(3));
        ptrs[I] = dp; shps[I] = sp; dims[I] = d;
    });
    size_t* oshape = (size_t*)cur; for (size_t i = 0; i < odim; i++) oshape[i] = (size_t)oshape_l[i]; cur += 8 * (odim + 1);
    uint64_t in_hash = nmc::fnv(g_in.lo(), (size_t)(cur - g_in.lo()));
    g_in.ro();
    size_t T = block * grid;
    // output placement: flush against the upper guard (run A) or the lower guard (run B); the rest of the page is slack that must stay poisoned
    size_t slack_n = 64;
    auto body = [&](float* out, size_t tid, size_t bid) {
        auto output = na::create_mutable_array(out, oshape, odim);
        auto operands = meta::template_reduce<NOPS>([&](auto init, auto I) { return nm::utility::tuple_append(init, na::create_array(ptrs[I], shps[I], dims[I])); }, nmtools_tuple<>{});
        auto result = fn::apply(f, operands);
        na::assign_result(output, result, na::kernel_size<size_t>{tid, 0, 0}, na::kernel_size<size_t>{bid, 0, 0}, na::kernel_size<size_t>{block, 1, 1});
    };
    float* outA = (float*)g_out.hi() - n; float* slackA = outA - slack_n;   // flush to the upper guard
    float* outB = (float*)g_out.lo(); float* slackB = outB + n;             // flush to the lower guard
    std::string err;
    auto check_slack = [&](float* sl, uint32_t pat, const char* where) { for (size_t i = 0; i < slack_n; i++) if (bits(sl[i]) != pat) { err = std::string("a thread wrote outside the output array (") + where + ", " + std::to_string(i) + " elements away)"; return false; } return true; };
    // 1. footprints
    std::vector<char> covered(n, 0); long writers = 0, idle = 0;
    for (size_t bid = 0; bid < grid && err.empty(); bid++) for (size_t tid = 0; tid < block && err.empty(); tid++) {
        size_t idx = bid * block + tid;
        fill(slackA, slack_n + n, POISON1); body(outA, tid, bid);
        fill(outB, n + slack_n, POISON2); body(outB, tid, bid);
        nmc::count("thread_steps", 2);
        if (!check_slack(slackA, POISON1, "below the array") || !check_slack(slackB, POISON2, "above the array")) break;
        size_t nw = 0;
        for (size_t k = 0; k < n; k++) {
            bool w1 = bits(outA[k]) != POISON1, w2 = bits(outB[k]) != POISON2;
            if (w1 != w2) { err = "thread (" + std::to_string(bid) + "," + std::to_string(tid) + ") writes cell " + std::to_string(k) + " depending on the previous contents of the output"; break; }
            if (!w1) continue;
            nw++;
            if (k != idx) { err = "thread (" + std::to_string(bid) + "," + std::to_string(tid) + ") with global id " + std::to_string(idx) + " wrote cell " + std::to_string(k); break; }
            if (bits(outA[k]) != bits(outB[k])) { err = "thread " + std::to_string(idx) + " wrote a value that depends on the previous contents of the output"; break; }
            if (bits(outA[k]) != bits(want[k])) { err = "thread " + std::to_string(idx) + " wrote " + std::to_string(outA[k]) + " to cell " + std::to_string(k) + ", host evaluation has " + std::to_string(want[k]); break; }
        }
        if (!err.empty()) break;
        if (idx < n) { if (nw != 1) { err = "thread with global id " + std::to_string(idx) + " < output size " + std::to_string(n) + " wrote " + std::to_string(nw) + " cells"; break; } covered[idx] = 1; writers++; }
        else { if (nw != 0) { err = "thread with global id " + std::to_string(idx) + " >= output size " + std::to_string(n) + " wrote " + std::to_string(nw) + " cell(s)"; break; } idle++; }
    }
    if (err.empty() && T >= n) for (size_t k = 0; k < n; k++) if (!covered[k]) { err = "no thread writes output cell " + std::to_string(k); break; }
    if (!err.empty()) return Outcome::bad("wrong", err);
    nmc::count("footprints_measured", (long)T); nmc::count("idle_threads", idle);
    // 2./3. schedules
    auto run_order = [&](const std::vector<int>& order, bool alt) -> bool {
        float* out = alt ? outB : outA; float* sl = alt ? slackB : slackA; uint32_t pat = alt ? POISON2 : POISON1;
        if (alt) fill(outB, n + slack_n, pat); else fill(slackA, slack_n + n, pat);
        for (int th : order) { body(out, (size_t)th % block, (size_t)th / block); if (g_states) g_states->insert(nmc::fnv(out, 4 * n)); }
        nmc::count("transitions", (long)order.size()); nmc::count("schedules", 1);
        if (!check_slack(sl, pat, alt ? "above the array" : "below the array")) return false;
        for (size_t k = 0; k < n; k++) if (bits(out[k]) != bits(want[k])) { std::string o; for (size_t q = 0; q < order.size() && q < 24; q++) o += (q ? "," : "") + std::to_string(order[q]);
            err = "after executing the threads in order [" + o + (order.size() > 24 ? ",..." : "") + "] output cell " + std::to_string(k) + " holds " + (bits(out[k]) == pat ? std::string("poison (never written)") : std::to_string(out[k])) + ", host evaluation has " + std::to_string(want[k]); return false; }
        return true;
    };
    size_t perm_bound = thorough ? 7 : 6, dup_bound = thorough ? 6 : 5;   // (all 8! orders of every 8-thread launch took > 2 CPU-hours: the thorough tier stops at 7 threads)
    std::vector<int> ids((size_t)T); for (size_t i = 0; i < T; i++) ids[i] = (int)i;
    bool alt = false;
    if (T <= perm_bound) {
        do { if (!run_order(ids, alt)) break; alt = !alt;
             if (T <= dup_bound) { for (size_t d = 0; d < T && err.empty(); d++) for (size_t pos = 0; pos <= T && err.empty(); pos++) { std::vector<int> o2(ids); o2.insert(o2.begin() + (long)pos, ids[d]); if (!run_order(o2, alt)) break; } }
        } while (err.empty() && std::next_permutation(ids.begin(), ids.end()));
        nmc::count("geometries_all_orders", 1);
    } else {
        std::vector<int> o(ids); if (run_order(o, false)) { std::reverse(o.begin(), o.end()); if (run_order(o, true)) {
            std::vector<int> eo; for (size_t i = 0; i < T; i += 2) eo.push_back((int)i); for (size_t i = 1; i < T; i += 2) eo.push_back((int)i);
            if (run_order(eo, false)) { std::vector<int> br; for (size_t b = grid; b-- > 0;) for (size_t t = 0; t < block; t++) br.push_back((int)(b * block + t)); run_order(br, true); } } }
        nmc::count("geometries_por_representatives", 1);
    }
    if (!err.empty()) return Outcome::bad("wrong", err);
#ifdef C13_TSAN
    {   // free-running pass on real threads (a serialising explorer cannot see a data race on a hidden global)
        fill(slackA, slack_n + n, POISON1); size_t nth = std::min<size_t>(T, 8); std::vector<std::thread> th;
        for (size_t w = 0; w < nth; w++) th.emplace_back([&, w]() { for (size_t g = w; g < T; g += nth) body(outA, g % block, g / block); });
        for (auto& t : th) t.join();
        for (size_t k = 0; k < n; k++) if (bits(outA[k]) != bits(want[k])) return Outcome::bad("wrong", "free-running threads: output cell " + std::to_string(k) + " differs from host evaluation");
        nmc::count("free_running_launches", 1);
    }
#endif
    // inputs untouched
    if (nmc::fnv(g_in.lo(), (size_t)(cur - g_in.lo())) != in_hash) return Outcome::bad("wrong", "the kernel modified its input buffers");
    uint64_t h = nmc::fnv(want.data(), 4 * n) ^ nmc::mix((uint64_t)block * 131 + grid);
    return Outcome::ok(n > 1 && T > 1, h);
}

template <int P> static Outcome run_prog(const Case& c, bool thorough) {
    const L& sa = c.a[1]; const L& sb = c.a[2]; int axis = (int)c.a[3][0]; size_t block = (size_t)c.a[4][0], grid = (size_t)c.a[4][1];
    farr_t a = make_arr<float>(sa, 1), b = make_arr<float>(sb, 2);
    for (auto& x : b.data_) x = (float)(0.5 * x);   // dyadic, distinct from a
    const auto mv = build<P>(a, b, axis);
    if constexpr (meta::is_maybe_v<meta::remove_cvref_t<decltype(mv)>>) { if (!nm::has_value(mv)) return Outcome::bad("rejects-valid", "view construction returned Nothing for valid operands"); return run_view(*mv, c, block, grid, thorough); }
    else return run_view(mv, c, block, grid, thorough);
}

static bool g_thorough = false;
void nmc_enumerate(const nmc::Tier& t, const nmc::Sink& emit) {
    g_thorough = t.thorough();
    std::vector<long> blocks; if (t.thorough()) for (long b = 1; b <= 33; b++) blocks.push_back(b); else blocks = {1, 2, 3, 4, 5, 7, 8, 16, 32, 33};
#ifdef C13_TSAN
    blocks = {3, 32};
#endif
#ifdef C13_THIN
    blocks = {1, 4, 33};   // sanitizer shadow build: fewer geometries, same programs / shapes / schedules
#endif
    int dmax = t.thorough() ? 4 : 3;
    nmc::each_shape_range(1, dmax, 3, [&](const L& s) {
        if (s.size() == 4 && nmc::prod(s) > 36) return;
        long d = (long)s.size();
        for (int p = 0; p < NPROG; p++) {
#ifdef C13_GROUP
            if (p % 3 != C13_GROUP) continue;
#endif
            std::vector<L> bs; if (uses_b(p)) { bs.push_back(s); bs.push_back(L{s.back()}); if (d >= 2) { L o(s); o[0] = 1; bs.push_back(o); } } else bs.push_back(L{1});
            std::vector<long> axes; if (uses_axis(p)) { for (long ax = 0; ax < d; ax++) axes.push_back(ax); if (!t.thorough() && axes.size() > 2) axes = {0, d - 1}; } else axes.push_back(0);
            for (auto& sb : bs) for (long ax : axes) {
                if (p == P_BROADCAST_TO && sb == s) continue;
                if (uses_axis(p) && d == 1 && p != P_MUL_SUMKEEP) { /* full reduction of a 1-d array gives a scalar: not an array-valued kernel */ continue; }
                // output size
                long n = nmc::prod(s); if (p == P_SUM || p == P_SUM_MUL) n /= s[(size_t)ax]; if (p == P_SUM_T_MUL) n /= s[(size_t)(d - 1 - ax)];
                for (long blk : blocks) { long g0 = (n + blk - 1) / blk; for (long g = g0; g <= 2 * g0; g++) { if (!t.thorough() && g > g0 + 2 && g != 2 * g0) continue; emit(Case("k", {{p}, s, sb, {ax}, {blk, g}})); } }
            }
        }
    });
}

Outcome nmc_execute(const Case& c) {
    static bool init = false; if (!init) { g_in.init(4); g_out.init(1); g_states = new std::set<uint64_t>(); init = true; }
    size_t before = g_states->size();
    Outcome o;
    switch (c.a[0][0]) {
#define PCASE(P) case P: o = run_prog<P>(c, g_thorough); break;
    PCASE(P_ADD) PCASE(P_SQUARE) PCASE(P_SUM) PCASE(P_TRANSPOSE) PCASE(P_RESHAPE) PCASE(P_FLATTEN) PCASE(P_BROADCAST_TO) PCASE(P_MULADD) PCASE(P_SUM_MUL) PCASE(P_T_ADD) PCASE(P_NEG_T) PCASE(P_RESHAPE_MULADD) PCASE(P_SUM_T_MUL) PCASE(P_MUL_SUMKEEP) PCASE(P_SUB_A_SQB) PCASE(P_LRELU_NEG) PCASE(P_HTANH_SUB) PCASE(P_EXPAND2)
    default: nmc::die("unknown program");
    }
    nmc::count("states", (long)(g_states->size() - before)); nmc::count("traces_validated", 1);
    if (!o.fail.empty()) o.fail += "  [program " + std::string(prog_name((int)c.a[0][0])) + ", depth " + std::to_string(depth_of((int)c.a[0][0])) + "]";
    return o;
}

void nmc_selftest() {
    // the footprint / schedule oracle must see a kernel body whose bound check is off by one (idx <= size)
    g_in.init(4); g_out.init(1);
    float* out = (float*)g_out.hi() - 4; fill(out - 64, 68, POISON1);
    // emulate: thread 4 of a 4-element output writes cell 4 (== first element beyond the array -> guard page would fault; here: slack below)
    out[-1] = 1.0f;
    bool seen = false; for (size_t i = 0; i < 64; i++) if (bits((out - 64)[i]) != POISON1) seen = true;
    if (!seen) nmc::die("selftest: slack check blind");
    if (bits(1.0f) == POISON1 || bits(0.0f) == POISON2) nmc::die("selftest: poison collides with data");
}
