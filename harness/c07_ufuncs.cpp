// C07 - element-wise functions apply the scalar operation to broadcast operands  (E1, bounded exhaustive)
//
// One source, several translation units selected by -DC07_GROUP=n (see the table at the end of this comment).
// The generic driver, the oracle and the shape alphabets are in c07_driver.hpp; the broadcasting reference in engine/nmc_ref_c07.hpp.
//
// Case keys:   <function>|<element type ids>|<operand kinds>|<shape a>[|<shape b>[|<shape c>]]
//              outer_<function>|<type ids>|<dtype id or -1>|<kinds>|<shape a>|<shape b>
//   type ids 0 int8 1 int16 2 int32 3 int64 4 uint8 5 uint32 6 float 7 double (8 bool);
//   kinds: one decimal digit per operand (leading zeros dropped: 2 = array,scalar; 20 = scalar,array; 102 = view,array,scalar),
//          0 ndarray, 1 lazy view (transposed view of an ndarray), 2 scalar (plain number; its shape is written "_").
//   where: the type ids are (condition, x, y).  NAME_p = activation NAME called with explicit parameters.
//
// Expected element type: decltype(functor(a_elem, b_elem)) for ufuncs / activations, the requested dtype for outer_*(..., dtype),
// decltype(true ? x_elem : y_elem) for where (the condition only selects), double for deg2rad & co. on an integer element type.
//
// NON-TRIVIALITY RULE.  A case counts as non-trivial iff the operand shapes are broadcastable, the result has >= 2 elements
// and, for functions of two or more operands, at least one operand is stretched / rank-extended / a scalar (its shape differs
// from the result shape) or is a transposed view of rank >= 2 or the operand element types differ.  Unary: result size >= 2.
// outer: both operands have >= 2 elements.  Incompatible-shape cases (Nothing expected) count as trivial.
//
// BOUNDS (shape alphabets in c07_driver.hpp).  quick: all ordered shape pairs of S(1..3,3) (1521, compatible and incompatible; with the
// scalar operand kind this is DESIGN.md's S(0..3,3)); triples (where) S(1..3,2)^3 + S(1..2,3)^3; unary / scalar-side shapes S(1..3,3) + S(4,2);
// outer S(1..2,3)^2; extent-4 boundary: the pairs of S(1..2,4) containing an extent 4.  thorough: pairs S(1..4,3)^2 (14400) + the extent-4
// boundary + 9 larger pairs (<= 120 elements, the quantifier's "sampled larger" as a fixed list); triples S(1..3,3)^3; unary S(1..4,3); outer S(1..3,3)^2.
// Element types and operand kinds per family: see the type lists below.
//
// NOT INSTANTIABLE on the pinned tree (compile-time rejection, therefore not checked): view::clip / array::clip with ANY array
// operand (less() of run-time shapes is a maybe which where() does not accept; with fixed shapes greater() of the where view is
// a maybe again - upstream disabled its own clip tests), generic n-ary view::ufunc(op,a,b,c) with broadcasting.  amax / amin are
// reductions (C08).  The ternary family is therefore represented by where().
//
//   group  functions
//     1    add (64 type pairs) subtract (16)
//     2    divide (64) multiply (16)
//     3    less (64) greater (16)
//     4    equal (64) not_equal (16)
//     5    maximum minimum (17: + (double,int8)) less_equal greater_equal (16)
//     6    mod bitwise_and bitwise_or bitwise_xor left_shift right_shift invert   (integer types, 12 pairs)
//     7    logical_and logical_or logical_xor where
//     8    fmod power fmax fmin arctan2 hypot ldexp logical_not
//     9    negative positive square fabs reciprocal signbit isfinite isinf isnan ceil floor trunc rint deg2rad degrees rad2deg radians
//    10    sin cos tan arcsin arccos arctan sinh cosh tanh arcsinh arccosh arctanh
//    11    exp exp2 expm1 log log2 log10 log1p sqrt cbrt + the 18 activations (default and explicit parameters)
//    12    outer_{add,multiply (+dtype),subtract,maximum,minimum,fmod,power,left_shift,right_shift,fmax,fmin}
// Restriction of the type / kind matrix (compile budget: one binary instantiation costs ~0.7 s of g++ time): all 64 ordered element-type
// pairs for add, divide, less, equal (one function per semantic class: additive, quotient, ordering, equality); the 8 same-type and 8
// designated mixed pairs (every type on either side) for the other 8 members of the family; operand kinds other than ndarray x ndarray
// (array-view, view-array, array-scalar, scalar-array, view-scalar, scalar-scalar) on 1-3 type pairs per function (the M_* menus below).
// array::f is eval(view::f(...)) in every ufunc header; the harness calls both public entry points and requires identical observations.
#ifndef C07_GROUP
#error "compile with -DC07_GROUP=1..12"
#endif

#if C07_GROUP == 1
#include "nmtools/array/array/ufuncs/add.hpp"
#include "nmtools/array/array/ufuncs/subtract.hpp"
#elif C07_GROUP == 2
#include "nmtools/array/array/ufuncs/divide.hpp"
#include "nmtools/array/array/ufuncs/multiply.hpp"
#elif C07_GROUP == 3
#include "nmtools/array/array/ufuncs/less.hpp"
#include "nmtools/array/array/ufuncs/greater.hpp"
#elif C07_GROUP == 4
#include "nmtools/array/array/ufuncs/equal.hpp"
#include "nmtools/array/array/ufuncs/not_equal.hpp"
#elif C07_GROUP == 5
#include "nmtools/array/array/ufuncs/maximum.hpp"
#include "nmtools/array/array/ufuncs/minimum.hpp"
#include "nmtools/array/array/ufuncs/less_equal.hpp"
#include "nmtools/array/array/ufuncs/greater_equal.hpp"
#elif C07_GROUP == 6
#include "nmtools/array/array/ufuncs/mod.hpp"
#include "nmtools/array/array/ufuncs/bitwise_and.hpp"
#include "nmtools/array/array/ufuncs/bitwise_or.hpp"
#include "nmtools/array/array/ufuncs/bitwise_xor.hpp"
#include "nmtools/array/array/ufuncs/left_shift.hpp"
#include "nmtools/array/array/ufuncs/right_shift.hpp"
#include "nmtools/array/array/ufuncs/invert.hpp"
#elif C07_GROUP == 7
#include "nmtools/array/array/ufuncs/logical_and.hpp"
#include "nmtools/array/array/ufuncs/logical_or.hpp"
#include "nmtools/array/array/ufuncs/logical_xor.hpp"
#include "nmtools/array/array/where.hpp"
#elif C07_GROUP == 8
#include "nmtools/array/array/ufuncs/fmod.hpp"
#include "nmtools/array/array/ufuncs/power.hpp"
#include "nmtools/array/array/ufuncs/fmax.hpp"
#include "nmtools/array/array/ufuncs/fmin.hpp"
#include "nmtools/array/array/ufuncs/arctan2.hpp"
#include "nmtools/array/array/ufuncs/hypot.hpp"
#include "nmtools/array/array/ufuncs/ldexp.hpp"
#include "nmtools/array/array/ufuncs/logical_not.hpp"
#elif C07_GROUP == 9
#include "nmtools/array/array/ufuncs/negative.hpp"
#include "nmtools/array/array/ufuncs/positive.hpp"
#include "nmtools/array/array/ufuncs/square.hpp"
#include "nmtools/array/array/ufuncs/fabs.hpp"
#include "nmtools/array/array/ufuncs/reciprocal.hpp"
#include "nmtools/array/array/ufuncs/signbit.hpp"
#include "nmtools/array/array/ufuncs/isfinite.hpp"
#include "nmtools/array/array/ufuncs/isinf.hpp"
#include "nmtools/array/array/ufuncs/isnan.hpp"
#include "nmtools/array/array/ufuncs/ceil.hpp"
#include "nmtools/array/array/ufuncs/floor.hpp"
#include "nmtools/array/array/ufuncs/trunc.hpp"
#include "nmtools/array/array/ufuncs/rint.hpp"
#include "nmtools/array/array/ufuncs/deg2rad.hpp"
#include "nmtools/array/array/ufuncs/degrees.hpp"
#include "nmtools/array/array/ufuncs/rad2deg.hpp"
#include "nmtools/array/array/ufuncs/radians.hpp"
#elif C07_GROUP == 10
#include "nmtools/array/array/ufuncs/sin.hpp"
#include "nmtools/array/array/ufuncs/cos.hpp"
#include "nmtools/array/array/ufuncs/tan.hpp"
#include "nmtools/array/array/ufuncs/arcsin.hpp"
#include "nmtools/array/array/ufuncs/arccos.hpp"
#include "nmtools/array/array/ufuncs/arctan.hpp"
#include "nmtools/array/array/ufuncs/sinh.hpp"
#include "nmtools/array/array/ufuncs/cosh.hpp"
#include "nmtools/array/array/ufuncs/tanh.hpp"
#include "nmtools/array/array/ufuncs/arcsinh.hpp"
#include "nmtools/array/array/ufuncs/arccosh.hpp"
#include "nmtools/array/array/ufuncs/arctanh.hpp"
#elif C07_GROUP == 11
#include "nmtools/array/array/ufuncs/exp.hpp"
#include "nmtools/array/array/ufuncs/exp2.hpp"
#include "nmtools/array/array/ufuncs/expm1.hpp"
#include "nmtools/array/array/ufuncs/log.hpp"
#include "nmtools/array/array/ufuncs/log2.hpp"
#include "nmtools/array/array/ufuncs/log10.hpp"
#include "nmtools/array/array/ufuncs/log1p.hpp"
#include "nmtools/array/array/ufuncs/sqrt.hpp"
#include "nmtools/array/array/ufuncs/cbrt.hpp"
#include "nmtools/array/array/activations/celu.hpp"
#include "nmtools/array/array/activations/elu.hpp"
#include "nmtools/array/array/activations/hardshrink.hpp"
#include "nmtools/array/array/activations/hardswish.hpp"
#include "nmtools/array/array/activations/hardtanh.hpp"
#include "nmtools/array/array/activations/leaky_relu.hpp"
#include "nmtools/array/array/activations/log_sigmoid.hpp"
#include "nmtools/array/array/activations/mish.hpp"
#include "nmtools/array/array/activations/prelu.hpp"
#include "nmtools/array/array/activations/relu.hpp"
#include "nmtools/array/array/activations/relu6.hpp"
#include "nmtools/array/array/activations/selu.hpp"
#include "nmtools/array/array/activations/sigmoid.hpp"
#include "nmtools/array/array/activations/silu.hpp"
#include "nmtools/array/array/activations/softplus.hpp"
#include "nmtools/array/array/activations/softshrink.hpp"
#include "nmtools/array/array/activations/softsign.hpp"
#include "nmtools/array/array/activations/tanhshrink.hpp"
#elif C07_GROUP == 12
#include "nmtools/array/array/ufuncs/add.hpp"
#include "nmtools/array/array/ufuncs/multiply.hpp"
#include "nmtools/array/array/ufuncs/subtract.hpp"
#include "nmtools/array/array/ufuncs/maximum.hpp"
#include "nmtools/array/array/ufuncs/minimum.hpp"
#include "nmtools/array/array/ufuncs/fmod.hpp"
#include "nmtools/array/array/ufuncs/power.hpp"
#include "nmtools/array/array/ufuncs/left_shift.hpp"
#include "nmtools/array/array/ufuncs/right_shift.hpp"
#include "nmtools/array/array/ufuncs/fmax.hpp"
#include "nmtools/array/array/ufuncs/fmin.hpp"
#else
#error "C07_GROUP out of range"
#endif

#define NMC_MAIN
#include "c07_driver.hpp"

using namespace c07;
const char* nmc_property() { return "C07"; }

// ------------------------------------------------------------------------------------------------ type lists
using T8 = tl<i8, i16, i32, i64, u8, u32, f32, f64>;
using TI = tl<i8, i16, i32, i64, u8, u32>;
using P64 = cross_t<T8, T8>;                                                          // arithmetic / comparison family
using PINT = cat_t<diag_t<TI>, tl<tt<i8, i32>, tt<i32, i8>, tt<u8, i64>, tt<i64, u32>, tt<u32, i16>, tt<i16, u8>>>;   // integer-only binary
using PLOG = cat_t<diag_t<T8>, tl<tt<i8, f64>, tt<f32, u8>, tt<i64, u32>, tt<u32, i16>>>;                            // logical binary
using PMATH = tl<tt<f32, f32>, tt<f64, f64>, tt<f32, f64>, tt<f64, f32>, tt<i32, f64>, tt<f32, i32>, tt<i32, i32>>;   // libm binary
using PLDEXP = tl<tt<f32, i32>, tt<f64, i32>, tt<f64, i8>, tt<f32, i16>, tt<i32, i32>>;
using U8L = singles_t<T8>;
using UINT = singles_t<TI>;
using UF = tl<tt<f32>, tt<f64>>;
using UFI = tl<tt<f32>, tt<f64>, tt<i32>>;

// kinds bit = 1 << (3*KA + KB)   (K_A 0, K_V 1, K_S 2)
constexpr unsigned KB_AA = 1u << 0, KB_AV = 1u << 1, KB_AS = 1u << 2, KB_VA = 1u << 3, KB_VV = 1u << 4, KB_VS = 1u << 5, KB_SA = 1u << 6, KB_SV = 1u << 7, KB_SS = 1u << 8;
constexpr unsigned KB_MENU = KB_AA | KB_AV | KB_VA | KB_AS | KB_SA | KB_VS | KB_SS;   // ndarray pair + view / scalar on either side
// type pairs that carry the whole kind menu (every other pair: ndarray x ndarray only); MENU is a digit string of type-id pairs
constexpr bool in_menu(int a, int b, const char* menu) { for (const char* m = menu; m[0] && m[1]; m += 2) if (m[0] - '0' == a && m[1] - '0' == b) return true; return false; }
#define KSTD(MENU) (in_menu(tid<TA>(), tid<TB>(), MENU) ? KB_MENU : KB_AA)
#define M_STD "2207"     /* (i32,i32) (i8,f64) */
#define M_MM  "220770"   /* (i32,i32) (i8,f64) (f64,i8): maximum / minimum select an operand, so a scalar of either type on either side matters */
#define M_INT "22"       /* (i32,i32) */
#define M_FLT "77"       /* (f64,f64) */
#define M_LDEXP "72"     /* (f64,i32) */
// the 8 same-type pairs and 8 mixed pairs touching every type on either side
using P16 = cat_t<diag_t<T8>, tl<tt<i8, f64>, tt<f32, i64>, tt<u8, i16>, tt<i32, u32>, tt<i64, f32>, tt<u32, i8>, tt<i16, u8>, tt<f64, f32>>>;

// ------------------------------------------------------------------------------------------------ descriptors
#define C07_COMMON(NAME) static constexpr const char* name = #NAME; static constexpr bool check_op = true; template <typename TA> static constexpr long smax() { return 0; }
#define C07_UNARY(NAME, FUNCTOR, DOM, TYPES) struct NAME##_d { C07_COMMON(NAME) static constexpr int arity = 1; using types = TYPES; \
    static auto op() { return FUNCTOR; } template <typename T> static constexpr int dom(int) { return DOM; } \
    template <typename A> static auto lazy(const A& a) { return view::NAME(a); } template <typename A> static auto eager(const A& a) { return na::NAME(a); } };
#define C07_BINARY(NAME, FUNCTOR, DOMA, DOMB, TYPES, MENU) struct NAME##_d { C07_COMMON(NAME) static constexpr int arity = 2; using types = TYPES; \
    static auto op() { return FUNCTOR; } template <typename T> static constexpr int dom(int i) { return i == 0 ? DOMA : DOMB; } \
    template <typename TA, typename TB> static constexpr unsigned kinds() { return KSTD(MENU); } \
    template <typename A, typename B> static auto lazy(const A& a, const B& b) { return view::NAME(a, b); } template <typename A, typename B> static auto eager(const A& a, const B& b) { return na::NAME(a, b); } };

template <typename... F> struct fl {};

#if C07_GROUP == 1
C07_BINARY(add, view::add_t<>{}, D_ARITH, D_ARITH, P64, M_STD)
C07_BINARY(subtract, view::subtract_t<>{}, D_ARITH, D_ARITH, P16, M_STD)
using group_fns = fl<add_d, subtract_d>;
#elif C07_GROUP == 2
C07_BINARY(divide, view::divide_t{}, D_ARITH, D_NZ, P64, M_STD)
C07_BINARY(multiply, view::multiply_t<>{}, D_ARITH, D_ARITH, P16, M_STD)
using group_fns = fl<divide_d, multiply_d>;
#elif C07_GROUP == 3
C07_BINARY(less, view::less_t{}, D_FULL, D_FULL, P64, M_STD)
C07_BINARY(greater, view::greater_t{}, D_FULL, D_FULL, P16, M_STD)
using group_fns = fl<less_d, greater_d>;
#elif C07_GROUP == 4
C07_BINARY(equal, view::equal_t{}, D_FULL, D_FULL, P64, M_STD)
C07_BINARY(not_equal, view::not_equal_t{}, D_FULL, D_FULL, P16, M_STD)
using group_fns = fl<equal_d, not_equal_d>;
#elif C07_GROUP == 5
using P17 = cat_t<P16, tl<tt<f64, i8>>>;
C07_BINARY(maximum, view::maximum_t<>{}, D_FULL, D_FULL, P17, M_MM)
C07_BINARY(minimum, view::minimum_t<>{}, D_FULL, D_FULL, P17, M_MM)
C07_BINARY(less_equal, view::less_equal_t{}, D_FULL, D_FULL, P16, M_STD)
C07_BINARY(greater_equal, view::greater_equal_t{}, D_FULL, D_FULL, P16, M_STD)
using group_fns = fl<maximum_d, minimum_d, less_equal_d, greater_equal_d>;
#elif C07_GROUP == 6
C07_BINARY(mod, view::mod_t{}, D_ARITH, D_NZ, PINT, M_INT)
C07_BINARY(bitwise_and, view::bitwise_and_t{}, D_FULL, D_FULL, PINT, M_INT)
C07_BINARY(bitwise_or, view::bitwise_or_t{}, D_FULL, D_FULL, PINT, M_INT)
C07_BINARY(bitwise_xor, view::bitwise_xor_t{}, D_FULL, D_FULL, PINT, M_INT)
// shifts: counts 0 .. (bit width of the promoted left type - 1); left_shift of a signed left operand keeps head room
// (left values 0..28+, counts <= width-8) so that no signed overflow / shift of a negative value (undefined in C++17) is requested
template <typename TA> constexpr long promoted_bits() { return (long)sizeof(decltype(+std::declval<TA>())) * 8; }
struct left_shift_d { static constexpr const char* name = "left_shift"; static constexpr bool check_op = true; static constexpr int arity = 2; using types = PINT;
    template <typename TA> static constexpr long smax() { return std::is_signed_v<decltype(+std::declval<TA>())> ? promoted_bits<TA>() - 8 : promoted_bits<TA>() - 1; }
    static auto op() { return view::left_shift_t<>{}; } template <typename T> static constexpr int dom(int i) { return i == 0 ? D_SHL : D_SHIFT; }
    template <typename TA, typename TB> static constexpr unsigned kinds() { return KSTD(M_INT); }
    template <typename A, typename B> static auto lazy(const A& a, const B& b) { return view::left_shift(a, b); } template <typename A, typename B> static auto eager(const A& a, const B& b) { return na::left_shift(a, b); } };
struct right_shift_d { static constexpr const char* name = "right_shift"; static constexpr bool check_op = true; static constexpr int arity = 2; using types = PINT;
    template <typename TA> static constexpr long smax() { return promoted_bits<TA>() - 1; }
    static auto op() { return view::right_shift_t<>{}; } template <typename T> static constexpr int dom(int i) { return i == 0 ? D_FULL : D_SHIFT; }
    template <typename TA, typename TB> static constexpr unsigned kinds() { return KSTD(M_INT); }
    template <typename A, typename B> static auto lazy(const A& a, const B& b) { return view::right_shift(a, b); } template <typename A, typename B> static auto eager(const A& a, const B& b) { return na::right_shift(a, b); } };
C07_UNARY(invert, view::invert_t{}, D_FULL, UINT)
using group_fns = fl<mod_d, bitwise_and_d, bitwise_or_d, bitwise_xor_d, left_shift_d, right_shift_d, invert_d>;
#elif C07_GROUP == 7
C07_BINARY(logical_and, view::logical_and_t{}, D_LOGIC, D_LOGIC, PLOG, M_STD)
C07_BINARY(logical_or, view::logical_or_t{}, D_LOGIC, D_LOGIC, PLOG, M_STD)
C07_BINARY(logical_xor, view::logical_xor_t{}, D_LOGIC, D_LOGIC, PLOG, M_STD)
// where: type triples (condition, x, y); all of them with three ndarrays, the kind menu on the (bool,int32,int32) triple, its scalar part also on (uint8,int8,double)
struct where_d { static constexpr const char* name = "where"; static constexpr int arity = 3;
    using types = tl<tt<u8, i8, i8>, tt<u8, i16, i16>, tt<i32, i32, i32>, tt<u8, i64, i64>, tt<i8, u8, u8>, tt<u8, u32, u32>, tt<u8, f32, f32>, tt<f64, f64, f64>,
                     tt<bool, i32, i32>, tt<bool, f32, f32>, tt<f64, i32, i32>, tt<i64, i8, i8>, tt<u8, i8, f64>, tt<u8, f32, i64>, tt<i32, u32, i16>, tt<u8, i32, i64>>;
    // 2 = every kind triple of WHERE_KINDS, 1 = the kind triples with a scalar, 0 = three ndarrays only
    template <typename TC, typename TX, typename TY> static constexpr int menu() { return (std::is_same_v<TC, bool> && std::is_same_v<TX, i32>) ? 2 : (std::is_same_v<TX, i8> && std::is_same_v<TY, f64>) ? 1 : 0; }
    template <typename A, typename B, typename C> static auto lazy(const A& a, const B& b, const C& c) { return view::where(a, b, c); }
    template <typename A, typename B, typename C> static auto eager(const A& a, const B& b, const C& c) { return na::where(a, b, c); } };
using group_fns = fl<logical_and_d, logical_or_d, logical_xor_d, where_d>;
#elif C07_GROUP == 8
C07_BINARY(fmod, view::fmod_t<>{}, D_ARITH, D_NZS, PMATH, M_FLT)
C07_BINARY(power, view::power_t<>{}, D_POS, D_SMALL, PMATH, M_FLT)
C07_BINARY(fmax, view::fmax_t<>{}, D_FULL, D_FULL, PMATH, M_FLT)
C07_BINARY(fmin, view::fmin_t<>{}, D_FULL, D_FULL, PMATH, M_FLT)
C07_BINARY(arctan2, view::arctan2_t{}, D_ARITH, D_ARITH, PMATH, M_FLT)
C07_BINARY(hypot, view::hypot_t{}, D_ARITH, D_ARITH, PMATH, M_FLT)
C07_BINARY(ldexp, view::ldexp_t{}, D_SMALL, D_SMALL, PLDEXP, M_LDEXP)
C07_UNARY(logical_not, view::logical_not_t{}, D_LOGIC, U8L)
using group_fns = fl<fmod_d, power_d, fmax_d, fmin_d, arctan2_d, hypot_d, ldexp_d, logical_not_d>;
#elif C07_GROUP == 9
C07_UNARY(negative, view::negative_t{}, D_ARITH, U8L)
C07_UNARY(positive, view::positive_t{}, D_FULL, U8L)
C07_UNARY(square, view::square_t{}, D_ARITH, U8L)
C07_UNARY(fabs, view::fabs_t{}, D_FULL, U8L)
C07_UNARY(reciprocal, view::reciprocal_t{}, D_NZ, U8L)
C07_UNARY(signbit, view::signbit_t{}, D_FULL, U8L)
C07_UNARY(isfinite, view::isfinite_t{}, D_FULL, U8L)
C07_UNARY(isinf, view::isinf_t{}, D_FULL, U8L)
C07_UNARY(isnan, view::isnan_t{}, D_FULL, U8L)
C07_UNARY(ceil, view::ceil_t{}, D_FULL, U8L)
C07_UNARY(floor, view::floor_t{}, D_FULL, U8L)
C07_UNARY(trunc, view::trunc_t{}, D_FULL, U8L)
C07_UNARY(rint, view::rint_t{}, D_FULL, U8L)
// deg2rad / radians = x * (pi / 180), degrees / rad2deg = x * (180 / pi).  The library has no functor of its own for them (they are
// view::multiply(a, constant)); the oracle multiplies with the library's multiply functor by the constant in the element type for
// floating element types.  For an integer element type the scalar operation yields a real number (NumPy: float64): expected
// double(x) * (pi/180 resp. 180/pi) in double.
template <bool TO_RAD> struct angle_op {
    template <typename T> auto operator()(const T& t) const {
        if constexpr (std::is_floating_point_v<T>) { const T c = TO_RAD ? T(nm::pi_v<T> / 180) : T(static_cast<T>(180) / nm::pi_v<T>); return view::multiply_t<>{}(t, c); }
        else { const double c = TO_RAD ? nm::pi_v<double> / 180 : 180 / nm::pi_v<double>; return view::multiply_t<>{}(static_cast<double>(t), c); }
    }
};
#define C07_ANGLE(NAME, TO_RAD) struct NAME##_d { static constexpr const char* name = #NAME; static constexpr bool check_op = false; static constexpr int arity = 1; using types = UFI; \
    template <typename TA> static constexpr long smax() { return 0; } static auto op() { return angle_op<TO_RAD>{}; } template <typename T> static constexpr int dom(int) { return D_SMALL; } \
    template <typename A> static auto lazy(const A& a) { return view::NAME(a); } template <typename A> static auto eager(const A& a) { return na::NAME(a); } };
C07_ANGLE(deg2rad, true)
C07_ANGLE(radians, true)
C07_ANGLE(degrees, false)
C07_ANGLE(rad2deg, false)
using group_fns = fl<negative_d, positive_d, square_d, fabs_d, reciprocal_d, signbit_d, isfinite_d, isinf_d, isnan_d, ceil_d, floor_d, trunc_d, rint_d, deg2rad_d, radians_d, degrees_d, rad2deg_d>;
#elif C07_GROUP == 10
C07_UNARY(sin, view::sin_t{}, D_ARITH, U8L)
C07_UNARY(cos, view::cos_t{}, D_ARITH, U8L)
C07_UNARY(tan, view::tan_t{}, D_ARITH, U8L)
C07_UNARY(arcsin, view::arcsin_t{}, D_UNIT, U8L)
C07_UNARY(arccos, view::arccos_t{}, D_UNIT, U8L)
C07_UNARY(arctan, view::arctan_t{}, D_FULL, U8L)
C07_UNARY(sinh, view::sinh_t{}, D_SMALL, U8L)
C07_UNARY(cosh, view::cosh_t{}, D_SMALL, U8L)
C07_UNARY(tanh, view::tanh_t{}, D_FULL, U8L)
C07_UNARY(arcsinh, view::arcsinh_t{}, D_FULL, U8L)
C07_UNARY(arccosh, view::arccosh_t{}, D_GE1, U8L)
C07_UNARY(arctanh, view::arctanh_t{}, D_UNITO, U8L)
using group_fns = fl<sin_d, cos_d, tan_d, arcsin_d, arccos_d, arctan_d, sinh_d, cosh_d, tanh_d, arcsinh_d, arccosh_d, arctanh_d>;
#elif C07_GROUP == 11
C07_UNARY(exp, view::exp_t{}, D_SMALL, U8L)
C07_UNARY(exp2, view::exp2_t{}, D_SMALL, U8L)
C07_UNARY(expm1, view::expm1_t{}, D_SMALL, U8L)
C07_UNARY(log, view::log_t{}, D_POS, U8L)
C07_UNARY(log2, view::log2_t{}, D_POS, U8L)
C07_UNARY(log10, view::log10_t{}, D_POS, U8L)
C07_UNARY(log1p, view::log1p_t{}, D_GTM1, U8L)
C07_UNARY(sqrt, view::sqrt_t{}, D_POS, U8L)
C07_UNARY(cbrt, view::cbrt_t{}, D_ARITH, U8L)
// activations: default parameters (NAME) and explicit parameters (NAME_p); floating element types
#define C07_ACT_BODY(DNAME, FUNCTOR) static constexpr const char* name = #DNAME; static constexpr bool check_op = true; static constexpr int arity = 1; using types = UF; \
    template <typename TA> static constexpr long smax() { return 0; } static auto op() { return FUNCTOR; } template <typename T> static constexpr int dom(int) { return D_SMALL; }
#define C07_ACT(NAME, FUNCTOR) struct NAME##_d { C07_ACT_BODY(NAME, FUNCTOR) \
    template <typename A> static auto lazy(const A& a) { return view::NAME(a); } template <typename A> static auto eager(const A& a) { return na::NAME(a); } };
#define C07_ACTP(DNAME, FNAME, FUNCTOR, ...) struct DNAME##_d { C07_ACT_BODY(DNAME, FUNCTOR) \
    template <typename A> static auto lazy(const A& a) { return view::FNAME(a, __VA_ARGS__); } template <typename A> static auto eager(const A& a) { return na::FNAME(a, __VA_ARGS__); } };
C07_ACT(celu, view::fun::celu<float>{})
C07_ACTP(celu_p, celu, view::fun::celu<float>{0.5f}, 0.5f)
C07_ACT(elu, view::fun::elu<float>{})
C07_ACTP(elu_p, elu, view::fun::elu<float>{1.5f}, 1.5f)
C07_ACT(hardshrink, view::fun::hardshrink<float>{})
C07_ACTP(hardshrink_p, hardshrink, view::fun::hardshrink<float>{1.25f}, 1.25f)
C07_ACT(hardswish, view::fun::hardswish{})
C07_ACT(hardtanh, (view::fun::hardtanh<float, float>{}))
C07_ACTP(hardtanh_p, hardtanh, (view::fun::hardtanh<float, float>{-2.5f, 0.75f}), -2.5f, 0.75f)
C07_ACT(leaky_relu, view::fun::leaky_relu<float>{})
C07_ACTP(leaky_relu_p, leaky_relu, view::fun::leaky_relu<float>{0.2f}, 0.2f)
C07_ACT(log_sigmoid, view::fun::log_sigmoid{})
C07_ACT(mish, view::fun::mish{})
C07_ACT(prelu, view::fun::prelu<float>{})
C07_ACTP(prelu_p, prelu, view::fun::prelu<float>{0.75f}, 0.75f)
C07_ACT(relu, view::fun::relu{})
C07_ACT(relu6, view::fun::relu6{})
C07_ACT(selu, view::fun::selu{})
C07_ACT(sigmoid, view::fun::sigmoid{})
C07_ACT(silu, view::fun::silu{})
C07_ACT(softplus, (view::fun::softplus<float, float>{}))
C07_ACTP(softplus_p, softplus, (view::fun::softplus<float, float>{2.0f, 3.0f}), 2.0f, 3.0f)
C07_ACT(softshrink, view::fun::softshrink<float>{})
C07_ACTP(softshrink_p, softshrink, view::fun::softshrink<float>{1.25f}, 1.25f)
C07_ACT(softsign, view::fun::softsign{})
C07_ACT(tanhshrink, view::fun::tanhshrink{})
using group_fns = fl<exp_d, exp2_d, expm1_d, log_d, log2_d, log10_d, log1p_d, sqrt_d, cbrt_d, celu_d, celu_p_d, elu_d, elu_p_d, hardshrink_d, hardshrink_p_d, hardswish_d, hardtanh_d, hardtanh_p_d, leaky_relu_d, leaky_relu_p_d, log_sigmoid_d, mish_d,
                     prelu_d, prelu_p_d, relu_d, relu6_d, selu_d, sigmoid_d, silu_d, softplus_d, softplus_p_d, softshrink_d, softshrink_p_d, softsign_d, tanhshrink_d>;
#elif C07_GROUP == 12
// outer variants.  types = (left, right, requested dtype or void)
using OSAME = tl<tt<i8, i8, void>, tt<i16, i16, void>, tt<i32, i32, void>, tt<i64, i64, void>, tt<u8, u8, void>, tt<u32, u32, void>, tt<f32, f32, void>, tt<f64, f64, void>>;
using OMIX = tl<tt<i8, f64, void>, tt<f32, i64, void>, tt<u8, i16, void>, tt<i32, u32, void>>;
using ODT = tl<tt<i32, i32, f64>, tt<i8, i8, i64>, tt<f32, f32, i32>, tt<u8, i16, f32>, tt<f64, f32, f32>, tt<i16, i16, i16>>;
using OFEW = tl<tt<i32, i32, void>, tt<f64, f64, void>, tt<i8, f32, void>, tt<u8, i64, void>>;
using OINT = tl<tt<i32, i32, void>, tt<u8, u8, void>, tt<i64, i8, void>, tt<u32, i16, void>>;
using OFLT = tl<tt<f32, f32, void>, tt<f64, f64, void>, tt<f32, f64, void>, tt<i32, f64, void>>;
template <typename TA> constexpr long promoted_bits() { return (long)sizeof(decltype(+std::declval<TA>())) * 8; }
#define C07_OUTER(NAME, FUNCTOR, DOMA, DOMB, TYPES, SMAX) struct outer_##NAME##_d { static constexpr const char* name = "outer_" #NAME; static constexpr int arity = 4; using types = TYPES; \
    template <typename TA> static constexpr long smax() { return SMAX; } static auto op() { return FUNCTOR; } template <typename T> static constexpr int dom(int i) { return i == 0 ? DOMA : DOMB; } \
    template <typename A, typename B, typename D> static auto lazy_outer(const A& a, const B& b, D d) { return view::outer_##NAME(a, b, d); } \
    template <typename A, typename B, typename D> static auto eager_outer(const A& a, const B& b, D d) { return na::NAME.outer(a, b, d); } };
using OADD = cat_t<OSAME, OMIX, ODT>;
C07_OUTER(add, view::add_t<>{}, D_ARITH, D_ARITH, OADD, 0)
C07_OUTER(multiply, view::multiply_t<>{}, D_ARITH, D_ARITH, OADD, 0)
C07_OUTER(subtract, view::subtract_t<>{}, D_ARITH, D_ARITH, OFEW, 0)
C07_OUTER(maximum, view::maximum_t<>{}, D_FULL, D_FULL, OFEW, 0)
C07_OUTER(minimum, view::minimum_t<>{}, D_FULL, D_FULL, OFEW, 0)
C07_OUTER(fmod, view::fmod_t<>{}, D_ARITH, D_NZS, OFLT, 0)
C07_OUTER(power, view::power_t<>{}, D_POS, D_SMALL, OFLT, 0)
C07_OUTER(fmax, view::fmax_t<>{}, D_FULL, D_FULL, OFLT, 0)
C07_OUTER(fmin, view::fmin_t<>{}, D_FULL, D_FULL, OFLT, 0)
C07_OUTER(left_shift, view::left_shift_t<>{}, D_SHL, D_SHIFT, OINT, (std::is_signed_v<decltype(+std::declval<TA>())> ? promoted_bits<TA>() - 8 : promoted_bits<TA>() - 1))
C07_OUTER(right_shift, view::right_shift_t<>{}, D_FULL, D_SHIFT, OINT, (promoted_bits<TA>() - 1))
using group_fns = fl<outer_add_d, outer_multiply_d, outer_subtract_d, outer_maximum_d, outer_minimum_d, outer_fmod_d, outer_power_d, outer_fmax_d, outer_fmin_d, outer_left_shift_d, outer_right_shift_d>;
#endif

// ------------------------------------------------------------------------------------------------ enumeration
static const int WHERE_KINDS[][3] = {{0, 0, 0}, {1, 0, 0}, {0, 1, 0}, {0, 0, 1}, {1, 1, 1}, {0, 2, 0}, {0, 0, 2}, {0, 2, 2}, {1, 0, 2}};
static const int OUTER_KINDS[][2] = {{0, 0}, {1, 0}, {0, 1}};

template <typename FN> static void enum_fn(bool th, const nmc::Sink& emit) {
    if constexpr (FN::arity == 1) {
        each_types(typename FN::types{}, [&](auto tup) {
            using T = typename decltype(tup)::template at<0>;
            for (long k : {0L, 1L}) each_single_shape(th, [&](const L& s) { emit(Case(FN::name, {{tid<T>()}, {k}, s})); });
            emit(Case(FN::name, {{tid<T>()}, {2}, {}}));
        });
    } else if constexpr (FN::arity == 2) {
        each_types(typename FN::types{}, [&](auto tup) {
            using TA = typename decltype(tup)::template at<0>; using TB = typename decltype(tup)::template at<1>;
            constexpr unsigned km = FN::template kinds<TA, TB>();
            for (long ka = 0; ka < 3; ka++) for (long kb = 0; kb < 3; kb++) {
                if (!(km >> (3 * ka + kb) & 1)) continue;
                L ty{tid<TA>(), tid<TB>()}, kk{ka * 10 + kb};
                if (ka != 2 && kb != 2) {
                    // non-primary type pairs of the 64-pair family (ndarray x ndarray only): full pair alphabet as well
                    each_shape_pair(th, [&](const L& a, const L& b) { emit(Case(FN::name, {ty, kk, a, b})); });
                } else if (ka == 2 && kb == 2) emit(Case(FN::name, {ty, kk, {}, {}}));
                else if (kb == 2) each_single_shape(th, [&](const L& s) { emit(Case(FN::name, {ty, kk, s, {}})); });
                else each_single_shape(th, [&](const L& s) { emit(Case(FN::name, {ty, kk, {}, s})); });
            }
        });
    } else if constexpr (FN::arity == 3) {
        each_types(typename FN::types{}, [&](auto tup) {
            using TC = typename decltype(tup)::template at<0>; using TX = typename decltype(tup)::template at<1>; using TY = typename decltype(tup)::template at<2>;
            L ty{tid<TC>(), tid<TX>(), tid<TY>()};
            constexpr int menu = FN::template menu<TC, TX, TY>();
            for (auto& k : WHERE_KINDS) {
                bool all_arrays = k[0] != 2 && k[1] != 2 && k[2] != 2;
                bool plain = k[0] == 0 && k[1] == 0 && k[2] == 0;
                if (!plain && (menu == 0 || (menu == 1 && all_arrays))) continue;   // kind menu on the menu triples only
                L kk{k[0] * 100 + k[1] * 10 + k[2]};
                each_shape_triple(th, [&](const L& a, const L& b, const L& c) {
                    if (!all_arrays) { if ((k[1] == 2 && b != L{1}) || (k[2] == 2 && c != L{1})) return; }   // scalar slots: enumerate the other shapes once
                    emit(Case(FN::name, {ty, kk, a, k[1] == 2 ? L{} : b, k[2] == 2 ? L{} : c}));
                });
            }
        });
    } else {
        each_types(typename FN::types{}, [&](auto tup) {
            using TA = typename decltype(tup)::template at<0>; using TB = typename decltype(tup)::template at<1>; using DT = typename decltype(tup)::template at<2>;
            L ty{tid<TA>(), tid<TB>()}, dt{std::is_void_v<DT> ? -1L : (long)tid<std::conditional_t<std::is_void_v<DT>, i8, DT>>()};
            for (auto& k : OUTER_KINDS) each_outer_pair(th, [&](const L& a, const L& b) { emit(Case(FN::name, {ty, dt, {k[0] * 10 + k[1]}, a, b})); });
        });
    }
}
template <typename... F> static void enum_all(fl<F...>, bool th, const nmc::Sink& emit) { (enum_fn<F>(th, emit), ...); }
void nmc_enumerate(const nmc::Tier& t, const nmc::Sink& emit) { enum_all(group_fns{}, t.thorough(), emit); }

// ------------------------------------------------------------------------------------------------ execution
template <typename FN, typename T> static Outcome exec_unary_k(long k, const L& s) {
    switch (k) { case 0: return run_unary<FN, T, K_A>(s); case 1: return run_unary<FN, T, K_V>(s); case 2: return run_unary<FN, T, K_S>(s); }
    nmc::die("unary kind not instantiated");
}
template <typename FN, typename TA, typename TB> static Outcome exec_binary_k(long kk, const L& a, const L& b) {
    constexpr unsigned km = FN::template kinds<TA, TB>();
    switch (kk) {
    case 0:  if constexpr ((km & KB_AA) != 0) return run_binary<FN, TA, TB, K_A, K_A>(a, b); break;
    case 1:  if constexpr ((km & KB_AV) != 0) return run_binary<FN, TA, TB, K_A, K_V>(a, b); break;
    case 2:  if constexpr ((km & KB_AS) != 0) return run_binary<FN, TA, TB, K_A, K_S>(a, b); break;
    case 10: if constexpr ((km & KB_VA) != 0) return run_binary<FN, TA, TB, K_V, K_A>(a, b); break;
    case 11: if constexpr ((km & KB_VV) != 0) return run_binary<FN, TA, TB, K_V, K_V>(a, b); break;
    case 12: if constexpr ((km & KB_VS) != 0) return run_binary<FN, TA, TB, K_V, K_S>(a, b); break;
    case 20: if constexpr ((km & KB_SA) != 0) return run_binary<FN, TA, TB, K_S, K_A>(a, b); break;
    case 21: if constexpr ((km & KB_SV) != 0) return run_binary<FN, TA, TB, K_S, K_V>(a, b); break;
    case 22: if constexpr ((km & KB_SS) != 0) return run_binary<FN, TA, TB, K_S, K_S>(a, b); break;
    }
    nmc::die("binary kind not instantiated");
}
template <typename FN, typename TC, typename TX, typename TY> static Outcome exec_where_k(long kk, const L& a, const L& b, const L& c) {
    if (kk == 0) return run_where<FN, TC, TX, TY, K_A, K_A, K_A>(a, b, c);
    if constexpr (FN::template menu<TC, TX, TY>() >= 1) {
        switch (kk) {
        case 20:  return run_where<FN, TC, TX, TY, K_A, K_S, K_A>(a, b, c);
        case 2:   return run_where<FN, TC, TX, TY, K_A, K_A, K_S>(a, b, c);
        case 22:  return run_where<FN, TC, TX, TY, K_A, K_S, K_S>(a, b, c);
        case 102: return run_where<FN, TC, TX, TY, K_V, K_A, K_S>(a, b, c);
        }
    }
    if constexpr (FN::template menu<TC, TX, TY>() == 2) {
        switch (kk) {
        case 100: return run_where<FN, TC, TX, TY, K_V, K_A, K_A>(a, b, c);
        case 10:  return run_where<FN, TC, TX, TY, K_A, K_V, K_A>(a, b, c);
        case 1:   return run_where<FN, TC, TX, TY, K_A, K_A, K_V>(a, b, c);
        case 111: return run_where<FN, TC, TX, TY, K_V, K_V, K_V>(a, b, c);
        }
    }
    nmc::die("where kind not instantiated");
}
template <typename FN, typename TA, typename TB, typename DT> static Outcome exec_outer_k(long kk, const L& a, const L& b) {
    switch (kk) { case 0: return run_outer<FN, TA, TB, DT, K_A, K_A>(a, b); case 10: return run_outer<FN, TA, TB, DT, K_V, K_A>(a, b); case 1: return run_outer<FN, TA, TB, DT, K_A, K_V>(a, b); }
    nmc::die("outer kind not instantiated");
}

template <typename FN> static bool exec_fn(const Case& c, Outcome& out) {
    if (c.op != FN::name) return false;
    bool found = false;
    each_types(typename FN::types{}, [&](auto tup) {
        using TT = decltype(tup);
        if (found) return;
        if constexpr (FN::arity == 1) {
            using T = typename TT::template at<0>;
            if (c.a[0][0] != tid<T>()) return;
            found = true; out = exec_unary_k<FN, T>(c.a[1][0], c.a[2]);
        } else if constexpr (FN::arity == 2) {
            using TA = typename TT::template at<0>; using TB = typename TT::template at<1>;
            if (c.a[0][0] != tid<TA>() || c.a[0][1] != tid<TB>()) return;
            found = true; out = exec_binary_k<FN, TA, TB>(c.a[1][0], c.a[2], c.a[3]);
        } else if constexpr (FN::arity == 3) {
            using TC = typename TT::template at<0>; using TX = typename TT::template at<1>; using TY = typename TT::template at<2>;
            if (c.a[0][0] != tid<TC>() || c.a[0][1] != tid<TX>() || c.a[0][2] != tid<TY>()) return;
            found = true; out = exec_where_k<FN, TC, TX, TY>(c.a[1][0], c.a[2], c.a[3], c.a[4]);
        } else {
            using TA = typename TT::template at<0>; using TB = typename TT::template at<1>; using DT = typename TT::template at<2>;
            long dt = std::is_void_v<DT> ? -1L : (long)tid<std::conditional_t<std::is_void_v<DT>, i8, DT>>();
            if (c.a[0][0] != tid<TA>() || c.a[0][1] != tid<TB>() || c.a[1][0] != dt) return;
            found = true; out = exec_outer_k<FN, TA, TB, DT>(c.a[2][0], c.a[3], c.a[4]);
        }
    });
    if (!found) nmc::die("type combination not instantiated for this function");
    return true;
}
template <typename... F> static bool exec_all(fl<F...>, const Case& c, Outcome& out) { return (exec_fn<F>(c, out) || ...); }
Outcome nmc_execute(const Case& c) {
    Outcome out;
    if (!exec_all(group_fns{}, c, out)) nmc::die("function not in this group (wrong -DC07_GROUP?)");
    nmc::count(c.op.c_str());
    return out;
}

// ------------------------------------------------------------------------------------------------ self test
void nmc_selftest() {
    // reference pairing of (2,3) with (3,): result (2,3), right operand indexed by the LAST axis
    L rs; auto p = nmc::ref::bcast_pairing({L{2, 3}, L{3}}, &rs);
    if (!p || rs != L{2, 3} || p->size() != 6 || (*p)[4][0] != 4 || (*p)[4][1] != 1) nmc::die("selftest: broadcast pairing model");
    if (nmc::ref::bcast_pairing({L{2, 3}, L{2}})) nmc::die("selftest: incompatible shapes accepted by the model");
    auto q = nmc::ref::bcast_pairing({L{3, 1}, L{1, 2}}, &rs);
    if (!q || rs != L{3, 2} || (*q)[3][0] != 1 || (*q)[3][1] != 1) nmc::die("selftest: size-1 pairing model");
    // a deliberately wrong implementation: pairs the right operand by the FIRST axis index (mod 3) -> must be flagged
    std::vector<i32> a = gen<i32>(D_ARITH, 6, 0), b = gen<i32>(D_ARITH, 3, 1);
    TArr<i32> want; want.shape = {2, 3}; TObs<i32> good, wrong; good.shape = wrong.shape = {2, 3};
    for (long i = 0; i < 2; i++) for (long j = 0; j < 3; j++) { want.data.push_back(a[(size_t)(i * 3 + j)] + b[(size_t)j]); good.data.push_back(a[(size_t)(i * 3 + j)] + b[(size_t)j]); wrong.data.push_back(a[(size_t)(i * 3 + j)] + b[(size_t)i]); }
    std::optional<TArr<i32>> w = want;
    if (!diff_t(good, w).empty()) nmc::die("selftest: correct result flagged");
    if (diff_t(wrong, w).empty()) nmc::die("selftest: oracle blind to a wrong broadcast pairing");
    // wrong element type with equal values must be flagged, after the values were compared
    TObs<i16> narrow; narrow.shape = {2, 3}; for (auto v : want.data) narrow.data.push_back((i16)v);
    if (diff_t(narrow, w).find("element type") == std::string::npos) nmc::die("selftest: oracle blind to a wrong element type");
    // bit-exactness: -0.0 vs 0.0 differ, NaN equals NaN, a one-ulp difference is seen
    if (same_value(-0.0, 0.0) || !same_value(std::nan(""), std::nan("")) || same_value(1.0, std::nextafter(1.0, 2.0)) || same_value(1.0f, 1.0)  == false) nmc::die("selftest: value comparison");
    // Nothing expected / Nothing reported
    TObs<i32> none; none.has = false;
    if (!diff_t(none, std::optional<TArr<i32>>{}).empty() || diff_t(good, std::optional<TArr<i32>>{}).empty() || diff_t(none, w).empty()) nmc::die("selftest: Nothing handling");
    // value grids: distinct and in domain
    { auto v = gen<i8>(D_NZ, 27, 1); for (size_t i = 0; i < v.size(); i++) { if (v[i] == 0) nmc::die("selftest: zero in a divisor grid"); for (size_t j = 0; j < i; j++) if (v[i] == v[j]) nmc::die("selftest: duplicate grid value"); } }
    { auto v = gen<u32>(D_NZ, 27, 1); for (auto x : v) if (x == 0) nmc::die("selftest: zero in an unsigned divisor grid"); }
    { auto v = gen<f32>(D_UNIT, 27, 0); for (auto x : v) if (!(x > -1 && x < 1)) nmc::die("selftest: unit grid"); }
}
