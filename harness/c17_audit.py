# c17_audit.py - NumPy audit of the C17 reference model; input: output of c17_refdump (see there).  Needs numpy (python3-vt).
import sys, json, numpy as np
from numpy.lib.stride_tricks import sliding_window_view as swv
def arr(j): return np.array(j["data"], dtype=np.float64).reshape(j["shape"])
def conv(x, w, b, s, p, d, g):
    n = x.ndim - 2; B, C = x.shape[:2]; O = w.shape[0]
    if C % g or O % g or w.shape[1] * g != C: return None
    xp = np.pad(x, [(0, 0), (0, 0)] + [(pi, pi) for pi in p])
    keff = [d[a] * (w.shape[2 + a] - 1) + 1 for a in range(n)]
    if any(xp.shape[2 + a] < keff[a] for a in range(n)): return None
    wd = np.zeros(w.shape[:2] + tuple(keff)); wd[(slice(None), slice(None)) + tuple(slice(None, None, d[a]) for a in range(n))] = w
    win = swv(xp, keff, axis=tuple(range(2, 2 + n)))                     # (B, C, *out_full, *keff)
    win = win[(slice(None), slice(None)) + tuple(slice(None, None, s[a]) for a in range(n))]
    outs = []
    for gi in range(g):
        xi = win[:, gi * (C // g):(gi + 1) * (C // g)]; wi = wd[gi * (O // g):(gi + 1) * (O // g)]
        if n == 1: outs.append(np.einsum('bclk,ock->bol', xi, wi))
        else: outs.append(np.einsum('bchwij,ocij->bohw', xi, wi))
    r = np.concatenate(outs, axis=1)
    if b is not None: r = r + b.reshape((1, O) + (1,) * n)
    return r
def pool_extent(n, k, s, ceil):
    if n < k: return 0
    o = (-(-(n - k) // s) if ceil else (n - k) // s) + 1
    if ceil and (o - 1) * s >= n: o -= 1
    return o
def pool(x, k, s, ceil, mx):
    H, W = x.shape[-2:]; oh, ow = pool_extent(H, k[0], s[0], ceil), pool_extent(W, k[1], s[1], ceil)
    if oh <= 0 or ow <= 0: return None
    nh, nw = (oh - 1) * s[0] + k[0], (ow - 1) * s[1] + k[1]
    xp = np.pad(x, [(0, 0)] * (x.ndim - 2) + [(0, max(0, nh - H)), (0, max(0, nw - W))], constant_values=np.nan)
    win = swv(xp, k, axis=(-2, -1))[..., ::s[0], ::s[1], :, :][..., :oh, :ow, :, :]
    return np.nanmax(win, axis=(-2, -1)) if mx else np.nanmean(win, axis=(-2, -1))
def norm(x, axes, eps): m = x.mean(axis=axes, keepdims=True); v = x.var(axis=axes, keepdims=True); return (x - m) / np.sqrt(v + eps)
n = bad = 0; per = {}
for line in sys.stdin:
    j = json.loads(line); op, p = j["op"], j["p"]; ins = [arr(a) for a in j["in"]]; want = None
    if op == "conv": want = conv(ins[0], ins[1], ins[2] if len(ins) > 2 else None, p["s"], p["p"], p["d"], p["g"])
    elif op == "pool": want = pool(ins[0], p["k"], p["s"], p["ceil"], p["max"])
    elif op in ("softmax", "softmin"):
        x = ins[0] if op == "softmax" else -ins[0]; e = np.exp(x - x.max(axis=p["axis"], keepdims=True)); want = e / e.sum(axis=p["axis"], keepdims=True)
    elif op == "batch_norm":
        x, m, v, w, b = ins; sh = (1, -1) + (1,) * (x.ndim - 2); want = (x - m.reshape(sh)) / np.sqrt(v.reshape(sh) + p["eps"]) * w.reshape(sh) + b.reshape(sh)
    elif op == "layer_norm": x, w, b = ins; want = norm(x, tuple(range(x.ndim - w.ndim, x.ndim)), p["eps"]) * w + b
    elif op == "instance_norm":
        x, w, b = ins; nd = p["nd"]; sh = (-1,) + (1,) * nd; want = norm(x, tuple(range(x.ndim - nd, x.ndim)), p["eps"]) * w.reshape(sh) + b.reshape(sh)
    elif op == "group_norm":
        x, w, b = ins; g = p["g"]; N, C = x.shape[:2]; xg = x.reshape((N, g, -1)); sh = (1, -1) + (1,) * (x.ndim - 2)
        want = norm(xg, (2,), p["eps"]).reshape(x.shape) * w.reshape(sh) + b.reshape(sh)
    elif op == "linear": want = ins[0] @ ins[1].T + (ins[2] if len(ins) > 2 else 0)
    elif op == "bilinear": want = np.einsum('...i,oij,...j->...o', ins[0], ins[2], ins[1]) + (ins[3] if len(ins) > 3 else 0)
    elif op == "pairwise_distance": want = np.linalg.norm(ins[0] - ins[1] + p["eps"], ord=p["ord"], axis=-1, keepdims=bool(p["keepdims"]))
    elif op == "cosine_similarity":
        a, b = np.broadcast_arrays(ins[0], ins[1]); ax = p["axis"]
        na = np.maximum(np.linalg.norm(a, axis=ax, keepdims=True), p["eps"]); nb = np.maximum(np.linalg.norm(b, axis=ax, keepdims=True), p["eps"]); want = ((a / na) * (b / nb)).sum(axis=ax)
    n += 1; per[op] = per.get(op, 0) + 1
    got = None if j["out"] is None else arr(j["out"])
    ok = (got is None and want is None) or (got is not None and want is not None and got.shape == np.shape(want) and np.allclose(got, want, rtol=1e-11, atol=1e-11))
    if not ok: bad += 1; print("MISMATCH", op, p, [a.shape for a in ins], None if got is None else got.shape, None if want is None else np.shape(want))
print("audited", n, "mismatches", bad, per)
