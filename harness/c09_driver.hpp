// c09_driver.hpp - E5 kind matrix driver (C09): values of the common input set are template parameters, every
// container kind of an argument is produced from them generically (lift), the loops over kind tuples are compile-time
// loops over integer lists, and a Case (operation, input-set index, kind ids...) is dispatched on the generated instantiations.
//
// An operation is a struct
//     struct op_x {
//         static constexpr const char* name = "x";
//         using inputs = c09::tl< c09::in<arg, arg, ...>, ... >;        // common input set; arg = vals<..> | scal<v> | flag<b> | arr<id> | fix<T>
//         template <typename...A> static auto call(const A&...a);          // the REAL nmtools call
//         template <size_t I, int...Ks> static constexpr bool excluded();  // hard compile errors found by bisection (commented table)
//         static constexpr bool index_result = true;                       // normalise with to_L (index arrays) or with nmc::observe (arrays)
//     };
#pragma once
#include "common.hpp"
#include "nmtools/utility/cast.hpp"

namespace c09 {

// ---- kind alphabet --------------------------------------------------------------------------------------------------
// shape-like arguments
enum : int {
    DYN = 0,   // nmtools_list<nm_index_t>                                  (the reference kind)
    CT  = 1,   // nmtools_tuple<meta::ct<V>...>                              compile-time constants
    CL  = 2,   // nmtools_tuple<clipped_size_t<max(V,1)+1>...>(V...)         bounded values, per-element bound V+1 (V < 0: clipped_integer_t<int,V,-V+1>)
    FIX = 3,   // nmtools_array<nm_index_t,N>
    BND = 4,   // nmtools_static_vector<nm_index_t,8>
    TUP = 5,   // nmtools_tuple<nm_index_t...>                               run-time tuple
    RAW = 6,   // nm_index_t[N]                                              raw C array
    CLA = 7,   // nmtools_array<clipped_size_t<max(V...)+1>,N>               bounded values, uniform bound
    CLT = 8,   // nmtools_tuple<clipped_size_t<max(V,1)>...>(V...)           TIGHT bounds (bound == value, as the shapes of the ls_* array kinds and the
               //                                                             library's "1:[1]"_ct literals are used); only in builds with -DC09_CLT, which
               //                                                             enumerate exactly the kind tuples that contain this kind (added after seeded
               //                                                             change m09b: with the loose bounds of CL the clipped code paths of squeeze & co.
               //                                                             already fail on the pinned tree, which masks any further breakage there)
#ifdef C09_CLT
    NKIND = 9
#else
    NKIND = 8
#endif
};
inline const char* kind_name(int k) { static const char* n[] = {"dyn", "ct", "clipped", "fixed", "bounded", "rtuple", "raw", "clipped_arr", "clipped_tight"}; return (k >= 0 && k < NKIND) ? n[k] : "?"; }

template <long... Vs> struct vals { static constexpr size_t N = sizeof...(Vs); };   // shape-like argument
template <long V> struct scal {};                                                     // scalar index argument (axis, ndim, offset): kinds DYN / CT / CL
template <bool B> struct flag {};                                                     // boolean argument (keepdims): kinds DYN / CT
template <typename T> struct fix {};                                                  // argument without kinds (None, ...): default constructed T
template <typename... A> struct in { static constexpr size_t N = sizeof...(A); };
template <typename... I> struct tl { static constexpr size_t N = sizeof...(I); };

template <size_t I, typename T> struct tl_at;
template <size_t I, template <typename...> class TL, typename H, typename... R> struct tl_at<I, TL<H, R...>> : tl_at<I - 1, TL<R...>> {};
template <template <typename...> class TL, typename H, typename... R> struct tl_at<0, TL<H, R...>> { using type = H; };
template <size_t I, typename T> using tl_at_t = typename tl_at<I, T>::type;

constexpr long cmax(long a, long b) { return a > b ? a : b; }
template <long V> constexpr auto ct_of() { if constexpr (V >= 0) return meta::ct_v<(nm_size_t)V>; else return meta::ct_v<(int)V>; }   // as the _ct literal does
template <long V> constexpr auto clipped_of() {
    if constexpr (V >= 0) return nm::clipped_size_t<(nm_size_t)(cmax(V, 1) + 1)>((nm_size_t)V);
    else return nm::clipped_integer_t<nm_index_t, (int)V, (int)(-V + 1)>((nm_index_t)V);      // as the library's own literal "-1:[2]"_ct: signed, Min = the value itself, Max > 0
}
template <long... Vs> constexpr long max_of() { long m = 1; ((m = Vs > m ? Vs : m), ...); return m; }
template <long... Vs> constexpr bool any_negative() { return ((Vs < 0) || ... || false); }

// ---- the generic lift -----------------------------------------------------------------------------------------------
template <int K> struct kind_c { static constexpr int value = K; };
template <long... Vs> constexpr auto lift(kind_c<CT>)  { return nmtools_tuple{ct_of<Vs>()...}; }
template <long... Vs> constexpr auto lift(kind_c<CL>)  { return nmtools_tuple{clipped_of<Vs>()...}; }
template <long... Vs> constexpr auto lift(kind_c<FIX>) { return nmtools_array<nm_index_t, sizeof...(Vs)>{(nm_index_t)Vs...}; }
template <long... Vs> inline    auto lift(kind_c<BND>) { nmtools_static_vector<nm_index_t, 8> v; (v.push_back((nm_index_t)Vs), ...); return v; }
template <long... Vs> inline    auto lift(kind_c<DYN>) { nmtools_list<nm_index_t> v; (v.push_back((nm_index_t)Vs), ...); return v; }
template <long... Vs> constexpr auto lift(kind_c<TUP>) { return nmtools_tuple{(nm_index_t)Vs...}; }
template <long V> constexpr auto clipped_tight_of() { return nm::clipped_size_t<(nm_size_t)cmax(V, 1)>((nm_size_t)V); }
template <long... Vs> constexpr auto lift(kind_c<CLT>) { return nmtools_tuple{clipped_tight_of<Vs>()...}; }
template <long... Vs> constexpr auto lift(kind_c<CLA>) { using c_t = nm::clipped_size_t<(nm_size_t)(max_of<Vs...>() + 1)>; return nmtools_array<c_t, sizeof...(Vs)>{c_t((nm_size_t)Vs)...}; }

// number of kinds of an argument type (kind ids 0..nkinds-1; a holder may still declare a kind inapplicable)
template <typename A> struct nkinds { static constexpr int value = NKIND; };
template <long V> struct nkinds<scal<V>> { static constexpr int value = 3; };
template <bool B> struct nkinds<flag<B>> { static constexpr int value = 2; };
template <typename T> struct nkinds<fix<T>> { static constexpr int value = 1; };

// holder: owns one lifted argument (needed for raw C arrays, which cannot be returned by value)
template <int K, typename A, typename = void> struct holder { static constexpr bool applicable = false; int v = 0; constexpr const int& get() const { return v; } };
template <int K, long... Vs> struct holder<K, vals<Vs...>, meta::enable_if_t<(K != RAW && K >= 0 && K < NKIND && sizeof...(Vs) > 0 && !((K == CLA || K == CLT) && any_negative<Vs...>()))>> {
    static constexpr bool applicable = true;
    decltype(lift<Vs...>(kind_c<K>{})) v = lift<Vs...>(kind_c<K>{});
    constexpr const auto& get() const { return v; }
};
template <long... Vs> struct holder<RAW, vals<Vs...>, meta::enable_if_t<(sizeof...(Vs) > 0)>> {
    static constexpr bool applicable = true;
    nm_index_t v[sizeof...(Vs)] = {(nm_index_t)Vs...};
    constexpr const auto& get() const { return v; }
};
template <long V> struct holder<DYN, scal<V>, void> { static constexpr bool applicable = true; nm_index_t v = (nm_index_t)V; constexpr const auto& get() const { return v; } };
template <long V> struct holder<CT, scal<V>, void> { static constexpr bool applicable = true; decltype(ct_of<V>()) v = ct_of<V>(); constexpr const auto& get() const { return v; } };
template <long V> struct holder<CL, scal<V>, void> { static constexpr bool applicable = true; decltype(clipped_of<V>()) v = clipped_of<V>(); constexpr const auto& get() const { return v; } };
template <bool B> struct holder<DYN, flag<B>, void> { static constexpr bool applicable = true; bool v = B; constexpr const auto& get() const { return v; } };
template <bool B> struct holder<CT, flag<B>, void> { static constexpr bool applicable = true; meta::conditional_t<B, meta::true_type, meta::false_type> v{}; constexpr const auto& get() const { return v; } };   // nm::True / nm::False (a plain integral_constant<bool,..> is NOT what the library recognises)
template <typename T> struct holder<DYN, fix<T>, void> { static constexpr bool applicable = true; T v{}; constexpr const auto& get() const { return v; } };

// ---- array operands -------------------------------------------------------------------------------------------------
// arrv<S...>: an int array of shape S, elements 1..N (all distinct), row-major.  Kinds (part 3; in the other parts only A_DYN):
enum : int {
    A_DYN = 0,      // na::ndarray_t<nmtools_list<int>, nmtools_list<size_t>>   (the reference kind)
    A_RAW = 1,      // int[S0][S1]...
    A_NESTED = 2,   // cast(raw, kind::nested_arr)  nested nmtools_array
    A_FIXED = 3,    // cast(raw, kind::fixed)       na::fixed_ndarray
    A_HYBRID = 4,   // cast(raw, kind::hybrid)      na::hybrid_ndarray
    A_DYNAMIC = 5,  // cast(raw, kind::dynamic)     na::dynamic_ndarray
    A_CAST0 = 6,    // 6..20: cast(raw, kind::ndarray_{cs,fs,hs,ds,ls}_{fb,hb,db})  (c constant, f fixed, h hybrid, d dynamic, l clipped shape; buffer kinds)
    NARR = 21
};
inline const char* arr_kind_name(int k) {
    static const char* n[] = {"dyn", "raw", "nested_arr", "fixed_ndarray", "hybrid_ndarray", "dynamic_ndarray", "cs_fb", "cs_hb", "cs_db", "fs_fb", "fs_hb", "fs_db", "hs_fb", "hs_hb", "hs_db",
                              "ds_fb", "ds_hb", "ds_db", "ls_fb", "ls_hb", "ls_db"};
    return (k >= 0 && k < NARR) ? n[k] : "?";
}
template <long... S> struct arrv {};
#ifndef C09_ARRAY_KINDS
#define C09_ARRAY_KINDS 1
#endif
template <long... S> struct nkinds<arrv<S...>> { static constexpr int value = C09_ARRAY_KINDS; };

template <typename T, size_t... S> struct raw_of { using type = T; };
template <typename T, size_t S0, size_t... S> struct raw_of<T, S0, S...> { using type = typename raw_of<T, S...>::type[S0]; };
template <int K> constexpr auto arr_kind_tag() {
    namespace kd = na::kind;
    if constexpr (K == A_NESTED) return kd::nested_arr; else if constexpr (K == A_FIXED) return kd::fixed; else if constexpr (K == A_HYBRID) return kd::hybrid;
    else if constexpr (K == A_DYNAMIC) return kd::dynamic;
    else if constexpr (K == 6) return kd::ndarray_cs_fb; else if constexpr (K == 7) return kd::ndarray_cs_hb; else if constexpr (K == 8) return kd::ndarray_cs_db;
    else if constexpr (K == 9) return kd::ndarray_fs_fb; else if constexpr (K == 10) return kd::ndarray_fs_hb; else if constexpr (K == 11) return kd::ndarray_fs_db;
    else if constexpr (K == 12) return kd::ndarray_hs_fb; else if constexpr (K == 13) return kd::ndarray_hs_hb; else if constexpr (K == 14) return kd::ndarray_hs_db;
    else if constexpr (K == 15) return kd::ndarray_ds_fb; else if constexpr (K == 16) return kd::ndarray_ds_hb; else if constexpr (K == 17) return kd::ndarray_ds_db;
    else if constexpr (K == 18) return kd::ndarray_ls_fb; else if constexpr (K == 19) return kd::ndarray_ls_hb; else return kd::ndarray_ls_db;
}
template <long... S> struct raw_holder {
    using raw_t = typename raw_of<int, (size_t)S...>::type;
    static constexpr long N = (S * ... * 1);
    raw_t raw;
    raw_holder() { int* p = reinterpret_cast<int*>(&raw); for (long i = 0; i < N; i++) p[i] = (int)(i + 1); }
};

// ---- slices ---------------------------------------------------------------------------------------------------------
// slc<s0,e0,t0, s1,e1,t1, ...>: one (start, stop, step) triple per axis.  Encodings:
enum : int {
    S_LIST = 0,     // apply_slice(a, nmtools_list<tuple<int,int,int>>)            (the reference: index::shape_dynamic_slice / dynamic_slice)
    S_VARIADIC = 1, // slice(a, tuple{s,e,t}...)                                    run-time ints
    S_PACKED = 2,   // apply_slice(a, tuple{tuple{s,e,t}...})
    S_ARRAY = 3,    // apply_slice(a, nmtools_array<tuple<int,int,int>,N>)
    S_BOUNDED = 4,  // apply_slice(a, nmtools_static_vector<tuple<int,int,int>,4>)
    S_VARIADIC_CT = 5, // slice(a, tuple{ct<s>,ct<e>,ct<t>}...)                     compile-time constants
    S_PACKED_CT = 6,   // apply_slice(a, tuple{tuple{ct...}...})
    NSLC = 7
};
inline const char* slc_kind_name(int k) { static const char* n[] = {"list", "variadic", "packed", "array", "bounded", "variadic_ct", "packed_ct"}; return (k >= 0 && k < NSLC) ? n[k] : "?"; }
template <long... V> struct slc { static_assert(sizeof...(V) % 3 == 0); static constexpr size_t N = sizeof...(V) / 3; };
template <long... V> struct nkinds<slc<V...>> { static constexpr int value = NSLC; };
template <typename T> struct variadic_pack { T t; };     // marks a pack that the operation must expand into slice(a, get<I>(t)...)
using tri_t = nmtools_tuple<int, int, int>;
template <long... V> struct slc_values { static constexpr long v[sizeof...(V)] = {V...}; };
template <int K, long... V> struct slc_lift {
    static constexpr size_t N = sizeof...(V) / 3;
    using sv = slc_values<V...>;
    template <size_t I> static constexpr auto one_rt() { return tri_t{(int)sv::v[3 * I], (int)sv::v[3 * I + 1], (int)sv::v[3 * I + 2]}; }
    template <size_t I> static constexpr auto one_ct() { return nmtools_tuple{ct_of<sv::v[3 * I]>(), ct_of<sv::v[3 * I + 1]>(), ct_of<sv::v[3 * I + 2]>()}; }
    template <size_t... I> static auto make(meta::index_sequence<I...>) {
        if constexpr (K == S_LIST) { nmtools_list<tri_t> l; (l.push_back(one_rt<I>()), ...); return l; }
        else if constexpr (K == S_VARIADIC) { auto t = nmtools_tuple<decltype(one_rt<I>())...>{one_rt<I>()...}; return variadic_pack<decltype(t)>{t}; }   // no CTAD: a single tuple would be copied
        else if constexpr (K == S_PACKED) return nmtools_tuple<decltype(one_rt<I>())...>{one_rt<I>()...};
        else if constexpr (K == S_ARRAY) return nmtools_array<tri_t, N>{one_rt<I>()...};
        else if constexpr (K == S_BOUNDED) { nmtools_static_vector<tri_t, 4> l; (l.push_back(one_rt<I>()), ...); return l; }
        else if constexpr (K == S_VARIADIC_CT) { auto t = nmtools_tuple<decltype(one_ct<I>())...>{one_ct<I>()...}; return variadic_pack<decltype(t)>{t}; }
        else return nmtools_tuple<decltype(one_ct<I>())...>{one_ct<I>()...};
    }
    static auto get() { return make(meta::make_index_sequence<N>{}); }
};

template <long... S> struct holder<A_DYN, arrv<S...>, void> {
    static constexpr bool applicable = true;
    dyn_t<int> v = make_arr<int>(L{S...});
    const auto& get() const { return v; }
};
template <long... S> struct holder<A_RAW, arrv<S...>, void> : raw_holder<S...> {
    static constexpr bool applicable = true;
    const auto& get() const { return this->raw; }
};
template <int K, long... S> struct holder<K, arrv<S...>, meta::enable_if_t<(K >= A_NESTED && K < NARR)>> : raw_holder<S...> {
    using cast_t = decltype(nm::cast(meta::declval<const typename raw_holder<S...>::raw_t&>(), arr_kind_tag<K>()));
    static constexpr bool applicable = !meta::is_fail_v<cast_t> && !meta::is_maybe_v<cast_t>;
    cast_t v = nm::cast(this->raw, arr_kind_tag<K>());
    const auto& get() const { return v; }
};
template <int K, long... V> struct holder<K, slc<V...>, meta::enable_if_t<(K >= 0 && K < NSLC)>> {
    static constexpr bool applicable = true;
    decltype(slc_lift<K, V...>::get()) v = slc_lift<K, V...>::get();
    const auto& get() const { return v; }
};

// ---- normalisation --------------------------------------------------------------------------------------------------
// index results (index arrays, scalars, maybe/either of them) -> Obs{has, shape=(len), data}; fail types -> fail_type
template <typename R> inline Obs norm_index(const R& r) {
    if constexpr (meta::is_fail_v<R>) { Obs o; o.has = false; o.fail_type = true; return o; }
    else if constexpr (meta::is_maybe_v<R>) { if (!nm::has_value(r)) { Obs o; o.has = false; return o; } return norm_index(*r); }
    else if constexpr (meta::is_either_v<R>) {
        using Lt = meta::get_either_left_t<R>; using Rt = meta::get_either_right_t<R>;
        if (auto p = nm::get_if<Lt>(&r)) return norm_index(*p);
        return norm_index(*nm::get_if<Rt>(&r));
    }
    else if constexpr (nm::is_none_v<R>) { Obs o; o.has = true; o.shape = {0}; return o; }
    else {
        Obs o; o.has = true;
        L l = nmc::to_L(r);
        o.scalar = meta::is_index_v<R> || meta::is_constant_index_v<R> || meta::is_num_v<R>;
        if (!o.scalar) o.shape = {(long)l.size()};
        for (long x : l) o.data.push_back((double)x);
        return o;
    }
}
// lazy view + eager evaluation of the same call: both observations form the normalised result
template <typename V, typename E> struct lazy_eager { V lazy; E eager; };
template <typename V, typename E> inline auto lazy_and_eager(const V& v, const E& e) { return lazy_eager<V, E>{v, e}; }
template <typename V, typename E> inline Obs observe_both(const lazy_eager<V, E>& r) {
    const Obs a = nmc::observe(r.lazy), b = nmc::observe(r.eager);
    if (a.fail_type || b.fail_type) { Obs o; o.has = false; o.fail_type = true; return o; }
    if (a.has == b.has && a.scalar == b.scalar && a.shape == b.shape && a.data == b.data && !a.bad_shape && !b.bad_shape) return a;
    Obs o; o.has = true; o.bad_shape = a.bad_shape || b.bad_shape;       // lazy and eager differ: keep both, separated by the marker -1 (shape) / -777 (data)
    o.shape = a.has ? a.shape : L{-3}; o.shape.push_back(-1); for (long x : (b.has ? b.shape : L{-3})) o.shape.push_back(x);
    o.data = a.data; o.data.push_back(-777); o.data.insert(o.data.end(), b.data.begin(), b.data.end());
    return o;
}
template <typename R> struct is_lazy_eager : meta::false_type {};
template <typename V, typename E> struct is_lazy_eager<lazy_eager<V, E>> : meta::true_type {};
template <typename R> constexpr bool result_is_fail() {
    if constexpr (meta::is_fail_v<R>) return true;
    else if constexpr (is_lazy_eager<R>::value) return false;
    else if constexpr (meta::is_maybe_v<R>) return meta::is_fail_v<meta::get_maybe_type_t<R>>;
    else return false;
}

// ---- one instantiation ----------------------------------------------------------------------------------------------
template <typename Op, size_t I, typename Ks, typename Args> struct inst;
template <typename Op, size_t I, int... Ks, typename... A> struct inst<Op, I, meta::integer_sequence<int, Ks...>, in<A...>> {
    static constexpr bool applicable = (holder<Ks, A>::applicable && ...);
    static Obs run() {
        return run_(holder<Ks, A>{}...);
    }
    template <typename... H> static Obs run_(const H&... h) {
        // Op::unsupported<A...>(): the operation's resolve_optype answers with a fail type (calling would then be a hard error in the body)
        if constexpr (Op::template unsupported<meta::remove_cvref_t<decltype(h.get())>...>()) { Obs o; o.has = false; o.fail_type = true; return o; }
        else if constexpr (result_is_fail<meta::remove_cvref_t<decltype(Op::call(h.get()...))>>()) { Obs o; o.has = false; o.fail_type = true; return o; }
        else {
            const auto r = Op::call(h.get()...);
            if constexpr (Op::index_result) return norm_index(r); else if constexpr (is_lazy_eager<meta::remove_cvref_t<decltype(r)>>::value) return observe_both(r); else return nmc::observe(r);
        }
    }
    // compile-time knowledge: is the result's value carried by its TYPE?
    static constexpr bool constant_result() {
        if constexpr (Op::template unsupported<meta::remove_cvref_t<decltype(holder<Ks, A>{}.get())>...>()) return false;
        else {
            using R = meta::remove_cvref_t<decltype(Op::call(holder<Ks, A>{}.get()...))>;
            return meta::is_constant_index_array_v<R> || meta::is_constant_index_v<R>;
        }
    }
};

// ---- constexpr evaluation (-DC09_CONSTEXPR) ---------------------------------------------------------------------------
// `constexpr auto r = f(args)` with every shape-like argument of ONE literal kind K (ct, clipped, fixed, rtuple, raw, clipped_arr) and scalars /
// flags as (constant-initialised) run-time int / bool; r is compared at run time with the all-dynamic run-time result.
template <int K, typename A> struct cx_kind { static constexpr int value = 0; };
template <int K, long... Vs> struct cx_kind<K, vals<Vs...>> { static constexpr int value = K; };
template <typename Op, size_t I, int K, typename Args> struct cx_inst;
template <typename Op, size_t I, int K, typename... A> struct cx_pre;
template <typename Op, size_t I, int K, typename Args> struct cx_pre_of;
template <typename Op, size_t I, int K, typename... A> struct cx_pre_of<Op, I, K, in<A...>> { using type = cx_pre<Op, I, K, A...>; };
template <typename Op, size_t I, int K, typename... A> struct cx_pre {     // applicability, the operation's exclusion table and fail-type precheck
    static constexpr bool applicable = (holder<cx_kind<K, A>::value, A>::applicable && ...) && (K == CT || K == CL || K == FIX || K == TUP || K == RAW || K == CLA);
    static constexpr bool allowed() {
        if constexpr (!applicable) return false;
        else if constexpr (Op::template excluded<I, cx_kind<K, A>::value...>()) return false;
        else return !Op::template unsupported<meta::remove_cvref_t<decltype(holder<cx_kind<K, A>::value, A>{}.get())>...>();
    }
};
template <typename Op, size_t I, int K, typename... A> struct cx_inst<Op, I, K, in<A...>> {
    using hs_t = nmtools_tuple<holder<cx_kind<K, A>::value, A>...>;
    static constexpr hs_t hs{};
    template <size_t... J> static constexpr auto eval(meta::index_sequence<J...>) { return Op::call(nm::get<J>(hs).get()...); }
    static constexpr auto r = eval(meta::make_index_sequence<sizeof...(A)>{});
    static Obs run() { return norm_index(r); }
    using ks = meta::integer_sequence<int, cx_kind<K, A>::value...>;
};

// ---- compile-time loops over kind tuples ---------------------------------------------------------------------------
template <int... Ks> constexpr int deviations() { return ((Ks != DYN ? 1 : 0) + ... + 0); }
template <int... Ks> constexpr bool uniform() { int first = -1; bool u = true; ((first < 0 ? (first = Ks, 0) : (u = u && (Ks == first), 0)), ...); return u; }

// -DC09_CLT builds enumerate exactly the tuples that contain the tight-clipped kind (everything else is covered by the regular units)
template <int... Ks> constexpr bool clt_filter() {
#ifdef C09_CLT
    return ((Ks == CLT) || ... || false);
#else
    return true;
#endif
}
// helpers for the exclusion tables
template <size_t P, int... Ks> constexpr int kind_at() { constexpr int k[] = {Ks..., -1}; return k[P]; }
template <int K, int... Ks> constexpr bool has_kind() { return ((Ks == K) || ... || false); }
template <int K, int... Ks> constexpr int count_kind() { return ((Ks == K ? 1 : 0) + ... + 0); }

#ifndef C09_DEV
#define C09_DEV 1
#endif
// unit splitting: only inputs with index % C09_IMOD == C09_IREM and kind tuples whose FIRST kind id % C09_KMOD == C09_KREM are compiled
#ifndef C09_IMOD
#define C09_IMOD 1
#define C09_IREM 0
#endif
#ifndef C09_KMOD
#define C09_KMOD 1
#define C09_KREM 0
#endif

// deviation bounds: the quick tier explores 1 deviation (+ uniform tuples); for index functions of <= 2 arguments the complete kind x kind matrix
// (2 deviations) is cheap and is part of the quick tier as well (this is where clipped x fixed pairs live)
template <typename Op> constexpr int quick_dev() {
    if constexpr (Op::inputs::N == 0) return 1;
    else if constexpr (Op::index_result) return tl_at_t<0, typename Op::inputs>::N <= 2 ? 2 : 1;
    else return 1;
}
template <typename Op> constexpr int build_dev() { return C09_DEV > quick_dev<Op>() ? C09_DEV : quick_dev<Op>(); }

// visit<Op>(f): f(index_constant<I>, integer_sequence<int,Ks...>) for every input I and every kind tuple that is
//  (a) applicable to the argument types, (b) within C09_DEV deviations or uniform (all arguments of one kind: what upstream tests and
//  what compile-time evaluation needs), (c) not in the operation's table of hard compile errors.
template <typename Op, size_t I, typename Args, int... Done> struct kloop;
template <typename Op, size_t I, typename... A, int... Done> struct kloop<Op, I, in<A...>, Done...> {
    template <typename F> static void go(F&& f) {
        constexpr size_t P = sizeof...(Done);
        if constexpr (P == sizeof...(A)) {
            using seq = meta::integer_sequence<int, Done...>;
            if constexpr ((deviations<Done...>() <= build_dev<Op>() || uniform<Done...>()) && (kind_at<0, Done...>() % C09_KMOD == C09_KREM) && clt_filter<Done...>() && inst<Op, I, seq, in<A...>>::applicable) {
                // the tables of hard compile errors were bisected for CL; CLT has the same type structure (a tuple of clipped_size_t) and is looked up as CL
                if constexpr (!Op::template excluded<I, (Done == CLT ? (int)CL : Done)...>()) f(meta::index_constant<I>{}, seq{}, meta::false_type{});
                else f(meta::index_constant<I>{}, seq{}, meta::true_type{});      // in the table of hard compile errors: reported to the visitor, never instantiated
            }
        } else {
            using arg_t = tl_at_t<P, in<A...>>;
            next<arg_t>(f, meta::make_index_sequence<(size_t)nkinds<arg_t>::value>{});
        }
    }
    template <typename arg_t, typename F, size_t... K> static void next(F&& f, meta::index_sequence<K...>) {
        (step<arg_t, (int)K>(f), ...);
    }
    template <typename arg_t, int K, typename F> static void step(F&& f) {
        if constexpr (holder<K, arg_t>::applicable && (deviations<Done..., K>() <= build_dev<Op>() || uniform<Done..., K>())) kloop<Op, I, in<A...>, Done..., K>::go(f);
    }
};
template <typename Op, size_t I, typename F> inline void visit_input(F&& f) { if constexpr (I % C09_IMOD == C09_IREM) kloop<Op, I, tl_at_t<I, typename Op::inputs>>::go(f); }
template <typename Op, typename F, size_t... I> inline void visit_(F&& f, meta::index_sequence<I...>) { (visit_input<Op, I>(f), ...); }
template <typename Op, typename F> inline void visit(F&& f) { visit_<Op>(f, meta::make_index_sequence<Op::inputs::N>{}); }

template <int... Ks> inline L kinds_L(meta::integer_sequence<int, Ks...>) { return L{(long)Ks...}; }
template <typename A> struct kind_namer { static const char* name(int k) { return kind_name(k); } };
template <long V> struct kind_namer<scal<V>> { static const char* name(int k) { static const char* n[] = {"int", "ct", "clipped"}; return k >= 0 && k < 3 ? n[k] : "?"; } };
template <bool B> struct kind_namer<flag<B>> { static const char* name(int k) { return k == 0 ? "bool" : "ct"; } };
template <typename T> struct kind_namer<fix<T>> { static const char* name(int) { return "-"; } };
template <long... S> struct kind_namer<arrv<S...>> { static const char* name(int k) { return arr_kind_name(k); } };
template <long... V> struct kind_namer<slc<V...>> { static const char* name(int k) { return slc_kind_name(k); } };
template <typename... A, int... Ks> inline std::string kinds_str(in<A...>, meta::integer_sequence<int, Ks...>) { std::string s; ((s += (s.empty() ? "" : ","), s += kind_namer<A>::name(Ks)), ...); return s; }
template <int... Ks> constexpr int dev_of(meta::integer_sequence<int, Ks...>) { return deviations<Ks...>(); }
template <int... Ks> constexpr bool uni_of(meta::integer_sequence<int, Ks...>) { return uniform<Ks...>(); }
template <int... Ks> constexpr auto all_dyn(meta::integer_sequence<int, Ks...>) { return meta::integer_sequence<int, (Ks * 0)...>{}; }

inline std::string obs_diff(const Obs& ref, const Obs& got) {
    if (got.bad_shape) return "absurd shape " + nmc::str(got.shape);
    if (ref.has != got.has) return std::string("has_value: dynamic ") + (ref.has ? ref.str() : "Nothing") + " vs " + (got.has ? got.str() : "Nothing");
    if (!ref.has) return "";
    if (ref.scalar != got.scalar) return "scalar vs array: dynamic " + ref.str() + " vs " + got.str();
    if (ref.shape != got.shape) return "shape: dynamic " + nmc::str(ref.shape) + " vs " + nmc::str(got.shape) + " (dynamic " + ref.str() + " vs " + got.str() + ")";
    if (ref.data != got.data) return "elements: dynamic " + ref.str() + " vs " + got.str();
    return "";
}

// ---- enumerate / execute one operation ------------------------------------------------------------------------------
// Case = (op name, {input index}, {kind ids...}); tier quick: deviations <= 1 or uniform; thorough: deviations <= C09_DEV or uniform
template <typename Op> inline void enumerate_op(const nmc::Tier& t, const nmc::Sink& emit) {
    long n_excluded = 0;
    for (int pass = 0; pass <= 3; pass++)   // simplest first: by number of deviations
        visit<Op>([&](auto i, auto ks, auto is_excluded) {
            constexpr int d = dev_of(decltype(ks){});
            int cls = d > 3 ? 3 : d;
            if (cls != pass) return;
            bool uni = uni_of(decltype(ks){});
            if (!t.thorough() && d > quick_dev<Op>() && !uni) return;
            if constexpr (decltype(is_excluded)::value) n_excluded++;
            else emit(Case(Op::name, {{(long)decltype(i)::value}, kinds_L(ks)}));
        });
    if (Op::inputs::N > 0) nmc::count_max((std::string("excluded_hard_error/") + Op::name).c_str(), n_excluded);
}

template <typename Op> inline bool execute_op(const Case& c, Outcome& out) {
    if (c.op != Op::name) return false;
    bool found = false;
    if (c.a.size() != 2 || c.a[0].size() != 1) { out = Outcome::bad("wrong", "malformed case"); return true; }
    visit<Op>([&](auto i, auto ks, auto is_excluded) {
        if constexpr (!decltype(is_excluded)::value) {
        if (found) return;
        constexpr size_t I = decltype(i)::value;
        using KS = decltype(ks);
        if ((long)I != c.a[0][0] || kinds_L(ks) != c.a[1]) return;
        found = true;
        using args_t = tl_at_t<I, typename Op::inputs>;
        using ref_t = inst<Op, I, decltype(all_dyn(ks)), args_t>;
        using got_t = inst<Op, I, KS, args_t>;
        Obs ref = ref_t::run();
        Obs got = got_t::run();
        nmc::count("combinations_executed");
        if (got.fail_type) { nmc::count("skipped_unsupported"); nmc::count((std::string("skipped_unsupported/") + Op::name).c_str()); out = Outcome::ok(false, 0); return; }
        nmc::count((std::string("supported/") + Op::name).c_str());
        if (ref.fail_type) { out = Outcome::bad("wrong", "the all-dynamic reference is a fail type"); return; }
        constexpr int d = dev_of(KS{});
        if constexpr (d > 0) { if (got_t::constant_result()) nmc::count("compile_time_results_compared"); }
        nmc::count_max("deviation_bound_compiled", build_dev<Op>());
        std::string df = obs_diff(ref, got);
        uint64_t h = got.hash();   // hash of the normalised observation
        // non-trivial: a kind other than dynamic is involved and the reference result is a success with >= 1 element, or a failure
        bool nontrivial = d > 0;
        if (df.empty()) out = Outcome::ok(nontrivial, h);
        else out = Outcome::bad(!ref.has ? "accepts-invalid" : (!got.has ? "rejects-valid" : "wrong"), "[" + kinds_str(args_t{}, ks) + "] " + df, nontrivial, h);
        }
    });
    if (!found) out = Outcome::bad("wrong", "case not in the compiled matrix (unknown input index / kind tuple, or deviation bound of this build too small)");
    return true;
}

// constexpr family: Case = (op name + "@cx", {input index}, {K})
template <typename Op, typename F, size_t... I> inline void visit_cx_(F&& f, meta::index_sequence<I...>) {
    auto one = [&](auto i) {
        constexpr size_t II = decltype(i)::value;
        using args_t = tl_at_t<II, typename Op::inputs>;
        meta::template_for<NKIND>([&](auto k) {
            constexpr int K = (int)decltype(k)::value;
            if constexpr (II % C09_IMOD == C09_IREM && K != DYN && K != BND) {
                if constexpr (cx_pre_of<Op, II, K, args_t>::type::allowed()) { if constexpr (Op::template constexpr_ok<II, K>()) f(i, k); }
            }
        });
    };
    (one(meta::index_constant<I>{}), ...);
}
template <typename Op> inline void enumerate_cx(const nmc::Tier&, const nmc::Sink& emit) {
#ifdef C09_CONSTEXPR
    visit_cx_<Op>([&](auto i, auto k) { emit(Case(std::string(Op::name) + "@cx", {{(long)decltype(i)::value}, {(long)decltype(k)::value}})); }, meta::make_index_sequence<Op::inputs::N>{});
#endif
}
template <typename Op> inline bool execute_cx(const Case& c, Outcome& out) {
#ifdef C09_CONSTEXPR
    if (c.op != std::string(Op::name) + "@cx") return false;
    bool found = false;
    visit_cx_<Op>([&](auto i, auto k) {
        constexpr size_t I = decltype(i)::value; constexpr int K = (int)decltype(k)::value;
        if (found || c.a.size() != 2 || c.a[0] != L{(long)I} || c.a[1] != L{(long)K}) return;
        found = true;
        using args_t = tl_at_t<I, typename Op::inputs>;
        using cx_t = cx_inst<Op, I, K, args_t>;
        using ref_t = inst<Op, I, decltype(all_dyn(typename cx_t::ks{})), args_t>;
        Obs ref = ref_t::run(), got = cx_t::run();
        nmc::count("constexpr_results_compared");
        std::string df = obs_diff(ref, got);
        uint64_t h = got.hash();
        if (df.empty()) out = Outcome::ok(true, h);
        else out = Outcome::bad(!ref.has ? "accepts-invalid" : (!got.has ? "rejects-valid" : "wrong"), std::string("[constexpr, ") + kind_name(K) + "] " + df, true, h);
    }, meta::make_index_sequence<Op::inputs::N>{});
    if (!found) out = Outcome::bad("wrong", "constexpr case not in the compiled matrix");
    return true;
#else
    return false;
#endif
}

template <typename... Ops> struct oplist {
    static void enumerate(const nmc::Tier& t, const nmc::Sink& emit) { (enumerate_op<Ops>(t, emit), ...); (enumerate_cx<Ops>(t, emit), ...); }
    static Outcome execute(const Case& c) { Outcome o; bool hit = (execute_op<Ops>(c, o) || ...) || (execute_cx<Ops>(c, o) || ...); if (!hit) return Outcome::bad("wrong", "unknown operation"); return o; }
};

} // namespace c09
