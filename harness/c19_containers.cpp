// C19 - the STL-free containers behave like their standard counterparts over any history (E3: history BFS)
//
// Subjects (each with 2 object slots so that copies / assignments between objects and their independence are
// part of every history): utl::vector<int>, utl::vector<double>, utl::static_vector<int,4>, utl::array<int,3>,
// utl::tuple / utl::tuplev2 <int,double,int>, utl::maybe<T> and utl::either<L,R> with trivial and non-trivial
// alternatives (int, utl::vector<int>, a lifetime-tracking type), nmtools::small_vector<int,3> assembled from
// the utl pieces.  Alphabet per slot: default / sized(n) / variadic construct, copy-construct from the other,
// assign-from(other | self), push_back(v), resize(n), write(i,v); every element is READ after every step.
// Model: std::vector / std::array / std::tuple / std::optional / std::variant (static_vector: an operation
// beyond the capacity is refused and leaves the object unchanged).
// Non-trivial state (coverage rule): canonical state first reached by a history containing at least one
// mutating operation (anything but a plain construction).
#include <vector>
#include <array>
#include <tuple>
#include <optional>
#include <variant>
#include "nmc_bfs.hpp"
#define nmtools_malloc nmc_bfs_malloc
#define nmtools_free nmc_bfs_free
#include "nmtools/utl.hpp"
#include "nmtools/utility/small_vector.hpp"
#include "nmtools/verif.hpp"

namespace utl = nmtools::utl;
using nmc::bfs::Subject; using nmc::bfs::Canon; using nmc::bfs::g_arena; using nmc::bfs::g_hook_msg;

static std::string S(long v) { return std::to_string(v); }
template <class T> static std::string SV(T v) { char b[64]; snprintf(b, sizeof b, "%g", (double)v); return b; }

// ---- a lifetime-tracking element type ---------------------------------------------------------------------
struct Tracked {
    static constexpr unsigned M = 0x7ac3d001u;
    int v; unsigned magic;
    static inline long live = 0;
    static void bad(const char* what) { if (g_hook_msg.empty()) g_hook_msg = std::string("Tracked: ") + what; }
    Tracked() : v(0), magic(M) { live++; }
    Tracked(int x) : v(x), magic(M) { live++; }
    Tracked(const Tracked& o) : v(o.v), magic(M) { if (o.magic != M) bad("copy-constructed from an object that is not alive"); live++; }
    Tracked& operator=(const Tracked& o) { if (magic != M) bad("assignment INTO storage that holds no constructed object"); if (o.magic != M) bad("assignment FROM an object that is not alive"); v = o.v; return *this; }
    ~Tracked() { if (magic != M) bad("destructor run on storage that holds no constructed object"); else live--; magic = 0xdead; }
};

// ---- generic two-slot world -----------------------------------------------------------------------------------
template <class Impl, class Model> struct Slots {
    bool alive[2] = {false, false};
    Model model[2];
    Impl* obj(int s) { return (Impl*)g_arena.slot((size_t)s); }
    void reset() { alive[0] = alive[1] = false; model[0] = Model(); model[1] = Model(); static_assert(sizeof(Impl) <= nmc::bfs::Arena::SLOT_BYTES, "slot too small"); }
    void canon(Canon& c) { for (int s = 0; s < 2; s++) { c.tag(alive[s] ? 'A' : 'D'); if (alive[s]) c.raw(obj(s), sizeof(Impl)); } }
    std::string teardown(long extra_live = 0) {
        for (int s = 1; s >= 0; s--) if (alive[s]) { obj(s)->~Impl(); alive[s] = false; }
        model[0] = Model(); model[1] = Model();
        if (g_arena.live() != 0) return "memory leak: " + S(g_arena.live()) + " block(s), " + S(g_arena.live_bytes()) + " bytes still allocated after every object was destroyed";
        if (g_arena.bad_free) return g_arena.first_bad;
        if (extra_live) return "lifetime imbalance: " + S(extra_live) + " tracked element(s) constructed but never destroyed (negative: destroyed twice)";
        return "";
    }
};

struct Op { int kind, slot, a; };
template <class X> static auto span_of(const X& x) -> decltype((size_t)(x.end() - x.begin())) { return (size_t)(x.end() - x.begin()); }
template <class T, size_t N> static size_t span_of(const utl::static_vector<T, N>& x) { return (size_t)(utl::end(x) - utl::begin(x)); }

// ================= sequence containers =========================================================================
enum { Q_CTOR_DEF, Q_CTOR_N, Q_CTOR_V2, Q_CTOR_V3, Q_CTOR_COPY, Q_ASSIGN, Q_ASSIGN_SELF, Q_PUSH, Q_RESIZE, Q_WRITE };
template <class Impl, class T, int CAP, int MAXN, bool VARIADIC> struct SeqSubject : Subject {
    const char* nm; int dq, dt;
    std::vector<Op> ops; Slots<Impl, std::vector<T>> w;
    SeqSubject(const char* n, int depth_quick, int depth_thorough) : nm(n), dq(depth_quick), dt(depth_thorough) {
        for (int s = 0; s < 2; s++) {
            ops.push_back({Q_CTOR_DEF, s, 0});
            for (int k = 0; k <= MAXN; k++) ops.push_back({Q_CTOR_N, s, k});
            if (VARIADIC) { ops.push_back({Q_CTOR_V2, s, 0}); ops.push_back({Q_CTOR_V3, s, 0}); }
            ops.push_back({Q_CTOR_COPY, s, 0}); ops.push_back({Q_ASSIGN, s, 0}); ops.push_back({Q_ASSIGN_SELF, s, 0});
            ops.push_back({Q_PUSH, s, 1}); ops.push_back({Q_PUSH, s, 2});
            for (int k = 0; k <= MAXN; k++) ops.push_back({Q_RESIZE, s, k});
            for (int k = 0; k < MAXN; k++) ops.push_back({Q_WRITE, s, k});
        }
    }
    const char* name() const override { return nm; }
    int nops() const override { return (int)ops.size(); }
    int depth(bool t) const override { return t ? dt : dq; }
    bool mutating(int o) const override { return ops[(size_t)o].kind >= Q_CTOR_COPY; }
    std::string op_name(int o) const override {
        const Op& p = ops[(size_t)o]; std::string x = p.slot ? "b" : "a", y = p.slot ? "a" : "b";
        switch (p.kind) { case Q_CTOR_DEF: return x + "=T()"; case Q_CTOR_N: return x + "=T(" + S(p.a) + ")"; case Q_CTOR_V2: return x + "=T{1,2}"; case Q_CTOR_V3: return x + "=T{1,2,3}";
            case Q_CTOR_COPY: return x + "=T(" + y + ")"; case Q_ASSIGN: return x + "=" + y; case Q_ASSIGN_SELF: return x + "=" + x; case Q_PUSH: return x + ".push_back(" + S(p.a) + ")";
            case Q_RESIZE: return x + ".resize(" + S(p.a) + ")"; default: return x + "[" + S(p.a) + "]=7"; }
    }
    void reset() override { w.reset(); }
    bool enabled(int o) override {
        const Op& p = ops[(size_t)o]; int s = p.slot, t = 1 - s;
        switch (p.kind) { case Q_CTOR_DEF: case Q_CTOR_N: case Q_CTOR_V2: case Q_CTOR_V3: return !w.alive[s]; case Q_CTOR_COPY: return !w.alive[s] && w.alive[t];
            case Q_ASSIGN: return w.alive[s] && w.alive[t]; case Q_WRITE: return w.alive[s] && p.a < (int)w.model[s].size(); default: return w.alive[s]; }
    }
    static bool fits(size_t n) { return CAP < 0 || n <= (size_t)CAP; }
    std::string apply(int o) override {
        const Op& p = ops[(size_t)o]; int s = p.slot, t = 1 - s; Impl* x = w.obj(s); auto& m = w.model[s];
        switch (p.kind) {
        case Q_CTOR_DEF: new (x) Impl(); m.clear(); w.alive[s] = true; break;
        case Q_CTOR_N: new (x) Impl((typename Impl::size_type)p.a); if (fits((size_t)p.a)) m.assign((size_t)p.a, T()); else m.clear(); w.alive[s] = true; break;
        case Q_CTOR_V2: if constexpr (VARIADIC) { new (x) Impl((T)1, (T)2); m = {(T)1, (T)2}; w.alive[s] = true; } break;
        case Q_CTOR_V3: if constexpr (VARIADIC) { new (x) Impl((T)1, (T)2, (T)3); m = {(T)1, (T)2, (T)3}; w.alive[s] = true; } break;
        case Q_CTOR_COPY: new (x) Impl(*w.obj(t)); m = w.model[t]; w.alive[s] = true; break;
        case Q_ASSIGN: *x = *w.obj(t); m = w.model[t]; break;
        case Q_ASSIGN_SELF: { Impl& r = *x; *x = r; } break;
        case Q_PUSH: x->push_back((T)p.a); if (fits(m.size() + 1)) m.push_back((T)p.a); break;
        case Q_RESIZE: x->resize((typename Impl::size_type)p.a); if (fits((size_t)p.a)) m.resize((size_t)p.a); break;
        default: (*x)[(typename Impl::size_type)p.a] = (T)7; m[(size_t)p.a] = (T)7; break;
        }
        return observe();
    }
    std::string observe() {
        for (int s = 0; s < 2; s++) if (w.alive[s]) {
            const Impl& x = *w.obj(s); const auto& m = w.model[s]; std::string who = s ? "b" : "a";
            if ((size_t)x.size() != m.size()) return who + ".size() = " + S((long)x.size()) + ", std model has " + S((long)m.size());
            if (CAP >= 0 && (long)x.size() > CAP) return who + ".size() exceeds the capacity";
            for (size_t i = 0; i < m.size(); i++) {
                T a = x[(typename Impl::size_type)i], b = x.at((typename Impl::size_type)i), d = x.data()[i];
                if (!(a == m[i]) || !(b == m[i]) || !(d == m[i])) return who + "[" + S((long)i) + "] = " + SV(a) + " (at: " + SV(b) + ", data: " + SV(d) + "), std model has " + SV(m[i]);
            }
            if (span_of(x) != m.size()) return who + ": end()-begin() != size()";
        }
        return "";
    }
    void canon(Canon& c) override { w.canon(c); }
    std::string teardown() override { return w.teardown(); }
};

// ================= fixed-size aggregates: array<int,3>, tuple<int,double,int> =====================================
enum { F_CTOR_DEF, F_CTOR_VALS, F_CTOR_COPY, F_ASSIGN, F_ASSIGN_SELF, F_WRITE };
template <class Impl, class Acc> struct FixedSubject : Subject {   // Acc: get(impl,i) -> double&-like read / write
    const char* nm; std::vector<Op> ops; Slots<Impl, std::array<double, 3>> w;
    FixedSubject(const char* n) : nm(n) { for (int s = 0; s < 2; s++) { ops.push_back({F_CTOR_DEF, s, 0}); ops.push_back({F_CTOR_VALS, s, 1}); ops.push_back({F_CTOR_VALS, s, 4}); ops.push_back({F_CTOR_COPY, s, 0}); ops.push_back({F_ASSIGN, s, 0}); ops.push_back({F_ASSIGN_SELF, s, 0}); for (int i = 0; i < 3; i++) ops.push_back({F_WRITE, s, i}); } }
    const char* name() const override { return nm; }
    int nops() const override { return (int)ops.size(); }
    int depth(bool t) const override { return t ? 7 : 5; }
    bool mutating(int o) const override { return ops[(size_t)o].kind >= F_CTOR_COPY; }
    std::string op_name(int o) const override { const Op& p = ops[(size_t)o]; std::string x = p.slot ? "b" : "a", y = p.slot ? "a" : "b";
        switch (p.kind) { case F_CTOR_DEF: return x + "=T{}"; case F_CTOR_VALS: return x + "=T{" + S(p.a) + "," + S(p.a + 1) + "," + S(p.a + 2) + "}"; case F_CTOR_COPY: return x + "=T(" + y + ")"; case F_ASSIGN: return x + "=" + y; case F_ASSIGN_SELF: return x + "=" + x; default: return "get<" + S(p.a) + ">(" + x + ")=9"; } }
    void reset() override { w.reset(); }
    bool enabled(int o) override { const Op& p = ops[(size_t)o]; int s = p.slot, t = 1 - s; switch (p.kind) { case F_CTOR_DEF: case F_CTOR_VALS: return !w.alive[s]; case F_CTOR_COPY: return !w.alive[s] && w.alive[t]; case F_ASSIGN: return w.alive[s] && w.alive[t]; default: return w.alive[s]; } }
    std::string apply(int o) override {
        const Op& p = ops[(size_t)o]; int s = p.slot, t = 1 - s; Impl* x = w.obj(s); auto& m = w.model[s];
        switch (p.kind) {
        case F_CTOR_DEF: new (x) Impl{}; m = {0, 0, 0}; w.alive[s] = true; break;
        case F_CTOR_VALS: Acc::construct(x, p.a); m = {(double)p.a, (double)p.a + 1, (double)p.a + 2}; w.alive[s] = true; break;
        case F_CTOR_COPY: new (x) Impl(*w.obj(t)); m = w.model[t]; w.alive[s] = true; break;
        case F_ASSIGN: *x = *w.obj(t); m = w.model[t]; break;
        case F_ASSIGN_SELF: { Impl& r = *x; *x = r; } break;
        default: Acc::write(*x, p.a, 9); m[(size_t)p.a] = 9; break;
        }
        for (int q = 0; q < 2; q++) if (w.alive[q]) for (int i = 0; i < 3; i++) { double g = Acc::read(*w.obj(q), i); if (g != w.model[q][(size_t)i]) return std::string(q ? "b" : "a") + ": element " + S(i) + " = " + SV(g) + ", std model has " + SV(w.model[q][(size_t)i]); }
        return "";
    }
    void canon(Canon& c) override { w.canon(c); }
    std::string teardown() override { return w.teardown(); }
};
struct ArrAcc { using I = utl::array<int, 3>; static void construct(I* x, int a) { new (x) I{a, a + 1, a + 2}; } static double read(const I& x, int i) { double v = x[i]; if (x.at(i) != x[i] || x.data()[i] != x[i] || x.size() != 3) return -12345; return v; } static void write(I& x, int i, int v) { x[i] = v; } };
template <class Tp> struct TupAcc { using I = Tp; static void construct(I* x, int a) { new (x) I(a, (double)(a + 1), a + 2); }
    static double read(const I& x, int i) { return i == 0 ? (double)utl::get<0>(x) : i == 1 ? (double)utl::get<1>(x) : (double)utl::get<2>(x); }
    static void write(I& x, int i, int v) { if (i == 0) utl::get<0>(x) = v; else if (i == 1) utl::get<1>(x) = v; else utl::get<2>(x) = v; } };

// ================= element traits for maybe / either ==============================================================
template <class T> struct El;
template <> struct El<int> { using M = int; static int make(int k) { return 10 + k; } static M mmake(int k) { return 10 + k; } static bool eq(const int& a, const M& b) { return a == b; } static void mut(int& a) { a += 100; } static void mmut(M& a) { a += 100; } static std::string str(const int& a) { return S(a); } };
template <> struct El<double> { using M = double; static double make(int k) { return 0.5 + k; } static M mmake(int k) { return 0.5 + k; } static bool eq(const double& a, const M& b) { return a == b; } static void mut(double& a) { a += 100; } static void mmut(M& a) { a += 100; } static std::string str(const double& a) { return SV(a); } };
template <> struct El<Tracked> { using M = int; static Tracked make(int k) { return Tracked(20 + k); } static M mmake(int k) { return 20 + k; } static bool eq(const Tracked& a, const M& b) { return a.magic == Tracked::M && a.v == b; } static void mut(Tracked& a) { a.v += 100; } static void mmut(M& a) { a += 100; } static std::string str(const Tracked& a) { return S(a.v) + (a.magic == Tracked::M ? "" : "(not alive)"); } };
template <> struct El<utl::vector<int>> { using T = utl::vector<int>; using M = std::vector<int>;
    static T make(int k) { T v; int n = k ? 6 : 2; for (int i = 0; i < n; i++) v.push_back(30 + 10 * k + i); return v; }      // k=1: larger than the initial buffer of 4
    static M mmake(int k) { M v; int n = k ? 6 : 2; for (int i = 0; i < n; i++) v.push_back(30 + 10 * k + i); return v; }
    static bool eq(const T& a, const M& b) { if (a.size() != b.size()) return false; for (size_t i = 0; i < b.size(); i++) if (a[i] != b[i]) return false; return true; }
    static void mut(T& a) { a.push_back(99); } static void mmut(M& a) { a.push_back(99); }
    static std::string str(const T& a) { std::string s = "["; for (size_t i = 0; i < a.size() && i < 12; i++) s += (i ? "," : "") + S(a[i]); return s + "] (size " + S((long)a.size()) + ")"; } };

// ================= tuples with a NON-TRIVIAL member: tuple<vector<int>, int> ===========================================
enum { T_CTOR_DEF, T_CTOR_VALS, T_CTOR_COPY, T_ASSIGN, T_ASSIGN_SELF, T_PUSH, T_WRITE };
template <class Impl> struct TupleNTSubject : Subject {
    using EV = El<utl::vector<int>>; using MM = std::tuple<std::vector<int>, int>;
    const char* nm; std::vector<Op> ops; Slots<Impl, MM> w;
    TupleNTSubject(const char* n) : nm(n) { for (int s = 0; s < 2; s++) { ops.push_back({T_CTOR_DEF, s, 0}); ops.push_back({T_CTOR_VALS, s, 0}); ops.push_back({T_CTOR_VALS, s, 1}); ops.push_back({T_CTOR_COPY, s, 0}); ops.push_back({T_ASSIGN, s, 0}); ops.push_back({T_ASSIGN_SELF, s, 0}); ops.push_back({T_PUSH, s, 0}); ops.push_back({T_WRITE, s, 0}); } }
    const char* name() const override { return nm; }
    int nops() const override { return (int)ops.size(); }
    int depth(bool t) const override { return t ? 7 : 5; }
    bool mutating(int o) const override { return ops[(size_t)o].kind >= T_CTOR_COPY; }
    std::string op_name(int o) const override { const Op& p = ops[(size_t)o]; std::string x = p.slot ? "b" : "a", y = p.slot ? "a" : "b";
        switch (p.kind) { case T_CTOR_DEF: return x + "=T()"; case T_CTOR_VALS: return x + "=T(v" + S(p.a) + "," + S(5 + p.a) + ")"; case T_CTOR_COPY: return x + "=T(" + y + ")"; case T_ASSIGN: return x + "=" + y; case T_ASSIGN_SELF: return x + "=" + x; case T_PUSH: return "get<0>(" + x + ").push_back(99)"; default: return "get<1>(" + x + ")=9"; } }
    void reset() override { w.reset(); }
    bool enabled(int o) override { const Op& p = ops[(size_t)o]; int s = p.slot, t = 1 - s; switch (p.kind) { case T_CTOR_DEF: case T_CTOR_VALS: return !w.alive[s]; case T_CTOR_COPY: return !w.alive[s] && w.alive[t]; case T_ASSIGN: return w.alive[s] && w.alive[t]; default: return w.alive[s]; } }
    std::string apply(int o) override {
        const Op& p = ops[(size_t)o]; int s = p.slot, t = 1 - s; Impl* x = w.obj(s); auto& m = w.model[s];
        switch (p.kind) {
        case T_CTOR_DEF: new (x) Impl(); m = MM(); w.alive[s] = true; break;
        case T_CTOR_VALS: { auto v = EV::make(p.a); new (x) Impl(v, 5 + p.a); m = MM(EV::mmake(p.a), 5 + p.a); w.alive[s] = true; } break;
        case T_CTOR_COPY: new (x) Impl(*w.obj(t)); m = w.model[t]; w.alive[s] = true; break;
        case T_ASSIGN: *x = *w.obj(t); m = w.model[t]; break;
        case T_ASSIGN_SELF: { Impl& r = *x; *x = r; } break;
        case T_PUSH: utl::get<0>(*x).push_back(99); std::get<0>(m).push_back(99); break;
        default: utl::get<1>(*x) = 9; std::get<1>(m) = 9; break;
        }
        for (int q = 0; q < 2; q++) if (w.alive[q]) { const Impl& y = *w.obj(q); const auto& mm = w.model[q]; std::string who = q ? "b" : "a";
            if (!EV::eq(utl::get<0>(y), std::get<0>(mm))) return who + ": get<0> holds " + EV::str(utl::get<0>(y)) + ", which differs from the std::tuple model";
            if (utl::get<1>(y) != std::get<1>(mm)) return who + ": get<1> = " + S(utl::get<1>(y)) + ", std::tuple model has " + S(std::get<1>(mm)); }
        return "";
    }
    void canon(Canon& c) override { w.canon(c); }
    std::string teardown() override { return w.teardown(); }
};

// ================= maybe<T> =========================================================================================
enum { M_CTOR_EMPTY, M_CTOR_NOTHING, M_CTOR_VAL, M_CTOR_COPY, M_ASSIGN_VAL, M_ASSIGN_NOTHING, M_ASSIGN, M_ASSIGN_SELF, M_MUTATE };
template <class T> struct MaybeSubject : Subject {
    using Impl = utl::maybe<T>; using E = El<T>; using MM = std::optional<typename E::M>;
    const char* nm; std::vector<Op> ops; Slots<Impl, MM> w; bool tracked;
    MaybeSubject(const char* n) : nm(n), tracked(std::is_same_v<T, Tracked>) { for (int s = 0; s < 2; s++) { ops.push_back({M_CTOR_EMPTY, s, 0}); ops.push_back({M_CTOR_NOTHING, s, 0}); ops.push_back({M_CTOR_VAL, s, 0}); ops.push_back({M_CTOR_VAL, s, 1}); ops.push_back({M_CTOR_COPY, s, 0});
        ops.push_back({M_ASSIGN_VAL, s, 0}); ops.push_back({M_ASSIGN_VAL, s, 1}); ops.push_back({M_ASSIGN_NOTHING, s, 0}); ops.push_back({M_ASSIGN, s, 0}); ops.push_back({M_ASSIGN_SELF, s, 0}); ops.push_back({M_MUTATE, s, 0}); } }
    const char* name() const override { return nm; }
    int nops() const override { return (int)ops.size(); }
    int depth(bool t) const override { return t ? 7 : 5; }
    bool mutating(int o) const override { return ops[(size_t)o].kind >= M_CTOR_COPY; }
    std::string op_name(int o) const override { const Op& p = ops[(size_t)o]; std::string x = p.slot ? "b" : "a", y = p.slot ? "a" : "b";
        switch (p.kind) { case M_CTOR_EMPTY: return x + "=maybe()"; case M_CTOR_NOTHING: return x + "=maybe(nothing)"; case M_CTOR_VAL: return x + "=maybe(v" + S(p.a) + ")"; case M_CTOR_COPY: return x + "=maybe(" + y + ")"; case M_ASSIGN_VAL: return x + "=v" + S(p.a);
            case M_ASSIGN_NOTHING: return x + "=nothing"; case M_ASSIGN: return x + "=" + y; case M_ASSIGN_SELF: return x + "=" + x; default: return "mutate(*" + x + ")"; } }
    void reset() override { w.reset(); if (tracked) Tracked::live = 0; }
    bool enabled(int o) override { const Op& p = ops[(size_t)o]; int s = p.slot, t = 1 - s; switch (p.kind) { case M_CTOR_EMPTY: case M_CTOR_NOTHING: case M_CTOR_VAL: return !w.alive[s]; case M_CTOR_COPY: return !w.alive[s] && w.alive[t]; case M_ASSIGN: return w.alive[s] && w.alive[t]; case M_MUTATE: return w.alive[s] && w.model[s].has_value(); default: return w.alive[s]; } }
    std::string apply(int o) override {
        const Op& p = ops[(size_t)o]; int s = p.slot, t = 1 - s; Impl* x = w.obj(s); auto& m = w.model[s];
        switch (p.kind) {
        case M_CTOR_EMPTY: new (x) Impl(); m.reset(); w.alive[s] = true; break;
        case M_CTOR_NOTHING: new (x) Impl(utl::nothing); m.reset(); w.alive[s] = true; break;
        case M_CTOR_VAL: { T v = E::make(p.a); new (x) Impl(v); m = E::mmake(p.a); w.alive[s] = true; } break;
        case M_CTOR_COPY: new (x) Impl(*w.obj(t)); m = w.model[t]; w.alive[s] = true; break;
        case M_ASSIGN_VAL: { T v = E::make(p.a); *x = v; m = E::mmake(p.a); } break;
        case M_ASSIGN_NOTHING: *x = utl::nothing; m.reset(); break;
        case M_ASSIGN: *x = *w.obj(t); m = w.model[t]; break;
        case M_ASSIGN_SELF: { Impl& r = *x; *x = r; } break;
        default: E::mut(**x); E::mmut(*m); break;
        }
        for (int q = 0; q < 2; q++) if (w.alive[q]) { const Impl& y = *w.obj(q); const auto& mm = w.model[q]; std::string who = q ? "b" : "a";
            if (y.has_value() != mm.has_value() || (bool)y != mm.has_value()) return who + ".has_value() = " + S(y.has_value()) + ", std::optional model has " + S(mm.has_value());
            if (mm.has_value() && !E::eq(*y, *mm)) return who + " holds " + E::str(*y) + ", which differs from the std::optional model"; }
        return "";
    }
    void canon(Canon& c) override { w.canon(c); }
    std::string teardown() override { std::string r = w.teardown(); if (r.empty() && tracked && Tracked::live != 0) r = "lifetime imbalance: " + S(Tracked::live) + " tracked element(s) alive after every object was destroyed (negative: destroyed more often than constructed)"; return r; }
};

// ================= either<L,R> ======================================================================================
enum { E_CTOR_DEF, E_CTOR_L, E_CTOR_R, E_CTOR_COPY, E_ASSIGN_L, E_ASSIGN_R, E_ASSIGN, E_ASSIGN_SELF, E_MUTATE };
template <class L_, class R_> struct EitherSubject : Subject {
    using Impl = utl::either<L_, R_>; using EL = El<L_>; using ER = El<R_>; using MM = std::variant<std::pair<char, typename EL::M>, std::pair<short, typename ER::M>>;
    const char* nm; std::vector<Op> ops; Slots<Impl, MM> w; bool tracked;
    EitherSubject(const char* n) : nm(n), tracked(std::is_same_v<L_, Tracked> || std::is_same_v<R_, Tracked>) { for (int s = 0; s < 2; s++) { ops.push_back({E_CTOR_DEF, s, 0}); for (int k = 0; k < 2; k++) { ops.push_back({E_CTOR_L, s, k}); ops.push_back({E_CTOR_R, s, k}); } ops.push_back({E_CTOR_COPY, s, 0});
        for (int k = 0; k < 2; k++) { ops.push_back({E_ASSIGN_L, s, k}); ops.push_back({E_ASSIGN_R, s, k}); } ops.push_back({E_ASSIGN, s, 0}); ops.push_back({E_ASSIGN_SELF, s, 0}); ops.push_back({E_MUTATE, s, 0}); } }
    const char* name() const override { return nm; }
    int nops() const override { return (int)ops.size(); }
    int depth(bool t) const override { return t ? 7 : 5; }
    bool mutating(int o) const override { return ops[(size_t)o].kind >= E_CTOR_COPY; }
    std::string op_name(int o) const override { const Op& p = ops[(size_t)o]; std::string x = p.slot ? "b" : "a", y = p.slot ? "a" : "b";
        switch (p.kind) { case E_CTOR_DEF: return x + "=either()"; case E_CTOR_L: return x + "=either(L" + S(p.a) + ")"; case E_CTOR_R: return x + "=either(R" + S(p.a) + ")"; case E_CTOR_COPY: return x + "=either(" + y + ")"; case E_ASSIGN_L: return x + "=L" + S(p.a); case E_ASSIGN_R: return x + "=R" + S(p.a);
            case E_ASSIGN: return x + "=" + y; case E_ASSIGN_SELF: return x + "=" + x; default: return "mutate(active alternative of " + x + ")"; } }
    void reset() override { w.reset(); if (tracked) Tracked::live = 0; }
    bool enabled(int o) override { const Op& p = ops[(size_t)o]; int s = p.slot, t = 1 - s; switch (p.kind) { case E_CTOR_DEF: case E_CTOR_L: case E_CTOR_R: return !w.alive[s]; case E_CTOR_COPY: return !w.alive[s] && w.alive[t]; case E_ASSIGN: return w.alive[s] && w.alive[t]; default: return w.alive[s]; } }
    static MM ml(typename EL::M v) { return MM(std::in_place_index<0>, (char)0, v); } static MM mr(typename ER::M v) { return MM(std::in_place_index<1>, (short)0, v); }
    std::string apply(int o) override {
        const Op& p = ops[(size_t)o]; int s = p.slot, t = 1 - s; Impl* x = w.obj(s); auto& m = w.model[s];
        switch (p.kind) {
        case E_CTOR_DEF: new (x) Impl(); m = ml(typename EL::M()); w.alive[s] = true; break;
        case E_CTOR_L: { L_ v = EL::make(p.a); new (x) Impl(v); m = ml(EL::mmake(p.a)); w.alive[s] = true; } break;
        case E_CTOR_R: { R_ v = ER::make(p.a); new (x) Impl(v); m = mr(ER::mmake(p.a)); w.alive[s] = true; } break;
        case E_CTOR_COPY: new (x) Impl(*w.obj(t)); m = w.model[t]; w.alive[s] = true; break;
        case E_ASSIGN_L: { L_ v = EL::make(p.a); *x = v; m = ml(EL::mmake(p.a)); } break;
        case E_ASSIGN_R: { R_ v = ER::make(p.a); *x = v; m = mr(ER::mmake(p.a)); } break;
        case E_ASSIGN: *x = *w.obj(t); m = w.model[t]; break;
        case E_ASSIGN_SELF: { Impl& r = *x; *x = r; } break;
        default: if (m.index() == 0) { auto* q = x->template get_if<L_>(); if (!q) return "get_if<left>() is null although the left alternative is active"; EL::mut(*q); EL::mmut(std::get<0>(m).second); }
                 else { auto* q = x->template get_if<R_>(); if (!q) return "get_if<right>() is null although the right alternative is active"; ER::mut(*q); ER::mmut(std::get<1>(m).second); } break;
        }
        for (int q = 0; q < 2; q++) if (w.alive[q]) { const Impl& y = *w.obj(q); const auto& mm = w.model[q]; std::string who = q ? "b" : "a";
            if ((size_t)y.index() != mm.index()) return who + ".index() = " + S(y.index()) + ", std::variant model has " + S((long)mm.index());
            auto* pl = y.template get_if<L_>(); auto* pr = y.template get_if<R_>();
            if ((pl != nullptr) != (mm.index() == 0) || (pr != nullptr) != (mm.index() == 1)) return who + ": get_if null-ness disagrees with index()";
            if (pl && !EL::eq(*pl, std::get<0>(mm).second)) return who + " holds left " + EL::str(*pl) + ", which differs from the std::variant model";
            if (pr && !ER::eq(*pr, std::get<1>(mm).second)) return who + " holds right " + ER::str(*pr) + ", which differs from the std::variant model"; }
        return "";
    }
    void canon(Canon& c) override { w.canon(c); }
    std::string teardown() override { std::string r = w.teardown(); if (r.empty() && tracked && Tracked::live != 0) r = "lifetime imbalance: " + S(Tracked::live) + " tracked element(s) alive after every object was destroyed (negative: destroyed more often than constructed)"; return r; }
};

// ---- registration ----------------------------------------------------------------------------------------------
using namespace nmc::bfs;
using small3 = nmtools::small_vector<int, 3, utl::either, utl::static_vector, utl::vector>;
#define REG(id, ...) static Register reg_##id(#id, []() -> std::unique_ptr<Subject> { return std::unique_ptr<Subject>(new __VA_ARGS__); })
#if !defined(C19_GROUP) || C19_GROUP == 1
REG(vector_int, SeqSubject<utl::vector<int>, int, -1, 6, true>("vector_int", 5, 7));
#endif
#if !defined(C19_GROUP) || C19_GROUP == 2
REG(vector_double, SeqSubject<utl::vector<double>, double, -1, 5, true>("vector_double", 4, 6));
REG(static_vector_int4, SeqSubject<utl::static_vector<int, 4>, int, 4, 6, true>("static_vector_int4", 5, 7));
REG(small_vector_int3, SeqSubject<small3, int, -1, 5, true>("small_vector_int3", 4, 7));
#endif
#if !defined(C19_GROUP) || C19_GROUP == 3
REG(array_int3, FixedSubject<utl::array<int, 3>, ArrAcc>("array_int3"));
REG(tuple_idi, FixedSubject<utl::tuple<int, double, int>, TupAcc<utl::tuple<int, double, int>>>("tuple_idi"));
REG(tuplev2_idi, FixedSubject<utl::tuplev2<int, double, int>, TupAcc<utl::tuplev2<int, double, int>>>("tuplev2_idi"));
REG(tuple_vec_int, TupleNTSubject<utl::tuple<utl::vector<int>, int>>("tuple_vec_int"));
REG(tuplev2_vec_int, TupleNTSubject<utl::tuplev2<utl::vector<int>, int>>("tuplev2_vec_int"));
REG(maybe_int, MaybeSubject<int>("maybe_int"));
REG(maybe_vector, MaybeSubject<utl::vector<int>>("maybe_vector"));
REG(maybe_tracked, MaybeSubject<Tracked>("maybe_tracked"));
REG(either_int_double, EitherSubject<int, double>("either_int_double"));
REG(either_vector_int, EitherSubject<utl::vector<int>, int>("either_vector_int"));
REG(either_tracked_int, EitherSubject<Tracked, int>("either_tracked_int"));
REG(either_tracked_vector, EitherSubject<Tracked, utl::vector<int>>("either_tracked_vector"));
#endif

static void bounds_sink(int site, long long i, long long n) { if ((i < 0 || i >= n) && g_hook_msg.empty()) g_hook_msg = "index " + S(i) + " used on a container of extent " + S(n) + " (hook site " + S(site) + ")"; }

static void selftest() {
    // the oracle must see (1) a vector whose copy aliases its source, (2) a leak, (3) a double free
    g_arena.reset();
    void* p = nmc_bfs_malloc(16); (void)p;
    if (g_arena.live() != 1) die("selftest: allocator does not see a live block");
    nmc_bfs_free(p); nmc_bfs_free(p);
    if (!g_arena.bad_free) die("selftest: allocator blind to a double free");
    g_arena.reset();
    { Tracked* t = (Tracked*)g_arena.slot(0); g_hook_msg.clear(); Tracked src(3); *t = src; if (g_hook_msg.empty()) die("selftest: Tracked blind to assignment into raw storage"); g_hook_msg.clear(); }
    Canon c1, c2; g_arena.reset();
    { auto* v = new (g_arena.slot(0)) utl::vector<int>(); v->push_back(1); c1.begin(); c1.raw(v, sizeof *v); c1.finish(); v->~vector(); }
    g_arena.reset();
    { void* pad = nmc_bfs_malloc(40); auto* v = new (g_arena.slot(0)) utl::vector<int>(); v->push_back(1); c2.begin(); c2.raw(v, sizeof *v); c2.finish(); v->~vector(); nmc_bfs_free(pad); }
    if (c1.bytes != c2.bytes) die("selftest: canonical form depends on block placement");
    g_arena.reset();
    { auto* v = new (g_arena.slot(0)) utl::vector<int>(); v->push_back(2); Canon c3; c3.begin(); c3.raw(v, sizeof *v); c3.finish(); v->~vector(); if (c3.bytes == c1.bytes) die("selftest: canonical form blind to element values"); }
    g_arena.reset(); Tracked::live = 0;
}

int main(int argc, char** argv) {
    nmtools::verif::on_bounds = bounds_sink;
    return nmc::bfs::main_(argc, argv, selftest);
}
