// C04 (part a) - tile, repeat, roll, take, compress, pad, concatenate, stack family  (E1 against the NumPy-definition model)
#ifndef C04_STACK
#include "nmtools/array/array/tile.hpp"
#include "nmtools/array/array/repeat.hpp"
#include "nmtools/array/array/roll.hpp"
#include "nmtools/array/array/take.hpp"
#include "nmtools/array/array/compress.hpp"
#include "nmtools/array/array/pad.hpp"
#include "nmtools/array/array/concatenate.hpp"
#endif
#ifdef C04_STACK
#include "nmtools/array/array/stack.hpp"
#include "nmtools/array/array/hstack.hpp"
#include "nmtools/array/array/vstack.hpp"
#include "nmtools/array/array/dstack.hpp"
#include "nmtools/array/array/column_stack.hpp"
#endif
#define NMC_MAIN
#include "common.hpp"

const char* nmc_property() { return "C04"; }

void nmc_enumerate(const nmc::Tier& t, const nmc::Sink& emit) {
    long e = t.thorough() ? 4 : 3;
    nmc::each_shape_range(1, 4, e, [&](const L& s) {
        long d = (long)s.size();
#ifdef C04_STACK
        if (d <= 3) { for (long a = -(d + 1); a <= d; a++) emit(Case("stack", {s, {a}})); }
        emit(Case("hstack", {s})); emit(Case("vstack", {s})); emit(Case("dstack", {s})); if (d <= 2) emit(Case("column_stack", {s}));
#else
        // tile: reps 1..3 per axis, rep lists shorter, equal and longer (<= d+1) than the rank
        for (long k = 1; k <= std::min(d + 1, t.thorough() ? 5L : 4L); k++) {
            if (!t.thorough() && d >= 3 && k >= 4) continue;
            nmc::each_tuple((size_t)k, 1, (k >= 4 ? 2 : 3), [&](const L& reps) { emit(Case("tile", {s, reps})); });
        }
        // repeat: scalar 1..3, axis None and every axis; per-element lists over 1..3 for extents <= 3
        for (long r = 1; r <= 3; r++) { emit(Case("repeat_none", {s, {r}})); for (long a = -d; a < d; a++) emit(Case("repeat", {s, {r}, {a}})); }
        for (long a = 0; a < d; a++) if (s[(size_t)a] <= 3) nmc::each_tuple((size_t)s[(size_t)a], 1, 3, [&](const L& reps) { if (reps.size() > 1) { emit(Case("repeat", {s, reps, {a}})); if (a == d - 1) emit(Case("repeat", {s, reps, {-1}})); } });
        // roll: shift in [-2n,2n] per axis; None; single axis; pairs of axes with per-axis shifts
        long N = nmc::prod(s);
        for (long sh = -std::min(2 * N, 8L); sh <= std::min(2 * N, 8L); sh++) emit(Case("roll_none", {s, {sh}}));
        for (long a = -d; a < d; a++) { long n = s[(size_t)(a < 0 ? a + d : a)]; for (long sh = -2 * n; sh <= 2 * n; sh++) emit(Case("roll1", {s, {sh}, {a}})); }
        for (long a = 0; a < d; a++) for (long b = 0; b < d; b++) if (a != b) {
            long na = s[(size_t)a], nb = s[(size_t)b];
            for (long x = -na; x <= na; x++) for (long y = -nb; y <= nb; y++) { if (!t.thorough() && (std::labs(x) > 1 && std::labs(y) > 1)) continue; emit(Case("roll", {s, {x, y}, {a, b}})); }
        }
        // take: every index list of length <= 3 over [-n,n) incl. repeats, every axis (incl. negative)
        for (long a = -d; a < d; a++) {
            long n = s[(size_t)(a < 0 ? a + d : a)];
            long maxlen = (t.thorough() || d <= 2) ? 3 : 2;
            for (long k = 1; k <= maxlen; k++) nmc::each_tuple((size_t)k, -n, n - 1, [&](const L& ind) { emit(Case("take", {s, ind, {a}})); });
        }
        { long N2 = nmc::prod(s); for (long k = 1; k <= 2; k++) nmc::each_tuple((size_t)k, -N2, N2 - 1, [&](const L& ind) { if (N2 > 6 && k == 2 && !t.thorough()) return; emit(Case("take_none", {s, ind})); }); }
        // compress: every boolean mask of length <= n (at least one true), every axis
        for (long a = -d; a < d; a++) {
            long n = s[(size_t)(a < 0 ? a + d : a)];
            for (long k = 1; k <= n; k++) nmc::each_tuple((size_t)k, 0, 1, [&](const L& m) { bool any = false; for (long v : m) any |= v != 0; if (any) emit(Case("compress", {s, m, {a}})); });
        }
        // pad: widths 0..2 per side per axis (dims <= 2: all; higher dims: 0..1 quick)
        {
            long w = (d <= 2 || t.thorough()) ? 2 : 1; if (d == 4 && !t.thorough()) w = 1;
            if (d <= 3 || t.thorough() || true) nmc::each_tuple((size_t)(2 * d), 0, w, [&](const L& pw) { if (d == 4 && !t.thorough()) { long nz = 0; for (long v : pw) nz += v != 0; if (nz > 2) return; } emit(Case("pad", {s, pw})); });
        }
        // concatenate: second operand differing on the joined axis (extent 1..3), every axis and None
        for (long a = -d; a < d; a++) for (long m = 1; m <= 3; m++) { L s2(s); s2[(size_t)(a < 0 ? a + d : a)] = m; emit(Case("concatenate", {s, s2, {a}})); }
        emit(Case("concatenate_none", {s, s}));
#endif
    });
}

template <typename V, typename A> static Outcome both(const V& lazy, const A& eager, const ROpt& want, bool nontriv) {
    Outcome o = judge(nmc::observe(lazy), want, nontriv);
    if (!o.fail.empty()) { o.fail = "view: " + o.fail; return o; }
    Outcome e = judge(nmc::observe(eager), want, nontriv);
    if (!e.fail.empty()) { e.fail = "array: " + e.fail; return e; }
    return o;
}
static ROpt np_hstack(const RArr& a, const RArr& b) { long ax = a.dim() == 1 ? 0 : 1; return ref::concatenate(a, b, &ax); }
static ROpt np_vstack(const RArr& a, const RArr& b) { RArr x = ref::atleast_nd(a, 2), y = ref::atleast_nd(b, 2); long ax = 0; return ref::concatenate(x, y, &ax); }
static ROpt np_dstack(const RArr& a0, const RArr& b0) {
    auto at3 = [](const RArr& a) { RArr r = a; if (a.dim() == 1) r.shape = {1, a.shape[0], 1}; else if (a.dim() == 2) r.shape = {a.shape[0], a.shape[1], 1}; return r; };
    RArr a = at3(a0), b = at3(b0); long ax = 2; return ref::concatenate(a, b, &ax);
}
static ROpt np_column_stack(const RArr& a0, const RArr& b0) {
    auto col = [](const RArr& a) { RArr r = a; if (a.dim() == 1) r.shape = {a.shape[0], 1}; return r; };
    RArr a = col(a0), b = col(b0); long ax = 1; return ref::concatenate(a, b, &ax);
}

Outcome nmc_execute(const Case& c) {
    const L& s = c.a[0]; RArr r = RArr::iota(s); auto a = make_arr<long>(s); const std::string& op = c.op;
#ifndef C04_STACK
    if (op == "tile") { auto reps = to_il(c.a[1]); ROpt w = ref::tile(r, c.a[1]); return both(view::tile(a, reps), na::tile(a, reps), w, w && w->size() > r.size()); }
    if (op == "repeat_none") { int k = (int)c.a[1][0]; ROpt w = ref::repeat(r, c.a[1], nullptr); return both(view::repeat(a, k, nm::None), na::repeat(a, k, nm::None), w, k > 1 || s.size() > 1); }
    if (op == "repeat") {
        long ax = c.a[2][0]; ROpt w = ref::repeat(r, c.a[1], &ax); bool nt = w && w->size() > r.size();
        if (c.a[1].size() == 1) { int k = (int)c.a[1][0]; return both(view::repeat(a, k, (int)ax), na::repeat(a, k, (int)ax), w, nt); }
        auto reps = to_il(c.a[1]); return both(view::repeat(a, reps, (int)ax), na::repeat(a, reps, (int)ax), w, nt);
    }
    if (op == "roll_none") { int sh = (int)c.a[1][0]; ROpt w = ref::roll(r, c.a[1], nullptr); return both(view::roll(a, sh), na::roll(a, sh), w, w && w->data != r.data); }
    if (op == "roll1") { int sh = (int)c.a[1][0], ax = (int)c.a[2][0]; ROpt w = ref::roll(r, c.a[1], &c.a[2]); return both(view::roll(a, sh, ax), na::roll(a, sh, ax), w, w && w->data != r.data); }
    if (op == "roll") { auto sh = to_il(c.a[1]), ax = to_il(c.a[2]); ROpt w = ref::roll(r, c.a[1], &c.a[2]); return both(view::roll(a, sh, ax), na::roll(a, sh, ax), w, w && w->data != r.data); }
    if (op == "take") { auto ind = to_il(c.a[1]); long ax = c.a[2][0]; ROpt w = ref::take(r, c.a[1], &ax); return both(view::take(a, ind, (int)ax), na::take(a, ind, (int)ax), w, w && (w->shape != r.shape || w->data != r.data)); }
    if (op == "take_none") { auto ind = to_il(c.a[1]); ROpt w = ref::take(r, c.a[1], nullptr); return both(view::take(a, ind, nm::None), na::take(a, ind, nm::None), w, true); }
    if (op == "compress") { nmtools_list<bool> m; for (long v : c.a[1]) m.push_back(v != 0); long ax = c.a[2][0]; ROpt w = ref::compress(r, c.a[1], &ax); return both(view::compress(m, a, (int)ax), na::compress(m, a, (int)ax), w, w && w->shape != r.shape); }
    if (op == "pad") {
        size_t d = s.size(); L before(c.a[1].begin(), c.a[1].begin() + d), after(c.a[1].begin() + d, c.a[1].end());
        auto pw = to_il(c.a[1]); ROpt w = ref::pad(r, before, after, -7);
        Outcome o = both(view::pad(a, pw, (long)-7), na::pad(a, pw, (long)-7), w, w && w->size() > r.size());
        return o;
    }
    if (op == "concatenate") { RArr r2 = RArr::iota(c.a[1], 100); auto b = make_arr<long>(c.a[1], 100); long ax = c.a[2][0]; ROpt w = ref::concatenate(r, r2, &ax); return both(view::concatenate(a, b, (int)ax), na::concatenate(a, b, (int)ax), w, true); }
    if (op == "concatenate_none") { RArr r2 = RArr::iota(c.a[1], 100); auto b = make_arr<long>(c.a[1], 100); ROpt w = ref::concatenate(r, r2, nullptr); return both(view::concatenate(a, b, nm::None), na::concatenate(a, b, nm::None), w, true); }
#else
    RArr r2 = RArr::iota(s, 100); auto b = make_arr<long>(s, 100);
    if (op == "stack") { long ax = c.a[1][0]; ROpt w = ref::stack({r, r2}, ax); return both(view::stack(a, b, (int)ax), na::stack(a, b, (int)ax), w, true); }
    if (op == "hstack") return both(view::hstack(a, b), na::hstack(a, b), np_hstack(r, r2), true);
    if (op == "vstack") return both(view::vstack(a, b), na::vstack(a, b), np_vstack(r, r2), true);
    if (op == "dstack") return both(view::dstack(a, b), na::dstack(a, b), np_dstack(r, r2), true);
    if (op == "column_stack") return both(view::column_stack(a, b), na::column_stack(a, b), np_column_stack(r, r2), true);
#endif
    nmc::die("unknown op");
}

void nmc_selftest() {
    RArr r = RArr::iota(L{2, 3});
    L sh{1}; L ax{1};
    ROpt w = ref::roll(r, sh, &ax);   // [[3,1,2],[6,4,5]]
    if (!w || w->data[0] != 3 || w->data[1] != 1) nmc::die("selftest: roll model");
    RArr wrong = r;                    // an implementation that ignores the shift must be seen
    if (nmc::diff(wrong.obs(), w).empty()) nmc::die("selftest: oracle blind to ignored roll");
    ROpt t = ref::tile(r, L{2});       // shape (2,6)
    if (!t || t->shape != L{2, 6} || t->data[3] != 1) nmc::die("selftest: tile model");
    long a0 = 0; ROpt rp = ref::repeat(r, L{2, 1}, &a0); if (!rp || rp->shape != L{3, 3} || rp->data[3] != 1) nmc::die("selftest: repeat model");
    long a1 = 1; ROpt tk = ref::take(r, L{-1, 0}, &a1); if (!tk || tk->data[0] != 3 || tk->data[1] != 1) nmc::die("selftest: take model");
}
