// C04 (part a) - tile, repeat, roll, take, compress, pad, concatenate, stack family  (E1 against the NumPy-definition model)
#ifndef C04_STACK
#include "nmtools/array/array/tile.hpp"
#include "nmtools/array/array/repeat.hpp"
#include "nmtools/array/array/roll.hpp"
#include "nmtools/array/array/take.hpp"
#include "nmtools/array/array/compress.hpp"
#include "nmtools/array/array/pad.hpp"
#include "nmtools/array/array/concatenate.hpp"
#endif
#ifdef C04_STACK
#include "nmtools/array/array/stack.hpp"
#include "nmtools/array/array/hstack.hpp"
#include "nmtools/array/array/vstack.hpp"
#include "nmtools/array/array/dstack.hpp"
#include "nmtools/array/array/column_stack.hpp"
#endif
#define NMC_MAIN
#include "common.hpp"
// Non-triviality rule (all ops): a case is non-trivial when the reference result differs from the source operand in shape or in
// element order / count (joins and None-axis forms always are).
// Audit extension (optional parameters / overloads / argument kinds that the cases above never passed): compress axis None; roll with a
// scalar shift and a list axis, length-1 / length-3 / negatively spelled list axes; pad with the value omitted, with a real value on an
// integer array (the library static_casts the value to the element type, NumPy casts the constant likewise: truncation), on a real array,
// widths up to 3 all-asymmetric at rank 3; take with indices as a fixed array and as a 1-d ndarray; repeat with a fixed-array repeats and a
// length-1 repeats (NumPy broadcasts it); tile with fixed-array / tuple-of-constants reps and reps two longer than the rank; stack with the
// axis omitted and a compile-time axis; vstack / dstack / column_stack of operands of different rank (where NumPy allows it).
// Not instantiated (rejected at compile time): roll(a, LIST shift) with axis None.  hstack of 1-d with 2-d raises in NumPy (not a valid input).
using namespace nmtools::literals;

const char* nmc_property() { return "C04"; }

void nmc_enumerate(const nmc::Tier& t, const nmc::Sink& emit) {
    long e = t.thorough() ? 4 : 3;
    nmc::each_shape_range(1, 4, e, [&](const L& s) {
        long d = (long)s.size();
#ifdef C04_STACK
        if (d <= 3) { for (long a = -(d + 1); a <= d; a++) emit(Case("stack", {s, {a}})); }
        emit(Case("hstack", {s})); emit(Case("vstack", {s})); emit(Case("dstack", {s})); if (d <= 2) emit(Case("column_stack", {s}));
        // audit extension: axis omitted (default 0) and axis as a compile-time constant
        if (d <= 3) { emit(Case("stack_default", {s})); for (long a = -(d + 1); a <= d; a++) emit(Case("stack_ct", {s, {a}})); }
        // operands of different rank, both orders, where NumPy accepts the combination
        if (d == 1) {
            long n = s[0];
            for (long m = 1; m <= e; m++) { emit(Case("vstack_mix", {s, {m, n}})); emit(Case("vstack_mix", {{m, n}, s})); }
            for (long k = 1; k <= e; k++) { emit(Case("column_stack_mix", {s, {n, k}})); emit(Case("column_stack_mix", {{n, k}, s})); }
            emit(Case("dstack_mix", {s, {1, n}})); emit(Case("dstack_mix", {{1, n}, s}));
            for (long k = 1; k <= e; k++) { emit(Case("dstack_mix", {s, {1, n, k}})); emit(Case("dstack_mix", {{1, n, k}, s})); }
        }
        if (d == 2) for (long k = 1; k <= e; k++) { emit(Case("dstack_mix", {s, {s[0], s[1], k}})); emit(Case("dstack_mix", {{s[0], s[1], k}, s})); }
#else
        // tile: reps 1..3 per axis, rep lists shorter, equal and longer (<= d+1) than the rank
        for (long k = 1; k <= std::min(d + 1, t.thorough() ? 5L : 4L); k++) {
            if (!t.thorough() && d >= 3 && k >= 4) continue;
            nmc::each_tuple((size_t)k, 1, (k >= 4 ? 2 : 3), [&](const L& reps) { emit(Case("tile", {s, reps})); });
        }
        // repeat: scalar 1..3, axis None and every axis; per-element lists over 1..3 for extents <= 3
        for (long r = 1; r <= 3; r++) { emit(Case("repeat_none", {s, {r}})); for (long a = -d; a < d; a++) emit(Case("repeat", {s, {r}, {a}})); }
        for (long a = 0; a < d; a++) if (s[(size_t)a] <= 3) nmc::each_tuple((size_t)s[(size_t)a], 1, 3, [&](const L& reps) { if (reps.size() > 1) { emit(Case("repeat", {s, reps, {a}})); if (a == d - 1) emit(Case("repeat", {s, reps, {-1}})); } });
        // roll: shift in [-2n,2n] per axis; None; single axis; pairs of axes with per-axis shifts
        long N = nmc::prod(s);
        for (long sh = -std::min(2 * N, 8L); sh <= std::min(2 * N, 8L); sh++) emit(Case("roll_none", {s, {sh}}));
        for (long a = -d; a < d; a++) { long n = s[(size_t)(a < 0 ? a + d : a)]; for (long sh = -2 * n; sh <= 2 * n; sh++) emit(Case("roll1", {s, {sh}, {a}})); }
        for (long a = 0; a < d; a++) for (long b = 0; b < d; b++) if (a != b) {
            long na = s[(size_t)a], nb = s[(size_t)b];
            for (long x = -na; x <= na; x++) for (long y = -nb; y <= nb; y++) { if (!t.thorough() && (std::labs(x) > 1 && std::labs(y) > 1)) continue; emit(Case("roll", {s, {x, y}, {a, b}})); }
        }
        // take: every index list of length <= 3 over [-n,n) incl. repeats, every axis (incl. negative)
        for (long a = -d; a < d; a++) {
            long n = s[(size_t)(a < 0 ? a + d : a)];
            long maxlen = (t.thorough() || d <= 2) ? 3 : 2;
            for (long k = 1; k <= maxlen; k++) nmc::each_tuple((size_t)k, -n, n - 1, [&](const L& ind) { emit(Case("take", {s, ind, {a}})); });
        }
        { long N2 = nmc::prod(s); for (long k = 1; k <= 2; k++) nmc::each_tuple((size_t)k, -N2, N2 - 1, [&](const L& ind) { if (N2 > 6 && k == 2 && !t.thorough()) return; emit(Case("take_none", {s, ind})); }); }
        // compress: every boolean mask of length <= n (at least one true), every axis
        for (long a = -d; a < d; a++) {
            long n = s[(size_t)(a < 0 ? a + d : a)];
            for (long k = 1; k <= n; k++) nmc::each_tuple((size_t)k, 0, 1, [&](const L& m) { bool any = false; for (long v : m) any |= v != 0; if (any) emit(Case("compress", {s, m, {a}})); });
        }
        // pad: widths 0..2 per side per axis (dims <= 2: all; higher dims: 0..1 quick)
        {
            long w = (d <= 2 || t.thorough()) ? 2 : 1; if (d == 4 && !t.thorough()) w = 1;
            if (d <= 3 || t.thorough() || true) nmc::each_tuple((size_t)(2 * d), 0, w, [&](const L& pw) { if (d == 4 && !t.thorough()) { long nz = 0; for (long v : pw) nz += v != 0; if (nz > 2) return; } emit(Case("pad", {s, pw})); });
        }
        // concatenate: second operand differing on the joined axis (extent 1..3), every axis and None
        for (long a = -d; a < d; a++) for (long m = 1; m <= 3; m++) { L s2(s); s2[(size_t)(a < 0 ? a + d : a)] = m; emit(Case("concatenate", {s, s2, {a}})); }
        emit(Case("concatenate_none", {s, s}));
        // ---------------- audit extension (see the comment at the top); quick: small sub-grids of the menus above
        bool T = t.thorough();
        // compress, axis None (flattened source): every mask of length <= 3 (<= N), and a few full-length / nearly full-length patterns
        if (d <= 3 || T) {
            for (long k = 1; k <= std::min(N, 3L); k++) nmc::each_tuple((size_t)k, 0, 1, [&](const L& m) { bool any = false; for (long v : m) any |= v != 0; if (any) emit(Case("compress_none", {s, m})); });
            if (N > 3) { L all((size_t)N, 1), last((size_t)N, 0), alt((size_t)N, 0), shortl((size_t)(N - 1), 0); last.back() = 1; shortl.back() = 1; for (long i = 1; i < N; i += 2) alt[(size_t)i] = 1;
                emit(Case("compress_none", {s, all})); emit(Case("compress_none", {s, last})); emit(Case("compress_none", {s, alt})); if (N - 1 > 3) emit(Case("compress_none", {s, shortl})); }
        }
        // roll, SCALAR shift with a LIST axis: every non-empty axis subset, spelled ascending non-negative and descending negative
        if (d <= 3 || T) {
            L shifts = T ? L{-5, -4, -3, -2, -1, 0, 1, 2, 3, 4, 5} : (d <= 2 ? L{-4, -1, 1, 2, 5} : L{-4, 2});
            nmc::each_subset((int)d, [&](const L& sub) { if (sub.empty()) return; L neg(sub.rbegin(), sub.rend()); for (auto& v : neg) v -= d;
                for (long sh : shifts) { emit(Case("roll_sl", {s, {sh}, sub})); emit(Case("roll_sl", {s, {sh}, neg})); } });
        }
        // roll, LIST shift with a LIST axis of the same length: length 1, length 3, and pairs with negatively spelled axes (list/list form of "roll")
        if (d <= 2 || T) for (long a = -d; a < d; a++) { long n = s[(size_t)(a < 0 ? a + d : a)]; for (long sh = -n - 1; sh <= n + 1; sh++) emit(Case("roll", {s, {sh}, {a}})); }
        if (d >= 2 && (d <= 3 || T)) for (long a = 0; a < d; a++) for (long b = 0; b < d; b++) if (a != b) {
            if (T) for (long x : {-1L, 1L, 2L}) for (long y : {-1L, 1L, 2L}) { emit(Case("roll", {s, {x, y}, {a - d, b}})); emit(Case("roll", {s, {x, y}, {a, b - d}})); emit(Case("roll", {s, {x, y}, {a - d, b - d}})); }
            else for (auto xy : {L{1, 2}, L{-1, 1}, L{2, -1}}) { emit(Case("roll", {s, xy, {a - d, b - d}})); if (d == 2) { emit(Case("roll", {s, xy, {a - d, b}})); emit(Case("roll", {s, xy, {a, b - d}})); } }
        }
        if (d == 3 || (d == 4 && T)) { bool big = true; for (long v : s) big &= v >= 2; if (big) for (auto ax : {L{0, 1, 2}, L{2, 0, 1}, L{-1, -3, -2}}) nmc::each_tuple(3, 0, T ? 2 : 1, [&](const L& q) { static const long menu[3] = {-1, 2, 1}; emit(Case("roll", {s, {menu[q[0]], menu[q[1]], menu[q[2]]}, ax})); }); }
        // pad: value omitted (default 0); widths 0..2 at dim 1 and on (2,3) (thorough: dim <= 2), else 0..1; all-asymmetric widths over {0,1,3} at rank 3 (two shapes)
        if (d <= 2) nmc::each_tuple((size_t)(2 * d), 0, (d == 1 || T || s == L{2, 3}) ? 2 : 1, [&](const L& pw) { emit(Case("pad_default", {s, pw})); });
        if (d == 3 && (s == L{2, 3, 2} || s == L{1, 2, 3} || T)) nmc::each_tuple(6, 0, 2, [&](const L& q) {
            static const long menu[3] = {0, 1, 3}; L pw(6); bool three = false; for (size_t i = 0; i < 6; i++) { pw[i] = menu[q[i]]; three |= pw[i] == 3; }
            for (size_t i = 0; i < 3; i++) if (pw[i] == pw[i + 3]) return;
            emit(Case("pad_default", {s, pw})); if (three && s == L{2, 3, 2}) emit(Case("pad", {s, pw})); });
        // pad: a real value (v/2) on the integer array, and a real array with the value omitted / with an integer value
        if (d <= 2 || T) nmc::each_tuple((size_t)(2 * d), 0, 1, [&](const L& pw) { long nz = 0; for (long v : pw) nz += v != 0; if (!nz || (d > 2 && nz > 2)) return;
            for (long v2 : {5L, -5L, 1L}) emit(Case("pad_fval", {s, pw, {v2}})); emit(Case("pad_dbl_default", {s, pw})); emit(Case("pad_dbl_int", {s, pw, {3}})); });
        // take: indices as a fixed array ("take_fa") and as a 1-d ndarray ("take_nd"), with an axis and with None
        if (d <= 2 || T || s == L{2, 3, 2}) for (long a = -d; a < d; a++) {
            long n = s[(size_t)(a < 0 ? a + d : a)];
            auto two = [&](const L& ind) { emit(Case("take_fa", {s, ind, {a}})); if (ind.size() != 2 || d == 1 || T) emit(Case("take_nd", {s, ind, {a}})); };
            nmc::each_tuple(1, -n, n - 1, two);
            if (d == 1 || a >= 0 || T) nmc::each_tuple(2, -n, n - 1, two);
            two(L{-1, 0, n - 1});
        }
        if (d <= 2 || T) { auto two = [&](const L& ind) { emit(Case("take_none_fa", {s, ind})); emit(Case("take_none_nd", {s, ind})); };
            nmc::each_tuple(1, -N, N - 1, two); if (N <= 4 || (T && N <= 16)) nmc::each_tuple(2, -N, N - 1, two); two(L{-1, 0, N - 1}); }
        // repeat: repeats as a fixed array (length = extent), and a length-1 repeats (list / fixed array) that NumPy broadcasts
        if (d <= 2 || T) for (long a = -d; a < d; a++) { long n = s[(size_t)(a < 0 ? a + d : a)];
            if (n <= 3 && (a >= 0 || a == -1)) nmc::each_tuple((size_t)n, 1, 3, [&](const L& reps) { emit(Case("repeat_fa", {s, reps, {a}})); });
            if (d <= 2 && *std::max_element(s.begin(), s.end()) <= 3)   // same small menu in both tiers: on the pinned tree every broadcast case aborts, and a contained crash is expensive
                for (long r = 1; r <= 3; r++) { emit(Case("repeat_l1", {s, {r}, {a}})); if (n > 1) emit(Case("repeat_fa1", {s, {r}, {a}})); } }
        // tile: reps two longer than the rank (list), reps as a fixed array (length 1..d+2 <= 4), reps as a tuple of constants
        if (d <= 2 || (T && d == 3)) nmc::each_tuple((size_t)(d + 2), 1, 2, [&](const L& reps) { emit(Case("tile", {s, reps})); });
        if (d <= 2 || T) for (long k = 1; k <= std::min(d + 2, 4L); k++) nmc::each_tuple((size_t)k, 1, (k >= 3 ? 2 : 3), [&](const L& reps) { if (d > 2 && k > 2) { long big = 0; for (long v : reps) big += v > 1; if (big > 1) return; } emit(Case("tile_fa", {s, reps})); });
        if (d <= 3 || T) for (auto reps : {L{2}, L{1, 3}, L{2, 1}, L{2, 1, 2}, L{1, 2, 1, 1}, L{2, 1, 1, 1, 3}}) emit(Case("tile_ct", {s, reps}));
#endif
    });
}

template <typename V, typename A> static Outcome both(const V& lazy, const A& eager, const ROpt& want, bool nontriv) {
    Outcome o = judge(nmc::observe(lazy), want, nontriv);
    if (!o.fail.empty()) { o.fail = "view: " + o.fail; return o; }
    Outcome e = judge(nmc::observe(eager), want, nontriv);
    if (!e.fail.empty()) { e.fail = "array: " + e.fail; return e; }
    return o;
}
static ROpt np_hstack(const RArr& a, const RArr& b) { long ax = a.dim() == 1 ? 0 : 1; return ref::concatenate(a, b, &ax); }
static ROpt np_vstack(const RArr& a, const RArr& b) { RArr x = ref::atleast_nd(a, 2), y = ref::atleast_nd(b, 2); long ax = 0; return ref::concatenate(x, y, &ax); }
static ROpt np_dstack(const RArr& a0, const RArr& b0) {
    auto at3 = [](const RArr& a) { RArr r = a; if (a.dim() == 1) r.shape = {1, a.shape[0], 1}; else if (a.dim() == 2) r.shape = {a.shape[0], a.shape[1], 1}; return r; };
    RArr a = at3(a0), b = at3(b0); long ax = 2; return ref::concatenate(a, b, &ax);
}
static ROpt np_column_stack(const RArr& a0, const RArr& b0) {
    auto col = [](const RArr& a) { RArr r = a; if (a.dim() == 1) r.shape = {a.shape[0], 1}; return r; };
    RArr a = col(a0), b = col(b0); long ax = 1; return ref::concatenate(a, b, &ax);
}

// ---- audit extension helpers: a run-time list as a fixed-size array (dispatch on the length), as a 1-d ndarray
template <size_t N, typename T = int> static nmtools_array<T, N> to_fa(const L& v) { nmtools_array<T, N> r{}; for (size_t i = 0; i < N; i++) nm::at(r, i) = (T)v[i]; return r; }
template <typename F> static Outcome with_fa(const L& v, F&& f) {
    switch (v.size()) { case 1: return f(to_fa<1>(v)); case 2: return f(to_fa<2>(v)); case 3: return f(to_fa<3>(v)); case 4: return f(to_fa<4>(v)); }
    nmc::die("with_fa: length outside 1..4");
}
static dyn_t<int> to_nd(const L& v) { dyn_t<int> r; r.resize(to_sl(L{(long)v.size()})); for (size_t i = 0; i < v.size(); i++) r.data_[i] = (int)v[i]; return r; }
template <typename V> constexpr auto elem_tag() { using U = meta::remove_cvref_t<V>; if constexpr (meta::is_maybe_v<U>) return elem_tag<meta::get_maybe_type_t<U>>(); else return meta::as_value_v<meta::get_element_type_t<U>>; }
template <typename V, typename E> constexpr bool elem_is = std::is_same_v<meta::type_t<decltype(elem_tag<V>())>, E>;
// both() plus: the element TYPE of the view and of the evaluated array is E (pad must keep the source's element type whatever the type of the value)
template <typename E, typename V, typename A> static Outcome both_typed(const V& lazy, const A& eager, const ROpt& want, bool nontriv) {
    Outcome o = both(lazy, eager, want, nontriv); if (!o.fail.empty()) return o;
    if (!elem_is<V, E>) return Outcome::bad("wrong", "view: element type differs from the source array's element type", nontriv, o.outcome);
    if (!elem_is<A, E>) return Outcome::bad("wrong", "array: element type differs from the source array's element type", nontriv, o.outcome);
    return o;
}

Outcome nmc_execute(const Case& c) {
    const L& s = c.a[0]; RArr r = RArr::iota(s); auto a = make_arr<long>(s); const std::string& op = c.op;
#ifndef C04_STACK
    if (op == "tile") { auto reps = to_il(c.a[1]); ROpt w = ref::tile(r, c.a[1]); return both(view::tile(a, reps), na::tile(a, reps), w, w && w->size() > r.size()); }
    if (op == "repeat_none") { int k = (int)c.a[1][0]; ROpt w = ref::repeat(r, c.a[1], nullptr); return both(view::repeat(a, k, nm::None), na::repeat(a, k, nm::None), w, k > 1 || s.size() > 1); }
    if (op == "repeat") {
        long ax = c.a[2][0]; ROpt w = ref::repeat(r, c.a[1], &ax); bool nt = w && w->size() > r.size();
        if (c.a[1].size() == 1) { int k = (int)c.a[1][0]; return both(view::repeat(a, k, (int)ax), na::repeat(a, k, (int)ax), w, nt); }
        auto reps = to_il(c.a[1]); return both(view::repeat(a, reps, (int)ax), na::repeat(a, reps, (int)ax), w, nt);
    }
    if (op == "roll_none") { int sh = (int)c.a[1][0]; ROpt w = ref::roll(r, c.a[1], nullptr); return both(view::roll(a, sh), na::roll(a, sh), w, w && w->data != r.data); }
    if (op == "roll1") { int sh = (int)c.a[1][0], ax = (int)c.a[2][0]; ROpt w = ref::roll(r, c.a[1], &c.a[2]); return both(view::roll(a, sh, ax), na::roll(a, sh, ax), w, w && w->data != r.data); }
    if (op == "roll") { auto sh = to_il(c.a[1]), ax = to_il(c.a[2]); ROpt w = ref::roll(r, c.a[1], &c.a[2]); return both(view::roll(a, sh, ax), na::roll(a, sh, ax), w, w && w->data != r.data); }
    if (op == "take") { auto ind = to_il(c.a[1]); long ax = c.a[2][0]; ROpt w = ref::take(r, c.a[1], &ax); return both(view::take(a, ind, (int)ax), na::take(a, ind, (int)ax), w, w && (w->shape != r.shape || w->data != r.data)); }
    if (op == "take_none") { auto ind = to_il(c.a[1]); ROpt w = ref::take(r, c.a[1], nullptr); return both(view::take(a, ind, nm::None), na::take(a, ind, nm::None), w, true); }
    if (op == "compress") { nmtools_list<bool> m; for (long v : c.a[1]) m.push_back(v != 0); long ax = c.a[2][0]; ROpt w = ref::compress(r, c.a[1], &ax); return both(view::compress(m, a, (int)ax), na::compress(m, a, (int)ax), w, w && w->shape != r.shape); }
    if (op == "pad") {
        size_t d = s.size(); L before(c.a[1].begin(), c.a[1].begin() + d), after(c.a[1].begin() + d, c.a[1].end());
        auto pw = to_il(c.a[1]); ROpt w = ref::pad(r, before, after, -7);
        Outcome o = both(view::pad(a, pw, (long)-7), na::pad(a, pw, (long)-7), w, w && w->size() > r.size());
        return o;
    }
    if (op == "concatenate") { RArr r2 = RArr::iota(c.a[1], 100); auto b = make_arr<long>(c.a[1], 100); long ax = c.a[2][0]; ROpt w = ref::concatenate(r, r2, &ax); return both(view::concatenate(a, b, (int)ax), na::concatenate(a, b, (int)ax), w, true); }
    // ---------------- audit extension
    if (op == "compress_none") { nmtools_list<bool> m; for (long v : c.a[1]) m.push_back(v != 0); ROpt w = ref::compress(r, c.a[1], nullptr); return both(view::compress(m, a, nm::None), na::compress(m, a, nm::None), w, true); }
    if (op == "roll_sl") { int sh = (int)c.a[1][0]; auto ax = to_il(c.a[2]); ROpt w = ref::roll(r, c.a[1], &c.a[2]); return both(view::roll(a, sh, ax), na::roll(a, sh, ax), w, w && w->data != r.data); }
    if (op == "pad_default" || op == "pad_fval" || op == "pad_dbl_default" || op == "pad_dbl_int") {
        size_t d = s.size(); L before(c.a[1].begin(), c.a[1].begin() + d), after(c.a[1].begin() + d, c.a[1].end()); auto pw = to_il(c.a[1]);
        if (op == "pad_default") { ROpt w = ref::pad(r, before, after, 0); return both_typed<long>(view::pad(a, pw), na::pad(a, pw), w, w && w->size() > r.size()); }
        if (op == "pad_fval") { double v = (double)c.a[2][0] / 2.0; ROpt w = ref::pad(r, before, after, std::trunc(v)); return both_typed<long>(view::pad(a, pw, v), na::pad(a, pw, v), w, true); }
        auto ad = make_arr<double>(s); for (size_t i = 0; i < r.data.size(); i++) { r.data[i] += 0.25; ad.data_[i] += 0.25; }
        if (op == "pad_dbl_default") { ROpt w = ref::pad(r, before, after, 0); return both_typed<double>(view::pad(ad, pw), na::pad(ad, pw), w, true); }
        int v = (int)c.a[2][0]; ROpt w = ref::pad(r, before, after, (double)v); return both_typed<double>(view::pad(ad, pw, v), na::pad(ad, pw, v), w, true);
    }
    if (op == "take_fa") { long ax = c.a[2][0]; ROpt w = ref::take(r, c.a[1], &ax); return with_fa(c.a[1], [&](auto ind) { return both(view::take(a, ind, (int)ax), na::take(a, ind, (int)ax), w, w && (w->shape != r.shape || w->data != r.data)); }); }
    if (op == "take_nd") { long ax = c.a[2][0]; ROpt w = ref::take(r, c.a[1], &ax); auto ind = to_nd(c.a[1]); return both(view::take(a, ind, (int)ax), na::take(a, ind, (int)ax), w, w && (w->shape != r.shape || w->data != r.data)); }
    if (op == "take_none_fa") { ROpt w = ref::take(r, c.a[1], nullptr); return with_fa(c.a[1], [&](auto ind) { return both(view::take(a, ind, nm::None), na::take(a, ind, nm::None), w, true); }); }
    if (op == "take_none_nd") { ROpt w = ref::take(r, c.a[1], nullptr); auto ind = to_nd(c.a[1]); return both(view::take(a, ind, nm::None), na::take(a, ind, nm::None), w, true); }
    if (op == "repeat_fa" || op == "repeat_fa1") { long ax = c.a[2][0]; ROpt w = ref::repeat(r, c.a[1], &ax); return with_fa(c.a[1], [&](auto reps) { return both(view::repeat(a, reps, (int)ax), na::repeat(a, reps, (int)ax), w, w && w->size() > r.size()); }); }
    if (op == "repeat_l1") { long ax = c.a[2][0]; ROpt w = ref::repeat(r, c.a[1], &ax); auto reps = to_il(c.a[1]); return both(view::repeat(a, reps, (int)ax), na::repeat(a, reps, (int)ax), w, w && w->size() > r.size()); }
    if (op == "tile_fa") { ROpt w = ref::tile(r, c.a[1]); return with_fa(c.a[1], [&](auto reps) { return both(view::tile(a, reps), na::tile(a, reps), w, w && w->size() > r.size()); }); }
    if (op == "tile_ct") {
        const L& q = c.a[1]; ROpt w = ref::tile(r, q); auto go = [&](auto reps) { return both(view::tile(a, reps), na::tile(a, reps), w, w && w->size() > r.size()); };
        if (q == L{2}) return go(nmtools_tuple{2_ct}); if (q == L{1, 3}) return go(nmtools_tuple{1_ct, 3_ct}); if (q == L{2, 1}) return go(nmtools_tuple{2_ct, 1_ct});
        if (q == L{2, 1, 2}) return go(nmtools_tuple{2_ct, 1_ct, 2_ct}); if (q == L{1, 2, 1, 1}) return go(nmtools_tuple{1_ct, 2_ct, 1_ct, 1_ct}); if (q == L{2, 1, 1, 1, 3}) return go(nmtools_tuple{2_ct, 1_ct, 1_ct, 1_ct, 3_ct});
        nmc::die("tile_ct: reps not in the compile-time menu");
    }
    if (op == "concatenate_none") { RArr r2 = RArr::iota(c.a[1], 100); auto b = make_arr<long>(c.a[1], 100); ROpt w = ref::concatenate(r, r2, nullptr); return both(view::concatenate(a, b, nm::None), na::concatenate(a, b, nm::None), w, true); }
#else
    if (op == "vstack_mix" || op == "dstack_mix" || op == "column_stack_mix") {   // audit extension: operands of different rank
        RArr rb = RArr::iota(c.a[1], 100); auto bb = make_arr<long>(c.a[1], 100);
        if (op == "vstack_mix") return both(view::vstack(a, bb), na::vstack(a, bb), np_vstack(r, rb), true);
        if (op == "dstack_mix") return both(view::dstack(a, bb), na::dstack(a, bb), np_dstack(r, rb), true);
        return both(view::column_stack(a, bb), na::column_stack(a, bb), np_column_stack(r, rb), true);
    }
    RArr r2 = RArr::iota(s, 100); auto b = make_arr<long>(s, 100);
    if (op == "stack_default") { ROpt w = ref::stack({r, r2}, 0); return both(view::stack(a, b), na::stack(a, b), w, true); }   // axis omitted
    if (op == "stack_ct") {   // axis as a compile-time constant
        long ax = c.a[1][0]; ROpt w = ref::stack({r, r2}, ax); auto go = [&](auto axis) { return both(view::stack(a, b, axis), na::stack(a, b, axis), w, true); };
        switch (ax) { case 0: return go(0_ct); case 1: return go(meta::ct_v<1>); case 2: return go(2_ct); case 3: return go(3_ct);
                      case -1: return go("-1"_ct); case -2: return go("-2"_ct); case -3: return go("-3"_ct); case -4: return go("-4"_ct); }
        nmc::die("stack_ct: axis not in the compile-time menu");
    }
    if (op == "stack") { long ax = c.a[1][0]; ROpt w = ref::stack({r, r2}, ax); return both(view::stack(a, b, (int)ax), na::stack(a, b, (int)ax), w, true); }
    if (op == "hstack") return both(view::hstack(a, b), na::hstack(a, b), np_hstack(r, r2), true);
    if (op == "vstack") return both(view::vstack(a, b), na::vstack(a, b), np_vstack(r, r2), true);
    if (op == "dstack") return both(view::dstack(a, b), na::dstack(a, b), np_dstack(r, r2), true);
    if (op == "column_stack") return both(view::column_stack(a, b), na::column_stack(a, b), np_column_stack(r, r2), true);
#endif
    nmc::die("unknown op");
}

void nmc_selftest() {
    RArr r = RArr::iota(L{2, 3});
    L sh{1}; L ax{1};
    ROpt w = ref::roll(r, sh, &ax);   // [[3,1,2],[6,4,5]]
    if (!w || w->data[0] != 3 || w->data[1] != 1) nmc::die("selftest: roll model");
    RArr wrong = r;                    // an implementation that ignores the shift must be seen
    if (nmc::diff(wrong.obs(), w).empty()) nmc::die("selftest: oracle blind to ignored roll");
    ROpt t = ref::tile(r, L{2});       // shape (2,6)
    if (!t || t->shape != L{2, 6} || t->data[3] != 1) nmc::die("selftest: tile model");
    long a0 = 0; ROpt rp = ref::repeat(r, L{2, 1}, &a0); if (!rp || rp->shape != L{3, 3} || rp->data[3] != 1) nmc::die("selftest: repeat model");
    long a1 = 1; ROpt tk = ref::take(r, L{-1, 0}, &a1); if (!tk || tk->data[0] != 3 || tk->data[1] != 1) nmc::die("selftest: take model");
    // audit extension: None-axis compress model; an omitted / truncated pad value and a changed element type must be seen
    ROpt cn = ref::compress(r, L{0, 1, 1, 0, 1}, nullptr); if (!cn || cn->shape != L{3} || cn->data != std::vector<double>{2, 3, 5}) nmc::die("selftest: compress None model");
    if (nmc::diff(RArr(L{2}, {2, 3}).obs(), cn).empty()) nmc::die("selftest: oracle blind to a dropped compress element");
    ROpt p0 = ref::pad(r, L{1, 0}, L{0, 2}, 0), p7 = ref::pad(r, L{1, 0}, L{0, 2}, -7), pt = ref::pad(r, L{1, 0}, L{0, 2}, std::trunc(-2.5)), pr = ref::pad(r, L{1, 0}, L{0, 2}, -3);
    if (!p0 || p0->shape != L{3, 5} || p0->data[0] != 0 || p0->data[5] != 1) nmc::die("selftest: pad model");
    if (nmc::diff(p7->obs(), p0).empty() || nmc::diff(pr->obs(), pt).empty()) nmc::die("selftest: oracle blind to a wrong pad value");
    if (!elem_is<dyn_t<long>, long> || elem_is<dyn_t<double>, long> || elem_is<nmtools_maybe<dyn_t<float>>, long> || !elem_is<nmtools_maybe<dyn_t<long>>, long>) nmc::die("selftest: element type check");
    L sh2{1}; L ax2{0, 1}; ROpt w2 = ref::roll(r, sh2, &ax2);   // scalar shift on every listed axis: [[6,4,5],[3,1,2]]
    if (!w2 || w2->data[0] != 6 || w2->data[3] != 3) nmc::die("selftest: roll scalar-shift / list-axis model");
    if (nmc::diff(w->obs(), w2).empty()) nmc::die("selftest: oracle blind to a shift applied to one listed axis only");
}
