// c17_upstream_literals.cpp - NOT a harness: validates the C17 reference model (engine/nmc_ref_c17.hpp) against all 111 expectation
// literals that the nmtools authors recorded from PyTorch in include/nmtools/testing/data/array/{conv1d,conv2d,pooling,softmax,softmin,
// batch_norm,layer_norm,instance_norm,group_norm,linear,bilinear,pairwise_distance,cosine_similarity}.hpp.  Only the raw C arrays of
// the data headers are read; no nmtools routine is called.
//   g++ -std=c++17 -O0 -DDOCTEST_CONFIG_IMPLEMENT -I/repo/include -I/verif/engine -w c17_upstream_literals.cpp -o lit && ./lit   (~60 s compile)
// Expected: ok=111 diff=0 (rtol 2e-6: float literals; batch_norm literals are rounded to 4 decimals and compared with rtol 1e-4).
#include "nmtools/testing/data/array/conv1d.hpp"
#include "nmtools/testing/data/array/conv2d.hpp"
#include "nmtools/testing/data/array/pooling.hpp"
#include "nmtools/testing/data/array/softmax.hpp"
#include "nmtools/testing/data/array/softmin.hpp"
#include "nmtools/testing/data/array/batch_norm.hpp"
#include "nmtools/testing/data/array/layer_norm.hpp"
#include "nmtools/testing/data/array/instance_norm.hpp"
#include "nmtools/testing/data/array/group_norm.hpp"
#include "nmtools/testing/data/array/linear.hpp"
#include "nmtools/testing/data/array/bilinear.hpp"
#include "nmtools/testing/data/array/pairwise_distance.hpp"
#include "nmtools/testing/data/array/cosine_similarity.hpp"
#include "nmc_ref_c17.hpp"
#include <type_traits>
using namespace nmc;
template <typename T> void flat(const T& a, L& shape, std::vector<double>& out, int depth) {
    if constexpr (std::is_array_v<T>) { if ((int)shape.size() <= depth) shape.push_back((long)std::extent_v<T>); for (size_t i = 0; i < std::extent_v<T>; i++) flat(a[i], shape, out, depth + 1); }
    else out.push_back((double)a);
}
template <typename T> RArr R(const T& a) { RArr r; flat(a, r.shape, r.data, 0); return r; }
template <typename T> L Lst(const T& v, int n, long dflt) {
    if constexpr (std::is_array_v<T>) { L r; for (size_t i = 0; i < std::extent_v<T>; i++) r.push_back((long)v[i]); return r; }
    else if constexpr (std::is_arithmetic_v<T>) return L((size_t)n, (long)v);
    else return L((size_t)n, dflt);   // None
}
static int nfail = 0, nok = 0;
static void chk(const char* name, const ROpt& got, const RArr& want, double rtol) {
    Obs o; if (!got) { o.has = false; } else o = got->obs();
    std::string d = diff(o, ROpt(want), rtol);
    // here "got" is the model and "want" the literal: diff(got-as-observation, literal-as-model)
    if (d.empty()) { nok++; printf("ok    %s\n", name); } else { nfail++; printf("DIFF  %s : %s\n", name, d.c_str()); }
}
#define NS(f, c) namespace a = nmtools::testing::data::array::f::c::args; namespace e = nmtools::testing::data::array::f::c::expect;
#define CONV_BASIC(f, c, n) { NS(f, c) RArr b = R(a::bias); chk(#f "." #c, ref::convnd(R(a::input), R(a::weight), &b, L(n,1), L(n,0), L(n,1), 1), R(e::result), 2e-6); }
#define CONV_NOB(f, c, n) { NS(f, c) chk(#f "." #c, ref::convnd(R(a::input), R(a::weight), nullptr, L(n,1), L(n,0), L(n,1), 1), R(e::result), 2e-6); }
#define CONV_FULL(f, c, n, G) { NS(f, c) RArr b = R(a::bias); chk(#f "." #c, ref::convnd(R(a::input), R(a::weight), &b, Lst(a::stride, n, 1), Lst(a::padding, n, 0), Lst(a::dilation, n, 1), G), R(e::result), 2e-6); }
#define CONV_FULLNB(f, c, n, G) { NS(f, c) chk(#f "." #c, ref::convnd(R(a::input), R(a::weight), nullptr, Lst(a::stride, n, 1), Lst(a::padding, n, 0), Lst(a::dilation, n, 1), G), R(e::result), 2e-6); }
int main() {
{ NS(conv1d,case1) RArr b = R(a::bias); const RArr* bp = &b; chk("conv1d.case1", ref::convnd(R(a::input), R(a::weight), bp, L(1,1), L(1,0), L(1,1), 1), R(e::result), 2e-6); }
{ NS(conv1d,case2) RArr b = R(a::bias); const RArr* bp = &b; chk("conv1d.case2", ref::convnd(R(a::input), R(a::weight), bp, L(1,1), L(1,0), L(1,1), 1), R(e::result), 2e-6); }
{ NS(conv1d,case3) RArr b = R(a::bias); const RArr* bp = &b; chk("conv1d.case3", ref::convnd(R(a::input), R(a::weight), bp, L(1,1), L(1,0), L(1,1), 1), R(e::result), 2e-6); }
{ NS(conv1d,case4) RArr b = R(a::bias); const RArr* bp = &b; chk("conv1d.case4", ref::convnd(R(a::input), R(a::weight), bp, L(1,1), L(1,0), L(1,1), 1), R(e::result), 2e-6); }
{ NS(conv1d,case5) RArr b = R(a::bias); const RArr* bp = &b; chk("conv1d.case5", ref::convnd(R(a::input), R(a::weight), bp, L(1,1), L(1,0), L(1,1), 1), R(e::result), 2e-6); }
{ NS(conv1d,case6) RArr b = R(a::bias); const RArr* bp = &b; chk("conv1d.case6", ref::convnd(R(a::input), R(a::weight), bp, L(1,1), L(1,0), L(1,1), 2), R(e::result), 2e-6); }
{ NS(conv1d,case7) RArr b = R(a::bias); const RArr* bp = &b; chk("conv1d.case7", ref::convnd(R(a::input), R(a::weight), bp, L(1,1), L(1,0), L(1,1), 2), R(e::result), 2e-6); }
{ NS(conv1d,case8) RArr b = R(a::bias); const RArr* bp = &b; chk("conv1d.case8", ref::convnd(R(a::input), R(a::weight), bp, Lst(a::stride,1,1), L(1,0), L(1,1), 1), R(e::result), 2e-6); }
{ NS(conv1d,case9) RArr b = R(a::bias); const RArr* bp = &b; chk("conv1d.case9", ref::convnd(R(a::input), R(a::weight), bp, Lst(a::stride,1,1), L(1,0), L(1,1), 1), R(e::result), 2e-6); }
{ NS(conv1d,case10) RArr b = R(a::bias); const RArr* bp = &b; chk("conv1d.case10", ref::convnd(R(a::input), R(a::weight), bp, Lst(a::stride,1,1), L(1,0), L(1,1), 1), R(e::result), 2e-6); }
{ NS(conv1d,case11) RArr b = R(a::bias); const RArr* bp = &b; chk("conv1d.case11", ref::convnd(R(a::input), R(a::weight), bp, Lst(a::stride,1,1), L(1,0), L(1,1), 1), R(e::result), 2e-6); }
{ NS(conv1d,case12) RArr b = R(a::bias); const RArr* bp = &b; chk("conv1d.case12", ref::convnd(R(a::input), R(a::weight), bp, Lst(a::stride,1,1), L(1,0), L(1,1), 1), R(e::result), 2e-6); }
{ NS(conv1d,case13) const RArr* bp = nullptr; chk("conv1d.case13", ref::convnd(R(a::input), R(a::weight), bp, L(1,1), L(1,0), Lst(a::dilation,1,1), 1), R(e::result), 2e-6); }
{ NS(conv1d,case14) const RArr* bp = nullptr; chk("conv1d.case14", ref::convnd(R(a::input), R(a::weight), bp, L(1,1), L(1,0), Lst(a::dilation,1,1), 1), R(e::result), 2e-6); }
{ NS(conv1d,case15) const RArr* bp = nullptr; chk("conv1d.case15", ref::convnd(R(a::input), R(a::weight), bp, L(1,1), L(1,0), Lst(a::dilation,1,1), 1), R(e::result), 2e-6); }
{ NS(conv1d,case16) RArr b = R(a::bias); const RArr* bp = &b; chk("conv1d.case16", ref::convnd(R(a::input), R(a::weight), bp, L(1,1), L(1,0), Lst(a::dilation,1,1), 2), R(e::result), 2e-6); }
{ NS(conv1d,case17) RArr b = R(a::bias); const RArr* bp = &b; chk("conv1d.case17", ref::convnd(R(a::input), R(a::weight), bp, Lst(a::stride,1,1), L(1,0), Lst(a::dilation,1,1), 1), R(e::result), 2e-6); }
{ NS(conv1d,case18) RArr b = R(a::bias); const RArr* bp = &b; chk("conv1d.case18", ref::convnd(R(a::input), R(a::weight), bp, L(1,1), Lst(a::padding,1,0), L(1,1), 1), R(e::result), 2e-6); }
{ NS(conv2d,case1) const RArr* bp = nullptr; chk("conv2d.case1", ref::convnd(R(a::input), R(a::weight), bp, L(2,1), L(2,0), L(2,1), 1), R(e::result), 2e-6); }
{ NS(conv2d,case2) const RArr* bp = nullptr; chk("conv2d.case2", ref::convnd(R(a::input), R(a::weight), bp, Lst(a::stride,2,1), L(2,0), L(2,1), 1), R(e::result), 2e-6); }
{ NS(conv2d,case3) const RArr* bp = nullptr; chk("conv2d.case3", ref::convnd(R(a::input), R(a::weight), bp, Lst(a::stride,2,1), L(2,0), L(2,1), 1), R(e::result), 2e-6); }
{ NS(conv2d,case4) const RArr* bp = nullptr; chk("conv2d.case4", ref::convnd(R(a::input), R(a::weight), bp, Lst(a::stride,2,1), L(2,0), L(2,1), 1), R(e::result), 2e-6); }
{ NS(conv2d,case5) const RArr* bp = nullptr; chk("conv2d.case5", ref::convnd(R(a::input), R(a::weight), bp, Lst(a::stride,2,1), L(2,0), L(2,1), 1), R(e::result), 2e-6); }
{ NS(conv2d,case6) const RArr* bp = nullptr; chk("conv2d.case6", ref::convnd(R(a::input), R(a::weight), bp, Lst(a::stride,2,1), L(2,0), L(2,1), 1), R(e::result), 2e-6); }
{ NS(conv2d,case7) const RArr* bp = nullptr; chk("conv2d.case7", ref::convnd(R(a::input), R(a::weight), bp, Lst(a::stride,2,1), L(2,0), L(2,1), 1), R(e::result), 2e-6); }
{ NS(conv2d,case8) const RArr* bp = nullptr; chk("conv2d.case8", ref::convnd(R(a::input), R(a::weight), bp, Lst(a::stride,2,1), Lst(a::padding,2,0), L(2,1), 1), R(e::result), 2e-6); }
{ NS(conv2d,case9) const RArr* bp = nullptr; chk("conv2d.case9", ref::convnd(R(a::input), R(a::weight), bp, Lst(a::stride,2,1), Lst(a::padding,2,0), L(2,1), 1), R(e::result), 2e-6); }
{ NS(conv2d,case10) const RArr* bp = nullptr; chk("conv2d.case10", ref::convnd(R(a::input), R(a::weight), bp, Lst(a::stride,2,1), Lst(a::padding,2,0), Lst(a::dilation,2,1), 1), R(e::result), 2e-6); }
{ NS(conv2d,case11) const RArr* bp = nullptr; chk("conv2d.case11", ref::convnd(R(a::input), R(a::weight), bp, Lst(a::stride,2,1), Lst(a::padding,2,0), Lst(a::dilation,2,1), 1), R(e::result), 2e-6); }
{ NS(conv2d,case12) const RArr* bp = nullptr; chk("conv2d.case12", ref::convnd(R(a::input), R(a::weight), bp, Lst(a::stride,2,1), Lst(a::padding,2,0), Lst(a::dilation,2,1), 1), R(e::result), 2e-6); }
{ NS(conv2d,case13) RArr b = R(a::bias); const RArr* bp = &b; chk("conv2d.case13", ref::convnd(R(a::input), R(a::weight), bp, Lst(a::stride,2,1), Lst(a::padding,2,0), Lst(a::dilation,2,1), 1), R(e::result), 2e-6); }
{ NS(conv2d,case14) const RArr* bp = nullptr; chk("conv2d.case14", ref::convnd(R(a::input), R(a::weight), bp, Lst(a::stride,2,1), Lst(a::padding,2,0), Lst(a::dilation,2,1), 3), R(e::result), 2e-6); }
{ NS(max_pool2d,case1) chk("max_pool2d.case1", ref::pool2d(R(a::array), Lst(a::kernel_size,2,1), Lst(a::stride,2,1), (bool)a::ceil_mode, true), R(e::result), 2e-6); }
{ NS(max_pool2d,case2) chk("max_pool2d.case2", ref::pool2d(R(a::array), Lst(a::kernel_size,2,1), Lst(a::stride,2,1), (bool)a::ceil_mode, true), R(e::result), 2e-6); }
{ NS(max_pool2d,case3) chk("max_pool2d.case3", ref::pool2d(R(a::array), Lst(a::kernel_size,2,1), Lst(a::stride,2,1), (bool)a::ceil_mode, true), R(e::result), 2e-6); }
{ NS(max_pool2d,case4) chk("max_pool2d.case4", ref::pool2d(R(a::array), Lst(a::kernel_size,2,1), Lst(a::stride,2,1), (bool)a::ceil_mode, true), R(e::result), 2e-6); }
{ NS(max_pool2d,case5) chk("max_pool2d.case5", ref::pool2d(R(a::array), Lst(a::kernel_size,2,1), Lst(a::stride,2,1), (bool)a::ceil_mode, true), R(e::result), 2e-6); }
{ NS(max_pool2d,case6) chk("max_pool2d.case6", ref::pool2d(R(a::array), Lst(a::kernel_size,2,1), Lst(a::stride,2,1), (bool)a::ceil_mode, true), R(e::result), 2e-6); }
{ NS(max_pool2d,case7) chk("max_pool2d.case7", ref::pool2d(R(a::array), Lst(a::kernel_size,2,1), Lst(a::stride,2,1), (bool)a::ceil_mode, true), R(e::result), 2e-6); }
{ NS(max_pool2d,case8) chk("max_pool2d.case8", ref::pool2d(R(a::array), Lst(a::kernel_size,2,1), Lst(a::stride,2,1), (bool)a::ceil_mode, true), R(e::result), 2e-6); }
{ NS(max_pool2d,case9) chk("max_pool2d.case9", ref::pool2d(R(a::array), Lst(a::kernel_size,2,1), Lst(a::stride,2,1), (bool)a::ceil_mode, true), R(e::result), 2e-6); }
{ NS(max_pool2d,case10) chk("max_pool2d.case10", ref::pool2d(R(a::array), Lst(a::kernel_size,2,1), Lst(a::stride,2,1), (bool)a::ceil_mode, true), R(e::result), 2e-6); }
{ NS(avg_pool2d,case1) chk("avg_pool2d.case1", ref::pool2d(R(a::array), Lst(a::kernel_size,2,1), Lst(a::stride,2,1), (bool)a::ceil_mode, false), R(e::result), 2e-6); }
{ NS(avg_pool2d,case2) chk("avg_pool2d.case2", ref::pool2d(R(a::array), Lst(a::kernel_size,2,1), Lst(a::stride,2,1), (bool)a::ceil_mode, false), R(e::result), 2e-6); }
{ NS(avg_pool2d,case3) chk("avg_pool2d.case3", ref::pool2d(R(a::array), Lst(a::kernel_size,2,1), Lst(a::stride,2,1), (bool)a::ceil_mode, false), R(e::result), 2e-6); }
{ NS(avg_pool2d,case4) chk("avg_pool2d.case4", ref::pool2d(R(a::array), Lst(a::kernel_size,2,1), Lst(a::stride,2,1), (bool)a::ceil_mode, false), R(e::result), 2e-6); }
{ NS(avg_pool2d,case5) chk("avg_pool2d.case5", ref::pool2d(R(a::array), Lst(a::kernel_size,2,1), Lst(a::stride,2,1), (bool)a::ceil_mode, false), R(e::result), 2e-6); }
{ NS(avg_pool2d,case6) chk("avg_pool2d.case6", ref::pool2d(R(a::array), Lst(a::kernel_size,2,1), Lst(a::stride,2,1), (bool)a::ceil_mode, false), R(e::result), 2e-6); }
{ NS(avg_pool2d,case7) chk("avg_pool2d.case7", ref::pool2d(R(a::array), Lst(a::kernel_size,2,1), Lst(a::stride,2,1), (bool)a::ceil_mode, false), R(e::result), 2e-6); }
{ NS(avg_pool2d,case8) chk("avg_pool2d.case8", ref::pool2d(R(a::array), Lst(a::kernel_size,2,1), Lst(a::stride,2,1), (bool)a::ceil_mode, false), R(e::result), 2e-6); }
{ NS(avg_pool2d,case9) chk("avg_pool2d.case9", ref::pool2d(R(a::array), Lst(a::kernel_size,2,1), Lst(a::stride,2,1), (bool)a::ceil_mode, false), R(e::result), 2e-6); }
{ NS(avg_pool2d,case10) chk("avg_pool2d.case10", ref::pool2d(R(a::array), Lst(a::kernel_size,2,1), Lst(a::stride,2,1), (bool)a::ceil_mode, false), R(e::result), 2e-6); }
{ NS(softmax,case1) chk("softmax.case1", ref::softmax(R(a::input), (long)a::dim), R(e::result), 2e-6); }
{ NS(softmax,case2) chk("softmax.case2", ref::softmax(R(a::input), (long)a::dim), R(e::result), 2e-6); }
{ NS(softmax,case3) chk("softmax.case3", ref::softmax(R(a::input), (long)a::dim), R(e::result), 2e-6); }
{ NS(softmax,case4) chk("softmax.case4", ref::softmax(R(a::input), (long)a::dim), R(e::result), 2e-6); }
{ NS(softmax,case5) chk("softmax.case5", ref::softmax(R(a::input), (long)a::dim), R(e::result), 2e-6); }
{ NS(softmin,case1) chk("softmin.case1", ref::softmin(R(a::input), (long)a::dim), R(e::result), 2e-6); }
{ NS(softmin,case2) chk("softmin.case2", ref::softmin(R(a::input), (long)a::dim), R(e::result), 2e-6); }
{ NS(softmin,case3) chk("softmin.case3", ref::softmin(R(a::input), (long)a::dim), R(e::result), 2e-6); }
{ NS(softmin,case4) chk("softmin.case4", ref::softmin(R(a::input), (long)a::dim), R(e::result), 2e-6); }
{ NS(softmin,case5) chk("softmin.case5", ref::softmin(R(a::input), (long)a::dim), R(e::result), 2e-6); }
{ NS(batch_norm,case1) chk("batch_norm.case1", ref::batch_norm(R(a::input), R(a::mean), R(a::var), R(a::weight), R(a::bias), 1e-5), R(e::result), 1e-4); }
{ NS(batch_norm,case2) chk("batch_norm.case2", ref::batch_norm(R(a::input), R(a::mean), R(a::var), R(a::weight), R(a::bias), 1e-5), R(e::result), 1e-4); }
{ NS(layer_norm,case1) chk("layer_norm.case1", ref::layer_norm(R(a::input), R(a::weight), R(a::bias), 1e-5), R(e::result), 2e-6); }
{ NS(layer_norm,case2) chk("layer_norm.case2", ref::layer_norm(R(a::input), R(a::weight), R(a::bias), 1e-5), R(e::result), 2e-6); }
{ NS(layer_norm,case3) chk("layer_norm.case3", ref::layer_norm(R(a::input), R(a::weight), R(a::bias), 1e-5), R(e::result), 2e-6); }
{ NS(instance_norm,case1) chk("instance_norm.case1", ref::instance_norm(R(a::input), R(a::weight), R(a::bias), 2, 1e-5), R(e::result), 2e-6); }
{ NS(instance_norm,case2) chk("instance_norm.case2", ref::instance_norm(R(a::input), R(a::weight), R(a::bias), 1, 1e-5), R(e::result), 2e-6); }
{ NS(group_norm,case1) chk("group_norm.case1", ref::group_norm(R(a::input), a::num_groups, R(a::weight), R(a::bias), 1e-5), R(e::result), 2e-6); }
{ NS(group_norm,case2) chk("group_norm.case2", ref::group_norm(R(a::input), a::num_groups, R(a::weight), R(a::bias), 1e-5), R(e::result), 2e-6); }
{ NS(group_norm,case3) chk("group_norm.case3", ref::group_norm(R(a::input), a::num_groups, R(a::weight), R(a::bias), 1e-5), R(e::result), 2e-6); }
{ NS(group_norm,case4) chk("group_norm.case4", ref::group_norm(R(a::input), a::num_groups, R(a::weight), R(a::bias), 1e-5), R(e::result), 2e-6); }
{ NS(group_norm,case5) chk("group_norm.case5", ref::group_norm(R(a::input), a::num_groups, R(a::weight), R(a::bias), 1e-5), R(e::result), 2e-6); }
{ NS(group_norm,case6) chk("group_norm.case6", ref::group_norm(R(a::input), a::num_groups, R(a::weight), R(a::bias), 1e-5), R(e::result), 2e-6); }
{ NS(linear,case1a) const RArr* bp = nullptr; chk("linear.case1a", ref::linear(R(a::input), R(a::weight), bp), R(e::result), 0); }
{ NS(linear,case1b) const RArr* bp = nullptr; chk("linear.case1b", ref::linear(R(a::input), R(a::weight), bp), R(e::result), 0); }
{ NS(linear,case1c) RArr b = R(a::bias); const RArr* bp = &b; chk("linear.case1c", ref::linear(R(a::input), R(a::weight), bp), R(e::result), 0); }
{ NS(linear,case2a) const RArr* bp = nullptr; chk("linear.case2a", ref::linear(R(a::input), R(a::weight), bp), R(e::result), 0); }
{ NS(linear,case2b) const RArr* bp = nullptr; chk("linear.case2b", ref::linear(R(a::input), R(a::weight), bp), R(e::result), 0); }
{ NS(linear,case2c) RArr b = R(a::bias); const RArr* bp = &b; chk("linear.case2c", ref::linear(R(a::input), R(a::weight), bp), R(e::result), 0); }
{ NS(linear,case3a) const RArr* bp = nullptr; chk("linear.case3a", ref::linear(R(a::input), R(a::weight), bp), R(e::result), 0); }
{ NS(linear,case3b) const RArr* bp = nullptr; chk("linear.case3b", ref::linear(R(a::input), R(a::weight), bp), R(e::result), 0); }
{ NS(linear,case3c) RArr b = R(a::bias); const RArr* bp = &b; chk("linear.case3c", ref::linear(R(a::input), R(a::weight), bp), R(e::result), 0); }
{ NS(bilinear,case1a) const RArr* bp = nullptr; chk("bilinear.case1a", ref::bilinear(R(a::a), R(a::b), R(a::weight), bp), R(e::result), 0); }
{ NS(bilinear,case1b) const RArr* bp = nullptr; chk("bilinear.case1b", ref::bilinear(R(a::a), R(a::b), R(a::weight), bp), R(e::result), 0); }
{ NS(bilinear,case2a) const RArr* bp = nullptr; chk("bilinear.case2a", ref::bilinear(R(a::a), R(a::b), R(a::weight), bp), R(e::result), 0); }
{ NS(bilinear,case2b) const RArr* bp = nullptr; chk("bilinear.case2b", ref::bilinear(R(a::a), R(a::b), R(a::weight), bp), R(e::result), 0); }
{ NS(bilinear,case2c) RArr b = R(a::bias); const RArr* bp = &b; chk("bilinear.case2c", ref::bilinear(R(a::a), R(a::b), R(a::weight), bp), R(e::result), 0); }
{ NS(bilinear,case3a) const RArr* bp = nullptr; chk("bilinear.case3a", ref::bilinear(R(a::a), R(a::b), R(a::weight), bp), R(e::result), 0); }
{ NS(bilinear,case3b) const RArr* bp = nullptr; chk("bilinear.case3b", ref::bilinear(R(a::a), R(a::b), R(a::weight), bp), R(e::result), 0); }
{ NS(bilinear,case3c) const RArr* bp = nullptr; chk("bilinear.case3c", ref::bilinear(R(a::a), R(a::b), R(a::weight), bp), R(e::result), 0); }
{ NS(bilinear,case3d) RArr b = R(a::bias); const RArr* bp = &b; chk("bilinear.case3d", ref::bilinear(R(a::a), R(a::b), R(a::weight), bp), R(e::result), 0); }
{ NS(bilinear,case4a) RArr b = R(a::bias); const RArr* bp = &b; chk("bilinear.case4a", ref::bilinear(R(a::a), R(a::b), R(a::weight), bp), R(e::result), 0); }
{ NS(pairwise_distance,case1a) chk("pairwise_distance.case1a", ref::pairwise_distance(R(a::a), R(a::b), 2, 1e-6, 0), R(e::result), 2e-6); }
{ NS(pairwise_distance,case1b) chk("pairwise_distance.case1b", ref::pairwise_distance(R(a::a), R(a::b), 2, 1e-6, 0), R(e::result), 2e-6); }
{ NS(pairwise_distance,case1c) chk("pairwise_distance.case1c", ref::pairwise_distance(R(a::a), R(a::b), 2, 1e-6, 1), R(e::result), 2e-6); }
{ NS(pairwise_distance,case1d) chk("pairwise_distance.case1d", ref::pairwise_distance(R(a::a), R(a::b), 2, 1e-6, 1), R(e::result), 2e-6); }
{ NS(pairwise_distance,case2a) chk("pairwise_distance.case2a", ref::pairwise_distance(R(a::a), R(a::b), 2, 1e-6, 0), R(e::result), 2e-6); }
{ NS(pairwise_distance,case2b) chk("pairwise_distance.case2b", ref::pairwise_distance(R(a::a), R(a::b), 2, 1e-6, 0), R(e::result), 2e-6); }
{ NS(pairwise_distance,case2c) chk("pairwise_distance.case2c", ref::pairwise_distance(R(a::a), R(a::b), 2, 1e-6, 0), R(e::result), 2e-6); }
{ NS(pairwise_distance,case2d) chk("pairwise_distance.case2d", ref::pairwise_distance(R(a::a), R(a::b), 2, 1e-6, 0), R(e::result), 2e-6); }
{ NS(pairwise_distance,case2e) chk("pairwise_distance.case2e", ref::pairwise_distance(R(a::a), R(a::b), a::ord, 1e-6, 1), R(e::result), 2e-6); }
{ NS(pairwise_distance,case2f) chk("pairwise_distance.case2f", ref::pairwise_distance(R(a::a), R(a::b), a::ord, 1e-6, 0), R(e::result), 2e-6); }
{ NS(cosine_similarity,case1a) chk("cosine_similarity.case1a", ref::cosine_similarity(R(a::a), R(a::b), 1, 1e-8), R(e::result), 2e-6); }
{ NS(cosine_similarity,case1b) chk("cosine_similarity.case1b", ref::cosine_similarity(R(a::a), R(a::b), 1, 1e-8), R(e::result), 2e-6); }
{ NS(cosine_similarity,case1c) chk("cosine_similarity.case1c", ref::cosine_similarity(R(a::a), R(a::b), a::axis, 1e-8), R(e::result), 2e-6); }
{ NS(cosine_similarity,case2a) chk("cosine_similarity.case2a", ref::cosine_similarity(R(a::a), R(a::b), a::axis, 1e-8), R(e::result), 2e-6); }
{ NS(cosine_similarity,case2b) chk("cosine_similarity.case2b", ref::cosine_similarity(R(a::a), R(a::b), a::axis, 1e-8), R(e::result), 2e-6); }
{ NS(cosine_similarity,case2c) chk("cosine_similarity.case2c", ref::cosine_similarity(R(a::a), R(a::b), a::axis, 1e-8), R(e::result), 2e-6); }
{ NS(cosine_similarity,case2d) chk("cosine_similarity.case2d", ref::cosine_similarity(R(a::a), R(a::b), a::axis, 1e-8), R(e::result), 2e-6); }
    printf("ok=%d diff=%d\n", nok, nfail);
    return nfail != 0;
}
