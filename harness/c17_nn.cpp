// C17 - neural-network routines equal their reference (PyTorch/NumPy) definitions  (E1, bounded exhaustive)
//
// One source, six translation units selected by exactly one of
//     -DC17_CONV1D   conv1d                       -DC17_CONV2D   conv2d
//     -DC17_POOL     max_pool2d, avg_pool2d       -DC17_SOFTMAX  softmax, softmin
//     -DC17_NORM     batch/layer/instance/group   -DC17_MISC     linear, bilinear, pairwise_distance, cosine_similarity
// Oracle: engine/nmc_ref_c17.hpp (nested loops from the PyTorch documentation; validated against all 111 upstream
// expectation literals of include/nmtools/testing/data/array/*.hpp and against NumPy formulas, see the selftest).
//
// Operands: all-dynamic ndarrays, all-distinct integer element values (input 1,2,3,.., weight 2,3,4,.., bias 101,108,..)
// so that an element taken from the wrong place, a wrong group or a dropped/duplicated tap changes the result.
// Integer element type (long) and exact comparison for conv / max_pool / linear / bilinear; double operands and
// rtol 1e-9 where division / sqrt / exp occur (avg_pool, softmax/softmin, the norms, the distances).
// Every case calls the lazy view AND the eager array:: function; both are compared with the model and with each other.
//
// NON-TRIVIALITY RULE (stated per family):
//   conv      : the result has >= 2 elements, or every result element is a sum of >= 2 products (C/groups * prod(kernel) >= 2)
//   pool      : some window covers >= 2 in-bounds input elements, or the result has >= 2 elements
//   softmax   : the extent along the axis is >= 2 (otherwise the result is all ones)
//   norms     : every normalisation set has >= 2 elements (otherwise the normalised value is 0 and the result is just the bias);
//               batch_norm (no statistics computed): the input has >= 2 elements
//   linear / bilinear : the contraction has >= 2 terms or the result has >= 2 elements
//   pairwise_distance / cosine_similarity : the reduced axis has extent >= 2
#if !defined(C17_CONV1D) && !defined(C17_CONV2D) && !defined(C17_POOL) && !defined(C17_SOFTMAX) && !defined(C17_NORM) && !defined(C17_MISC)
#error "select a unit: -DC17_CONV1D | -DC17_CONV2D | -DC17_POOL | -DC17_SOFTMAX | -DC17_NORM | -DC17_MISC"
#endif
#ifdef C17_CONV1D
#include "nmtools/array/array/conv1d.hpp"
#endif
#ifdef C17_CONV2D
#include "nmtools/array/array/conv2d.hpp"
#endif
#ifdef C17_POOL
#include "nmtools/array/array/pooling.hpp"
#endif
#ifdef C17_SOFTMAX
#include "nmtools/array/array/softmax.hpp"
#include "nmtools/array/array/softmin.hpp"
#endif
#ifdef C17_NORM
#include "nmtools/array/array/batch_norm.hpp"
#include "nmtools/array/array/layer_norm.hpp"
#include "nmtools/array/array/instance_norm.hpp"
#include "nmtools/array/array/group_norm.hpp"
#endif
#ifdef C17_MISC
#include "nmtools/array/array/linear.hpp"
#include "nmtools/array/array/bilinear.hpp"
#include "nmtools/array/array/pairwise_distance.hpp"
#include "nmtools/array/array/cosine_similarity.hpp"
#endif
#define NMC_MAIN
#include "common.hpp"
#include "nmc_ref_c17.hpp"

const char* nmc_property() { return "C17"; }

using nmtools::None;

// lazy view and eager result must each equal the model and agree with each other
template <typename V, typename A> static Outcome both(const V& lazy, const A& eager, const ROpt& want, bool nontriv, double rtol = 0) {
    Obs ol = nmc::observe(lazy), oe = nmc::observe(eager);
    Outcome o = judge(ol, want, nontriv, rtol);
    if (!o.fail.empty()) { o.fail = "view: " + o.fail; return o; }
    Outcome e = judge(oe, want, nontriv, rtol);
    if (!e.fail.empty()) { e.fail = "array: " + e.fail; return e; }
    std::string s = same(ol, oe, "view vs array");
    if (!s.empty()) return Outcome::bad("wrong", s, nontriv, ol.hash());
    return o;
}
static RArr values(const L& shape, double base, double step = 1) { RArr r(shape); for (size_t i = 0; i < r.data.size(); i++) r.data[i] = base + step * (double)i; return r; }
static bool divides(long g, long n) { return n % g == 0; }

// ================================================================================================ convolution
#if defined(C17_CONV1D) || defined(C17_CONV2D)
// every (C, O, groups) with C, O in 1..4 and groups a common divisor ("channels 1..4 with every divisor as groups")
template <typename F> static void each_channels(F&& f) {
    for (long g = 1; g <= 4; g++) for (long C = 1; C <= 4; C++) for (long O = 1; O <= 4; O++) if (divides(g, C) && divides(g, O)) f(C, O, g);
}
static bool conv_nontrivial(const RArr& w, const RArr& want) { long taps = w.size() / w.shape[0]; return want.size() >= 2 || taps >= 2; }
#endif

#ifdef C17_CONV1D
// key: conv1d | B,C,O,groups | L | k | stride | pad | dil | bias(0/1),form(0 = run-time int arguments, 1 = None for stride/padding/dilation)
static void enumerate_unit(const nmc::Tier& t, const nmc::Sink& emit) {
    long E = t.thorough() ? 7 : 5;
    for (long B = 1; B <= 2; B++) each_channels([&](long C, long O, long g) {
        for (long Ln = 1; Ln <= E; Ln++) {
            // quick: batch 2 only for C,O <= 2 and L <= 3 (on the pinned tree EVERY batch-2 conv aborts; a contained crash costs ~8 ms)
            if (!t.thorough() && B == 2 && !(C <= 2 && O <= 2 && Ln <= 3)) continue;
            for (long k = 1; k <= 3; k++) for (long s = 1; s <= 3; s++) for (long p = 0; p <= 2; p++) for (long d = 1; d <= 2; d++) {
            if (ref::conv_out_extent(Ln, k, s, p, d) <= 0) continue;
            for (long bias = 0; bias <= 1; bias++) {
                emit(Case("conv1d", {{B, C, O, g}, {Ln}, {k}, {s}, {p}, {d}, {bias, 0}}));
                if (s == 1 && p == 0 && d == 1) emit(Case("conv1d", {{B, C, O, g}, {Ln}, {k}, {s}, {p}, {d}, {bias, 1}}));
            }
        }
        }
    });
}
static Outcome execute_unit(const Case& c) {
    long B = c.a[0][0], C = c.a[0][1], O = c.a[0][2], g = c.a[0][3], Ln = c.a[1][0], k = c.a[2][0];
    int s = (int)c.a[3][0], p = (int)c.a[4][0], d = (int)c.a[5][0], G = (int)g; bool bias = c.a[6][0] != 0; long form = c.a[6][1];
    RArr x = values({B, C, Ln}, 1), w = values({O, C / g, k}, 2), b = values({O}, 101, 7);
    ROpt want = ref::convnd(x, w, bias ? &b : nullptr, {s}, {p}, {d}, g);
    if (!want) return Outcome::bad("wrong", "harness: case outside the domain was enumerated");
    bool nt = conv_nontrivial(w, *want);
    auto X = make_arr<long>(x), W = make_arr<long>(w), Bi = make_arr<long>(b);
    if (form == 0) {
        if (bias) return both(view::conv1d(X, W, Bi, s, p, d, G), na::conv1d(X, W, Bi, s, p, d, G), want, nt);
        return both(view::conv1d(X, W, None, s, p, d, G), na::conv1d(X, W, None, s, p, d, G), want, nt);
    }
    if (bias) return both(view::conv1d(X, W, Bi, None, None, None, G), na::conv1d(X, W, Bi, None, None, None, G), want, nt);
    return both(view::conv1d(X, W, None, None, None, None, G), na::conv1d(X, W, None, None, None, None, G), want, nt);
}
#endif

#ifdef C17_CONV2D
// key: conv2d | B,C,O,groups | H,W | kh,kw | sh,sw | ph,pw | dh,dw | bias(0/1),form(0 = per-axis lists, 1 = scalar int arguments)
static const long KERNELS[7][2] = {{1, 1}, {2, 2}, {3, 3}, {1, 2}, {2, 1}, {1, 3}, {3, 1}};
static void enumerate_unit(const nmc::Tier& t, const nmc::Sink& emit) {
    bool T = t.thorough();
    // bias_mask: bit0 = emit bias-absent, bit1 = emit bias-present
    auto grid = [&](long B, long C, long O, long g, long H, long W, bool per_axis, int bias_mask, bool with_scalar_form) {
        for (auto& K : KERNELS) {
            long kh = K[0], kw = K[1];
            auto one = [&](long sh, long sw, long ph, long pw, long dh, long dw) {
                if (ref::conv_out_extent(H, kh, sh, ph, dh) <= 0 || ref::conv_out_extent(W, kw, sw, pw, dw) <= 0) return;
                for (long bias = 0; bias <= 1; bias++) if (bias_mask >> bias & 1) emit(Case("conv2d", {{B, C, O, g}, {H, W}, {kh, kw}, {sh, sw}, {ph, pw}, {dh, dw}, {bias, 0}}));
                if (with_scalar_form && sh == sw && ph == pw && dh == dw) emit(Case("conv2d", {{B, C, O, g}, {H, W}, {kh, kw}, {sh, sw}, {ph, pw}, {dh, dw}, {0, 1}}));
            };
            if (!per_axis) { for (long s = 1; s <= 3; s++) for (long p = 0; p <= 2; p++) for (long d = 1; d <= 2; d++) one(s, s, p, p, d, d); }
            else for (long sh = 1; sh <= 3; sh++) for (long sw = 1; sw <= 3; sw++) for (long ph = 0; ph <= 2; ph++) for (long pw = 0; pw <= 2; pw++) for (long dh = 1; dh <= 2; dh++) for (long dw = 1; dw <= 2; dw++) {
                if (sh == sw && ph == pw && dh == dw) continue;   // already in the equal-arguments grid
                one(sh, sw, ph, pw, dh, dw);
            }
        }
    };
    // All grids: 7 kernel shapes (square 1..3, 1xk, kx1), stride 1..3, padding 0..2, dilation 1..2, positive output size.
    // The full cross of the property (2 x 22 x 49 x 7 x 18^2 x 2 ~ 10^8 conv2d calls) is far beyond the run budget; it is covered by
    // these exhaustive sub-grids, each complete in the dimensions it varies:
    //  (a) spatial sweep, batch 1, stride/padding/dilation equal on both axes, bias absent and present:
    //        thorough: all 22 (C,O,groups) triples x H,W in 1..7 ;  quick: triples (1,1,1), (2,2,2) x H,W in 1..5
    //  (b) quick only - channel sweep: all 22 triples x H,W in 1..2 (equal arguments, both bias settings)
    //  (c) batch 2 (on the pinned tree every batch-2 convolution aborts; one contained crash costs ~8 ms):
    //        thorough: triples with C,O <= 2 or groups > 1, H,W in 1..3 ;  quick: triples (1,1,1), (2,2,1), (2,2,2), H,W in 1..2
    //  (d) scalar (int) stride/padding/dilation instead of per-axis lists, bias absent: batch 1, C,O <= 2, H,W in 1..3 (thorough 1..5),
    //      on the extents that (a)/(b) visit
    //  (e) thorough only - every per-axis (sh,sw,ph,pw,dh,dw) combination, H,W in 1..5: (1,1,1) without bias, (2,2,2) with bias
    each_channels([&](long C, long O, long g) {
        bool spatial_q = (C == 1 && O == 1) || (C == 2 && O == 2 && g == 2);
        long E = T ? 7 : 5;
        for (long H = 1; H <= E; H++) for (long W = 1; W <= E; W++) {
            if (!T && !spatial_q && !(H <= 2 && W <= 2)) continue;
            bool scalar = C <= 2 && O <= 2 && (T ? (H <= 5 && W <= 5) : (H <= 3 && W <= 3));
            grid(1, C, O, g, H, W, false, 3, scalar);
        }
    });
    each_channels([&](long C, long O, long g) {
        bool sel = T ? ((C <= 2 && O <= 2) || g > 1) : ((C == 1 && O == 1) || (C == 2 && O == 2));
        long E2 = T ? 3 : 2;
        if (sel) for (long H = 1; H <= E2; H++) for (long W = 1; W <= E2; W++) grid(2, C, O, g, H, W, false, 3, false);
    });
    if (T) for (long H = 1; H <= 5; H++) for (long W = 1; W <= 5; W++) { grid(1, 1, 1, 1, H, W, true, 1, false); grid(1, 2, 2, 2, H, W, true, 2, false); }
}
static Outcome execute_unit(const Case& c) {
    long B = c.a[0][0], C = c.a[0][1], O = c.a[0][2], g = c.a[0][3]; int G = (int)g; bool bias = c.a[6][0] != 0; long form = c.a[6][1];
    RArr x = values({B, C, c.a[1][0], c.a[1][1]}, 1), w = values({O, C / g, c.a[2][0], c.a[2][1]}, 2), b = values({O}, 101, 7);
    ROpt want = ref::convnd(x, w, bias ? &b : nullptr, c.a[3], c.a[4], c.a[5], g);
    if (!want) return Outcome::bad("wrong", "harness: case outside the domain was enumerated");
    bool nt = conv_nontrivial(w, *want);
    auto X = make_arr<long>(x), W = make_arr<long>(w), Bi = make_arr<long>(b);
    if (form == 0) {
        il s = to_il(c.a[3]), p = to_il(c.a[4]), d = to_il(c.a[5]);
        if (bias) return both(view::conv2d(X, W, Bi, s, p, d, G), na::conv2d(X, W, Bi, s, p, d, G), want, nt);
        return both(view::conv2d(X, W, None, s, p, d, G), na::conv2d(X, W, None, s, p, d, G), want, nt);
    }
    int s = (int)c.a[3][0], p = (int)c.a[4][0], d = (int)c.a[5][0];
    return both(view::conv2d(X, W, None, s, p, d, G), na::conv2d(X, W, None, s, p, d, G), want, nt);
}
#endif

#if defined(C17_CONV1D) || defined(C17_CONV2D)
static void selftest_unit() {
    // upstream literals (PyTorch): conv1d case1, case8 (stride 2), case13 (dilation 2), case6 (groups 2, bias .5), case18 (padding 1)
    RArr x = values({1, 5, 4}, 0), w1(L{1, 5, 3}); for (auto& v : w1.data) v = 1;
    ROpt r = ref::convnd(x, w1, nullptr, {1}, {0}, {1}, 1); if (!r || r->shape != L{1, 1, 2} || r->data != std::vector<double>{135, 150}) nmc::die("selftest: conv1d case1");
    r = ref::convnd(x, w1, nullptr, {2}, {0}, {1}, 1); if (!r || r->shape != L{1, 1, 1} || r->data[0] != 135) nmc::die("selftest: conv1d case8");
    RArr x5 = values({1, 5, 5}, 0); r = ref::convnd(x5, w1, nullptr, {1}, {0}, {2}, 1); if (!r || r->shape != L{1, 1, 1} || r->data[0] != 180) nmc::die("selftest: conv1d case13");
    RArr x6 = values({1, 6, 4}, 0), w6(L{2, 3, 3}), b6(L{2}, {0.5, 0.5}); for (auto& v : w6.data) v = 1;
    r = ref::convnd(x6, w6, &b6, {1}, {0}, {1}, 2); if (!r || r->shape != L{1, 2, 2} || r->data != std::vector<double>{45.5, 54.5, 153.5, 162.5}) nmc::die("selftest: conv1d case6 (groups)");
    // conv2d case4: 5x5 iota, 3x3 ones kernel, stride 2 -> [[54,72],[144,162]]
    RArr x2 = values({1, 1, 5, 5}, 0), w2(L{1, 1, 3, 3}); for (auto& v : w2.data) v = 1;
    r = ref::convnd(x2, w2, nullptr, {2, 2}, {0, 0}, {1, 1}, 1); if (!r || r->shape != L{1, 1, 2, 2} || r->data != std::vector<double>{54, 72, 144, 162}) nmc::die("selftest: conv2d case4");
    // padding: corners see only a 2x2 part of the input
    r = ref::convnd(x2, w2, nullptr, {1, 1}, {1, 1}, {1, 1}, 1); if (!r || r->shape != L{1, 1, 5, 5} || r->data[0] != 0 + 1 + 5 + 6) nmc::die("selftest: conv2d zero padding");
    // grouping follows PyTorch: output channel o reads input group o / (O/groups)
    RArr xg = values({1, 2, 1}, 1), wg = values({4, 1, 1}, 2); r = ref::convnd(xg, wg, nullptr, {1}, {0}, {1}, 2);
    if (!r || r->data != std::vector<double>{2 * 1, 3 * 1, 4 * 2, 5 * 2}) nmc::die("selftest: group assignment");
    // a canned wrong implementation (interleaved group assignment o % groups) must be flagged
    Obs wrong; wrong.shape = {1, 4, 1}; wrong.data = {2 * 1, 3 * 2, 4 * 1, 5 * 2};
    if (nmc::diff(wrong, r).empty()) nmc::die("selftest: oracle blind to a wrong group assignment");
    Obs wshape = r->obs(); wshape.shape = {1, 1, 4}; if (nmc::diff(wshape, r).empty()) nmc::die("selftest: oracle blind to a wrong shape");
    if (ref::convnd(x, w1, nullptr, {1}, {0}, {2}, 1)) nmc::die("selftest: non-positive output size must be outside the domain");
}
#endif

// ================================================================================================ dispatch
void nmc_enumerate(const nmc::Tier& t, const nmc::Sink& emit) { enumerate_unit(t, emit); }
Outcome nmc_execute(const Case& c) { return execute_unit(c); }
void nmc_selftest() { selftest_unit(); }
