// C17 - neural-network routines equal their reference (PyTorch/NumPy) definitions  (E1, bounded exhaustive)
//
// One source, seven translation units selected by exactly one of
//     -DC17_CONV1D   conv1d                       -DC17_CONV2D   conv2d
//     -DC17_POOL     max_pool2d, avg_pool2d       -DC17_SOFTMAX  softmax, softmin
//     -DC17_NORM     batch/layer/instance norm    -DC17_GNORM    group_norm
//     -DC17_MISC     linear, bilinear, pairwise_distance, cosine_similarity
// Oracle: engine/nmc_ref_c17.hpp (nested loops from the PyTorch documentation).  The model was validated independently of
// nmtools: c17_upstream_literals.cpp (all 111 PyTorch expectation literals of include/nmtools/testing/data/array/*.hpp) and
// c17_refdump.cpp + c17_audit.py (6493 model results recomputed with NumPy formulas, 0 mismatches); each unit's selftest
// re-checks a few hand-ported upstream literals and feeds canned wrong results through the comparison.
//
// Operands: all-dynamic ndarrays, all-distinct element values (conv/linear/bilinear: input 1,2,3,.., weight 2,3,4,.., bias 101,108,..;
// pooling/softmax/norms/distances: a scrambled distinct sequence) so that an element taken from the wrong place, a wrong group or a
// dropped/duplicated tap changes the result.  Integer element type (long) and exact comparison for conv / max_pool / linear /
// bilinear; double operands and rtol 1e-9 where division / sqrt / exp occur (softmax/softmin, the norms, the distances); rtol 1e-5
// for avg_pool2d (its element type is float by construction) and for the float / integer-input variants of softmax.
// Every case calls the lazy view AND the eager array:: function; both are compared with the model, and - for the exact families -
// with each other.
//
// NON-TRIVIALITY RULE (stated per family):
//   conv      : the result has >= 2 elements, or every result element is a sum of >= 2 products (C/groups * prod(kernel) >= 2)
//   pool      : some window covers >= 2 in-bounds input elements, or the result has >= 2 elements
//   softmax   : the extent along the axis is >= 2 (otherwise the result is all ones)
//   norms     : every normalisation set has >= 2 elements (otherwise the normalised value is 0 and the result is just the bias);
//               batch_norm (no statistics computed): the input has >= 2 elements
//   linear / bilinear : the contraction has >= 2 terms or the result has >= 2 elements
//   pairwise_distance / cosine_similarity : the reduced axis has extent >= 2
#if !defined(C17_CONV1D) && !defined(C17_CONV2D) && !defined(C17_POOL) && !defined(C17_SOFTMAX) && !defined(C17_NORM) && !defined(C17_GNORM) && !defined(C17_MISC)
#error "select a unit: -DC17_CONV1D | -DC17_CONV2D | -DC17_POOL | -DC17_SOFTMAX | -DC17_NORM | -DC17_GNORM | -DC17_MISC"
#endif
#ifdef C17_CONV1D
#include "nmtools/array/array/conv1d.hpp"
#endif
#ifdef C17_CONV2D
#include "nmtools/array/array/conv2d.hpp"
#endif
#ifdef C17_POOL
#include "nmtools/array/array/pooling.hpp"
#endif
#ifdef C17_SOFTMAX
#include "nmtools/array/array/softmax.hpp"
#include "nmtools/array/array/softmin.hpp"
#endif
#ifdef C17_NORM
#include "nmtools/array/array/batch_norm.hpp"
#include "nmtools/array/array/layer_norm.hpp"
#include "nmtools/array/array/instance_norm.hpp"
#endif
#ifdef C17_GNORM
#include "nmtools/array/array/group_norm.hpp"
#endif
#ifdef C17_MISC
#include "nmtools/array/array/linear.hpp"
#include "nmtools/array/array/bilinear.hpp"
#include "nmtools/array/array/pairwise_distance.hpp"
#include "nmtools/array/array/cosine_similarity.hpp"
#endif
#define NMC_MAIN
#include "common.hpp"
#include "nmc_ref_c17.hpp"

const char* nmc_property() { return "C17"; }

using nmtools::None;

// lazy view and eager result must each equal the model and agree with each other
template <typename V, typename A> static Outcome both(const V& lazy, const A& eager, const ROpt& want, bool nontriv, double rtol = 0) {
    Obs ol = nmc::observe(lazy), oe = nmc::observe(eager);
    Outcome o = judge(ol, want, nontriv, rtol);
    if (!o.fail.empty()) { o.fail = "view: " + o.fail; return o; }
    Outcome e = judge(oe, want, nontriv, rtol);
    if (!e.fail.empty()) { e.fail = "array: " + e.fail; return e; }
    // exact families: lazy and eager must be identical.  Tolerance families: both are within rtol of the model, which is what the
    // property states (the eager result may be rounded to a narrower element type, e.g. avg_pool2d evaluates to float)
    if (rtol == 0) { std::string s = same(ol, oe, "view vs array"); if (!s.empty()) return Outcome::bad("wrong", s, nontriv, ol.hash()); }
    return o;
}
static RArr values(const L& shape, double base, double step = 1) { RArr r(shape); for (size_t i = 0; i < r.data.size(); i++) r.data[i] = base + step * (double)i; return r; }
static bool divides(long g, long n) { return n % g == 0; }

// ================================================================================================ convolution
#if defined(C17_CONV1D) || defined(C17_CONV2D)
// every (C, O, groups) with C, O in 1..4 and groups a common divisor ("channels 1..4 with every divisor as groups")
template <typename F> static void each_channels(F&& f) {
    for (long g = 1; g <= 4; g++) for (long C = 1; C <= 4; C++) for (long O = 1; O <= 4; O++) if (divides(g, C) && divides(g, O)) f(C, O, g);
}
static bool conv_nontrivial(const RArr& w, const RArr& want) { long taps = w.size() / w.shape[0]; return want.size() >= 2 || taps >= 2; }
#endif

#ifdef C17_CONV1D
// key: conv1d | B,C,O,groups | L | k | stride | pad | dil | bias(0/1),form(0 = run-time int arguments, 1 = None for stride/padding/dilation)
static void enumerate_unit(const nmc::Tier& t, const nmc::Sink& emit) {
    long E = t.thorough() ? 7 : 5;
    for (long B = 1; B <= 2; B++) each_channels([&](long C, long O, long g) {
        for (long Ln = 1; Ln <= E; Ln++) {
            // quick: batch 2 only for C,O <= 2 and L <= 3 (on the pinned tree EVERY batch-2 conv aborts; a contained crash costs ~8 ms)
            if (!t.thorough() && B == 2 && !(C <= 2 && O <= 2 && Ln <= 3)) continue;
            for (long k = 1; k <= 3; k++) for (long s = 1; s <= 3; s++) for (long p = 0; p <= 2; p++) for (long d = 1; d <= 2; d++) {
            if (ref::conv_out_extent(Ln, k, s, p, d) <= 0) continue;
            for (long bias = 0; bias <= 1; bias++) {
                emit(Case("conv1d", {{B, C, O, g}, {Ln}, {k}, {s}, {p}, {d}, {bias, 0}}));
                if (s == 1 && p == 0 && d == 1) emit(Case("conv1d", {{B, C, O, g}, {Ln}, {k}, {s}, {p}, {d}, {bias, 1}}));
            }
        }
        }
    });
}
static Outcome execute_unit(const Case& c) {
    long B = c.a[0][0], C = c.a[0][1], O = c.a[0][2], g = c.a[0][3], Ln = c.a[1][0], k = c.a[2][0];
    int s = (int)c.a[3][0], p = (int)c.a[4][0], d = (int)c.a[5][0], G = (int)g; bool bias = c.a[6][0] != 0; long form = c.a[6][1];
    RArr x = values({B, C, Ln}, 1), w = values({O, C / g, k}, 2), b = values({O}, 101, 7);
    ROpt want = ref::convnd(x, w, bias ? &b : nullptr, {s}, {p}, {d}, g);
    if (!want) return Outcome::bad("wrong", "harness: case outside the domain was enumerated");
    bool nt = conv_nontrivial(w, *want);
    auto X = make_arr<long>(x), W = make_arr<long>(w), Bi = make_arr<long>(b);
    if (form == 0) {
        if (bias) return both(view::conv1d(X, W, Bi, s, p, d, G), na::conv1d(X, W, Bi, s, p, d, G), want, nt);
        return both(view::conv1d(X, W, None, s, p, d, G), na::conv1d(X, W, None, s, p, d, G), want, nt);
    }
    if (bias) return both(view::conv1d(X, W, Bi, None, None, None, G), na::conv1d(X, W, Bi, None, None, None, G), want, nt);
    return both(view::conv1d(X, W, None, None, None, None, G), na::conv1d(X, W, None, None, None, None, G), want, nt);
}
#endif

#ifdef C17_CONV2D
// key: conv2d | B,C,O,groups | H,W | kh,kw | sh,sw | ph,pw | dh,dw | bias(0/1),form(0 = per-axis lists, 1 = scalar int arguments, 2..5 see the end of enumerate_unit)
static const long KERNELS[7][2] = {{1, 1}, {2, 2}, {3, 3}, {1, 2}, {2, 1}, {1, 3}, {3, 1}};
static void enumerate_unit(const nmc::Tier& t, const nmc::Sink& emit) {
    bool T = t.thorough();
    // bias_mask: bit0 = emit bias-absent, bit1 = emit bias-present
    auto grid = [&](long B, long C, long O, long g, long H, long W, bool per_axis, int bias_mask, bool with_scalar_form) {
        for (auto& K : KERNELS) {
            long kh = K[0], kw = K[1];
            auto one = [&](long sh, long sw, long ph, long pw, long dh, long dw) {
                if (ref::conv_out_extent(H, kh, sh, ph, dh) <= 0 || ref::conv_out_extent(W, kw, sw, pw, dw) <= 0) return;
                for (long bias = 0; bias <= 1; bias++) if (bias_mask >> bias & 1) emit(Case("conv2d", {{B, C, O, g}, {H, W}, {kh, kw}, {sh, sw}, {ph, pw}, {dh, dw}, {bias, 0}}));
                if (with_scalar_form && sh == sw && ph == pw && dh == dw) emit(Case("conv2d", {{B, C, O, g}, {H, W}, {kh, kw}, {sh, sw}, {ph, pw}, {dh, dw}, {0, 1}}));
            };
            if (!per_axis) { for (long s = 1; s <= 3; s++) for (long p = 0; p <= 2; p++) for (long d = 1; d <= 2; d++) one(s, s, p, p, d, d); }
            else for (long sh = 1; sh <= 3; sh++) for (long sw = 1; sw <= 3; sw++) for (long ph = 0; ph <= 2; ph++) for (long pw = 0; pw <= 2; pw++) for (long dh = 1; dh <= 2; dh++) for (long dw = 1; dw <= 2; dw++) {
                if (sh == sw && ph == pw && dh == dw) continue;   // already in the equal-arguments grid
                one(sh, sw, ph, pw, dh, dw);
            }
        }
    };
    // All grids: 7 kernel shapes (square 1..3, 1xk, kx1), stride 1..3, padding 0..2, dilation 1..2, positive output size.
    // The full cross of the property (2 x 22 x 49 x 7 x 18^2 x 2 ~ 10^8 conv2d calls) is far beyond the run budget; it is covered by
    // these exhaustive sub-grids, each complete in the dimensions it varies:
    //  (a) spatial sweep, batch 1, stride/padding/dilation equal on both axes, bias absent and present:
    //        thorough: all 22 (C,O,groups) triples x H,W in 1..5, and H,W in 1..7 for the narrow triples (C*O/groups <= 2:
    //        (1,1,1), (1,2,1), (2,1,1), (2,2,2); a 4x4-channel 7x7 case costs ~20 ms) ;  quick: triples (1,1,1), (2,2,2) x H,W in 1..5
    //  (b) quick only - channel sweep: all 22 triples x H,W in 1..2 (equal arguments, both bias settings)
    //  (c) batch 2 (on the pinned tree every batch-2 convolution aborts; one contained crash costs ~8 ms):
    //        thorough: triples with C,O <= 2 or groups > 1, H,W in 1..3 ;  quick: triples (1,1,1), (2,2,1), (2,2,2), H,W in 1..2
    //  (d) scalar (int) stride/padding/dilation instead of per-axis lists, bias absent: batch 1, C,O <= 2, H,W in 1..3 (thorough 1..5),
    //      on the extents that (a)/(b) visit
    //  (e) thorough only - every per-axis (sh,sw,ph,pw,dh,dw) combination, H,W in 1..5: (1,1,1) without bias, (2,2,2) with bias
    each_channels([&](long C, long O, long g) {
        bool spatial_q = (C == 1 && O == 1) || (C == 2 && O == 2 && g == 2);
        long E = (T && C * O / g <= 2) ? 7 : 5;
        for (long H = 1; H <= E; H++) for (long W = 1; W <= E; W++) {
            if (!T && !spatial_q && !(H <= 2 && W <= 2)) continue;
            bool scalar = C <= 2 && O <= 2 && (T ? (H <= 5 && W <= 5) : (H <= 3 && W <= 3));
            grid(1, C, O, g, H, W, false, 3, scalar);
        }
    });
    each_channels([&](long C, long O, long g) {
        bool sel = T ? ((C <= 2 && O <= 2) || g > 1) : ((C == 1 && O == 1) || (C == 2 && O == 2));
        long E2 = T ? 3 : 2;
        if (sel) for (long H = 1; H <= E2; H++) for (long W = 1; W <= E2; W++) grid(2, C, O, g, H, W, false, 3, false);
    });
    if (T) for (long H = 1; H <= 5; H++) for (long W = 1; W <= 5; W++) { grid(1, 1, 1, 1, H, W, true, 1, false); grid(1, 2, 2, 2, H, W, true, 2, false); }
    // quick tier: a small per-axis sub-grid as well (every (sh,sw,ph,pw,dh,dw) with unequal entries on three input sizes) - a seeded change that swapped the
    // per-axis STRIDE order was invisible to a quick tier that only used equal per-axis arguments
    else { grid(1, 1, 1, 1, 3, 4, true, 1, false); grid(1, 1, 1, 1, 4, 3, true, 1, false); grid(1, 2, 2, 2, 5, 5, true, 2, false); }
    // the remaining call FORMS (both tiers, a small grid: H,W in 2..3, four kernels):
    //   form 2: every optional argument omitted - conv2d(x, w) / conv2d(x, w, bias) (stride 1, padding 0, dilation 1, groups 1)
    //   form 3: groups as a COMPILE-TIME constant (1 or 2), per-axis list arguments
    //   form 4: mixed kinds - scalar stride, padding None (= 0), dilation as a list
    //   form 5: scalar (int) arguments WITH a bias (form 1 is bias-less)
    for (long H = 2; H <= 3; H++) for (long W = 2; W <= 3; W++) for (int ki = 0; ki < 4; ki++) {
        long kh = KERNELS[ki == 3 ? 4 : ki == 2 ? 3 : ki][0], kw = KERNELS[ki == 3 ? 4 : ki == 2 ? 3 : ki][1];
        if (kh > H || kw > W) continue;
        for (long bias = 0; bias <= 1; bias++) {
            emit(Case("conv2d", {{1, 2, 2, 1}, {H, W}, {kh, kw}, {1, 1}, {0, 0}, {1, 1}, {bias, 2}}));
            for (long g = 1; g <= 2; g++) for (long st = 1; st <= 2; st++) for (long pd = 0; pd <= 1; pd++) emit(Case("conv2d", {{1, 2, 2, g}, {H, W}, {kh, kw}, {st, st}, {pd, pd}, {1, 1}, {bias, 3}}));
            for (long st = 1; st <= 2; st++) for (long dl = 1; dl <= 2; dl++) { if (ref::conv_out_extent(H, kh, st, 0, dl) <= 0 || ref::conv_out_extent(W, kw, st, 0, dl) <= 0) continue; emit(Case("conv2d", {{1, 2, 2, 1}, {H, W}, {kh, kw}, {st, st}, {0, 0}, {dl, dl}, {bias, 4}})); }
        }
        for (long st = 1; st <= 2; st++) for (long pd = 0; pd <= 1; pd++) emit(Case("conv2d", {{1, 2, 2, 2}, {H, W}, {kh, kw}, {st, st}, {pd, pd}, {1, 1}, {1, 5}}));
    }
}
static Outcome execute_unit(const Case& c) {
    long B = c.a[0][0], C = c.a[0][1], O = c.a[0][2], g = c.a[0][3]; int G = (int)g; bool bias = c.a[6][0] != 0; long form = c.a[6][1];
    RArr x = values({B, C, c.a[1][0], c.a[1][1]}, 1), w = values({O, C / g, c.a[2][0], c.a[2][1]}, 2), b = values({O}, 101, 7);
    ROpt want = ref::convnd(x, w, bias ? &b : nullptr, c.a[3], c.a[4], c.a[5], g);
    if (!want) return Outcome::bad("wrong", "harness: case outside the domain was enumerated");
    bool nt = conv_nontrivial(w, *want);
    auto X = make_arr<long>(x), W = make_arr<long>(w), Bi = make_arr<long>(b);
    if (form == 0) {
        il s = to_il(c.a[3]), p = to_il(c.a[4]), d = to_il(c.a[5]);
        if (bias) return both(view::conv2d(X, W, Bi, s, p, d, G), na::conv2d(X, W, Bi, s, p, d, G), want, nt);
        return both(view::conv2d(X, W, None, s, p, d, G), na::conv2d(X, W, None, s, p, d, G), want, nt);
    }
    if (form == 2) { if (bias) return both(view::conv2d(X, W, Bi), na::conv2d(X, W, Bi), want, nt); return both(view::conv2d(X, W), na::conv2d(X, W), want, nt); }
    if (form == 3) {
        il s = to_il(c.a[3]), p = to_il(c.a[4]), d = to_il(c.a[5]);
        auto go = [&](auto cg) -> Outcome { if (bias) return both(view::conv2d(X, W, Bi, s, p, d, cg), na::conv2d(X, W, Bi, s, p, d, cg), want, nt); return both(view::conv2d(X, W, None, s, p, d, cg), na::conv2d(X, W, None, s, p, d, cg), want, nt); };
        if (g == 1) return go(meta::ct_v<1>); return go(meta::ct_v<2>);
    }
    if (form == 4) {
        int s = (int)c.a[3][0]; il d = to_il(c.a[5]);
        if (bias) return both(view::conv2d(X, W, Bi, s, None, d), na::conv2d(X, W, Bi, s, None, d), want, nt);
        return both(view::conv2d(X, W, None, s, None, d), na::conv2d(X, W, None, s, None, d), want, nt);
    }
    int s = (int)c.a[3][0], p = (int)c.a[4][0], d = (int)c.a[5][0];
    if (form == 5) return both(view::conv2d(X, W, Bi, s, p, d, G), na::conv2d(X, W, Bi, s, p, d, G), want, nt);
    return both(view::conv2d(X, W, None, s, p, d, G), na::conv2d(X, W, None, s, p, d, G), want, nt);
}
#endif

#if defined(C17_CONV1D) || defined(C17_CONV2D)
static void selftest_unit() {
    // upstream literals (PyTorch): conv1d case1, case8 (stride 2), case13 (dilation 2), case6 (groups 2, bias .5), case18 (padding 1)
    RArr x = values({1, 5, 4}, 0), w1(L{1, 5, 3}); for (auto& v : w1.data) v = 1;
    ROpt r = ref::convnd(x, w1, nullptr, {1}, {0}, {1}, 1); if (!r || r->shape != L{1, 1, 2} || r->data != std::vector<double>{135, 150}) nmc::die("selftest: conv1d case1");
    r = ref::convnd(x, w1, nullptr, {2}, {0}, {1}, 1); if (!r || r->shape != L{1, 1, 1} || r->data[0] != 135) nmc::die("selftest: conv1d case8");
    RArr x5 = values({1, 5, 5}, 0); r = ref::convnd(x5, w1, nullptr, {1}, {0}, {2}, 1); if (!r || r->shape != L{1, 1, 1} || r->data[0] != 180) nmc::die("selftest: conv1d case13");
    RArr x6 = values({1, 6, 4}, 0), w6(L{2, 3, 3}), b6(L{2}, {0.5, 0.5}); for (auto& v : w6.data) v = 1;
    r = ref::convnd(x6, w6, &b6, {1}, {0}, {1}, 2); if (!r || r->shape != L{1, 2, 2} || r->data != std::vector<double>{45.5, 54.5, 153.5, 162.5}) nmc::die("selftest: conv1d case6 (groups)");
    // conv2d case4: 5x5 iota, 3x3 ones kernel, stride 2 -> [[54,72],[144,162]]
    RArr x2 = values({1, 1, 5, 5}, 0), w2(L{1, 1, 3, 3}); for (auto& v : w2.data) v = 1;
    r = ref::convnd(x2, w2, nullptr, {2, 2}, {0, 0}, {1, 1}, 1); if (!r || r->shape != L{1, 1, 2, 2} || r->data != std::vector<double>{54, 72, 144, 162}) nmc::die("selftest: conv2d case4");
    // padding: corners see only a 2x2 part of the input
    r = ref::convnd(x2, w2, nullptr, {1, 1}, {1, 1}, {1, 1}, 1); if (!r || r->shape != L{1, 1, 5, 5} || r->data[0] != 0 + 1 + 5 + 6) nmc::die("selftest: conv2d zero padding");
    // grouping follows PyTorch: output channel o reads input group o / (O/groups)
    RArr xg = values({1, 2, 1}, 1), wg = values({4, 1, 1}, 2); r = ref::convnd(xg, wg, nullptr, {1}, {0}, {1}, 2);
    if (!r || r->data != std::vector<double>{2 * 1, 3 * 1, 4 * 2, 5 * 2}) nmc::die("selftest: group assignment");
    // a canned wrong implementation (interleaved group assignment o % groups) must be flagged
    Obs wrong; wrong.shape = {1, 4, 1}; wrong.data = {2 * 1, 3 * 2, 4 * 1, 5 * 2};
    if (nmc::diff(wrong, r).empty()) nmc::die("selftest: oracle blind to a wrong group assignment");
    Obs wshape = r->obs(); wshape.shape = {1, 1, 4}; if (nmc::diff(wshape, r).empty()) nmc::die("selftest: oracle blind to a wrong shape");
    if (ref::convnd(x, w1, nullptr, {1}, {0}, {2}, 1)) nmc::die("selftest: non-positive output size must be outside the domain");
}
#endif

// distinct values in a scrambled order (a window/axis neighbourhood is never monotone): ((i*113+11) mod 307)+1, distinct for < 307 elements
static RArr scrambled(const L& shape, double scale = 1.0, double offset = 0.0) { RArr r(shape); if (r.size() > 307) nmc::die("scrambled: too many elements"); for (size_t i = 0; i < r.data.size(); i++) r.data[i] = offset + scale * (double)(((long)i * 113 + 11) % 307 + 1); return r; }

// ================================================================================================ pooling
#ifdef C17_POOL
// key: maxpool|avgpool | input shape (..., H, W) | kh,kw | sh,sw | ceil_mode
static void enumerate_unit(const nmc::Tier& t, const nmc::Sink& emit) {
    long E = 7;                                                // both tiers: H,W in 1..7 (cheap); the tiers differ in the leading (batch/channel) axes
    std::vector<L> leading = t.thorough() ? std::vector<L>{{}, {2}, {1, 1}, {2, 3}} : std::vector<L>{{}, {2, 2}};
    for (auto& lead : leading) for (long H = 1; H <= E; H++) for (long W = 1; W <= E; W++)
        for (long kh = 1; kh <= 3; kh++) for (long kw = 1; kw <= 3; kw++) for (long sh = 1; sh <= 3; sh++) for (long sw = 1; sw <= 3; sw++) for (long ceil = 0; ceil <= 1; ceil++) {
            if (kh > H || kw > W) continue;                    // kernel larger than the input: PyTorch raises, outside the property
            L s(lead); s.push_back(H); s.push_back(W);
            emit(Case("maxpool", {s, {kh, kw}, {sh, sw}, {ceil}}));
            emit(Case("avgpool", {s, {kh, kw}, {sh, sw}, {ceil}}));
            // the other argument kinds: ceil_mode as a COMPILE-TIME constant (nm::True / nm::False: a separate resolver branch) and kernel / stride as fixed arrays
            if (lead.empty() && H <= 5 && W <= 5) { emit(Case("maxpool", {s, {kh, kw}, {sh, sw}, {ceil, 1}})); emit(Case("avgpool", {s, {kh, kw}, {sh, sw}, {ceil, 1}})); }
        }
}
// adds the ceil_mode diagnosis to a shape failure: which formula the observed shape follows, and how many observed
// output elements have a window without any in-bounds input element (no definition assigns those a value)
static std::string pool_shape_note(const Obs& o, const RArr& x, const L& k, const L& st, bool ceil) {
    if (!o.has || o.bad_shape || o.shape.size() != x.shape.size()) return "";
    size_t d = x.shape.size(); std::string note;
    { bool documented = true; for (int a = 0; a < 2; a++) if (o.shape[d - 2 + a] != ref::pool_out_extent(x.shape[d - 2 + a], k[a], st[a], ceil)) documented = false; if (documented) return ""; }
    bool nodrop = true; for (int a = 0; a < 2; a++) if (o.shape[d - 2 + a] != ref::pool_out_extent_nodrop(x.shape[d - 2 + a], k[a], st[a], ceil)) nodrop = false;
    if (nodrop) note += " [observed shape = ceil((in-k)/stride)+1 without PyTorch's rule that a window starting beyond the input is dropped]";
    long empty = 0; nmc::each_index(o.shape, [&](const L& i) { if (ref::pool_window_inbounds(x.shape[d - 2], k[0], st[0], i[d - 2]) == 0 || ref::pool_window_inbounds(x.shape[d - 1], k[1], st[1], i[d - 1]) == 0) empty++; });
    if (empty) note += " [" + std::to_string(empty) + " output element(s) whose window contains no in-bounds input element]";
    return note;
}
static Outcome execute_unit(const Case& c) {
    const L& s = c.a[0]; const L& k = c.a[1]; const L& st = c.a[2]; bool ceil = c.a[3][0] != 0; bool is_max = c.op == "maxpool";
    RArr x = scrambled(s, 1.0, -154.0);      // values on both sides of zero: a max-pool that folds from an initial 0 is wrong for all-negative windows (missed with positive-only data)
    ROpt want = ref::pool2d(x, k, st, ceil, is_max);
    if (!want) return Outcome::bad("wrong", "harness: case outside the domain was enumerated");
    bool nt = want->size() >= 2 || std::min(k[0], s[s.size() - 2]) * std::min(k[1], s[s.size() - 1]) >= 2;
    il K = to_il(k), S = to_il(st);
    Outcome r;
    if (c.a[3].size() > 1) {   // compile-time ceil_mode, fixed-array kernel / stride
        nmtools_array<int, 2> KA{(int)k[0], (int)k[1]}, SA{(int)st[0], (int)st[1]};
        auto go = [&](auto cm) -> Outcome {
            if (is_max) { auto X = make_arr<long>(x); return both(view::max_pool2d(X, KA, SA, cm), na::max_pool2d(X, KA, SA, cm), want, nt); }
            auto X = make_arr<double>(x); return both(view::avg_pool2d(X, KA, SA, cm), na::avg_pool2d(X, KA, SA, cm), want, nt, 1e-5);
        };
        if (ceil) return go(nm::True); return go(nm::False);
    }
    if (is_max) { auto X = make_arr<long>(x); const auto v = view::max_pool2d(X, K, S, ceil); Obs ov = nmc::observe(v); r = both(v, na::max_pool2d(X, K, S, ceil), want, nt); if (!r.fail.empty()) r.fail += pool_shape_note(ov, x, k, st, ceil); }
    else { auto X = make_arr<double>(x); const auto v = view::avg_pool2d(X, K, S, ceil); Obs ov = nmc::observe(v); r = both(v, na::avg_pool2d(X, K, S, ceil), want, nt, 1e-5); if (!r.fail.empty()) r.fail += pool_shape_note(ov, x, k, st, ceil); }
    return r;
}
static void selftest_unit() {
    // upstream literals (PyTorch): max_pool2d case1 (4x4 iota, k 3, s 2, ceil) -> [[10,11],[14,15]]; avg_pool2d case1 -> [[5,6.5],[11,12.5]]
    RArr x = values({1, 1, 4, 4}, 0);
    ROpt m = ref::pool2d(x, {3, 3}, {2, 2}, true, true); if (!m || m->shape != L{1, 1, 2, 2} || m->data != std::vector<double>{10, 11, 14, 15}) nmc::die("selftest: max_pool2d case1");
    ROpt a = ref::pool2d(x, {3, 3}, {2, 2}, true, false); if (!a || a->data != std::vector<double>{5, 6.5, 11, 12.5}) nmc::die("selftest: avg_pool2d case1 (divisor = in-bounds count)");
    m = ref::pool2d(x, {2, 2}, {3, 3}, true, true); if (!m || m->shape != L{1, 1, 2, 2} || m->data != std::vector<double>{5, 7, 13, 15}) nmc::die("selftest: max_pool2d case10");
    m = ref::pool2d(x, {3, 3}, {2, 1}, false, true); if (!m || m->shape != L{1, 1, 1, 2}) nmc::die("selftest: max_pool2d case5 shape");
    // PyTorch's documented drop rule: in 5, k 1, stride 3, ceil -> 2 (not 3)
    if (ref::pool_out_extent(5, 1, 3, true) != 2 || ref::pool_out_extent_nodrop(5, 1, 3, true) != 3 || ref::pool_out_extent(5, 1, 3, false) != 2 || ref::pool_out_extent(4, 3, 2, true) != 2) nmc::die("selftest: pool_out_extent");
    // canned bug 1: dividing an overhanging window by the full kernel size must be flagged
    Obs wrong = a->obs(); wrong.data[1] = (2 + 3 + 6 + 7 + 10 + 11) / 9.0; if (nmc::diff(wrong, a, 1e-5).empty()) nmc::die("selftest: oracle blind to a full-kernel divisor");
    // canned bug 2: an extra (empty) window along an axis must be flagged as a shape failure and be counted by the note
    RArr x5 = values({5, 5}, 1); ROpt w5 = ref::pool2d(x5, {1, 1}, {3, 3}, true, true); if (!w5 || w5->shape != L{2, 2}) nmc::die("selftest: drop rule in the model");
    Obs extra; extra.shape = {3, 3}; extra.data.assign(9, 0.0); if (nmc::diff(extra, w5).empty()) nmc::die("selftest: oracle blind to the extra window");
    if (pool_shape_note(extra, x5, {1, 1}, {3, 3}, true).find("5 output element(s)") == std::string::npos) nmc::die("selftest: empty-window note");
}
#endif

// ================================================================================================ softmax / softmin
#ifdef C17_SOFTMAX
// key: softmax|softmin | shape | axis | dtype (0 double, 1 float, 2 long)
static void enumerate_unit(const nmc::Tier& t, const nmc::Sink& emit) {
    long e = t.thorough() ? 4 : 3;
    nmc::each_shape_range(1, 4, e, [&](const L& s) {
        long d = (long)s.size();
        for (long a = -d; a < d; a++) for (long dt = 0; dt <= 2; dt++) { emit(Case("softmax", {s, {a}, {dt}})); emit(Case("softmin", {s, {a}, {dt}})); }
        // the axis as a COMPILE-TIME constant (0 and -1; double data)
        for (long a : {0L, -1L}) { emit(Case("softmax", {s, {a}, {0, 1}})); emit(Case("softmin", {s, {a}, {0, 1}})); }
        // float data whose slices along the softmax axis sit on very different scales (+200 per step along a neighbouring axis): the normalisation must be per slice
        // (seeded change m17e subtracted one GLOBAL maximum: mathematically the same, but a slice far below it underflows to 0/0)
        if (d >= 2) for (long a = -d; a < d; a++) { emit(Case("softmax", {s, {a}, {1, 2}})); emit(Case("softmin", {s, {a}, {1, 2}})); }
    });
}
template <typename T> static Outcome run_softmax(bool neg, const RArr& x, int axis, const ROpt& want, bool nt, double rtol) {
    auto X = make_arr<T>(x);
    if (neg) return both(view::softmin(X, axis), na::softmin(X, axis), want, nt, rtol);
    return both(view::softmax(X, axis), na::softmax(X, axis), want, nt, rtol);
}
static Outcome execute_unit(const Case& c) {
    const L& s = c.a[0]; long axis = c.a[1][0], dt = c.a[2][0]; bool neg = c.op == "softmin";
    // double/float: distinct multiples of 1/16 in (0, 19.2]; long: small integers 0..8 (exp of larger integer gaps underflows the tolerance)
    RArr x = scrambled(s, 1.0 / 16);
    if (dt == 2) for (auto& v : x.data) v = (double)((long)(v * 16) % 9);
    if (c.a[2].size() > 1 && c.a[2][1] == 2) {   // scaled slices: +200 per step along the axis after the softmax axis (cyclically)
        long ax0 = axis < 0 ? axis + (long)s.size() : axis, nb = (ax0 + 1) % (long)s.size(); long q = 0;
        nmc::each_index(s, [&](const L& i) { x.data[(size_t)q] = (double)(float)(x.data[(size_t)q] + 200.0 * (double)i[(size_t)nb]); q++; });
    }
    ROpt want = neg ? ref::softmin(x, axis) : ref::softmax(x, axis);
    if (!want) return Outcome::bad("wrong", "harness: case outside the domain was enumerated");
    long ax = axis < 0 ? axis + (long)s.size() : axis; bool nt = s[(size_t)ax] >= 2;
    if (c.a[2].size() > 1 && c.a[2][1] == 1) {
        using namespace nmtools::literals;
        auto X = make_arr<double>(x);
        auto go = [&](auto ct_axis) -> Outcome { if (neg) return both(view::softmin(X, ct_axis), na::softmin(X, ct_axis), want, nt, 1e-9); return both(view::softmax(X, ct_axis), na::softmax(X, ct_axis), want, nt, 1e-9); };
        if (axis == 0) return go(0_ct); return go("-1"_ct);
    }
    if (dt == 0) return run_softmax<double>(neg, x, (int)axis, want, nt, 1e-9);
    if (dt == 1) return run_softmax<float>(neg, x, (int)axis, want, nt, 1e-5);
    return run_softmax<long>(neg, x, (int)axis, want, nt, 1e-5);
}
static void selftest_unit() {
    // upstream literal softmax case3 (PyTorch): row [0,1,2,3,4] -> 0.011656 0.031685 0.086129 0.234122 0.636409; softmin is the mirror image
    RArr x = values({2, 5}, 0); ROpt r = ref::softmax(x, 1); const double lit[5] = {0.011656, 0.031685, 0.086129, 0.234122, 0.636409};
    for (int i = 0; i < 5; i++) if (!r || std::fabs(r->data[(size_t)i] - lit[i]) > 1e-6 || std::fabs(r->data[(size_t)(5 + i)] - lit[i]) > 1e-6) nmc::die("selftest: softmax case3");
    ROpt m = ref::softmin(x, -1); for (int i = 0; i < 5; i++) if (!m || std::fabs(m->data[(size_t)i] - lit[4 - i]) > 1e-6) nmc::die("selftest: softmin case3");
    ROpt c0 = ref::softmax(x, 0); if (!c0 || std::fabs(c0->data[0] - 0.006693) > 1e-6 || std::fabs(c0->data[5] - 0.993307) > 1e-6) nmc::die("selftest: softmax case2 (axis 0)");
    // canned bug: softmax over the wrong axis must be flagged
    if (nmc::diff(c0->obs(), r, 1e-9).empty()) nmc::die("selftest: oracle blind to a wrong softmax axis");
}
#endif

// ================================================================================================ normalisations
#if defined(C17_NORM) || defined(C17_GNORM)
// keys: batch_norm | input shape (N,C,...)            layer_norm | input shape | number of normalised trailing axes
//       instance_norm | input shape | nd            group_norm | input shape (N,C,...) | num_groups
static void enumerate_unit(const nmc::Tier& t, const nmc::Sink& emit) {
#ifdef C17_NORM
    long e = t.thorough() ? 4 : 3;
    // inputs of dimension 2..4 with every extent in 1..e
    nmc::each_shape_range(2, 4, e, [&](const L& s) {
        long d = (long)s.size();
        if (s[0] <= 2) emit(Case("batch_norm", {s}));
        for (long k = 1; k <= d; k++) emit(Case("layer_norm", {s, {k}}));
        for (long nd = 1; nd <= 3; nd++) if (d == nd + 1 || d == nd + 2) emit(Case("instance_norm", {s, {nd}}));
        // the same with an EXPLICIT epsilon = 0.5 (far from the default 1e-5: an ignored or misplaced argument changes every element)
        if (s[0] <= 2) emit(Case("batch_norm", {s, {1}}));
        for (long k = 1; k <= d; k++) emit(Case("layer_norm", {s, {k}, {1}}));
        for (long nd = 1; nd <= 3; nd++) if (d == nd + 1 || d == nd + 2) emit(Case("instance_norm", {s, {nd}, {1}}));
    });
#else
    // group_norm: N 1..2, C 1..6 (4 quick) with every divisor as num_groups, trailing extents 1..3
    long Cmax = t.thorough() ? 6 : 4;
    for (long N = 1; N <= 2; N++) for (long C = 1; C <= Cmax; C++) for (long g = 1; g <= C; g++) if (divides(g, C))
        for (int extra = 0; extra <= 2; extra++) nmc::each_shape(extra, 3, [&](const L& sp) { L s{N, C}; for (long v : sp) s.push_back(v); emit(Case("group_norm", {s, {g}})); emit(Case("group_norm", {s, {g}, {1}})); if (g <= 2) emit(Case("group_norm", {s, {g}, {2}})); });   // {2}: num_groups as a compile-time constant
#endif
}
static const double EPS_DEFAULT = (double)1e-5f;   // the routines' default argument is float{1e-5}
static Outcome execute_unit(const Case& c) {
    const L& s = c.a[0]; long d = (long)s.size();
    RArr x = scrambled(s, 0.25);
    auto X = make_arr<double>(x);
#ifdef C17_NORM
    if (c.op == "batch_norm") {
        long C = s[1]; RArr mean = values({C}, 3.5, 1.25), var = values({C}, 0.75, 0.5), w = values({C}, 2, 1), b = values({C}, 101, 7);
        const bool xeps = c.a.size() > 1;
        ROpt want = ref::batch_norm(x, mean, var, w, b, xeps ? 0.5 : EPS_DEFAULT);
        auto M = make_arr<double>(mean), V = make_arr<double>(var), W = make_arr<double>(w), Bi = make_arr<double>(b);
        if (xeps) return both(view::batch_norm(X, M, V, W, Bi, 0.5), na::batch_norm(X, M, V, W, Bi, 0.5), want, x.size() >= 2, 1e-9);
        Outcome r = both(view::batch_norm(X, M, V, W, Bi), na::batch_norm(X, M, V, W, Bi), want, x.size() >= 2, 1e-9);
        if (!r.fail.empty() && d == 3) {   // triage aid: does the result follow the unbatched (C,H,W) reading of a 3-d input?
            ROpt chw = s[0] == C ? ref::batch_norm(x, mean, var, w, b, EPS_DEFAULT, 0) : std::nullopt;
            const auto v = view::batch_norm(X, M, V, W, Bi); if (chw && nmc::diff(nmc::observe(v), chw, 1e-9).empty()) r.fail += " [equals the (C,H,W) channel-first reading]";
        }
        return r;
    }
    if (c.op == "layer_norm") {
        long k = c.a[1][0]; L ws(s.end() - k, s.end()); RArr w = values(ws, 2, 1), b = values(ws, 101, 7);
        const bool xeps = c.a.size() > 2;
        ROpt want = ref::layer_norm(x, w, b, xeps ? 0.5 : EPS_DEFAULT);
        auto W = make_arr<double>(w), Bi = make_arr<double>(b);
        if (xeps) return both(view::layer_norm(X, W, Bi, 0.5), na::layer_norm(X, W, Bi, 0.5), want, nmc::prod(ws) >= 2, 1e-9);
        return both(view::layer_norm(X, W, Bi), na::layer_norm(X, W, Bi), want, nmc::prod(ws) >= 2, 1e-9);
    }
    if (c.op == "instance_norm") {
        long nd = c.a[1][0]; long C = s[(size_t)(d - nd - 1)]; RArr w = values({C}, 2, 1), b = values({C}, 101, 7);
        const bool xeps = c.a.size() > 2;
        ROpt want = ref::instance_norm(x, w, b, nd, xeps ? 0.5 : EPS_DEFAULT);
        auto W = make_arr<double>(w), Bi = make_arr<double>(b);
        L sp(s.end() - nd, s.end()); bool nt = nmc::prod(sp) >= 2;
        if (xeps) {
            if (nd == 1) return both(view::instance_norm_1d(X, W, Bi, 0.5), na::instance_norm_1d(X, W, Bi, 0.5), want, nt, 1e-9);
            if (nd == 2) return both(view::instance_norm_2d(X, W, Bi, 0.5), na::instance_norm_2d(X, W, Bi, 0.5), want, nt, 1e-9);
            return both(view::instance_norm_3d(X, W, Bi, 0.5), na::instance_norm_3d(X, W, Bi, 0.5), want, nt, 1e-9);
        }
        if (nd == 1) return both(view::instance_norm_1d(X, W, Bi), na::instance_norm_1d(X, W, Bi), want, nt, 1e-9);
        if (nd == 2) return both(view::instance_norm_2d(X, W, Bi), na::instance_norm_2d(X, W, Bi), want, nt, 1e-9);
        return both(view::instance_norm_3d(X, W, Bi), na::instance_norm_3d(X, W, Bi), want, nt, 1e-9);
    }
#else
    if (c.op == "group_norm") {
        long C = s[1], g = c.a[1][0]; RArr w = values({C}, 2, 1), b = values({C}, 101, 7);
        const bool xeps = c.a.size() > 2 && c.a[2][0] == 1; const bool ctg = c.a.size() > 2 && c.a[2][0] == 2;
        ROpt want = ref::group_norm(x, g, w, b, xeps ? 0.5 : EPS_DEFAULT);
        auto W = make_arr<double>(w), Bi = make_arr<double>(b); int G = (int)g;
        L sp(s.begin() + 2, s.end()); bool nt = (C / g) * nmc::prod(sp) >= 2;
        if (xeps) return both(view::group_norm(X, G, W, Bi, 0.5), na::group_norm(X, G, W, Bi, 0.5), want, nt, 1e-9);
        if (ctg) { if (g == 1) return both(view::group_norm(X, meta::ct_v<1>, W, Bi), na::group_norm(X, meta::ct_v<1>, W, Bi), want, nt, 1e-9); return both(view::group_norm(X, meta::ct_v<2>, W, Bi), na::group_norm(X, meta::ct_v<2>, W, Bi), want, nt, 1e-9); }
        return both(view::group_norm(X, G, W, Bi), na::group_norm(X, G, W, Bi), want, nt, 1e-9);
    }
#endif
    nmc::die("unknown op");
}
static void selftest_unit() {
    // upstream literals (PyTorch), all on input = iota:
    RArr x = values({1, 5, 2, 2}, 0), w5 = values({5}, 1, 0), b5 = values({5}, 0, 0);
    // instance_norm case1 / group_norm case1 (5 groups): every channel -> [-1.3416, -0.4472, 0.4472, 1.3416]
    ROpt r = ref::instance_norm(x, w5, b5, 2, 1e-5); if (!r || std::fabs(r->data[0] + 1.3416) > 1e-4 || std::fabs(r->data[6] - 0.4472) > 1e-4) nmc::die("selftest: instance_norm case1");
    ROpt g5 = ref::group_norm(x, 5, w5, b5, 1e-5); if (!g5 || nmc::diff(g5->obs(), r, 1e-12) != "") nmc::die("selftest: group_norm(5 groups) = instance_norm");
    // group_norm case2 (1 group): first element -1.6475, last 1.6475
    ROpt g1 = ref::group_norm(x, 1, w5, b5, 1e-5); if (!g1 || std::fabs(g1->data[0] + 1.6475) > 1e-4 || std::fabs(g1->data[19] - 1.6475) > 1e-4) nmc::die("selftest: group_norm case2");
    // layer_norm case2: (2,3,4) iota, weight = bias-free ones over the last axis -> rows [-1.3416,-0.4472,0.4472,1.3416]
    RArr y = values({2, 3, 4}, 0), w4 = values({4}, 1, 0), b4 = values({4}, 0, 0);
    ROpt l = ref::layer_norm(y, w4, b4, 1e-5); if (!l || std::fabs(l->data[0] + 1.3416) > 1e-4 || std::fabs(l->data[23] - 1.3416) > 1e-4) nmc::die("selftest: layer_norm");
    // batch_norm case1: mean .3 var .1 weight 1 bias .25 -> first element -0.6986, second 2.4635
    RArr xb = values({1, 2, 5, 5}, 0), m2 = values({2}, 0.3, 0), v2 = values({2}, 0.1, 0), w2 = values({2}, 1, 0), b2 = values({2}, 0.25, 0);
    ROpt bn = ref::batch_norm(xb, m2, v2, w2, b2, 1e-5); if (!bn || std::fabs(bn->data[0] + 0.6986) > 1e-4 || std::fabs(bn->data[1] - 2.4635) > 1e-4) nmc::die("selftest: batch_norm case1");
    // canned bugs: unbiased variance (ddof 1) and group statistics over the wrong channel split must be flagged
    Obs wrong = r->obs(); for (auto& v : wrong.data) v *= std::sqrt(3.0 / 4.0); if (nmc::diff(wrong, r, 1e-9).empty()) nmc::die("selftest: oracle blind to ddof=1");
    if (nmc::diff(g1->obs(), g5, 1e-9).empty()) nmc::die("selftest: oracle blind to a wrong group count");
}
#endif

// ================================================================================================ linear, bilinear, distances
#ifdef C17_MISC
// keys: linear | input shape (*,in) | weight shape (out,in) or (in) | bias 0/1
//       bilinear | leading shape | in1,in2,out | bias 0/1
//       pairwise_distance | a shape | b shape | ord, keepdims           cosine_similarity | a shape | b shape | axis
// partner shapes for the broadcasting binary routines: equal, last axis only, first axis 1, an extra leading axis of extent 2
static std::vector<L> partners(const L& s) {
    std::vector<L> r{s};
    if (s.size() >= 2) { r.push_back(L{s.back()}); L t(s); t[0] = 1; if (t != s) r.push_back(t); }
    L u{2}; for (size_t i = 0; i < s.size(); i++) u.push_back(i + 1 < s.size() && i == 0 ? 1 : s[i]); r.push_back(u);
    return r;
}
static void enumerate_unit(const nmc::Tier& t, const nmc::Sink& emit) {
    long e = t.thorough() ? 4 : 3;
    nmc::each_shape_range(1, 3, e, [&](const L& s) {
        long in = s.back();
        emit(Case("linear", {s, {in}, {0}}));
        for (long out = 1; out <= e; out++) for (long b = 0; b <= 1; b++) emit(Case("linear", {s, {out, in}, {b}}));
        for (auto& p : partners(s)) {
            for (long ord = 1; ord <= 2; ord++) for (long kd = 0; kd <= 1; kd++) { emit(Case("pairwise_distance", {s, p, {ord, kd}})); if (p != s) emit(Case("pairwise_distance", {p, s, {ord, kd}})); }
            // eps = 0.5 instead of the default 1e-6 (with the default value a dropped or misplaced eps is invisible), and ord = 3
            for (long ord = 1; ord <= 3; ord++) for (long kd = 0; kd <= 1; kd++) { if (ord == 3 && kd == 1) continue; emit(Case("pairwise_distance", {s, p, {ord, kd, 1}})); }
            long d = (long)std::max(s.size(), p.size());
            for (long a = -d; a < d; a++) { emit(Case("cosine_similarity", {s, p, {a}})); if (p != s) emit(Case("cosine_similarity", {p, s, {a}})); }
            // the same with an explicit eps = 10 that is ABOVE some of the norms along the axis: the clamp max(||x||, eps) per operand becomes observable
            // (seeded change m17c clamped the product of the norms once; with the default eps and ordinary data no clamp is ever active)
            for (long a = -d; a < d; a++) { emit(Case("cosine_similarity", {s, p, {a, 1}})); if (p != s) emit(Case("cosine_similarity", {p, s, {a, 1}})); }
            // the DEFAULT axis (argument omitted: the compile-time constant 1) and an explicit compile-time -1
            if (d >= 2) { emit(Case("cosine_similarity", {s, p, {1, 2}})); emit(Case("cosine_similarity", {s, p, {-1, 3}})); }
        }
    });
    for (int ld = 0; ld <= 2; ld++) nmc::each_shape(ld, 3, [&](const L& lead) {
        for (long i1 = 1; i1 <= e; i1++) for (long i2 = 1; i2 <= e; i2++) for (long out = 1; out <= 3; out++) for (long b = 0; b <= 1; b++) emit(Case("bilinear", {lead, {i1, i2, out}, {b}}));
    });
}
static const double PD_EPS = (double)1e-6f, CS_EPS = (double)1e-8f;   // default arguments are float{1e-6} / float{1e-8}
static Outcome execute_unit(const Case& c) {
    if (c.op == "linear") {
        const L& s = c.a[0]; const L& ws = c.a[1]; bool bias = c.a[2][0] != 0;
        RArr x = values(s, 1), w = values(ws, 2), b = values({ws[0]}, 101, 7);
        ROpt want = ref::linear(x, w, bias ? &b : nullptr);
        if (!want) return Outcome::bad("wrong", "harness: case outside the domain was enumerated");
        bool nt = s.back() >= 2 || want->size() >= 2;
        auto X = make_arr<long>(x), W = make_arr<long>(w), Bi = make_arr<long>(b);
        if (bias) return both(view::linear(X, W, Bi), na::linear(X, W, Bi), want, nt);
        return both(view::linear(X, W), na::linear(X, W), want, nt);
    }
    if (c.op == "bilinear") {
        const L& lead = c.a[0]; long i1 = c.a[1][0], i2 = c.a[1][1], out = c.a[1][2]; bool bias = c.a[2][0] != 0;
        L s1(lead), s2(lead); s1.push_back(i1); s2.push_back(i2);
        RArr x1 = values(s1, 1), x2 = values(s2, 3), w = values({out, i1, i2}, 2), b = values({out}, 101, 7);
        ROpt want = ref::bilinear(x1, x2, w, bias ? &b : nullptr);
        if (!want) return Outcome::bad("wrong", "harness: case outside the domain was enumerated");
        bool nt = i1 * i2 >= 2 || want->size() >= 2;
        auto X1 = make_arr<long>(x1), X2 = make_arr<long>(x2), W = make_arr<long>(w), Bi = make_arr<long>(b);
        if (bias) return both(view::bilinear(X1, X2, W, Bi), na::bilinear(X1, X2, W, Bi), want, nt);
        return both(view::bilinear(X1, X2, W), na::bilinear(X1, X2, W), want, nt);
    }
    const L& sa = c.a[0]; const L& sb = c.a[1];
    RArr a = scrambled(sa, 0.5), b = scrambled(sb, 0.25, 1.0); std::reverse(b.data.begin(), b.data.end());
    auto A = make_arr<double>(a), Bm = make_arr<double>(b);
    if (c.op == "pairwise_distance") {
        int ord = (int)c.a[2][0]; bool kd = c.a[2][1] != 0;
        const bool big_eps = c.a[2].size() > 2;
        ROpt want = ref::pairwise_distance(a, b, ord, big_eps ? 0.5 : PD_EPS, kd);
        if (!want) return Outcome::bad("wrong", "harness: case outside the domain was enumerated");
        bool nt = std::max(sa.back(), sb.back()) >= 2;
        float eps = big_eps ? 0.5f : 1e-6f;
        if (kd) return both(view::pairwise_distance(A, Bm, ord, eps, nm::True), na::pairwise_distance(A, Bm, ord, eps, nm::True), want, nt, 1e-9);
        return both(view::pairwise_distance(A, Bm, ord, eps, nm::False), na::pairwise_distance(A, Bm, ord, eps, nm::False), want, nt, 1e-9);
    }
    if (c.op == "cosine_similarity") {
        int axis = (int)c.a[2][0];
        const bool big_eps = c.a[2].size() > 1 && c.a[2][1] == 1;
        ROpt want = ref::cosine_similarity(a, b, axis, big_eps ? 10.0 : CS_EPS);
        if (!want) return Outcome::bad("wrong", "harness: case outside the domain was enumerated");
        auto bs = ref::broadcast_shapes({sa, sb}); long d = (long)bs->size(); long ax = axis < 0 ? axis + d : axis;
        if (big_eps) return both(view::cosine_similarity(A, Bm, axis, 10.0), na::cosine_similarity(A, Bm, axis, 10.0), want, (*bs)[(size_t)ax] >= 2, 1e-9);
        if (c.a[2].size() > 1 && c.a[2][1] == 2) return both(view::cosine_similarity(A, Bm), na::cosine_similarity(A, Bm), want, (*bs)[(size_t)ax] >= 2, 1e-9);
        if (c.a[2].size() > 1 && c.a[2][1] == 3) return both(view::cosine_similarity(A, Bm, meta::ct_v<-1>), na::cosine_similarity(A, Bm, meta::ct_v<-1>), want, (*bs)[(size_t)ax] >= 2, 1e-9);
        return both(view::cosine_similarity(A, Bm, axis), na::cosine_similarity(A, Bm, axis), want, (*bs)[(size_t)ax] >= 2, 1e-9);
    }
    nmc::die("unknown op");
}
static void selftest_unit() {
    // upstream literals: linear case1c: x=[0,1,2,3], W=iota(3,4), b=[0,1,2] -> [14,39,64]
    RArr x = values({4}, 0), W = values({3, 4}, 0), b = values({3}, 0);
    ROpt r = ref::linear(x, W, &b); if (!r || r->shape != L{3} || r->data != std::vector<double>{14, 39, 64}) nmc::die("selftest: linear case1c");
    RArr wv = values({4}, 0); r = ref::linear(x, wv, nullptr); if (!r || !r->shape.empty() || r->data[0] != 14) nmc::die("selftest: linear case1a (1-d weight)");
    // bilinear case1a: a=b=[0,1,2], W=iota(2,3,3) -> [60, 141]
    RArr a3 = values({3}, 0), W2 = values({2, 3, 3}, 0);
    ROpt bl = ref::bilinear(a3, a3, W2, nullptr); if (!bl || bl->shape != L{2} || bl->data != std::vector<double>{60, 141}) nmc::die("selftest: bilinear case1a");
    Obs tr; tr.shape = {2}; tr.data = {60, 141 + 1}; if (nmc::diff(tr, bl).empty()) nmc::die("selftest: oracle blind to a wrong bilinear element");
    // pairwise_distance case1a: a=iota(12), b=a+12 -> 41.569218 ; cosine_similarity case1a row0 of iota(3,4) vs iota+12
    RArr p1 = values({12}, 0), p2 = values({12}, 12);
    ROpt pd = ref::pairwise_distance(p1, p2, 2, 1e-6, false); if (!pd || !pd->shape.empty() || std::fabs(pd->data[0] - 41.569218) > 1e-4) nmc::die("selftest: pairwise_distance case1a");
    RArr c1 = values({3, 4}, 0), c2 = values({3, 4}, 12);
    ROpt cs = ref::cosine_similarity(c1, c2, 1, 1e-8); double dot = 0 * 12 + 1 * 13 + 2 * 14 + 3 * 15, n1 = std::sqrt(14.0), n2 = std::sqrt(12. * 12 + 13 * 13 + 14 * 14 + 15 * 15);
    if (!cs || cs->shape != L{3} || std::fabs(cs->data[0] - dot / (n1 * n2)) > 1e-12) nmc::die("selftest: cosine_similarity");
    ROpt cs0 = ref::cosine_similarity(c1, c2, 0, 1e-8); if (!cs0 || cs0->shape != L{4}) nmc::die("selftest: cosine_similarity axis 0 shape");
    Obs wrongax = cs0->obs(); if (nmc::diff(wrongax, cs, 1e-9).empty()) nmc::die("selftest: oracle blind to a wrong reduction axis");
}
#endif

// ================================================================================================ dispatch
void nmc_enumerate(const nmc::Tier& t, const nmc::Sink& emit) { enumerate_unit(t, emit); }
Outcome nmc_execute(const Case& c) { return execute_unit(c); }
void nmc_selftest() { selftest_unit(); }
