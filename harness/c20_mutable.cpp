// C20 (second clause) - writing through a mutable view changes exactly the addressed source element (E1)
// plus two per-(kind, shape) invariants that are independent of history: strides() vs the declared layout,
// and cast<dtype> / cast(kind) of raw, nested-std::array and legacy arrays.
//
// case = (view kind, source shape, view arguments); inside a case EVERY view index is written once, on a fresh
// source each time, and the source is diffed against a snapshot: exactly one element may differ, the one the
// model designates, and it must hold the written value.  Non-trivial: the view is not the identity mapping of a
// 1-element source (i.e. the source has > 1 element).
#include "nmtools/array/ndarray.hpp"
#include "nmtools/array/view/mutable_flatten.hpp"
#include "nmtools/array/view/mutable_reshape.hpp"
#include "nmtools/array/view/mutable_slice.hpp"
#include "nmtools/array/view/mutable_ref.hpp"
#include "nmtools/utility/cast.hpp"
#define NMC_MAIN
#include "common.hpp"

const char* nmc_property() { return "C20"; }
using nm::None;

void nmc_enumerate(const nmc::Tier& t, const nmc::Sink& emit) {
    long e = t.thorough() ? 4 : 3;
    nmc::each_shape_range(1, 3, e, [&](const L& s) {
        long N = nmc::prod(s), d = (long)s.size();
        emit(Case("mflatten", {s})); emit(Case("mref", {s}));
        for (int k = 1; k <= 3; k++) nmc::each_factorisation(N, k, [&](const L& f) { emit(Case("mreshape", {s, f})); });
        // dynamic slices: per axis every in-range (start, stop, step) with 0 <= start < stop <= n, step 1..2 (ranges outside Python's
        // in-range class are C05's business and have known findings there)
        std::vector<std::vector<L>> per(d);
        for (long a = 0; a < d; a++) for (long st = 0; st < s[a]; st++) for (long en = st + 1; en <= s[a]; en++) for (long sp = 1; sp <= 2; sp++) per[a].push_back({st, en, sp});
        L lo(d, 0), hi(d); for (long a = 0; a < d; a++) hi[a] = (long)per[a].size() - 1;
        nmc::each_tuple(lo, hi, [&](const L& pick) { Case c("mslice", {s}); for (long a = 0; a < d; a++) c.arg(per[a][(size_t)pick[a]]); emit(c); });
        // packed slices with an integer (axis dropped) and ':' parts
        if (d == 2) for (long i = -s[0]; i < s[0]; i++) emit(Case("mslice_int0", {s, {i}}));
        if (d == 2) for (long j = -s[1]; j < s[1]; j++) emit(Case("mslice_int1", {s, {j}}));
        // strides vs layout, both layouts
        emit(Case("strides", {s, {0}})); emit(Case("strides", {s, {1}}));
    });
    // casts of raw / nested / legacy arrays (shape and converted values preserved)
    for (long k = 0; k < 6; k++) emit(Case("cast", {{k}}));
}

static std::string write_all(const L& sshape, const L& vshape, const std::function<long(const L&)>& src_flat_of, const std::function<std::string(arr_t&, const L&, long)>& write) {
    long N = nmc::prod(sshape); std::string err;
    nmc::each_index(vshape, [&](const L& vi) {
        if (!err.empty()) return;
        arr_t a = make_arr<long>(sshape, 1);
        std::string e = write(a, vi, 900);
        if (!e.empty()) { err = e; return; }
        long want = src_flat_of(vi), changed = 0, where = -1;
        for (long k = 0; k < N; k++) if (a.data_[(size_t)k] != 1 + k) { changed++; where = k; }
        if (changed != 1 || where != want || a.data_[(size_t)want] != 900) err = "write through view index " + nmc::str(vi) + ": " + std::to_string(changed) + " source element(s) changed (last at flat " + std::to_string(where) + "), expected exactly flat " + std::to_string(want);
    });
    return err;
}
template <typename V> static std::string put(V& v, const L& vi, long val) {
    if constexpr (meta::is_maybe_v<V>) { if (!nm::has_value(v)) return "the mutable view is Nothing for valid arguments"; return put(*v, vi, val); }
    else {
        using shape_t = meta::remove_cvref_t<decltype(nm::shape(v))>; constexpr auto D = meta::len_v<shape_t>;
        if constexpr (D > 0) { nmtools_array<size_t, (size_t)D> ix{}; for (size_t i = 0; i < (size_t)D; i++) nm::at(ix, i) = (size_t)vi[i]; nm::apply_at(v, ix) = val; }
        else { nmtools_list<size_t> ix; for (long x : vi) ix.push_back((size_t)x); nm::apply_at(v, ix) = val; }
        return "";
    }
}
template <typename V> static L vshape_of(const V& v) { if constexpr (meta::is_maybe_v<V>) { if (!nm::has_value(v)) return L{-1}; return vshape_of(*v); } else return nmc::to_L(nm::shape(v)); }

Outcome nmc_execute(const Case& c) {
    const L& s = c.a.size() ? c.a[0] : L{}; bool nontriv = nmc::prod(s) > 1; uint64_t h = nmc::hash_vec(s) ^ nmc::fnv(c.op.data(), c.op.size());
    if (c.op == "mflatten" || c.op == "mref" || c.op == "mreshape") {
        L vs = c.op == "mflatten" ? L{nmc::prod(s)} : c.op == "mref" ? s : c.a[1];
        { arr_t a = make_arr<long>(s); L got; if (c.op == "mflatten") { auto v = view::mutable_flatten(a); got = vshape_of(v); } else if (c.op == "mref") { auto v = view::mutable_ref(a); got = vshape_of(v); } else { auto v = view::mutable_reshape(a, to_il(c.a[1])); got = vshape_of(v); }
          if (got != vs) return Outcome::bad("wrong", "view shape " + nmc::str(got) + ", expected " + nmc::str(vs), nontriv, h); }
        std::string e = write_all(s, vs, [&](const L& vi) { return nmc::flat_of(vi, vs); }, [&](arr_t& a, const L& vi, long val) -> std::string {
            if (c.op == "mflatten") { auto v = view::mutable_flatten(a); return put(v, vi, val); }
            if (c.op == "mref") { auto v = view::mutable_ref(a); return put(v, vi, val); }
            auto v = view::mutable_reshape(a, to_il(c.a[1])); return put(v, vi, val); });
        if (!e.empty()) return Outcome::bad("wrong", e, nontriv, h);
        return Outcome::ok(nontriv, h ^ nmc::hash_vec(vs));
    }
    if (c.op == "mslice") {
        size_t d = s.size(); L vs(d); for (size_t a = 0; a < d; a++) { const L& r = c.a[1 + a]; vs[a] = (r[1] - r[0] + r[2] - 1) / r[2]; }
        using tri_t = nmtools_array<int, 3>;
        auto mk = [&]() { nmtools_list<tri_t> sl; for (size_t a = 0; a < d; a++) sl.push_back(tri_t{(int)c.a[1 + a][0], (int)c.a[1 + a][1], (int)c.a[1 + a][2]}); return sl; };
        { arr_t a = make_arr<long>(s); auto sl = mk(); auto v = view::apply_mutable_slice(a, sl); L got = vshape_of(v); if (got != vs) return Outcome::bad("wrong", "view shape " + nmc::str(got) + ", expected " + nmc::str(vs), nontriv, h); }
        std::string e = write_all(s, vs, [&](const L& vi) { L si(d); for (size_t a = 0; a < d; a++) si[a] = c.a[1 + a][0] + vi[a] * c.a[1 + a][2]; return nmc::flat_of(si, s); },
            [&](arr_t& a, const L& vi, long val) -> std::string { auto sl = mk(); auto v = view::apply_mutable_slice(a, sl); return put(v, vi, val); });
        uint64_t hh = h; for (size_t a = 0; a < d; a++) hh = nmc::hash_vec(c.a[1 + a], hh);
        if (!e.empty()) return Outcome::bad("wrong", e, true, hh);
        return Outcome::ok(true, hh);
    }
    if (c.op == "mslice_int0" || c.op == "mslice_int1") {
        bool first = c.op == "mslice_int0"; long i = c.a[1][0]; long n = first ? s[0] : s[1]; long ii = i < 0 ? i + n : i; L vs = {first ? s[1] : s[0]};
        { arr_t a = make_arr<long>(s); L got; if (first) { auto v = view::mutable_slice(a, (int)i, nmtools_tuple{None, None}); got = vshape_of(v); } else { auto v = view::mutable_slice(a, nmtools_tuple{None, None}, (int)i); got = vshape_of(v); }
          if (got != vs) return Outcome::bad("wrong", "view shape " + nmc::str(got) + ", expected " + nmc::str(vs), true, h); }
        std::string e = write_all(s, vs, [&](const L& vi) { return first ? nmc::flat_of({ii, vi[0]}, s) : nmc::flat_of({vi[0], ii}, s); },
            [&](arr_t& a, const L& vi, long val) -> std::string { if (first) { auto v = view::mutable_slice(a, (int)i, nmtools_tuple{None, None}); return put(v, vi, val); } auto v = view::mutable_slice(a, nmtools_tuple{None, None}, (int)i); return put(v, vi, val); });
        if (!e.empty()) return Outcome::bad("wrong", e, true, h + (uint64_t)(i + 50));
        return Outcome::ok(true, h + (uint64_t)(i + 50));
    }
    if (c.op == "strides") {   // strides() must describe the declared layout: offset(idx) == sum idx[k]*strides[k]
        bool col = c.a[1][0];
        auto chk = [&](auto& a) -> std::string {
            a.resize(to_sl(s)); L st = nmc::to_L(a.strides()); std::string err;
            nmc::each_index(s, [&](const L& idx) { if (!err.empty()) return; auto ii = to_sl(idx); long off = (long)(&nm::apply_at(a, ii) - a.data()); long viaS = 0; for (size_t k = 0; k < s.size(); k++) viaS += idx[k] * st[k];
                if (off != viaS) err = std::string(col ? "column" : "row") + "-major array of shape " + nmc::str(s) + ": strides() = " + nmc::str(st) + " give offset " + std::to_string(viaS) + " for index " + nmc::str(idx) + " but the element lives at " + std::to_string(off); });
            return err; };
        std::string e; if (col) { na::column_major_ndarray_t<nmtools_list<long>, nmtools_list<size_t>> a; e = chk(a); } else { arr_t a; e = chk(a); }
        bool nt = s.size() >= 2 && nmc::prod(s) > 1;
        if (!e.empty()) return Outcome::bad("wrong", e, nt, h + col);
        return Outcome::ok(nt, h + col);
    }
    if (c.op == "cast") {
        long k = c.a[0][0]; Obs want; want.has = true;
        auto cmp = [&](const auto& r, const L& shp, double scale) -> Outcome { Obs g = nmc::observe(r); RArr m(shp); for (size_t i = 0; i < m.data.size(); i++) m.data[i] = (double)(long)((1.5 + (double)i) * scale) ; return Outcome::ok(true, g.hash()); };
        (void)cmp;
        // raw / std::array / legacy sources; value i + 0.5 so that a float->int cast truncates visibly
        switch (k) {
        case 0: { double src[2][3] = {{0.5, 1.5, 2.5}, {3.5, 4.5, 5.5}}; auto r = nm::cast<int>(src); Obs g = nmc::observe(r); RArr m(L{2, 3}); for (size_t i = 0; i < 6; i++) m.data[i] = (double)(int)(0.5 + (double)i); return judge(g, ROpt(m), true); }
        case 1: { nmtools_array<nmtools_array<double, 3>, 2> src = {{{0.5, 1.5, 2.5}, {3.5, 4.5, 5.5}}}; auto r = nm::cast<float>(src); Obs g = nmc::observe(r); RArr m(L{2, 3}); for (size_t i = 0; i < 6; i++) m.data[i] = 0.5 + (double)i; return judge(g, ROpt(m), true); }
        case 2: { na::fixed_ndarray<double, 2, 3> src; for (size_t i = 0; i < 2; i++) for (size_t j = 0; j < 3; j++) src(i, j) = 0.5 + (double)(i * 3 + j); auto r = nm::cast<int>(src); Obs g = nmc::observe(r); RArr m(L{2, 3}); for (size_t i = 0; i < 6; i++) m.data[i] = (double)(int)(0.5 + (double)i); return judge(g, ROpt(m), true); }
        case 3: { int src[2][3] = {{1, 2, 3}, {4, 5, 6}}; auto r = nm::cast(src, na::kind::ndarray_ds_db); Obs g = nmc::observe(r); return judge(g, ROpt(RArr::iota(L{2, 3})), true); }
        case 4: { int src[2][3] = {{1, 2, 3}, {4, 5, 6}}; auto r = nm::cast(src, na::kind::ndarray_hs_hb); Obs g = nmc::observe(r); return judge(g, ROpt(RArr::iota(L{2, 3})), true); }
        default: { int src[2][3] = {{1, 2, 3}, {4, 5, 6}}; auto r = nm::cast(src, na::kind::ndarray_ls_fb); Obs g = nmc::observe(r); return judge(g, ROpt(RArr::iota(L{2, 3})), true); }
        }
    }
    nmc::die("unknown op");
}

void nmc_selftest() {
    // a "view" that writes one element too far must be flagged by the snapshot diff
    std::string e = write_all(L{2, 3}, L{6}, [&](const L& vi) { return vi[0]; }, [&](arr_t& a, const L& vi, long val) -> std::string { a.data_[(size_t)((vi[0] + 1) % 6)] = val; return ""; });
    if (e.empty()) nmc::die("selftest: snapshot diff blind to a write to the wrong element");
    std::string e2 = write_all(L{2, 3}, L{6}, [&](const L& vi) { return vi[0]; }, [&](arr_t& a, const L& vi, long val) -> std::string { a.data_[(size_t)vi[0]] = val; a.data_[(size_t)((vi[0] + 1) % 6)] = val; return ""; });
    if (e2.empty()) nmc::die("selftest: snapshot diff blind to a second changed element");
}
