// C16 - linear-algebra routines equal their mathematical (NumPy) definitions  (E1, bounded exhaustive)
//
// Units (same source, one -D flag each; no flag = everything in one translation unit):
//   -DC16_MATMUL     matmul (view::matmul_t implementation) and matmulv2 (tile/reshape/transpose/multiply/sum pipeline)
//   -DC16_DOT        dot, inner, outer, vecdot (keepdims off/on), trace (offset, axis1, axis2)
//   -DC16_TENSORDOT  tensordot: run-time integer axes, compile-time integer axes (ct<1..4>), explicit axis-list pairs
//   -DC16_KRON       kron
//   -DC16_REFDUMP    (audit tool, no nmtools calls) main() prints "key<TAB>R|shape<TAB>data" of the reference model for
//                    every enumerated case; /verif/audit/audit_c16.py recomputes every line with NumPy (DESIGN section 3).
//
// Case keys (all operands are all-dynamic ndarray_t<list<long>,list<size_t>>, data = ref::c16_lhs / ref::c16_rhs):
//   matmul|impl|sa|sb        impl 1 = view::matmul / array::matmul, 2 = view::matmulv2 / eval
//   dot|sa|sb  inner|sa|sb  outer|sa|sb  kron|sa|sb
//   vecdot|sa|sb|kd          kd 0 = default keepdims (False), 1 = keepdims True
//   tdn|sa|sb|n              tensordot, run-time int axes        tdc|sa|sb|n   compile-time ct<n> axes
//   tdx|sa|sb|axa|axb        tensordot, explicit axes (tuple of two run-time lists, possibly negative entries)
//   trace|s|off|ax1|ax2      non-empty diagonal          trace_empty|s|off|ax1|ax2   diagonal outside the matrix (sum = 0)
// Optional parameters / argument kinds (audit of never-exercised parameters): the SAME keys with one more list {variant}
// (the model - and audit/audit_c16.py - ignore the extra list: the mathematical result does not depend on the spelling):
//   vecdot|sa|sb|kd|v         v 1: float32 operands, dtype float64, keepdims nm::True / nm::False (explicit)   2: dtype None, keepdims a RUN-TIME bool
//                             v 3: float32 operands, dtype float64, keepdims a run-time bool
//                             (float32 operands 4000 + c16_lhs / 3900 + c16_rhs: every product is exact in float32, the sums are not -
//                              the result must have element type double and the exact sums)
//   trace|s|off|ax1|ax2|v     v 1: float32 source (16777000 - c16_lhs, sums exceed 2^24), dtype float64   2: trace(a)   4: trace(a, off)
//                             v 3: offset and both axes as compile-time constants (off in -1..1, axes (0,1) (1,0) (1,2) (-1,-2))
//   tdx|sa|sb|axa|axb|f       f 1: axes as a tuple of two FIXED arrays nmtools_array<int,k>   2: a tuple of two tuples of compile-time constants (menu TDX_CT)
//   (tensordot with the axes argument omitted is tdc|..|2 above; a tuple of two plain integers - NumPy's axes=(1,0) - does not compile: not instantiated)
//
// Operand pairs are ALL pairs of shapes of the tier's shape set - valid and invalid alike.  Where NumPy raises
// (contraction lengths differ, batch dimensions not broadcastable) the model returns nullopt and judge() demands
// Nothing from both the lazy view and the evaluated array.
//
// Non-triviality rule: a case is non-trivial iff NumPy accepts it AND
//   matmul/dot/inner/vecdot/tensordot with >= 1 contracted axis: every output element is a sum of >= 2 products
//                                                         (product of the contracted extents >= 2);
//   outer/kron/tensordot with 0 contracted axes:          both operands have >= 2 elements;
//   trace:                                                the summed diagonal has >= 2 elements (trace_empty: never).
// Rejected (NumPy raises) cases are counted separately in COUNT numpy_raises and are never "non-trivial".
#if !defined(C16_MATMUL) && !defined(C16_DOT) && !defined(C16_TENSORDOT) && !defined(C16_KRON)
#define C16_MATMUL
#define C16_DOT
#define C16_TENSORDOT
#define C16_KRON
#endif
#ifndef C16_REFDUMP
#ifdef C16_MATMUL
#include "nmtools/array/array/matmul.hpp"
#endif
#ifdef C16_DOT
#include "nmtools/array/array/dot.hpp"
#include "nmtools/array/array/inner.hpp"
#include "nmtools/array/array/outer.hpp"
#include "nmtools/array/array/vecdot.hpp"
#include "nmtools/array/array/trace.hpp"
#endif
#ifdef C16_TENSORDOT
#include "nmtools/array/array/tensordot.hpp"
#endif
#ifdef C16_KRON
#include "nmtools/array/array/kron.hpp"
#endif
#define NMC_MAIN
#endif
#include "common.hpp"
#include "nmc_ref_c16.hpp"

const char* nmc_property() { return "C16"; }

// ------------------------------------------------------------------------------------------------ enumeration
// all ordered pairs (a, b) with {a, b} inside S(1..d1, e1) or inside S(1..d2, e2)   (d2 = 0: first set only)
template <typename F> static void pairs_union(int d1, long e1, int d2, long e2, F&& f) {
    auto maxe = [](const L& s) { long m = 0; for (long v : s) m = std::max(m, v); return m; };
    int dm = std::max(d1, d2); long em = std::max(e1, d2 ? e2 : 0L);
    nmc::each_shape_range(1, dm, em, [&](const L& a) { nmc::each_shape_range(1, dm, em, [&](const L& b) {
        long da = (long)std::max(a.size(), b.size()), ea = std::max(maxe(a), maxe(b));
        if ((da <= d1 && ea <= e1) || (da <= d2 && ea <= e2)) f(a, b);
    }); });
}
// operand pairs of dot / inner / outer / vecdot / kron / matmul_t:
// quick   : all ordered pairs over S(1..3,3) and over S(1..4,2)   (39^2 + 30^2 - 14^2 = 2225 pairs)
// thorough: all ordered pairs over S(1..3,4) and over S(1..4,3)   (84^2 + 120^2 - 39^2 = 19935 pairs)
template <typename F> static void shape_pairs(const nmc::Tier& t, F&& f) { if (t.thorough()) pairs_union(3, 4, 4, 3, f); else pairs_union(3, 3, 4, 2, f); }
// tensordot (explicit axes multiply the space by up to 1312 pairings x sign spellings for two dim-4 operands):
// quick   : all ordered pairs over S(1..2,3) and over S(1..3,2)   (12^2 + 14^2 - 6^2 = 304 pairs; the sanitizer build
//           needs ~6 ms per tensordot case, which rules out the 1.4e5 cases of S(1..3,3) for the quick tier)
// thorough: all ordered pairs over S(1..3,4) and over S(1..4,2)   (84^2 + 30^2 - 14^2 = 7760 pairs)
template <typename F> static void shape_pairs_td(const nmc::Tier& t, F&& f) { if (t.thorough()) pairs_union(3, 4, 4, 2, f); else pairs_union(2, 3, 3, 2, f); }

static long diag_len(const L& s, long off, long ax1, long ax2) {   // number of elements on the offset diagonal of axes (ax1, ax2), both >= 0
    long r0 = off >= 0 ? 0 : -off, c0 = off >= 0 ? off : 0; return std::max(0L, std::min(s[(size_t)ax1] - r0, s[(size_t)ax2] - c0));
}

// menus of the compile-time-constant argument forms (only these are instantiated)
constexpr int TRACE_CT_AXES[4][2] = {{0, 1}, {1, 0}, {1, 2}, {-1, -2}};
struct TdxCt { int k; int a[2]; int b[2]; };
constexpr TdxCt TDX_CT[] = {{1, {1, 0}, {0, 0}}, {1, {0, 0}, {1, 0}}, {1, {-1, 0}, {0, 0}}, {1, {0, 0}, {-1, 0}}, {2, {0, 1}, {1, 0}}, {2, {1, 2}, {0, 1}}, {2, {-1, -2}, {1, 0}}, {2, {2, 0}, {-2, -1}}};
constexpr size_t TDX_NCT = sizeof TDX_CT / sizeof TDX_CT[0];

void nmc_enumerate(const nmc::Tier& t, const nmc::Sink& emit) {
#ifdef C16_MATMUL
    {   // matmulv2: all ordered pairs over S(1..4,3) (quick, 120^2) / S(1..4,4) (thorough, 340^2): every batch-broadcast
        // relation (equal, 1 on either side, missing on either side, incompatible), rank-1 promotion on either/both
        // sides, every (m,k,n) and every mismatching k.
        // matmul (matmul_t): the same relations on a smaller set, because on the pinned tree EVERY rejected pair aborts
        // (assert in unwrap) and an abort costs ~7 ms through crash containment:
        //   quick   : all ordered pairs over S(1..3,3) and over S(1..4,2)        (2225 pairs,  = shape_pairs)
        //   thorough: all ordered pairs over S(1..3,4) and over S(1..4,3)        (19935 pairs, = shape_pairs)
        // matmul_t comes first so that the resume-after-crash re-enumeration stays short.
        shape_pairs(t, [&](const L& a, const L& b) { emit(Case("matmul", {{1}, a, b})); });
        long e = t.thorough() ? 4 : 3;
        nmc::each_shape_range(1, 4, e, [&](const L& a) { nmc::each_shape_range(1, 4, e, [&](const L& b) { emit(Case("matmul", {{2}, a, b})); }); });
    }
#endif
#ifdef C16_DOT
    shape_pairs(t, [&](const L& a, const L& b) {
        emit(Case("dot", {a, b})); emit(Case("inner", {a, b})); emit(Case("outer", {a, b}));
        emit(Case("vecdot", {a, b, {0}})); emit(Case("vecdot", {a, b, {1}}));
    });
    // trace: every shape of S(2..4,3) (quick) / S(2..4,4) (thorough), every ordered pair of distinct axes in every
    // sign spelling, every offset in [-n, n] (n = max of the two extents) whose diagonal is NOT empty.
    nmc::each_shape_range(2, 4, t.thorough() ? 4 : 3, [&](const L& s) {
        long d = (long)s.size();
        for (long a1 = -d; a1 < d; a1++) for (long a2 = -d; a2 < d; a2++) {
            long n1 = a1 < 0 ? a1 + d : a1, n2 = a2 < 0 ? a2 + d : a2; if (n1 == n2) continue;
            long n = std::max(s[(size_t)n1], s[(size_t)n2]);
            for (long off = -n; off <= n; off++) if (diag_len(s, off, n1, n2) > 0) emit(Case("trace", {s, {off}, {a1}, {a2}}));
        }
    });
    // optional parameters of vecdot / trace (see the key list at the top): sub-grids of the spaces above
    pairs_union(t.thorough() ? 3 : 2, 3, 3, t.thorough() ? 3 : 2, [&](const L& a, const L& b) {
        for (long v = 1; v <= 3; v++) for (long kd = 0; kd <= 1; kd++) emit(Case("vecdot", {a, b, {kd}, {v}}));
    });
    nmc::each_shape_range(2, 3, t.thorough() ? 4 : 3, [&](const L& s) {
        long d = (long)s.size();
        for (long a1 = 0; a1 < d; a1++) for (long a2 = 0; a2 < d; a2++) {
            if (a1 == a2) continue;
            long n = std::max(s[(size_t)a1], s[(size_t)a2]);
            for (long off = -n; off <= n; off++) if (diag_len(s, off, a1, a2) > 0) {
                emit(Case("trace", {s, {off}, {a1}, {a2}, {1}}));
                if (a1 == 0 && a2 == 1) { if (off == 0) emit(Case("trace", {s, {off}, {a1}, {a2}, {2}})); emit(Case("trace", {s, {off}, {a1}, {a2}, {4}})); }
            }
        }
        for (long off = -1; off <= 1; off++) for (int k = 0; k < 4; k++) {
            long a1 = TRACE_CT_AXES[k][0], a2 = TRACE_CT_AXES[k][1], n1 = a1 < 0 ? a1 + d : a1, n2 = a2 < 0 ? a2 + d : a2;
            if (n1 >= d || n2 >= d) continue;
            if (diag_len(s, off, n1, n2) > 0) emit(Case("trace", {s, {off}, {a1}, {a2}, {3}}));
        }
    });
    // trace_empty: the offsets of the same range whose diagonal lies outside the matrix (NumPy: empty sum = 0, result
    // not empty).  Kept as a separate op because nmtools has no zero-extent arrays (the intermediate diagonal is one):
    // non-negative axis spelling only, shapes S(2..3,3) and S(4,2) (quick) / S(2..4,3) and S(2..3,4) (thorough) -
    // on the pinned tree every one of these cases crashes (SIGFPE / out_of_range), ~7 ms each.
    nmc::each_shape_range(2, 4, t.thorough() ? 4 : 3, [&](const L& s) {
        long d = (long)s.size(), me = 0; for (long v : s) me = std::max(me, v);
        if (t.thorough() ? (d == 4 && me > 3) : (d == 4 && me > 2)) return;
        for (long a1 = 0; a1 < d; a1++) for (long a2 = 0; a2 < d; a2++) {
            if (a1 == a2) continue;
            long n = std::max(s[(size_t)a1], s[(size_t)a2]);
            for (long off = -n; off <= n; off++) if (diag_len(s, off, a1, a2) == 0) emit(Case("trace_empty", {s, {off}, {a1}, {a2}}));
        }
    });
#endif
#ifdef C16_TENSORDOT
    shape_pairs_td(t, [&](const L& a, const L& b) {
        long da = (long)a.size(), db = (long)b.size(), m = std::min(da, db);
        // (ct<0> is refused at compile time - static assertion in clipped range / normalize_axis - hence tdc starts at 1)
        for (long n = 0; n <= m; n++) { emit(Case("tdn", {a, b, {n}})); if (n >= 1) emit(Case("tdc", {a, b, {n}})); }
        // every explicit pairing: k = 1..min(da,db) axes, every ordered selection on either side;
        // spelt with non-negative axes and with all-negative axes (thorough: also negative on one side only)
        for (long k = 1; k <= m; k++) nmc::each_arrangement((int)da, (int)k, [&](const L& xa) { nmc::each_arrangement((int)db, (int)k, [&](const L& xb) {
            L na(xa), nb(xb); for (auto& v : na) v -= da; for (auto& v : nb) v -= db;
            emit(Case("tdx", {a, b, xa, xb})); emit(Case("tdx", {a, b, na, nb}));
            if (t.thorough()) { emit(Case("tdx", {a, b, na, xb})); emit(Case("tdx", {a, b, xa, nb})); }
        }); });
    });
    // axes as a tuple of two fixed arrays (f 1: every pairing, non-negative and all-negative spelling) and as a tuple of two tuples of
    // compile-time constants (f 2: the menu TDX_CT) - quick: all ordered pairs over S(1..3,2) (f 1: two 3-d operands for two shapes only); thorough: over S(1..2,3) u S(1..3,2)
    pairs_union(t.thorough() ? 2 : 1, t.thorough() ? 3 : 1, 3, 2, [&](const L& a, const L& b) {
        long da = (long)a.size(), db = (long)b.size(), m = std::min(da, db);
        // (quick: two 3-d operands only for the shapes (1,2,2) and (2,2,2) - 162 pairings per pair)
        bool few = !t.thorough() && da == 3 && db == 3 && !((a == L{1, 2, 2} || a == L{2, 2, 2}) && (b == L{1, 2, 2} || b == L{2, 2, 2}));
        if (!few) for (long k = 1; k <= m; k++) nmc::each_arrangement((int)da, (int)k, [&](const L& xa) { nmc::each_arrangement((int)db, (int)k, [&](const L& xb) {
            L na(xa), nb(xb); for (auto& v : na) v -= da; for (auto& v : nb) v -= db;
            emit(Case("tdx", {a, b, xa, xb, {1}})); emit(Case("tdx", {a, b, na, nb, {1}}));
        }); });
        for (size_t i = 0; i < TDX_NCT; i++) {
            L xa, xb; for (int k = 0; k < TDX_CT[i].k; k++) { xa.push_back(TDX_CT[i].a[k]); xb.push_back(TDX_CT[i].b[k]); }
            bool in = true; for (long v : xa) if (v >= da || v < -da) in = false; for (long v : xb) if (v >= db || v < -db) in = false;
            if (in) emit(Case("tdx", {a, b, xa, xb, {2}}));
        }
    });
#endif
#ifdef C16_KRON
    shape_pairs(t, [&](const L& a, const L& b) { emit(Case("kron", {a, b})); });
#endif
}

// ------------------------------------------------------------------------------------------------ model
// returns the NumPy result (nullopt = raises); nontriv by the rule at the top of the file
static ROpt model_of(const Case& c, bool& nontriv) {
    const std::string& op = c.op; nontriv = false; ROpt w;
    auto last = [](const L& s) { return s.back(); };
    if (op == "trace" || op == "trace_empty") {
        RArr a = ref::c16_lhs(c.a[0]); long len = 0;
        w = ref::trace(a, c.a[1][0], c.a[2][0], c.a[3][0], &len); nontriv = w && len >= 2; return w;
    }
    const L& sa = c.a[op == "matmul" ? 1 : 0]; const L& sb = c.a[op == "matmul" ? 2 : 1];
    RArr a = ref::c16_lhs(sa), b = ref::c16_rhs(sb);
    bool both2 = a.size() >= 2 && b.size() >= 2;
    if (op == "matmul") { w = ref::matmul(a, b); nontriv = w && last(sa) >= 2; }
    else if (op == "dot") { w = ref::dot(a, b); nontriv = w && last(sa) >= 2; }
    else if (op == "inner") { w = ref::inner(a, b); nontriv = w && last(sa) >= 2; }
    else if (op == "vecdot") { w = ref::vecdot(a, b, c.a[2][0] != 0); nontriv = w && last(sa) >= 2; }
    else if (op == "outer") { w = ref::outer(a, b); nontriv = both2; }
    else if (op == "kron") { w = ref::kron(a, b); nontriv = both2; }
    else if (op == "tdn" || op == "tdc") { long n = c.a[2][0]; w = ref::tensordot_n(a, b, n); long terms = 1; for (long i = 0; i < n; i++) terms *= sb[(size_t)i]; nontriv = w && (n == 0 ? both2 : terms >= 2); }
    else if (op == "tdx") { w = ref::tensordot(a, b, c.a[2], c.a[3]); long terms = 1; if (w) for (long x : c.a[3]) terms *= sb[(size_t)(x < 0 ? x + (long)sb.size() : x)]; nontriv = w && (c.a[3].empty() ? both2 : terms >= 2); }
    else nmc::die("unknown op");
    return w;
}

#ifndef C16_REFDUMP
// ------------------------------------------------------------------------------------------------ execution
// lazy view and evaluated array are both compared with the model (hence with each other)
template <typename V, typename A> static Outcome both(const V& lazy, const A& eager, const ROpt& want, bool nontriv) {
    Obs ol = nmc::observe(lazy), oe = nmc::observe(eager);
    Outcome o = judge(ol, want, nontriv);
    if (!o.fail.empty()) { o.fail = "view: " + o.fail; return o; }
    Outcome e = judge(oe, want, nontriv);
    if (!e.fail.empty()) { e.fail = "array: " + e.fail; return e; }
    std::string s = same(ol, oe, "view vs array"); if (!s.empty()) return Outcome::bad("wrong", s, nontriv, ol.hash());
    return o;
}

// element type of a result (through maybe / either): must be exactly T when a dtype is requested
template <typename T, typename V> constexpr bool elem_is_v() {
    if constexpr (meta::is_maybe_v<V>) return elem_is_v<T, meta::remove_cvref_t<meta::get_maybe_type_t<V>>>();
    else if constexpr (meta::is_either_v<V>) return elem_is_v<T, meta::remove_cvref_t<meta::get_either_left_t<V>>>() && elem_is_v<T, meta::remove_cvref_t<meta::get_either_right_t<V>>>();
    else if constexpr (meta::is_num_v<V>) return std::is_same_v<V, T>;
    else return std::is_same_v<meta::get_element_type_t<V>, T>;
}
template <typename T, typename V, typename A> static Outcome both_typed(const V& lazy, const A& eager, const ROpt& want, bool nontriv) {
    if (!elem_is_v<T, meta::remove_cvref_t<V>>()) return Outcome::bad("wrong", "view: the element type of the result is not the requested dtype", nontriv);
    if (!elem_is_v<T, meta::remove_cvref_t<A>>()) return Outcome::bad("wrong", "array: the element type of the result is not the requested dtype", nontriv);
    return both(lazy, eager, want, nontriv);
}
static RArr shifted(RArr r, double scale, double offset) { for (auto& v : r.data) v = scale * v + offset; return r; }
#ifdef C16_DOT
template <int O, typename A> static Outcome trace_ct_axes(const A& a, long k, const ROpt& want, bool nt) {
    switch (k) {
    case 0: return both(view::trace(a, meta::ct_v<O>, meta::ct_v<0>, meta::ct_v<1>), na::trace(a, meta::ct_v<O>, meta::ct_v<0>, meta::ct_v<1>), want, nt);
    case 1: return both(view::trace(a, meta::ct_v<O>, meta::ct_v<1>, meta::ct_v<0>), na::trace(a, meta::ct_v<O>, meta::ct_v<1>, meta::ct_v<0>), want, nt);
    case 2: return both(view::trace(a, meta::ct_v<O>, meta::ct_v<1>, meta::ct_v<2>), na::trace(a, meta::ct_v<O>, meta::ct_v<1>, meta::ct_v<2>), want, nt);
    case 3: return both(view::trace(a, meta::ct_v<O>, meta::ct_v<-1>, meta::ct_v<-2>), na::trace(a, meta::ct_v<O>, meta::ct_v<-1>, meta::ct_v<-2>), want, nt);
    }
    nmc::die("trace: ct axes not instantiated");
}
#endif
#ifdef C16_TENSORDOT
template <size_t I, typename A, typename B> static Outcome tdx_ct(const A& a, const B& b, const ROpt& want, bool nt) {
    constexpr TdxCt f = TDX_CT[I];
    if constexpr (f.k == 1) { auto ax = nmtools_tuple{nmtools_tuple{meta::ct_v<f.a[0]>}, nmtools_tuple{meta::ct_v<f.b[0]>}}; return both(view::tensordot(a, b, ax), na::tensordot(a, b, ax), want, nt); }
    else { auto ax = nmtools_tuple{nmtools_tuple{meta::ct_v<f.a[0]>, meta::ct_v<f.a[1]>}, nmtools_tuple{meta::ct_v<f.b[0]>, meta::ct_v<f.b[1]>}}; return both(view::tensordot(a, b, ax), na::tensordot(a, b, ax), want, nt); }
}
template <typename A, typename B, size_t... I> static Outcome tdx_ct_dispatch(const A& a, const B& b, const L& xa, const L& xb, const ROpt& want, bool nt, std::index_sequence<I...>) {
    Outcome r; bool done = false;
    auto one = [&](auto idx) { constexpr size_t J = decltype(idx)::value; if (done) return; constexpr TdxCt f = TDX_CT[J];
        if ((size_t)f.k != xa.size()) return; for (int k = 0; k < f.k; k++) if (f.a[k] != xa[(size_t)k] || f.b[k] != xb[(size_t)k]) return;
        r = tdx_ct<J>(a, b, want, nt); done = true; };
    (one(std::integral_constant<size_t, I>{}), ...);
    if (!done) nmc::die("tdx: compile-time axes not instantiated");
    return r;
}
template <size_t K> static nmtools_array<int, K> to_fixed(const L& v) { nmtools_array<int, K> r{}; for (size_t i = 0; i < K; i++) r[i] = (int)v[i]; return r; }
#endif

Outcome nmc_execute(const Case& c) {
    const std::string& op = c.op; bool nt = false;
    ROpt want = model_of(c, nt);
    if (!want) nmc::count("numpy_raises");
    if (want && want->size() == 0) return Outcome::ok(false, 5);   // (cannot happen: all extents >= 1)
#ifdef C16_DOT
    if (op == "trace" || op == "trace_empty") {
        auto a = make_arr<long>(ref::c16_lhs(c.a[0])); int off = (int)c.a[1][0], a1 = (int)c.a[2][0], a2 = (int)c.a[3][0];
        long var = c.a.size() > 4 ? c.a[4][0] : 0;
        if (var == 1) {   // dtype float64 over a float32 source whose diagonal sums are not representable in float32
            RArr fr = shifted(ref::c16_lhs(c.a[0]), -1, 16777000); auto fa = make_arr<float>(fr);
            ROpt fw = ref::trace(fr, off, a1, a2);
            return both_typed<double>(view::trace(fa, off, a1, a2, nm::float64), na::trace(fa, off, a1, a2, nm::float64), fw, nt);
        }
        if (var == 2) { if (off != 0 || a1 != 0 || a2 != 1) nmc::die("trace(a): key must carry the defaults"); return both(view::trace(a), na::trace(a), want, nt); }
        if (var == 4) { if (a1 != 0 || a2 != 1) nmc::die("trace(a, off): key must carry the default axes"); return both(view::trace(a, off), na::trace(a, off), want, nt); }
        if (var == 3) {
            long k = -1; for (int i = 0; i < 4; i++) if (TRACE_CT_AXES[i][0] == a1 && TRACE_CT_AXES[i][1] == a2) k = i;
            switch (off) { case -1: return trace_ct_axes<-1>(a, k, want, nt); case 0: return trace_ct_axes<0>(a, k, want, nt); case 1: return trace_ct_axes<1>(a, k, want, nt); }
            nmc::die("trace: ct offset not instantiated");
        }
        if (var != 0) nmc::die("trace: unknown variant");
        return both(view::trace(a, off, a1, a2), na::trace(a, off, a1, a2), want, nt);
    }
#endif
    const L& sa = c.a[op == "matmul" ? 1 : 0]; const L& sb = c.a[op == "matmul" ? 2 : 1];
    auto a = make_arr<long>(ref::c16_lhs(sa)); auto b = make_arr<long>(ref::c16_rhs(sb));
#ifdef C16_MATMUL
    if (op == "matmul") {
        if (c.a[0][0] == 1) return both(view::matmul(a, b), na::matmul(a, b), want, nt);
        const auto v = view::matmulv2(a, b); return both(v, na::eval(v), want, nt);
    }
#endif
#ifdef C16_DOT
    if (op == "dot") return both(view::dot(a, b), na::dot(a, b), want, nt);
    if (op == "inner") return both(view::inner(a, b), na::inner(a, b), want, nt);
    if (op == "outer") return both(view::outer(a, b), na::outer(a, b), want, nt);
    if (op == "vecdot" && c.a.size() > 3) {
        long var = c.a[3][0]; bool kd = c.a[2][0] != 0;
        if (var == 2) return both(view::vecdot(a, b, nm::None, kd), na::vecdot(a, b, nm::None, kd), want, nt);
        RArr fl = shifted(ref::c16_lhs(sa), 1, 4000), fr = shifted(ref::c16_rhs(sb), 1, 3900);
        auto fa = make_arr<float>(fl); auto fb = make_arr<float>(fr);
        ROpt fw = ref::vecdot(fl, fr, kd);
        if (var == 1) {
            if (kd) return both_typed<double>(view::vecdot(fa, fb, nm::float64, nm::True), na::vecdot(fa, fb, nm::float64, nm::True), fw, nt);
            return both_typed<double>(view::vecdot(fa, fb, nm::float64, nm::False), na::vecdot(fa, fb, nm::float64, nm::False), fw, nt);
        }
        if (var == 3) return both_typed<double>(view::vecdot(fa, fb, nm::float64, kd), na::vecdot(fa, fb, nm::float64, kd), fw, nt);
        nmc::die("vecdot: unknown variant");
    }
    if (op == "vecdot") {
        if (c.a[2][0]) return both(view::vecdot(a, b, nm::None, nm::True), na::vecdot(a, b, nm::None, nm::True), want, nt);
        return both(view::vecdot(a, b), na::vecdot(a, b), want, nt);
    }
#endif
#ifdef C16_TENSORDOT
    if (op == "tdn") { int n = (int)c.a[2][0]; return both(view::tensordot(a, b, n), na::tensordot(a, b, n), want, nt); }
    if (op == "tdc") {
        switch (c.a[2][0]) {
        case 1: return both(view::tensordot(a, b, meta::ct_v<1>), na::tensordot(a, b, meta::ct_v<1>), want, nt);
        case 2: return both(view::tensordot(a, b), na::tensordot(a, b), want, nt);      // the default argument is ct<2>
        case 3: return both(view::tensordot(a, b, meta::ct_v<3>), na::tensordot(a, b, meta::ct_v<3>), want, nt);
        case 4: return both(view::tensordot(a, b, meta::ct_v<4>), na::tensordot(a, b, meta::ct_v<4>), want, nt);
        default: nmc::die("tdc: n not instantiated");
        }
    }
    if (op == "tdx" && c.a.size() > 4) {
        const L& xa = c.a[2]; const L& xb = c.a[3];
        if (c.a[4][0] == 2) return tdx_ct_dispatch(a, b, xa, xb, want, nt, std::make_index_sequence<TDX_NCT>{});
        if (c.a[4][0] != 1 || xa.size() != xb.size()) nmc::die("tdx: unknown form");
        switch (xa.size()) {
        case 1: { auto ax = nmtools_tuple{to_fixed<1>(xa), to_fixed<1>(xb)}; return both(view::tensordot(a, b, ax), na::tensordot(a, b, ax), want, nt); }
        case 2: { auto ax = nmtools_tuple{to_fixed<2>(xa), to_fixed<2>(xb)}; return both(view::tensordot(a, b, ax), na::tensordot(a, b, ax), want, nt); }
        case 3: { auto ax = nmtools_tuple{to_fixed<3>(xa), to_fixed<3>(xb)}; return both(view::tensordot(a, b, ax), na::tensordot(a, b, ax), want, nt); }
        }
        nmc::die("tdx: fixed-array length not instantiated");
    }
    if (op == "tdx") { auto ax = nmtools_tuple{to_il(c.a[2]), to_il(c.a[3])}; return both(view::tensordot(a, b, ax), na::tensordot(a, b, ax), want, nt); }
#endif
#ifdef C16_KRON
    if (op == "kron") return both(view::kron(a, b), na::kron(a, b), want, nt);
#endif
    nmc::die("unknown op (or unit not compiled in)");
}
#endif // !C16_REFDUMP

// ------------------------------------------------------------------------------------------------ oracle self test
void nmc_selftest() {
    // hand-computed values of the models
    RArr a(L{2, 3}, {1, 2, 3, 4, 5, 6}), b(L{3, 2}, {10, 11, 12, 13, 14, 15}), c(L{2, 3}, {10, 11, 12, 13, 14, 15});
    ROpt mm = ref::matmul(a, b); if (!mm || mm->shape != L{2, 2} || mm->data != std::vector<double>{76, 82, 184, 199}) nmc::die("selftest: matmul model");
    if (ref::matmul(a, c)) nmc::die("selftest: matmul model accepts k mismatch");
    if (ref::matmul(RArr(L{2, 1, 2}), RArr(L{3, 2, 1}))) nmc::die("selftest: matmul model accepts batch 2 vs 3");
    ROpt bm = ref::matmul(RArr::iota(L{2, 1, 1, 2}), RArr::iota(L{3, 2, 1})); if (!bm || bm->shape != L{2, 3, 1, 1} || bm->data[1] != 1 * 3 + 2 * 4 || bm->data[3] != 3 * 1 + 4 * 2) nmc::die("selftest: matmul batch broadcast model");
    ROpt d = ref::dot(a, b); if (!d || d->data != mm->data) nmc::die("selftest: dot model 2d");
    ROpt d3 = ref::dot(RArr::iota(L{2, 2}), RArr::iota(L{2, 2, 2})); if (!d3 || d3->shape != L{2, 2, 2} || d3->data != std::vector<double>{7, 10, 19, 22, 15, 22, 43, 50}) nmc::die("selftest: dot model N-d");
    ROpt in = ref::inner(a, c); if (!in || in->shape != L{2, 2} || in->data != std::vector<double>{68, 86, 167, 212}) nmc::die("selftest: inner model");
    if (ref::inner(a, RArr(L{2, 1}))) nmc::die("selftest: inner model broadcasts the contracted axis");
    ROpt vd = ref::vecdot(a, c, true); if (!vd || vd->shape != L{2, 1} || vd->data != std::vector<double>{68, 212}) nmc::die("selftest: vecdot model");
    if (ref::vecdot(a, RArr(L{2, 1}), false)) nmc::die("selftest: vecdot model broadcasts the core dimension");
    ROpt vb = ref::vecdot(RArr::iota(L{2, 1, 2}), RArr::iota(L{3, 2}), false); if (!vb || vb->shape != L{2, 3} || vb->data != std::vector<double>{5, 11, 17, 11, 25, 39}) nmc::die("selftest: vecdot loop broadcast");
    ROpt tr = ref::trace(RArr::iota(L{2, 3, 2}), 1, 1, 0); if (!tr || tr->shape != L{2} || tr->data != std::vector<double>{7, 8}) nmc::die("selftest: trace model");   // rows = axis 1, columns = axis 0, offset 1: the single diagonal element is a[1,0,:] = 7, 8
    ROpt t0 = ref::trace(RArr::iota(L{2, 2}), 2, 0, 1); if (!t0 || !t0->shape.empty() || t0->data != std::vector<double>{0}) nmc::die("selftest: trace of an empty diagonal is 0");
    RArr kr = ref::kron(RArr::iota(L{2}), RArr::iota(L{1, 2})); if (kr.shape != L{1, 4} || kr.data != std::vector<double>{1, 2, 2, 4}) nmc::die("selftest: kron model");
    ROpt td = ref::tensordot(a, b, L{-1, 0}, L{-2, 1}); if (!td || !td->shape.empty() || td->data[0] != 275) nmc::die("selftest: tensordot model");
    // canned bugs must be flagged
    Obs transposed; transposed.shape = {2, 2}; transposed.data = {76, 184, 82, 199};
    if (nmc::diff(transposed, mm).empty()) nmc::die("selftest: oracle blind to a transposed matmul");
    ROpt bc = ref::vecdot(a, RArr(L{2, 1}, {10, 13}), false);   // an implementation that broadcasts the core dimension returns numbers
    Obs bcast; bcast.shape = {2}; bcast.data = {60, 195};
    if (bc || nmc::diff(bcast, bc).empty()) nmc::die("selftest: oracle blind to an accepted core-dimension mismatch");
    RArr k2 = ref::kron(RArr(L{2}, {1, 2}), RArr(L{1, 2}, {3, 5}));
    Obs sw2 = ref::kron(RArr(L{1, 2}, {3, 5}), RArr(L{2}, {1, 2})).obs();
    if (nmc::diff(sw2, ROpt(k2)).empty()) nmc::die("selftest: oracle blind to kron with swapped operands");
    Obs nothing; nothing.has = false; if (nmc::diff(nothing, mm).empty()) nmc::die("selftest: oracle blind to a rejected valid case");
    // operand generators are all-distinct
    RArr la = ref::c16_lhs(L{256}), lb = ref::c16_rhs(L{256});
    for (size_t i = 1; i < 256; i++) if (la.data[i] <= la.data[i - 1] || lb.data[i] <= lb.data[i - 1]) nmc::die("selftest: operand data not strictly increasing");
}

#ifdef C16_REFDUMP
// audit tool: print the model's answer for every case of a tier (argv[1] = quick|thorough)
int main(int argc, char** argv) {
    nmc_selftest();
    nmc::Tier t{argc > 1 ? argv[1] : "quick"};
    nmc_enumerate(t, [&](const Case& c) {
        bool nt; ROpt w = model_of(c, nt);
        std::string k = c.key();
        if (!w) { printf("%s\tR\n", k.c_str()); return; }
        std::string s; for (size_t i = 0; i < w->shape.size(); i++) { if (i) s += ","; s += std::to_string(w->shape[i]); }
        fputs(k.c_str(), stdout); fputc('\t', stdout); fputs(s.empty() ? "_" : s.c_str(), stdout); fputc('\t', stdout);
        for (size_t i = 0; i < w->data.size(); i++) printf(i ? ",%ld" : "%ld", (long)w->data[i]);
        fputc('\n', stdout);
    });
    return 0;
}
#endif
