// C04 (part b) - split, sliding_window, diagonal, diagflat, tril/triu, where, generators, resize, expand
#include "nmtools/array/array/split.hpp"
#include "nmtools/array/array/sliding_window.hpp"
#undef NMTOOLS_ARRAY_ARRAY_RESIZE_HPP   // array/sliding_window.hpp and array/resize.hpp share one include guard in the pinned tree
#include "nmtools/array/array/diagonal.hpp"
#include "nmtools/array/array/diagflat.hpp"
#include "nmtools/array/array/tril.hpp"
#include "nmtools/array/array/triu.hpp"
#include "nmtools/array/array/tri.hpp"
#include "nmtools/array/array/eye.hpp"
#include "nmtools/array/array/identity.hpp"
#include "nmtools/array/array/where.hpp"
#include "nmtools/array/array/arange.hpp"
#include "nmtools/array/array/linspace.hpp"
#include "nmtools/array/array/full.hpp"
#include "nmtools/array/array/zeros.hpp"
#include "nmtools/array/array/ones.hpp"
#include "nmtools/array/array/full_like.hpp"
#include "nmtools/array/array/zeros_like.hpp"
#include "nmtools/array/array/ones_like.hpp"
#include "nmtools/array/array/resize.hpp"
#include "nmtools/array/array/expand.hpp"
#define NMC_MAIN
#include "common.hpp"

const char* nmc_property() { return "C04"; }

void nmc_enumerate(const nmc::Tier& t, const nmc::Sink& emit) {
    long e = t.thorough() ? 4 : 3;
    nmc::each_shape_range(1, 4, e, [&](const L& s) {
        long d = (long)s.size();
        // split: every sections count dividing n, every increasing index list, every axis
        for (long a = -d; a < d; a++) {
            long n = s[(size_t)(a < 0 ? a + d : a)];
            for (long k = 1; k <= n; k++) if (n % k == 0) emit(Case("split_sections", {s, {k}, {a}}));
            if (a >= 0 || a == -1) nmc::each_subset((int)n - 1, [&](const L& cut) { if (cut.empty()) return; L c(cut); for (auto& v : c) v += 1; emit(Case("split_indices", {s, c, {a}})); });
        }
        // sliding_window: every window <= extent on every axis subset of size <= 2 (and the all-axes form)
        for (long a = 0; a < d; a++) for (long w = 1; w <= s[(size_t)a]; w++) { emit(Case("sliding1", {s, {w}, {a}})); if (a == d - 1) emit(Case("sliding1", {s, {w}, {-1}})); }
        for (long a = 0; a < d; a++) for (long b = 0; b < d; b++) if (a != b) for (long w = 1; w <= s[(size_t)a]; w++) for (long v = 1; v <= s[(size_t)b]; v++) emit(Case("sliding", {s, {w, v}, {a, b}}));
        if (d <= 3) { L hi(s); nmc::each_tuple(L((size_t)d, 1), hi, [&](const L& w) { emit(Case("sliding_all", {s, w})); }); }
        // diagonal: offset in [-n,n], every ordered axis pair
        if (d >= 2) for (long a = -d; a < d; a++) for (long b = -d; b < d; b++) {
            long na = a < 0 ? a + d : a, nb = b < 0 ? b + d : b; if (na == nb) continue;
            if ((a < 0) != (b < 0) && !t.thorough()) continue;
            long n = std::max(s[(size_t)na], s[(size_t)nb]);
            for (long off = -n; off <= n; off++) emit(Case("diagonal", {s, {off}, {a}, {b}}));
        }
        if (d <= 2) for (long k = -2; k <= 2; k++) emit(Case("diagflat", {s, {k}}));
        { long n = d >= 2 ? std::max(s[(size_t)d - 1], s[(size_t)d - 2]) : s[0]; for (long k = -n; k <= n; k++) { emit(Case("tril", {s, {k}})); emit(Case("triu", {s, {k}})); } }
        // resize: every target in S(d,5) (dims<=2), smaller menu above
        if (d <= 2) nmc::each_shape((int)d, 5, [&](const L& dst) { emit(Case("resize", {s, dst})); });
        else if (d == 3) nmc::each_tuple((size_t)d, 1, 5, [&](const L& dst) { long odd = 0; for (long v : dst) odd += v; if (t.thorough() || odd % 3 == 0) emit(Case("resize", {s, dst})); });
        // expand: spacing 1..2 on every axis subset (single axes, and pairs)
        for (long a = -d; a < d; a++) for (long sp = 1; sp <= 2; sp++) emit(Case("expand1", {s, {a}, {sp}}));
        nmc::each_subset((int)d, [&](const L& ax) { if (ax.size() < 2 || ax.size() > 3) return; for (long sp = 1; sp <= 2; sp++) { emit(Case("expand", {s, ax, L(ax.size(), sp)})); } if (ax.size() == 2) emit(Case("expand", {s, ax, {1, 2}})); });
        // full/zeros/ones(_like)
        if (d <= 4) { emit(Case("full", {s})); emit(Case("zeros", {s})); emit(Case("ones", {s})); emit(Case("full_like", {s})); emit(Case("zeros_like", {s})); emit(Case("ones_like", {s})); }
    });
    // where: 3 broadcastable operands (condition, x, y) from S(0..3,2)-style sets
    {
        std::vector<L> W; nmc::each_shape_range(1, 3, t.thorough() ? 3 : 2, [&](const L& s) { W.push_back(s); });
        for (auto& c : W) for (auto& x : W) for (auto& y : W) if (ref::broadcast_shapes({c, x, y})) emit(Case("where", {c, x, y}));
    }
    // generators
    for (long start = -4; start <= 6; start++) for (long stop = -4; stop <= 6; stop++) for (long step : {1L, 2L, 3L, -1L, -2L, -3L}) emit(Case("arange", {{start, stop, step}}));
    for (long stop = 1; stop <= 6; stop++) emit(Case("arange_stop", {{stop}}));
    for (long start = -4; start <= 6; start++) for (long stop = start + 1; stop <= 6; stop++) emit(Case("arange2", {{start, stop}}));
    // (a real-valued arange is rejected at compile time - ARANGE_SHAPE_UNSUPPORTED<double,...> - so the real grid applies to linspace only)
    for (long start = -4; start <= 4; start++) for (long stop = -4; stop <= 4; stop++) for (long num = 1; num <= 6; num++) for (long ep = 0; ep <= 1; ep++) emit(Case("linspace", {{start, stop, num, ep}}));   // halves
    for (long N = 1; N <= 4; N++) { emit(Case("identity", {{N}})); for (long M = 1; M <= 4; M++) for (long k = -4; k <= 4; k++) { emit(Case("eye", {{N, M, k}})); emit(Case("tri", {{N, M, k}})); } for (long k = -4; k <= 4; k++) { emit(Case("eye_n", {{N, k}})); emit(Case("tri_n", {{N, k}})); } }
}

template <typename V, typename A> static Outcome both(const V& lazy, const A& eager, const ROpt& want, bool nontriv, double rtol = 0) {
    Outcome o = judge(nmc::observe(lazy), want, nontriv, rtol);
    if (!o.fail.empty()) { o.fail = "view: " + o.fail; return o; }
    Outcome e = judge(nmc::observe(eager), want, nontriv, rtol);
    if (!e.fail.empty()) { e.fail = "array: " + e.fail; return e; }
    return o;
}
static ROpt ref_resize(const RArr& a, const L& dst) {
    if (dst.size() != a.shape.size()) return std::nullopt;
    for (long v : dst) if (v <= 0) return std::nullopt;
    return ref::gather(a, dst, [&](const L& i) { L s(i.size()); for (size_t k = 0; k < i.size(); k++) s[k] = (a.shape[k] * i[k]) / dst[k]; return s; });   // nearest neighbour: floor(src*i/dst)
}
static ROpt ref_expand(const RArr& a, L axes, const L& spacing, double fill) {
    if (!ref::norm_axes(axes, a.dim())) return std::nullopt;
    L rs = a.shape; L sp((size_t)a.dim(), 0);
    for (size_t k = 0; k < axes.size(); k++) { sp[(size_t)axes[k]] = spacing[k]; rs[(size_t)axes[k]] += (a.shape[(size_t)axes[k]] - 1) * spacing[k]; }
    RArr r(rs); long q = 0;
    nmc::each_index(rs, [&](const L& i) { L s(i.size()); bool hit = true; for (size_t k = 0; k < i.size(); k++) { if (i[k] % (sp[k] + 1)) hit = false; s[k] = i[k] / (sp[k] + 1); } r.data[(size_t)q++] = hit ? a.at(s) : fill; });
    return r;
}
// each part of a split result vs numpy.split
template <typename Parts> static Outcome check_split(const Parts& parts, const std::vector<RArr>& want) {
    size_t n = 0; Outcome res = Outcome::ok(true, 0); bool bad = false;
    auto one = [&](const auto& p) { if (bad) return; if (n >= want.size()) { res = Outcome::bad("wrong", "more parts than numpy.split"); bad = true; return; } Outcome o = judge(nmc::observe(p), ROpt(want[n]), true); if (!o.fail.empty()) { o.fail = "part " + std::to_string(n) + ": " + o.fail; res = o; bad = true; } res.outcome ^= o.outcome + n; n++; };
    if constexpr (meta::is_tuple_v<Parts>) { meta::template_for<meta::len_v<Parts>>([&](auto i) { one(nm::get<decltype(i)::value>(parts)); }); }
    else { for (size_t i = 0; i < (size_t)nm::len(parts); i++) one(nm::at(parts, i)); }
    if (!bad && n != want.size()) return Outcome::bad("wrong", "split gave " + std::to_string(n) + " parts, numpy gives " + std::to_string(want.size()));
    return res;
}
static std::vector<RArr> np_split(const RArr& a, const L& cuts, long ax) {
    if (ax < 0) ax += a.dim();
    std::vector<RArr> out; L b{0}; for (long c : cuts) b.push_back(c); b.push_back(a.shape[(size_t)ax]);
    for (size_t k = 0; k + 1 < b.size(); k++) { L rs = a.shape; rs[(size_t)ax] = b[k + 1] - b[k]; long lo = b[k]; out.push_back(ref::gather(a, rs, [&](const L& i) { L s(i); s[(size_t)ax] += lo; return s; })); }
    return out;
}

Outcome nmc_execute(const Case& c) {
    const std::string& op = c.op;
    if (op == "arange" || op == "arange_stop" || op == "arange2" || op == "arange_real") {
        double start = 0, stop = 0, step = 1; double u = op == "arange_real" ? 0.25 : 1.0;
        if (op == "arange_stop") stop = (double)c.a[0][0]; else if (op == "arange2") { start = (double)c.a[0][0]; stop = (double)c.a[0][1]; } else { start = c.a[0][0] * u; stop = c.a[0][1] * u; step = c.a[0][2] * u; }
        long len = (long)std::ceil((stop - start) / step);
        if (len <= 0) {   // NumPy gives an empty array; nmtools has no empty arrays: only "must not produce elements" can be asked
            return Outcome::ok(false, 3);
        }
        RArr w(L{len}); for (long i = 0; i < len; i++) w.data[(size_t)i] = start + i * step;
        if (op == "arange_stop") { int s = (int)stop; return both(view::arange(s, nm::int64), na::arange(s, nm::int64), ROpt(w), true); }
        if (op == "arange2") { int a = (int)start, b = (int)stop; return both(view::arange(a, b, nm::int64), na::arange(a, b, nm::int64), ROpt(w), true); }
        if (op == "arange") { int a = (int)start, b = (int)stop, s = (int)step; return both(view::arange(a, b, s, nm::int64), na::arange(a, b, s, nm::int64), ROpt(w), true); }
        nmc::die("arange_real unsupported");
    }
    if (op == "linspace") {
        double start = c.a[0][0] * 0.5, stop = c.a[0][1] * 0.5; long num = c.a[0][2]; bool ep = c.a[0][3] != 0;
        RArr w(L{num}); double div = ep ? (double)(num - 1) : (double)num; double step = div > 0 ? (stop - start) / div : 0;
        for (long i = 0; i < num; i++) w.data[(size_t)i] = start + i * step;
        if (ep && num > 1) w.data[(size_t)num - 1] = stop;
        if (ep) return both(view::linspace(start, stop, (size_t)num, nm::True), na::linspace(start, stop, (size_t)num, nm::True), ROpt(w), true, 1e-12);
        return both(view::linspace(start, stop, (size_t)num, nm::False), na::linspace(start, stop, (size_t)num, nm::False), ROpt(w), true, 1e-12);
    }
    if (op == "identity") { int n = (int)c.a[0][0]; return both(view::identity(n, nm::int64), na::identity(n, nm::int64), ROpt(ref::eye(n, n, 0)), true); }
    if (op == "eye") { int n = (int)c.a[0][0], m = (int)c.a[0][1], k = (int)c.a[0][2]; return both(view::eye(n, m, k, nm::int64), na::eye(n, m, k, nm::int64), ROpt(ref::eye(n, m, k)), true); }
    if (op == "tri") { int n = (int)c.a[0][0], m = (int)c.a[0][1], k = (int)c.a[0][2]; return both(view::tri(n, m, k, nm::int64), na::tri(n, m, k, nm::int64), ROpt(ref::tri(n, m, k)), true); }
    if (op == "eye_n") { int n = (int)c.a[0][0], k = (int)c.a[0][1]; return both(view::eye(n, nm::None, k, nm::int64), na::eye(n, nm::None, k, nm::int64), ROpt(ref::eye(n, n, k)), true); }
    if (op == "tri_n") { int n = (int)c.a[0][0], k = (int)c.a[0][1]; return both(view::tri(n, nm::None, k, nm::int64), na::tri(n, nm::None, k, nm::int64), ROpt(ref::tri(n, n, k)), true); }
    if (op == "where") {
        RArr rc(c.a[0]); for (size_t i = 0; i < rc.data.size(); i++) rc.data[i] = (double)((i * 7 + 3) % 3 != 0);
        RArr rx = RArr::iota(c.a[1], 10), ry = RArr::iota(c.a[2], 100);
        auto bs = ref::broadcast_shapes({c.a[0], c.a[1], c.a[2]});
        RArr bc = *ref::broadcast_to(rc, *bs), bx = *ref::broadcast_to(rx, *bs), by = *ref::broadcast_to(ry, *bs);
        RArr w(*bs); for (size_t i = 0; i < w.data.size(); i++) w.data[i] = bc.data[i] != 0 ? bx.data[i] : by.data[i];
        auto cond = make_arr<long>(rc); auto x = make_arr<long>(rx); auto y = make_arr<long>(ry);
        return both(view::where(cond, x, y), na::where(cond, x, y), ROpt(w), true);
    }
    const L& s = c.a[0]; RArr r = RArr::iota(s); auto a = make_arr<long>(s);
    if (op == "split_sections") {
        long k = c.a[1][0], ax = c.a[2][0]; long n = s[(size_t)(ax < 0 ? ax + (long)s.size() : ax)]; L cuts; for (long i = 1; i < k; i++) cuts.push_back(i * (n / k));
        auto want = np_split(r, cuts, ax);
        const auto parts = view::split(a, (int)k, (int)ax);
        return check_split(parts, want);
    }
    if (op == "split_indices") { long ax = c.a[2][0]; auto want = np_split(r, c.a[1], ax); auto cuts = to_il(c.a[1]); const auto parts = view::split(a, cuts, (int)ax); return check_split(parts, want); }
    if (op == "sliding1") { int w = (int)c.a[1][0], ax = (int)c.a[2][0]; ROpt want = ref::sliding_window(r, c.a[1], &c.a[2]); return both(view::sliding_window(a, w, ax), na::sliding_window(a, w, ax), want, true); }
    if (op == "sliding") { auto w = to_il(c.a[1]), ax = to_il(c.a[2]); ROpt want = ref::sliding_window(r, c.a[1], &c.a[2]); return both(view::sliding_window(a, w, ax), na::sliding_window(a, w, ax), want, true); }
    if (op == "sliding_all") { auto w = to_il(c.a[1]); ROpt want = ref::sliding_window(r, c.a[1], nullptr); return both(view::sliding_window(a, w), na::sliding_window(a, w), want, true); }
    if (op == "diagonal") {
        int off = (int)c.a[1][0], a1 = (int)c.a[2][0], a2 = (int)c.a[3][0]; ROpt want = ref::diagonal(r, off, a1, a2);
        if (!want) return Outcome::ok(false, 5);   // empty diagonal: outside nmtools' domain
        return both(view::diagonal(a, off, a1, a2), na::diagonal(a, off, a1, a2), want, true);
    }
    if (op == "diagflat") { int k = (int)c.a[1][0]; return both(view::diagflat(a, k), na::diagflat(a, k), ref::diagflat(r, k), true); }
    if (op == "tril") { int k = (int)c.a[1][0]; return both(view::tril(a, k), na::tril(a, k), ref::tril(r, k, false), true); }
    if (op == "triu") { int k = (int)c.a[1][0]; return both(view::triu(a, k), na::triu(a, k), ref::tril(r, k, true), true); }
    if (op == "resize") { auto d = to_il(c.a[1]); return both(view::resize(a, d), na::resize(a, d), ref_resize(r, c.a[1]), c.a[1] != s); }
    if (op == "expand1") { int ax = (int)c.a[1][0], sp = (int)c.a[2][0]; return both(view::expand(a, ax, sp, (long)-7), na::expand(a, ax, sp, (long)-7), ref_expand(r, c.a[1], c.a[2], -7), true); }
    if (op == "expand") { auto ax = to_il(c.a[1]), sp = to_il(c.a[2]); return both(view::expand(a, ax, sp, (long)-7), na::expand(a, ax, sp, (long)-7), ref_expand(r, c.a[1], c.a[2], -7), true); }
    auto shp = to_sl(s);
    auto filled = [&](double v) { RArr w(s); for (auto& x : w.data) x = v; return ROpt(w); };
    if (op == "full") return both(view::full(shp, (long)9), na::full(shp, (long)9), filled(9), true);
    if (op == "zeros") return both(view::zeros(shp, nm::int64), na::zeros(shp, nm::int64), filled(0), true);
    if (op == "ones") return both(view::ones(shp, nm::int64), na::ones(shp, nm::int64), filled(1), true);
    if (op == "full_like") return both(view::full_like(a, (long)9), na::full_like(a, (long)9), filled(9), true);
    if (op == "zeros_like") return both(view::zeros_like(a), na::zeros_like(a), filled(0), true);
    if (op == "ones_like") return both(view::ones_like(a), na::ones_like(a), filled(1), true);
    nmc::die("unknown op");
}

void nmc_selftest() {
    RArr r = RArr::iota(L{3, 3});
    ROpt d = ref::diagonal(r, 1, 0, 1); if (!d || d->shape != L{2} || d->data[0] != 2 || d->data[1] != 6) nmc::die("selftest: diagonal model");
    ROpt t = ref::tril(r, 0, false); if (!t || t->data[1] != 0 || t->data[3] != 4) nmc::die("selftest: tril model");
    ROpt w = ref_resize(RArr::iota(L{4}), L{2}); if (!w || w->data[0] != 1 || w->data[1] != 3) nmc::die("selftest: resize model");
    ROpt e = ref_expand(RArr::iota(L{3}), L{0}, L{1}, 0); if (!e || e->shape != L{5} || e->data[1] != 0 || e->data[2] != 2) nmc::die("selftest: expand model");
    Obs wrong = t->obs(); wrong.data[1] = 2;
    if (nmc::diff(wrong, t).empty()) nmc::die("selftest: oracle blind to unmasked tril element");
}
