// C04 (part b) - split, sliding_window, diagonal, diagflat, tril/triu, where, generators, resize, expand
#include "nmtools/array/array/split.hpp"
#include "nmtools/array/array/sliding_window.hpp"
#undef NMTOOLS_ARRAY_ARRAY_RESIZE_HPP   // array/sliding_window.hpp and array/resize.hpp share one include guard in the pinned tree
#include "nmtools/array/array/diagonal.hpp"
#include "nmtools/array/array/diagflat.hpp"
#include "nmtools/array/array/tril.hpp"
#include "nmtools/array/array/triu.hpp"
#include "nmtools/array/array/tri.hpp"
#include "nmtools/array/array/eye.hpp"
#include "nmtools/array/array/identity.hpp"
#include "nmtools/array/array/where.hpp"
#include "nmtools/array/array/arange.hpp"
#include "nmtools/array/array/linspace.hpp"
#include "nmtools/array/array/full.hpp"
#include "nmtools/array/array/zeros.hpp"
#include "nmtools/array/array/ones.hpp"
#include "nmtools/array/array/full_like.hpp"
#include "nmtools/array/array/zeros_like.hpp"
#include "nmtools/array/array/ones_like.hpp"
#include "nmtools/array/array/resize.hpp"
#include "nmtools/array/array/expand.hpp"
#define NMC_MAIN
#include "common.hpp"

const char* nmc_property() { return "C04"; }

static void enumerate_optional(const nmc::Tier& t, const nmc::Sink& emit);   // optional-parameter audit: see the second half of this file
static bool execute_optional(const Case& c, Outcome& out);

void nmc_enumerate(const nmc::Tier& t, const nmc::Sink& emit) {
    long e = t.thorough() ? 4 : 3;
    nmc::each_shape_range(1, 4, e, [&](const L& s) {
        long d = (long)s.size();
        // split: every sections count dividing n, every increasing index list, every axis
        for (long a = -d; a < d; a++) {
            long n = s[(size_t)(a < 0 ? a + d : a)];
            for (long k = 1; k <= n; k++) if (n % k == 0) emit(Case("split_sections", {s, {k}, {a}}));
            if (a >= 0 || a == -1) nmc::each_subset((int)n - 1, [&](const L& cut) { if (cut.empty()) return; L c(cut); for (auto& v : c) v += 1; emit(Case("split_indices", {s, c, {a}})); });
        }
        // sliding_window: every window <= extent on every axis subset of size <= 2 (and the all-axes form)
        for (long a = 0; a < d; a++) for (long w = 1; w <= s[(size_t)a]; w++) { emit(Case("sliding1", {s, {w}, {a}})); if (a == d - 1) emit(Case("sliding1", {s, {w}, {-1}})); }
        for (long a = 0; a < d; a++) for (long b = 0; b < d; b++) if (a != b) for (long w = 1; w <= s[(size_t)a]; w++) for (long v = 1; v <= s[(size_t)b]; v++) emit(Case("sliding", {s, {w, v}, {a, b}}));
        if (d <= 3) { L hi(s); nmc::each_tuple(L((size_t)d, 1), hi, [&](const L& w) { emit(Case("sliding_all", {s, w})); }); }
        // diagonal: offset in [-n,n], every ordered axis pair
        if (d >= 2) for (long a = -d; a < d; a++) for (long b = -d; b < d; b++) {
            long na = a < 0 ? a + d : a, nb = b < 0 ? b + d : b; if (na == nb) continue;
            if ((a < 0) != (b < 0) && !t.thorough() && d > 2) continue;   // mixed-sign axis pairs: quick tier on 2-d sources, thorough tier everywhere (no class of arguments is thorough-only)
            long n = std::max(s[(size_t)na], s[(size_t)nb]);
            for (long off = -n; off <= n; off++) emit(Case("diagonal", {s, {off}, {a}, {b}}));
        }
        if (d <= 2) for (long k = -2; k <= 2; k++) emit(Case("diagflat", {s, {k}}));
        { long n = d >= 2 ? std::max(s[(size_t)d - 1], s[(size_t)d - 2]) : s[0]; for (long k = -n; k <= n; k++) { emit(Case("tril", {s, {k}})); emit(Case("triu", {s, {k}})); } }
        // resize: every target in S(d,5) (dims<=2), smaller menu above
        if (d <= 2) nmc::each_shape((int)d, 5, [&](const L& dst) { emit(Case("resize", {s, dst})); });
        else if (d == 3) nmc::each_tuple((size_t)d, 1, 5, [&](const L& dst) { long odd = 0; for (long v : dst) odd += v; if (t.thorough() || odd % 3 == 0) emit(Case("resize", {s, dst})); });
        // expand: spacing 1..2 on every axis subset (single axes, and pairs)
        for (long a = -d; a < d; a++) for (long sp = 1; sp <= 2; sp++) emit(Case("expand1", {s, {a}, {sp}}));
        nmc::each_subset((int)d, [&](const L& ax) { if (ax.size() < 2 || ax.size() > 3) return; for (long sp = 1; sp <= 2; sp++) { emit(Case("expand", {s, ax, L(ax.size(), sp)})); } if (ax.size() == 2) emit(Case("expand", {s, ax, {1, 2}})); });
        // full/zeros/ones(_like)
        if (d <= 4) { emit(Case("full", {s})); emit(Case("zeros", {s})); emit(Case("ones", {s})); emit(Case("full_like", {s})); emit(Case("zeros_like", {s})); emit(Case("ones_like", {s})); }
    });
    // where: 3 broadcastable operands (condition, x, y) from S(0..3,2)-style sets
    {
        std::vector<L> W; nmc::each_shape_range(1, 3, t.thorough() ? 3 : 2, [&](const L& s) { W.push_back(s); });
        for (auto& c : W) for (auto& x : W) for (auto& y : W) if (ref::broadcast_shapes({c, x, y})) emit(Case("where", {c, x, y}));
    }
    // generators
    for (long start = -4; start <= 6; start++) for (long stop = -4; stop <= 6; stop++) for (long step : {1L, 2L, 3L, -1L, -2L, -3L}) emit(Case("arange", {{start, stop, step}}));
    for (long stop = 1; stop <= 6; stop++) emit(Case("arange_stop", {{stop}}));
    for (long start = -4; start <= 6; start++) for (long stop = start + 1; stop <= 6; stop++) emit(Case("arange2", {{start, stop}}));
    // (a real-valued arange is rejected at compile time - ARANGE_SHAPE_UNSUPPORTED<double,...> - so the real grid applies to linspace only)
    for (long start = -4; start <= 4; start++) for (long stop = -4; stop <= 4; stop++) for (long num = 1; num <= 6; num++) for (long ep = 0; ep <= 1; ep++) emit(Case("linspace", {{start, stop, num, ep}}));   // halves
    for (long N = 1; N <= 4; N++) { emit(Case("identity", {{N}})); for (long M = 1; M <= 4; M++) for (long k = -4; k <= 4; k++) { emit(Case("eye", {{N, M, k}})); emit(Case("tri", {{N, M, k}})); } for (long k = -4; k <= 4; k++) { emit(Case("eye_n", {{N, k}})); emit(Case("tri_n", {{N, k}})); } }
    enumerate_optional(t, emit);
}

template <typename V, typename A> static Outcome both(const V& lazy, const A& eager, const ROpt& want, bool nontriv, double rtol = 0) {
    Outcome o = judge(nmc::observe(lazy), want, nontriv, rtol);
    if (!o.fail.empty()) { o.fail = "view: " + o.fail; return o; }
    Outcome e = judge(nmc::observe(eager), want, nontriv, rtol);
    if (!e.fail.empty()) { e.fail = "array: " + e.fail; return e; }
    return o;
}
static ROpt ref_resize(const RArr& a, const L& dst) {
    if (dst.size() != a.shape.size()) return std::nullopt;
    for (long v : dst) if (v <= 0) return std::nullopt;
    return ref::gather(a, dst, [&](const L& i) { L s(i.size()); for (size_t k = 0; k < i.size(); k++) s[k] = (a.shape[k] * i[k]) / dst[k]; return s; });   // nearest neighbour: floor(src*i/dst)
}
static ROpt ref_expand(const RArr& a, L axes, const L& spacing, double fill) {
    if (!ref::norm_axes(axes, a.dim())) return std::nullopt;
    L rs = a.shape; L sp((size_t)a.dim(), 0);
    for (size_t k = 0; k < axes.size(); k++) { sp[(size_t)axes[k]] = spacing[k]; rs[(size_t)axes[k]] += (a.shape[(size_t)axes[k]] - 1) * spacing[k]; }
    RArr r(rs); long q = 0;
    nmc::each_index(rs, [&](const L& i) { L s(i.size()); bool hit = true; for (size_t k = 0; k < i.size(); k++) { if (i[k] % (sp[k] + 1)) hit = false; s[k] = i[k] / (sp[k] + 1); } r.data[(size_t)q++] = hit ? a.at(s) : fill; });
    return r;
}
// each part of a split result vs numpy.split
template <typename Parts> static Outcome check_split(const Parts& parts, const std::vector<RArr>& want) {
    size_t n = 0; Outcome res = Outcome::ok(true, 0); bool bad = false;
    auto one = [&](const auto& p) { if (bad) return; if (n >= want.size()) { res = Outcome::bad("wrong", "more parts than numpy.split"); bad = true; return; } Outcome o = judge(nmc::observe(p), ROpt(want[n]), true); if (!o.fail.empty()) { o.fail = "part " + std::to_string(n) + ": " + o.fail; res = o; bad = true; } res.outcome ^= o.outcome + n; n++; };
    if constexpr (meta::is_tuple_v<Parts>) { meta::template_for<meta::len_v<Parts>>([&](auto i) { one(nm::get<decltype(i)::value>(parts)); }); }
    else { for (size_t i = 0; i < (size_t)nm::len(parts); i++) one(nm::at(parts, i)); }
    if (!bad && n != want.size()) return Outcome::bad("wrong", "split gave " + std::to_string(n) + " parts, numpy gives " + std::to_string(want.size()));
    return res;
}
static std::vector<RArr> np_split(const RArr& a, const L& cuts, long ax) {
    if (ax < 0) ax += a.dim();
    std::vector<RArr> out; L b{0}; for (long c : cuts) b.push_back(c); b.push_back(a.shape[(size_t)ax]);
    for (size_t k = 0; k + 1 < b.size(); k++) { L rs = a.shape; rs[(size_t)ax] = b[k + 1] - b[k]; long lo = b[k]; out.push_back(ref::gather(a, rs, [&](const L& i) { L s(i); s[(size_t)ax] += lo; return s; })); }
    return out;
}

Outcome nmc_execute(const Case& c) {
    { Outcome o; if (execute_optional(c, o)) return o; }
    const std::string& op = c.op;
    if (op == "arange" || op == "arange_stop" || op == "arange2" || op == "arange_real") {
        double start = 0, stop = 0, step = 1; double u = op == "arange_real" ? 0.25 : 1.0;
        if (op == "arange_stop") stop = (double)c.a[0][0]; else if (op == "arange2") { start = (double)c.a[0][0]; stop = (double)c.a[0][1]; } else { start = c.a[0][0] * u; stop = c.a[0][1] * u; step = c.a[0][2] * u; }
        long len = (long)std::ceil((stop - start) / step);
        if (len <= 0) {   // NumPy gives an empty array; nmtools has no empty arrays: only "must not produce elements" can be asked
            return Outcome::ok(false, 3);
        }
        RArr w(L{len}); for (long i = 0; i < len; i++) w.data[(size_t)i] = start + i * step;
        if (op == "arange_stop") { int s = (int)stop; return both(view::arange(s, nm::int64), na::arange(s, nm::int64), ROpt(w), true); }
        if (op == "arange2") { int a = (int)start, b = (int)stop; return both(view::arange(a, b, nm::int64), na::arange(a, b, nm::int64), ROpt(w), true); }
        if (op == "arange") { int a = (int)start, b = (int)stop, s = (int)step; return both(view::arange(a, b, s, nm::int64), na::arange(a, b, s, nm::int64), ROpt(w), true); }
        nmc::die("arange_real unsupported");
    }
    if (op == "linspace") {
        double start = c.a[0][0] * 0.5, stop = c.a[0][1] * 0.5; long num = c.a[0][2]; bool ep = c.a[0][3] != 0;
        RArr w(L{num}); double div = ep ? (double)(num - 1) : (double)num; double step = div > 0 ? (stop - start) / div : 0;
        for (long i = 0; i < num; i++) w.data[(size_t)i] = start + i * step;
        if (ep && num > 1) w.data[(size_t)num - 1] = stop;
        if (ep) return both(view::linspace(start, stop, (size_t)num, nm::True), na::linspace(start, stop, (size_t)num, nm::True), ROpt(w), true, 1e-12);
        return both(view::linspace(start, stop, (size_t)num, nm::False), na::linspace(start, stop, (size_t)num, nm::False), ROpt(w), true, 1e-12);
    }
    if (op == "identity") { int n = (int)c.a[0][0]; return both(view::identity(n, nm::int64), na::identity(n, nm::int64), ROpt(ref::eye(n, n, 0)), true); }
    if (op == "eye") { int n = (int)c.a[0][0], m = (int)c.a[0][1], k = (int)c.a[0][2]; return both(view::eye(n, m, k, nm::int64), na::eye(n, m, k, nm::int64), ROpt(ref::eye(n, m, k)), true); }
    if (op == "tri") { int n = (int)c.a[0][0], m = (int)c.a[0][1], k = (int)c.a[0][2]; return both(view::tri(n, m, k, nm::int64), na::tri(n, m, k, nm::int64), ROpt(ref::tri(n, m, k)), true); }
    if (op == "eye_n") { int n = (int)c.a[0][0], k = (int)c.a[0][1]; return both(view::eye(n, nm::None, k, nm::int64), na::eye(n, nm::None, k, nm::int64), ROpt(ref::eye(n, n, k)), true); }
    if (op == "tri_n") { int n = (int)c.a[0][0], k = (int)c.a[0][1]; return both(view::tri(n, nm::None, k, nm::int64), na::tri(n, nm::None, k, nm::int64), ROpt(ref::tri(n, n, k)), true); }
    if (op == "where") {
        RArr rc(c.a[0]); for (size_t i = 0; i < rc.data.size(); i++) rc.data[i] = (double)((i * 7 + 3) % 3 != 0);
        RArr rx = RArr::iota(c.a[1], 10), ry = RArr::iota(c.a[2], 100);
        auto bs = ref::broadcast_shapes({c.a[0], c.a[1], c.a[2]});
        RArr bc = *ref::broadcast_to(rc, *bs), bx = *ref::broadcast_to(rx, *bs), by = *ref::broadcast_to(ry, *bs);
        RArr w(*bs); for (size_t i = 0; i < w.data.size(); i++) w.data[i] = bc.data[i] != 0 ? bx.data[i] : by.data[i];
        auto cond = make_arr<long>(rc); auto x = make_arr<long>(rx); auto y = make_arr<long>(ry);
        return both(view::where(cond, x, y), na::where(cond, x, y), ROpt(w), true);
    }
    const L& s = c.a[0]; RArr r = RArr::iota(s); auto a = make_arr<long>(s);
    if (op == "split_sections") {
        long k = c.a[1][0], ax = c.a[2][0]; long n = s[(size_t)(ax < 0 ? ax + (long)s.size() : ax)]; L cuts; for (long i = 1; i < k; i++) cuts.push_back(i * (n / k));
        auto want = np_split(r, cuts, ax);
        const auto parts = view::split(a, (int)k, (int)ax);
        return check_split(parts, want);
    }
    if (op == "split_indices") { long ax = c.a[2][0]; auto want = np_split(r, c.a[1], ax); auto cuts = to_il(c.a[1]); const auto parts = view::split(a, cuts, (int)ax); return check_split(parts, want); }
    if (op == "sliding1") { int w = (int)c.a[1][0], ax = (int)c.a[2][0]; ROpt want = ref::sliding_window(r, c.a[1], &c.a[2]); return both(view::sliding_window(a, w, ax), na::sliding_window(a, w, ax), want, true); }
    if (op == "sliding") { auto w = to_il(c.a[1]), ax = to_il(c.a[2]); ROpt want = ref::sliding_window(r, c.a[1], &c.a[2]); return both(view::sliding_window(a, w, ax), na::sliding_window(a, w, ax), want, true); }
    if (op == "sliding_all") { auto w = to_il(c.a[1]); ROpt want = ref::sliding_window(r, c.a[1], nullptr); return both(view::sliding_window(a, w), na::sliding_window(a, w), want, true); }
    if (op == "diagonal") {
        int off = (int)c.a[1][0], a1 = (int)c.a[2][0], a2 = (int)c.a[3][0]; ROpt want = ref::diagonal(r, off, a1, a2);
        if (!want) return Outcome::ok(false, 5);   // empty diagonal: outside nmtools' domain
        return both(view::diagonal(a, off, a1, a2), na::diagonal(a, off, a1, a2), want, true);
    }
    if (op == "diagflat") { int k = (int)c.a[1][0]; return both(view::diagflat(a, k), na::diagflat(a, k), ref::diagflat(r, k), true); }
    if (op == "tril") { int k = (int)c.a[1][0]; return both(view::tril(a, k), na::tril(a, k), ref::tril(r, k, false), true); }
    if (op == "triu") { int k = (int)c.a[1][0]; return both(view::triu(a, k), na::triu(a, k), ref::tril(r, k, true), true); }
    if (op == "resize") { auto d = to_il(c.a[1]); return both(view::resize(a, d), na::resize(a, d), ref_resize(r, c.a[1]), c.a[1] != s); }
    if (op == "expand1") { int ax = (int)c.a[1][0], sp = (int)c.a[2][0]; return both(view::expand(a, ax, sp, (long)-7), na::expand(a, ax, sp, (long)-7), ref_expand(r, c.a[1], c.a[2], -7), true); }
    if (op == "expand") { auto ax = to_il(c.a[1]), sp = to_il(c.a[2]); return both(view::expand(a, ax, sp, (long)-7), na::expand(a, ax, sp, (long)-7), ref_expand(r, c.a[1], c.a[2], -7), true); }
    auto shp = to_sl(s);
    auto filled = [&](double v) { RArr w(s); for (auto& x : w.data) x = v; return ROpt(w); };
    if (op == "full") return both(view::full(shp, (long)9), na::full(shp, (long)9), filled(9), true);
    if (op == "zeros") return both(view::zeros(shp, nm::int64), na::zeros(shp, nm::int64), filled(0), true);
    if (op == "ones") return both(view::ones(shp, nm::int64), na::ones(shp, nm::int64), filled(1), true);
    if (op == "full_like") return both(view::full_like(a, (long)9), na::full_like(a, (long)9), filled(9), true);
    if (op == "zeros_like") return both(view::zeros_like(a), na::zeros_like(a), filled(0), true);
    if (op == "ones_like") return both(view::ones_like(a), na::ones_like(a), filled(1), true);
    nmc::die("unknown op");
}

void nmc_selftest() {
    RArr r = RArr::iota(L{3, 3});
    ROpt d = ref::diagonal(r, 1, 0, 1); if (!d || d->shape != L{2} || d->data[0] != 2 || d->data[1] != 6) nmc::die("selftest: diagonal model");
    ROpt t = ref::tril(r, 0, false); if (!t || t->data[1] != 0 || t->data[3] != 4) nmc::die("selftest: tril model");
    ROpt w = ref_resize(RArr::iota(L{4}), L{2}); if (!w || w->data[0] != 1 || w->data[1] != 3) nmc::die("selftest: resize model");
    ROpt e = ref_expand(RArr::iota(L{3}), L{0}, L{1}, 0); if (!e || e->shape != L{5} || e->data[1] != 0 || e->data[2] != 2) nmc::die("selftest: expand model");
    Obs wrong = t->obs(); wrong.data[1] = 2;
    if (nmc::diff(wrong, t).empty()) nmc::die("selftest: oracle blind to unmasked tril element");
}

// =====================================================================================================================
// Optional-parameter audit.  The cases above always pass every argument explicitly (and an int64 dtype); the ops below call
// the OPTIONAL parameters / overloads / argument kinds that were never exercised:
//   linspace : retstep = True (tuple (array, step): both checked), dtype set, num / endpoint omitted, run-time bool endpoint,
//              integer start/stop (documented element type: float32), compile-time num;
//   arange   : dtype omitted (documented default float32), explicit float64, fractional step;
//   eye / tri / identity : k, M and dtype omitted (default float32); zeros / ones / full with a float dtype, ones(shape) default;
//   full_like / zeros_like / ones_like : dtype different from the source's element type (and a fractional fill without dtype);
//   diagonal : diagonal(a), diagonal(a, offset), offset/axes as compile-time constants on dynamic and on fixed-shape sources;
//   sliding_window : scalar window with axis omitted (1-d: the only rank NumPy accepts), scalar / tuple-of-constants windows;
//   expand   : list axis with scalar spacing, defaults of spacing and fill;   where : scalar x and/or y (NumPy broadcasts them);
//   tril / triu / diagflat with k omitted;   split : the eager na::split, sections / indices / axis as compile-time constants.
// Oracle: the same NumPy-definition models as above; when a parameter is a dtype (or a default dtype is documented) the element
// TYPE reported by meta::get_element_type_t of the view and of the evaluated array is compared too (failure kind "dtype").
// Non-triviality: as above (generators and splits always count; an empty NumPy result is outside nmtools' domain -> trivial).
// Compile-time-constant arguments cannot be enumerated at run time: those ops run over a fixed table of instantiations
// (the key names the table entry; an entry missing from the table is a harness error).
#include <type_traits>

namespace opt {
template <typename T> static const char* tname() {
    if constexpr (std::is_same_v<T, float>) return "float32"; else if constexpr (std::is_same_v<T, double>) return "float64";
    else if constexpr (std::is_same_v<T, int>) return "int32"; else if constexpr (std::is_same_v<T, long>) return "int64";
    else if constexpr (std::is_same_v<T, unsigned long>) return "uint64"; else return "another type";
}
// declared element type of a view / array (through maybe)
template <typename Want, typename V> static std::string elem_type_diff(const V& v, const char* which) {
    if constexpr (meta::is_maybe_v<V>) { if (!nm::has_value(v)) return ""; return elem_type_diff<Want>(*v, which); }
    else {
        using E = meta::get_element_type_t<meta::remove_cvref_t<V>>;
        if constexpr (std::is_same_v<E, Want>) return "";
        else return std::string(which) + ": element type is " + tname<E>() + ", expected " + tname<Want>();
    }
}
template <typename Want, typename V, typename A> static Outcome both_t(const V& lazy, const A& eager, const ROpt& want, bool nontriv, double rtol = 0) {
    Outcome o = both(lazy, eager, want, nontriv, rtol);
    if (!o.fail.empty()) return o;
    std::string d = elem_type_diff<Want>(lazy, "view"); if (d.empty()) d = elem_type_diff<Want>(eager, "array");
    if (!d.empty()) return Outcome::bad("dtype", d, nontriv, o.outcome);
    return o;
}
// numpy.linspace (function_base.py): y = arange(num) * step + start, last sample forced to stop; step = nan when the divisor is 0
static RArr np_linspace(double start, double stop, long num, bool ep, double* step_out = nullptr) {
    RArr w(L{num}); double div = ep ? (double)(num - 1) : (double)num; double step = div > 0 ? (stop - start) / div : std::nan("");
    for (long i = 0; i < num; i++) w.data[(size_t)i] = div > 0 ? start + (double)i * step : start;
    if (ep && num > 1) w.data[(size_t)num - 1] = stop;
    if (step_out) *step_out = step;
    return w;
}
// ndarray.astype(T); numpy.linspace floors before converting to an integer dtype
template <typename T> static RArr astype(RArr w, bool floor_first = false) {
    for (auto& x : w.data) { if constexpr (std::is_integral_v<T>) x = (double)(T)(floor_first ? std::floor(x) : x); else x = (double)(T)x; }
    return w;
}
template <typename T> constexpr double rtol_of() { return std::is_same_v<T, float> ? 1e-6 : (std::is_same_v<T, double> ? 1e-12 : 0.0); }
// dtype menu: 0 float32, 1 float64, 2 int32, 3 int64
template <typename F> static Outcome with_dtype(long code, F&& f) {
    switch (code) { case 0: return f(nm::float32); case 1: return f(nm::float64); case 2: return f(nm::int32); case 3: return f(nm::int64); }
    nmc::die("dtype code");
}
template <typename F> static Outcome with_float_dtype(long code, F&& f) { if (code == 0) return f(nm::float32); if (code == 1) return f(nm::float64); nmc::die("float dtype code"); }
template <typename D> using dt_elem = nm::get_dtype_t<meta::remove_cvref_t<D>>;
// compile-time constants spelled like the upstream tests: N_ct is a size_t constant, negative ones are int constants
template <long V> constexpr auto ctc() { if constexpr (V >= 0) return meta::ct_v<(size_t)V>; else return meta::ct_v<(int)V>; }
template <long... V> constexpr auto ctt() { return nmtools_tuple{ctc<V>()...}; }
template <int R> using rank_c = std::integral_constant<int, R>;
// fixed-shape sources (compile-time-constant shape): long[6], long[2][3], long[2][3][4], elements 1, 2, ...
struct Fixed {
    long f6[6]; long f23[2][3]; long f234[2][3][4];
    Fixed() { for (long i = 0; i < 6; i++) { f6[i] = i + 1; (&f23[0][0])[i] = i + 1; } for (long i = 0; i < 24; i++) (&f234[0][0][0])[i] = i + 1; }
    static L shape_of(int rank) { return rank == 1 ? L{6} : rank == 2 ? L{2, 3} : L{2, 3, 4}; }
};
static void each_small_shape(const nmc::Tier& t, int dmax_quick, int dmax_thorough, const std::function<void(const L&)>& f) {
    nmc::each_shape_range(1, t.thorough() ? dmax_thorough : dmax_quick, t.thorough() ? 4 : 3, f);
}

// ---- tables of compile-time argument combinations (offset, axis1, axis2) / (window, axis) / (sections, axis)
#define OPT_DIAG2(X) X(0, 0, 1) X(1, 0, 1) X(-1, 0, 1) X(2, 0, 1) X(1, 1, 0) X(-1, -1, -2) X(0, -2, -1)
#define OPT_DIAG3(X) X(0, 0, 2) X(1, 0, 2) X(-1, 2, 0) X(0, 1, 2) X(1, 2, 1) X(-1, -3, -1)
struct SwEntry { int rank_lo, rank_hi; L w; L ax; bool has_ax; };
static const std::vector<SwEntry>& sw_scalar_table() {   // scalar constant window; axis omitted (rank 1 only) or a scalar constant
    static const std::vector<SwEntry> T = {{1, 1, {2}, {}, false}, {1, 1, {3}, {}, false}, {1, 3, {2}, {-1}, true}, {1, 3, {2}, {0}, true}, {2, 3, {3}, {1}, true}};
    return T;
}
static const std::vector<SwEntry>& sw_tuple_table() {    // tuple-of-constants window; axis omitted (window rank = source rank) or a tuple of constants
    static const std::vector<SwEntry> T = {{1, 1, {2}, {}, false}, {2, 2, {2, 2}, {}, false}, {2, 2, {1, 3}, {}, false}, {3, 3, {2, 1, 2}, {}, false},
        {2, 3, {2, 2}, {1, 0}, true}, {2, 3, {2, 2}, {-1, -2}, true}, {1, 3, {2}, {-1}, true}, {2, 3, {1, 2}, {0, 0}, true}};
    return T;
}
struct SplitEntry { int rank; L k; long ax; };
static const std::vector<SplitEntry>& split_fixed_sections() { static const std::vector<SplitEntry> T = {{2, {3}, 1}, {2, {1}, 0}, {2, {2}, -2}, {2, {3}, -1}, {3, {2}, 2}, {3, {3}, -2}, {3, {2}, 0}, {1, {3}, 0}}; return T; }
static const std::vector<SplitEntry>& split_fixed_indices() { static const std::vector<SplitEntry> T = {{2, {1, 2}, 1}, {2, {1}, 0}, {3, {1, 3}, -1}, {1, {2, 5}, 0}}; return T; }
} // namespace opt

static void enumerate_optional(const nmc::Tier& t, const nmc::Sink& emit) {
    using namespace opt;
    const bool th = t.thorough();
    // ---- linspace (halves): sub-grid of the grid above
    L grid = th ? L{-4, -3, -2, -1, 0, 1, 2, 3, 4} : L{-3, -1, 0, 2, 4};
    for (long a : grid) for (long b : grid) {
        emit(Case("linspace_default", {{a, b}}));                                                        // num, endpoint omitted: 50 points
        for (long num = 1; num <= 6; num++) {
            emit(Case("linspace_num", {{a, b, num}}));                                                   // endpoint omitted
            for (long ep = 0; ep <= 1; ep++) {
                emit(Case("linspace_retstep", {{a, b, num, ep}}));
                emit(Case("linspace_rtbool", {{a, b, num, ep}}));                                        // endpoint as a run-time bool
                emit(Case("linspace_int", {{a, b, num, ep}}));                                           // integer start / stop, int num
                if (th || num != 4) for (long dt = 0; dt <= 2; dt++) emit(Case("linspace_dtype", {{a, b, num, ep}, {dt}}));  // float32 / float64 / int32
                if (th || num != 5) for (long dt = 0; dt <= 1; dt++) emit(Case("linspace_int_dtype", {{a, b, num, ep}, {dt}}));
                if (num == 1 || num == 2 || num == 5) emit(Case("linspace_numct", {{a, b, num, ep}}));    // compile-time num
            }
        }
    }
    // ---- arange: dtype omitted, float64, fractional step (quarters)
    { long lo = th ? -4 : -2, hi = th ? 6 : 4;
      for (long a = lo; a <= hi; a++) for (long b = lo; b <= hi; b++) {
          for (long s : {1L, 2L, -1L, -2L}) { emit(Case("arange_default", {{a, b, s}})); emit(Case("arange_f64", {{a, b, s}})); }
          if (b > a) emit(Case("arange2_default", {{a, b}}));
          for (long q : {1L, 2L, 3L, 5L, 6L, -1L, -3L, -5L}) if (th || (q != 2 && q != 5 && q != -3)) for (long dt = 0; dt <= 2; dt++) emit(Case("arange_frac", {{a, b, q}, {dt}}));   // dt 2 = omitted
      }
      for (long b = 1; b <= 6; b++) emit(Case("arange1_default", {{b}})); }
    // ---- eye / tri / identity with k, M, dtype omitted
    for (long N = 1; N <= 4; N++) {
        emit(Case("eye_default", {{N}})); emit(Case("tri_default", {{N}})); emit(Case("identity_default", {{N}}));
        for (long M = 1; M <= 4; M++) { emit(Case("eye_nm_default", {{N, M}})); emit(Case("tri_nm_default", {{N, M}})); for (long k = -4; k <= 4; k++) { emit(Case("eye_k_default", {{N, M, k}})); emit(Case("tri_k_default", {{N, M, k}})); } }
    }
    // ---- zeros / ones / full with a float dtype; *_like with a dtype other than the source's
    each_small_shape(t, 3, 4, [&](const L& s) {
        emit(Case("ones_default", {s}));
        for (long dt = 0; dt <= 1; dt++) { emit(Case("zeros_dtype", {s, {dt}})); emit(Case("ones_dtype", {s, {dt}})); emit(Case("full_float", {s, {dt}})); }
    });
    each_small_shape(t, 2, 4, [&](const L& s) {
        for (long src = 0; src <= 1; src++) {
            emit(Case("full_like_frac", {s, {src}}));
            for (long dt = 0; dt <= 3; dt++) { emit(Case("full_like_dtype", {s, {src}, {dt}})); emit(Case("zeros_like_dtype", {s, {src}, {dt}})); emit(Case("ones_like_dtype", {s, {src}, {dt}})); }
        }
    });
    // ---- diagonal: defaults, offset only, compile-time constants
    each_small_shape(t, 4, 4, [&](const L& s) {
        long d = (long)s.size(); if (d < 2) return;
        emit(Case("diagonal_default", {s}));
        long n = std::max(s[0], s[1]); if (th || d <= 3) for (long off = -n; off <= n; off++) emit(Case("diagonal_offset", {s, {off}}));
        RArr r = RArr::iota(s);
#define X(O, A, B) if (ref::diagonal(r, O, A, B)) emit(Case("diagonal_ct", {s, {O}, {A}, {B}, {0}}));
        if (d == 2) { OPT_DIAG2(X) } if (d == 3) { OPT_DIAG3(X) }
#undef X
    });
    {
#define X(O, A, B) emit(Case("diagonal_ct", {Fixed::shape_of(2), {O}, {A}, {B}, {1}}));
        OPT_DIAG2(X)
#undef X
#define X(O, A, B) emit(Case("diagonal_ct", {Fixed::shape_of(3), {O}, {A}, {B}, {1}}));
        OPT_DIAG3(X)
#undef X
    }
    // ---- sliding_window: scalar window without axis (rank 1), constant windows
    for (long n = 1; n <= (th ? 6 : 4); n++) for (long w = 1; w <= n; w++) emit(Case("sliding_scalar", {{n}, {w}}));
    auto sw_emit = [&](const char* op, const std::vector<SwEntry>& T) {
        for (auto& e : T) {
            each_small_shape(t, 3, 3, [&](const L& s) { int d = (int)s.size(); if (d < e.rank_lo || d > e.rank_hi) return; if (ref::sliding_window(RArr::iota(s), e.w, e.has_ax ? &e.ax : nullptr)) emit(Case(op, {s, e.w, e.ax, {0}})); });
            for (int rk = e.rank_lo; rk <= e.rank_hi; rk++) { if (!ref::sliding_window(RArr::iota(Fixed::shape_of(rk)), e.w, e.has_ax ? &e.ax : nullptr)) nmc::die("sliding table entry invalid for the fixed-shape source"); emit(Case(op, {Fixed::shape_of(rk), e.w, e.ax, {1}})); }
        }
    };
    sw_emit("sliding_ctscalar", sw_scalar_table()); sw_emit("sliding_cttuple", sw_tuple_table());
    // ---- expand: list axis + scalar spacing; defaults of spacing / fill
    each_small_shape(t, 3, 4, [&](const L& s) {
        long d = (long)s.size();
        for (long a = -d; a < d; a++) { emit(Case("expand_default", {s, {a}})); for (long sp = 1; sp <= 2; sp++) emit(Case("expand_spacing", {s, {a}, {sp}})); if (a < 0) emit(Case("expand_list", {s, {a}, {2}})); }
        nmc::each_subset((int)d, [&](const L& ax) { if (ax.empty() || ax.size() > 3) return; emit(Case("expand_list_default", {s, ax})); for (long sp = 1; sp <= 2; sp++) emit(Case("expand_list", {s, ax, {sp}})); });
    });
    // ---- where with scalar x / y
    {
        std::vector<L> W; nmc::each_shape_range(1, 3, th ? 3 : 2, [&](const L& s) { W.push_back(s); });
        for (auto& c : W) { emit(Case("where_scalar_xy", {c})); for (auto& o : W) if (ref::broadcast_shapes({c, o})) { emit(Case("where_scalar_x", {c, o})); emit(Case("where_scalar_y", {c, o})); emit(Case("where_scalar_yf", {c, o})); } }
    }
    // ---- tril / triu / diagflat with k omitted
    each_small_shape(t, 4, 4, [&](const L& s) { emit(Case("tril_default", {s})); emit(Case("triu_default", {s})); if (s.size() <= 2) emit(Case("diagflat_default", {s})); });
    // ---- split: eager form (same menu as the view form above, rank <= 3 in the quick tier), constants
    each_small_shape(t, 3, 4, [&](const L& s) {
        long d = (long)s.size();
        for (long a = -d; a < d; a++) {
            long n = s[(size_t)(a < 0 ? a + d : a)];
            for (long k = 1; k <= n; k++) if (n % k == 0) { emit(Case("split_sections_eager", {s, {k}, {a}})); if (k <= 3 && d <= 3) emit(Case("split_ct", {s, {k}, {a}, {0}})); }
            if (a >= 0 || a == -1) nmc::each_subset((int)n - 1, [&](const L& cut) { if (cut.empty()) return; L c(cut); for (auto& v : c) v += 1; emit(Case("split_indices_eager", {s, c, {a}})); });
            if (d <= 3 && n >= 2) emit(Case("split_ct_indices", {s, {1}, {a}, {0}}));
            if (d <= 3 && n >= 3) emit(Case("split_ct_indices", {s, {1, 2}, {a}, {0}}));
        }
    });
    for (auto& e : split_fixed_sections()) emit(Case("split_ct", {Fixed::shape_of(e.rank), e.k, {e.ax}, {1}}));
    for (auto& e : split_fixed_indices()) emit(Case("split_ct_indices", {Fixed::shape_of(e.rank), e.k, {e.ax}, {1}}));
}

namespace opt {
// one (offset, axis1, axis2) instantiation of diagonal with constants
template <long O, long A, long B, typename Arr> static Outcome diag_ct(const Arr& a, const RArr& r) {
    ROpt want = ref::diagonal(r, O, A, B); if (!want) return Outcome::ok(false, 5);
    return both(view::diagonal(a, ctc<O>(), ctc<A>(), ctc<B>()), na::diagonal(a, ctc<O>(), ctc<A>(), ctc<B>()), want, true);
}
template <typename Arr, typename W, typename AX> static Outcome sw_run(const Arr& a, const RArr& r, const W& w, const AX& ax, const L& wl, const L& axl) {
    if constexpr (nm::is_none_v<AX>) { ROpt want = ref::sliding_window(r, wl, nullptr); return both(view::sliding_window(a, w), na::sliding_window(a, w), want, true); }
    else { ROpt want = ref::sliding_window(r, wl, &axl); return both(view::sliding_window(a, w, ax), na::sliding_window(a, w, ax), want, true); }
}
template <typename Arr, typename K, typename AX> static Outcome split_run(const Arr& a, const RArr& r, const K& k, const AX& ax, const L& cuts, long axl) {
    auto want = np_split(r, cuts, axl);
    const auto lazy = view::split(a, k, ax); Outcome o = check_split(lazy, want); if (!o.fail.empty()) { o.fail = "view: " + o.fail; return o; }
    const auto eager = na::split(a, k, ax); Outcome e = check_split(eager, want); if (!e.fail.empty()) { e.fail = "array: " + e.fail; return e; }
    return o;
}
static L section_cuts(long n, long k) { L cuts; for (long i = 1; i < k; i++) cuts.push_back(i * (n / k)); return cuts; }
} // namespace opt

static bool execute_optional(const Case& c, Outcome& out) {
    using namespace opt;
    const std::string& op = c.op;
    auto is = [&](const char* n) { return op == n; };
    // ------------------------------------------------------------------------------------------------ linspace
    if (op.rfind("linspace_", 0) == 0) {
        double start = c.a[0][0] * 0.5, stop = c.a[0][1] * 0.5; long num = c.a[0].size() > 2 ? c.a[0][2] : 50; bool ep = c.a[0].size() > 3 ? c.a[0][3] != 0 : true;
        size_t n = (size_t)num;
        auto by_ep = [&](auto&& f) { return ep ? f(nm::True) : f(nm::False); };
        if (is("linspace_default")) { out = both_t<double>(view::linspace(start, stop), na::linspace(start, stop), ROpt(np_linspace(start, stop, 50, true)), true, 1e-12); return true; }
        if (is("linspace_num")) { out = both_t<double>(view::linspace(start, stop, n), na::linspace(start, stop, n), ROpt(np_linspace(start, stop, num, true)), true, 1e-12); return true; }
        if (is("linspace_rtbool")) { out = both_t<double>(view::linspace(start, stop, n, ep), na::linspace(start, stop, n, ep), ROpt(np_linspace(start, stop, num, ep)), true, 1e-12); return true; }
        if (is("linspace_retstep")) {
            double step = 0; RArr w = np_linspace(start, stop, num, ep, &step);
            out = by_ep([&](auto e) {
                const auto lv = view::linspace(start, stop, n, e, nm::True); const auto ea = na::linspace(start, stop, n, e, nm::True);
                Outcome o = both_t<double>(nm::get<0>(lv), nm::get<0>(ea), ROpt(w), true, 1e-12); if (!o.fail.empty()) return o;
                // the returned step (NumPy returns nan when the divisor is 0, i.e. num = 1 with endpoint: "irrelevant", not compared)
                if (!std::isnan(step)) for (double got : {(double)nm::get<1>(lv), (double)nm::get<1>(ea)}) if (std::fabs(got - step) > 1e-12 * (1 + std::fabs(step))) {
                    char b[120]; snprintf(b, sizeof b, "returned step = %.17g expected %.17g", got, step); return Outcome::bad("wrong", b, true, o.outcome); }
                return o; });
            return true;
        }
        if (is("linspace_numct")) {
            RArr w = np_linspace(start, stop, num, ep);
            auto run = [&](auto nc) { return by_ep([&](auto e) { return both_t<double>(view::linspace(start, stop, nc, e), na::linspace(start, stop, nc, e), ROpt(w), true, 1e-12); }); };
            out = num == 1 ? run(ctc<1>()) : num == 2 ? run(ctc<2>()) : num == 5 ? run(ctc<5>()) : (nmc::die("linspace_numct: num not in the table"), Outcome());
            return true;
        }
        if (is("linspace_dtype")) {   // float start/stop, explicit dtype: NumPy computes in double, then astype (integers: floor first)
            RArr w = np_linspace(start, stop, num, ep);
            out = with_dtype(c.a[1][0], [&](auto dt) { using T = dt_elem<decltype(dt)>;
                return by_ep([&](auto e) { return both_t<T>(view::linspace(start, stop, n, e, nm::False, dt), na::linspace(start, stop, n, e, nm::False, dt), ROpt(astype<T>(w, true)), true, rtol_of<T>()); }); });
            return true;
        }
        // integer start / stop (whole numbers, not halves), int num.  Documented element type without dtype: float32.
        int is_ = (int)c.a[0][0], ie_ = (int)c.a[0][1]; int in = (int)num; RArr w = np_linspace(is_, ie_, num, ep);
        if (is("linspace_int")) { out = by_ep([&](auto e) { return both_t<float>(view::linspace(is_, ie_, in, e), na::linspace(is_, ie_, in, e), ROpt(astype<float>(w)), true, rtol_of<float>()); }); return true; }
        if (is("linspace_int_dtype")) {
            out = with_float_dtype(c.a[1][0], [&](auto dt) { using T = dt_elem<decltype(dt)>;
                return by_ep([&](auto e) { return both_t<T>(view::linspace(is_, ie_, in, e, nm::False, dt), na::linspace(is_, ie_, in, e, nm::False, dt), ROpt(astype<T>(w)), true, rtol_of<T>()); }); });
            return true;
        }
        nmc::die("unknown linspace op");
    }
    // ------------------------------------------------------------------------------------------------ arange
    if (is("arange_default") || is("arange_f64") || is("arange2_default") || is("arange1_default") || is("arange_frac")) {
        double start = 0, stop = 0, step = 1;
        if (is("arange1_default")) stop = (double)c.a[0][0]; else { start = (double)c.a[0][0]; stop = (double)c.a[0][1]; if (c.a[0].size() > 2) step = (double)c.a[0][2] * (is("arange_frac") ? 0.25 : 1.0); }
        long len = (long)std::ceil((stop - start) / step);
        if (len <= 0) { out = Outcome::ok(false, 3); return true; }      // empty in NumPy: outside nmtools' domain
        RArr w(L{len}); for (long i = 0; i < len; i++) w.data[(size_t)i] = start + (double)i * step;   // (all values are multiples of 1/4: exact in float32)
        int a = (int)start, b = (int)stop, s = (int)step;
        if (is("arange_default")) out = both_t<float>(view::arange(a, b, s), na::arange(a, b, s), ROpt(w), true);
        else if (is("arange_f64")) out = both_t<double>(view::arange(a, b, s, nm::float64), na::arange(a, b, s, nm::float64), ROpt(w), true);
        else if (is("arange2_default")) out = both_t<float>(view::arange(a, b), na::arange(a, b), ROpt(w), true);
        else if (is("arange1_default")) out = both_t<float>(view::arange(b), na::arange(b), ROpt(w), true);
        else { long dt = c.a[1][0];
            if (dt == 0) out = both_t<float>(view::arange(a, b, step, nm::float32), na::arange(a, b, step, nm::float32), ROpt(w), true);
            else if (dt == 1) out = both_t<double>(view::arange(a, b, step, nm::float64), na::arange(a, b, step, nm::float64), ROpt(w), true);
            else out = both_t<float>(view::arange(a, b, step), na::arange(a, b, step), ROpt(w), true); }
        return true;
    }
    // ------------------------------------------------------------------------------------------------ eye / tri / identity defaults
    if (is("eye_default")) { int n = (int)c.a[0][0]; out = both_t<float>(view::eye(n), na::eye(n), ROpt(ref::eye(n, n, 0)), true); return true; }
    if (is("tri_default")) { int n = (int)c.a[0][0]; out = both_t<float>(view::tri(n), na::tri(n), ROpt(ref::tri(n, n, 0)), true); return true; }
    if (is("identity_default")) { int n = (int)c.a[0][0]; out = both_t<float>(view::identity(n), na::identity(n), ROpt(ref::eye(n, n, 0)), true); return true; }
    if (is("eye_nm_default")) { int n = (int)c.a[0][0], m = (int)c.a[0][1]; out = both_t<float>(view::eye(n, m), na::eye(n, m), ROpt(ref::eye(n, m, 0)), true); return true; }
    if (is("tri_nm_default")) { int n = (int)c.a[0][0], m = (int)c.a[0][1]; out = both_t<float>(view::tri(n, m), na::tri(n, m), ROpt(ref::tri(n, m, 0)), true); return true; }
    if (is("eye_k_default")) { int n = (int)c.a[0][0], m = (int)c.a[0][1], k = (int)c.a[0][2]; out = both_t<float>(view::eye(n, m, k), na::eye(n, m, k), ROpt(ref::eye(n, m, k)), true); return true; }
    if (is("tri_k_default")) { int n = (int)c.a[0][0], m = (int)c.a[0][1], k = (int)c.a[0][2]; out = both_t<float>(view::tri(n, m, k), na::tri(n, m, k), ROpt(ref::tri(n, m, k)), true); return true; }
    // ------------------------------------------------------------------------------------------------ where with scalars
    if (op.rfind("where_scalar_", 0) == 0) {
        RArr rc(c.a[0]); for (size_t i = 0; i < rc.data.size(); i++) rc.data[i] = (double)((i * 7 + 3) % 3 != 0);
        L os = c.a.size() > 1 ? c.a[1] : L{}; RArr ro = RArr::iota(os.empty() ? L{1} : os, 10);
        auto bs = c.a.size() > 1 ? ref::broadcast_shapes({c.a[0], os}) : std::optional<L>(c.a[0]);
        RArr bc = *ref::broadcast_to(rc, *bs), bo = c.a.size() > 1 ? *ref::broadcast_to(ro, *bs) : RArr(*bs);
        const double sx = 7, sy = -5, syf = -2.5;
        RArr w(*bs);
        for (size_t i = 0; i < w.data.size(); i++) {
            bool t_ = bc.data[i] != 0;
            if (is("where_scalar_xy")) w.data[i] = t_ ? sx : sy; else if (is("where_scalar_x")) w.data[i] = t_ ? sx : bo.data[i];
            else if (is("where_scalar_y")) w.data[i] = t_ ? bo.data[i] : sy; else w.data[i] = t_ ? bo.data[i] : syf;
        }
        auto cond = make_arr<long>(rc); auto o = make_arr<long>(ro);
        if (is("where_scalar_xy")) out = both_t<long>(view::where(cond, (long)sx, (long)sy), na::where(cond, (long)sx, (long)sy), ROpt(w), true);
        else if (is("where_scalar_x")) out = both_t<long>(view::where(cond, (long)sx, o), na::where(cond, (long)sx, o), ROpt(w), true);
        else if (is("where_scalar_y")) out = both_t<long>(view::where(cond, o, (long)sy), na::where(cond, o, (long)sy), ROpt(w), true);
        else if (is("where_scalar_yf")) out = both_t<double>(view::where(cond, o, syf), na::where(cond, o, syf), ROpt(w), true);   // NumPy: int64 array with a Python float -> float64
        else nmc::die("unknown where op");
        return true;
    }
    if (is("sliding_scalar")) {   // 1-d source, scalar window, axis omitted (NumPy: window_shape must cover every axis, so rank 1 only)
        const L& s = c.a[0]; RArr r = RArr::iota(s); auto a = make_arr<long>(s); int w = (int)c.a[1][0];
        out = both(view::sliding_window(a, w), na::sliding_window(a, w), ref::sliding_window(r, c.a[1], nullptr), true); return true;
    }
    // ------------------------------------------------------------------------------------------------ ops on a source array
    static const char* const src_ops[] = {"ones_default", "zeros_dtype", "ones_dtype", "full_float", "full_like_frac", "full_like_dtype", "zeros_like_dtype", "ones_like_dtype",
        "diagonal_default", "diagonal_offset", "diagonal_ct", "sliding_ctscalar", "sliding_cttuple", "expand_default", "expand_spacing", "expand_list", "expand_list_default",
        "tril_default", "triu_default", "diagflat_default", "split_sections_eager", "split_indices_eager", "split_ct", "split_ct_indices"};
    bool mine = false; for (auto* n : src_ops) if (op == n) mine = true;
    if (!mine) return false;
    const L& s = c.a[0]; const long d = (long)s.size(); RArr r = RArr::iota(s); auto a = make_arr<long>(s); auto shp = to_sl(s);
    auto filled = [&](double v) { RArr w(s); for (auto& x : w.data) x = v; return w; };
    if (is("ones_default")) { const auto e = na::ones(shp); out = judge(nmc::observe(e), ROpt(filled(1)), true); if (out.fail.empty()) { std::string dd = elem_type_diff<float>(e, "array"); if (!dd.empty()) out = Outcome::bad("dtype", dd, true, out.outcome); } return true; }
    if (is("zeros_dtype")) { out = with_float_dtype(c.a[1][0], [&](auto dt) { return both_t<dt_elem<decltype(dt)>>(view::zeros(shp, dt), na::zeros(shp, dt), ROpt(filled(0)), true); }); return true; }
    if (is("ones_dtype")) { out = with_float_dtype(c.a[1][0], [&](auto dt) { return both_t<dt_elem<decltype(dt)>>(view::ones(shp, dt), na::ones(shp, dt), ROpt(filled(1)), true); }); return true; }
    if (is("full_float")) { out = c.a[1][0] == 0 ? both_t<float>(view::full(shp, 2.5f), na::full(shp, 2.5f), ROpt(filled(2.5)), true) : both_t<double>(view::full(shp, 2.5), na::full(shp, 2.5), ROpt(filled(2.5)), true); return true; }
    if (is("full_like_frac") || is("full_like_dtype") || is("zeros_like_dtype") || is("ones_like_dtype")) {
        auto with_src = [&](auto&& f) { if (c.a[1][0] == 0) return f(a, long{}); auto ad = make_arr<double>(s); return f(ad, double{}); };
        if (is("full_like_frac")) { out = with_src([&](const auto& x, auto tag) { using T = decltype(tag); return both_t<T>(view::full_like(x, 2.5), na::full_like(x, 2.5), ROpt(astype<T>(filled(2.5))), true); }); return true; }
        out = with_src([&](const auto& x, auto) { return with_dtype(c.a[2][0], [&](auto dt) { using T = dt_elem<decltype(dt)>;
            if (is("full_like_dtype")) return both_t<T>(view::full_like(x, 2.5, dt), na::full_like(x, 2.5, dt), ROpt(astype<T>(filled(2.5))), true);
            if (is("zeros_like_dtype")) return both_t<T>(view::zeros_like(x, dt), na::zeros_like(x, dt), ROpt(filled(0)), true);
            return both_t<T>(view::ones_like(x, dt), na::ones_like(x, dt), ROpt(filled(1)), true); }); });
        return true;
    }
    if (is("diagonal_default")) { out = both(view::diagonal(a), na::diagonal(a), ref::diagonal(r, 0, 0, 1), true); return true; }
    if (is("diagonal_offset")) { int off = (int)c.a[1][0]; ROpt want = ref::diagonal(r, off, 0, 1); if (!want) { out = Outcome::ok(false, 5); return true; } out = both(view::diagonal(a, off), na::diagonal(a, off), want, true); return true; }
    static const Fixed fx;
    const long kind = (is("diagonal_ct") || is("sliding_ctscalar") || is("sliding_cttuple") || is("split_ct") || is("split_ct_indices")) ? c.a.back()[0] : 0;
    if (kind == 1 && s != Fixed::shape_of((int)d)) nmc::die("fixed-shape case with a shape that is not in the table");
    if (is("diagonal_ct")) {
        long off = c.a[1][0], a1 = c.a[2][0], a2 = c.a[3][0];
#define X(O, A, B) if (off == O && a1 == A && a2 == B) { out = kind ? diag_ct<O, A, B>(fx.f23, r) : diag_ct<O, A, B>(a, r); return true; }
        if (d == 2) { OPT_DIAG2(X) }
#undef X
#define X(O, A, B) if (off == O && a1 == A && a2 == B) { out = kind ? diag_ct<O, A, B>(fx.f234, r) : diag_ct<O, A, B>(a, r); return true; }
        if (d == 3) { OPT_DIAG3(X) }
#undef X
        nmc::die("diagonal_ct: combination not in the table");
    }
    if (is("sliding_ctscalar") || is("sliding_cttuple")) {
        const L& wl = c.a[1]; const L& axl = c.a[2];
        // R = rank of the source (selects the fixed-shape array); instantiated only for the ranks an entry is meant for
        auto run = [&](auto rank, const auto& w, const auto& ax) -> Outcome {
            constexpr int R = decltype(rank)::value;
            if (d != R) nmc::die("sliding_ct: rank mismatch");
            if (kind == 0) return sw_run(a, r, w, ax, wl, axl);
            if constexpr (R == 1) return sw_run(fx.f6, r, w, ax, wl, axl); else if constexpr (R == 2) return sw_run(fx.f23, r, w, ax, wl, axl); else return sw_run(fx.f234, r, w, ax, wl, axl);
        };
        auto ranks = [&](auto lo, auto hi, const auto& w, const auto& ax) -> Outcome {   // dispatch d in [lo, hi]
            constexpr int LO = decltype(lo)::value, HI = decltype(hi)::value;
            if constexpr (LO <= 1 && 1 <= HI) if (d == 1) return run(rank_c<1>{}, w, ax);
            if constexpr (LO <= 2 && 2 <= HI) if (d == 2) return run(rank_c<2>{}, w, ax);
            if constexpr (LO <= 3 && 3 <= HI) if (d == 3) return run(rank_c<3>{}, w, ax);
            nmc::die("sliding_ct: rank outside the entry's range");
        };
        using R1 = rank_c<1>; using R2 = rank_c<2>; using R3 = rank_c<3>;
        if (is("sliding_ctscalar")) {
            if (wl == L{2} && axl.empty()) { out = ranks(R1{}, R1{}, ctc<2>(), nm::None); return true; }
            if (wl == L{3} && axl.empty()) { out = ranks(R1{}, R1{}, ctc<3>(), nm::None); return true; }
            if (wl == L{2} && axl == L{-1}) { out = ranks(R1{}, R3{}, ctc<2>(), ctc<-1>()); return true; }
            if (wl == L{2} && axl == L{0}) { out = ranks(R1{}, R3{}, ctc<2>(), ctc<0>()); return true; }
            if (wl == L{3} && axl == L{1}) { out = ranks(R2{}, R3{}, ctc<3>(), ctc<1>()); return true; }
        } else {
            if (wl == L{2} && axl.empty()) { out = ranks(R1{}, R1{}, ctt<2>(), nm::None); return true; }
            if (wl == L{2, 2} && axl.empty()) { out = ranks(R2{}, R2{}, ctt<2, 2>(), nm::None); return true; }
            if (wl == L{1, 3} && axl.empty()) { out = ranks(R2{}, R2{}, ctt<1, 3>(), nm::None); return true; }
            if (wl == L{2, 1, 2} && axl.empty()) { out = ranks(R3{}, R3{}, ctt<2, 1, 2>(), nm::None); return true; }
            if (wl == L{2, 2} && axl == L{1, 0}) { out = ranks(R2{}, R3{}, ctt<2, 2>(), ctt<1, 0>()); return true; }
            if (wl == L{2, 2} && axl == L{-1, -2}) { out = ranks(R2{}, R3{}, ctt<2, 2>(), ctt<-1, -2>()); return true; }
            if (wl == L{2} && axl == L{-1}) { out = ranks(R1{}, R3{}, ctt<2>(), ctt<-1>()); return true; }
            if (wl == L{1, 2} && axl == L{0, 0}) { out = ranks(R2{}, R3{}, ctt<1, 2>(), ctt<0, 0>()); return true; }   // repeated axis: NumPy applies the windows one after the other
        }
        nmc::die("sliding_ct: combination not in the table");
    }
    if (is("expand_default")) { int ax = (int)c.a[1][0]; out = both(view::expand(a, ax), na::expand(a, ax), ref_expand(r, c.a[1], L{1}, 0), true); return true; }
    if (is("expand_spacing")) { int ax = (int)c.a[1][0], sp = (int)c.a[2][0]; out = both(view::expand(a, ax, sp), na::expand(a, ax, sp), ref_expand(r, c.a[1], c.a[2], 0), true); return true; }
    if (is("expand_list")) { auto ax = to_il(c.a[1]); int sp = (int)c.a[2][0]; out = both(view::expand(a, ax, sp, (long)-7), na::expand(a, ax, sp, (long)-7), ref_expand(r, c.a[1], L(c.a[1].size(), c.a[2][0]), -7), true); return true; }
    if (is("expand_list_default")) { auto ax = to_il(c.a[1]); out = both(view::expand(a, ax), na::expand(a, ax), ref_expand(r, c.a[1], L(c.a[1].size(), 1), 0), true); return true; }
    if (is("tril_default")) { out = both(view::tril(a), na::tril(a), ref::tril(r, 0, false), true); return true; }
    if (is("triu_default")) { out = both(view::triu(a), na::triu(a), ref::tril(r, 0, true), true); return true; }
    if (is("diagflat_default")) { out = both(view::diagflat(a), na::diagflat(a), ref::diagflat(r, 0), true); return true; }
    if (is("split_sections_eager")) {
        long k = c.a[1][0], ax = c.a[2][0]; long n = s[(size_t)(ax < 0 ? ax + d : ax)];
        const auto parts = na::split(a, (int)k, (int)ax); out = check_split(parts, np_split(r, section_cuts(n, k), ax)); return true;
    }
    if (is("split_indices_eager")) { long ax = c.a[2][0]; auto cuts = to_il(c.a[1]); const auto parts = na::split(a, cuts, (int)ax); out = check_split(parts, np_split(r, c.a[1], ax)); return true; }
    if (is("split_ct") || is("split_ct_indices")) {
        const L& kl = c.a[1]; long ax = c.a[2][0]; long n = s[(size_t)(ax < 0 ? ax + d : ax)];
        L cuts = is("split_ct") ? section_cuts(n, kl[0]) : kl;
        if (kind == 0) {   // dynamic source, constant sections / indices, run-time axis
            int rax = (int)ax;
            if (is("split_ct")) { if (kl[0] == 1) out = split_run(a, r, ctc<1>(), rax, cuts, ax); else if (kl[0] == 2) out = split_run(a, r, ctc<2>(), rax, cuts, ax); else if (kl[0] == 3) out = split_run(a, r, ctc<3>(), rax, cuts, ax); else nmc::die("split_ct: sections not in the table"); }
            else { if (kl == L{1}) out = split_run(a, r, ctt<1>(), rax, cuts, ax); else if (kl == L{1, 2}) out = split_run(a, r, ctt<1, 2>(), rax, cuts, ax); else nmc::die("split_ct_indices: indices not in the table"); }
            return true;
        }
        // fixed-shape source, everything constant
        if (is("split_ct")) {
            if (d == 2 && kl[0] == 3 && ax == 1) { out = split_run(fx.f23, r, ctc<3>(), ctc<1>(), cuts, ax); return true; }
            if (d == 2 && kl[0] == 1 && ax == 0) { out = split_run(fx.f23, r, ctc<1>(), ctc<0>(), cuts, ax); return true; }
            if (d == 2 && kl[0] == 2 && ax == -2) { out = split_run(fx.f23, r, ctc<2>(), ctc<-2>(), cuts, ax); return true; }
            if (d == 2 && kl[0] == 3 && ax == -1) { out = split_run(fx.f23, r, ctc<3>(), ctc<-1>(), cuts, ax); return true; }
            if (d == 3 && kl[0] == 2 && ax == 2) { out = split_run(fx.f234, r, ctc<2>(), ctc<2>(), cuts, ax); return true; }
            if (d == 3 && kl[0] == 3 && ax == -2) { out = split_run(fx.f234, r, ctc<3>(), ctc<-2>(), cuts, ax); return true; }
            if (d == 3 && kl[0] == 2 && ax == 0) { out = split_run(fx.f234, r, ctc<2>(), ctc<0>(), cuts, ax); return true; }
            if (d == 1 && kl[0] == 3 && ax == 0) { out = split_run(fx.f6, r, ctc<3>(), ctc<0>(), cuts, ax); return true; }
        } else {
            if (d == 2 && kl == L{1, 2} && ax == 1) { out = split_run(fx.f23, r, ctt<1, 2>(), ctc<1>(), cuts, ax); return true; }
            if (d == 2 && kl == L{1} && ax == 0) { out = split_run(fx.f23, r, ctt<1>(), ctc<0>(), cuts, ax); return true; }
            if (d == 3 && kl == L{1, 3} && ax == -1) { out = split_run(fx.f234, r, ctt<1, 3>(), ctc<-1>(), cuts, ax); return true; }
            if (d == 1 && kl == L{2, 5} && ax == 0) { out = split_run(fx.f6, r, ctt<2, 5>(), ctc<0>(), cuts, ax); return true; }
        }
        nmc::die("split_ct: combination not in the table");
    }
    nmc::die("optional-parameter op without an executor");
}

static void selftest_optional() {
    using namespace opt;
    // the models of the new parameters
    double st = 0; RArr l = np_linspace(0.5, 2.5, 5, false, &st); if (l.data[1] != 0.9 || std::fabs(st - 0.4) > 1e-15) nmc::die("selftest: linspace model (endpoint=False, step)");
    RArr li = astype<int>(np_linspace(-2.0, 1.5, 4, true), true); if (li.data != std::vector<double>{-2, -1, 0, 1}) nmc::die("selftest: linspace integer dtype model (NumPy floors)");
    if (!std::isnan((np_linspace(0.5, 2.5, 1, true, &st), st))) nmc::die("selftest: linspace step for a single sample");
    // a wrong element type must be flagged, the right one accepted
    auto shp = to_sl(L{2, 2}); const auto z = view::zeros(shp, nm::float32);
    if (elem_type_diff<double>(z, "view").empty() || !elem_type_diff<float>(z, "view").empty()) nmc::die("selftest: element type comparison is blind");
    RArr w(L{2, 2}); Outcome o = both_t<double>(z, na::zeros(shp, nm::float32), ROpt(w), true); if (o.fail.empty() || std::string(o.kind) != "dtype") nmc::die("selftest: both_t accepts a wrong dtype");
    // a wrong returned value must be flagged through the same comparison
    RArr one(L{2, 2}); one.data[3] = 1; if (both_t<float>(z, na::zeros(shp, nm::float32), ROpt(one), true).fail.empty()) nmc::die("selftest: both_t blind to a wrong element");
}
