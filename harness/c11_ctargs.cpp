// C11 (second harness) - static knowledge of views built with COMPILE-TIME ARGUMENTS.
//
// The pipeline explorer (c_pipeline.cpp, PIPE_PROP=11) has four operations with constant arguments; every other index function has its
// own `resolve_optype` branch for constant arguments (constant pad widths, repetitions, target shapes, axes ...), none of which a
// pipeline path reaches (seeded change m11b: the constant-width branch of shape_pad kept the operand's bounds).  This unit instantiates,
// for each of 6 root kinds x every root shape of dim 2 under the kinds' bounds, each of the one-stage views below with its arguments
// given as compile-time constants, and checks on the REAL view type / object and on its evaluation:
//   * the view's run-time shape equals the reference model's shape (nothing is clipped);
//   * whatever the type claims statically - fixed_shape_v, fixed_dim_v, fixed_size_v (must EQUAL), bounded_dim_v, bounded_size_v
//     (must be >=) - agrees with this run-time instance;  the same for the type of eval(view);
//   * eval(view) equals the model element for element, and no bounded container is asked to hold more than its capacity (CAPACITY hook).
// Case:  ctv|kind|shape|op (the view alone) and cte|kind|shape|op (its evaluation); op = index into the list below.  Non-trivial: the model result has > 1 element and the view type or the
// evaluation result type carries static knowledge.  An (operation, kind) pair the library rejects at compile time (fail type, static_assert
// probe) is skipped and counted (COUNT skipped_unsupported).  moveaxis with constant arguments does not compile at all (a clipped_integer_t<.., 0, 0> is
// formed from the constants: 'invalid value for Min and Max'): a loud rejection, not instantiated.
#include "nmtools/array/ndarray.hpp"
#include "nmtools/array/eval.hpp"
#include "nmtools/array/view/pad.hpp"
#include "nmtools/array/view/tile.hpp"
#include "nmtools/array/view/repeat.hpp"
#include "nmtools/array/view/reshape.hpp"
#include "nmtools/array/view/transpose.hpp"
#include "nmtools/array/view/expand_dims.hpp"
#include "nmtools/array/view/flip.hpp"
#include "nmtools/array/view/roll.hpp"
#include "nmtools/array/view/broadcast_to.hpp"
#include "nmtools/array/view/atleast_nd.hpp"
#include "nmtools/array/view/moveaxis.hpp"
#include "nmtools/array/view/swapaxes.hpp"
#include "nmtools/array/view/sum.hpp"
#include "nmtools/array/view/flatten.hpp"
#include "nmtools/array/view/squeeze.hpp"
#include "nmtools/array/view/concatenate.hpp"
#include "nmtools/verif.hpp"
#define NMC_MAIN
#include "common.hpp"

const char* nmc_property() { return "C11"; }
using namespace nmtools::literals;
using elem_t = long;

// ---- root kinds ---------------------------------------------------------------------------------------------------------------------
enum { K_CONST, K_CLIP_LOOSE, K_CLIP_TIGHT, K_FIXDIM, K_BOUNDDIM, K_DYN, NKIND };   // (a bounded BUFFER kind is rejected at compile time by most evaluations: ndarray_t<void,...>; not a kind here)
static const char* KN[] = {"const(2,3)", "clipped<=(3,4)", "clipped tight", "fixed-dim 2", "bounded-dim<=3", "dynamic"};
using k_const_t = na::ndarray_t<nmtools_array<elem_t, 6>, nmtools_tuple<meta::ct<2>, meta::ct<3>>>;
using k_loose_t = na::ndarray_t<nmtools_list<elem_t>, nmtools_tuple<nm::clipped_size_t<3>, nm::clipped_size_t<4>>>;
template <size_t A, size_t B> using k_tight_t = na::ndarray_t<nmtools_list<elem_t>, nmtools_tuple<nm::clipped_size_t<A>, nm::clipped_size_t<B>>>;
using k_fixdim_t = na::ndarray_t<nmtools_list<elem_t>, nmtools_array<size_t, 2>>;
using k_bounddim_t = na::ndarray_t<nmtools_list<elem_t>, nmtools_static_vector<size_t, 3>>;
using k_dyn_t = dyn_t<elem_t>;

static std::vector<L> root_shapes(int k) {
    std::vector<L> s;
    if (k == K_CONST) s.push_back({2, 3});
    else if (k == K_CLIP_TIGHT) { s.push_back({2, 3}); s.push_back({3, 2}); s.push_back({1, 3}); s.push_back({2, 1}); }   // the bounds ARE the shape
    else for (long a = 1; a <= 3; a++) for (long b = 1; b <= 4; b++) s.push_back({a, b});
    return s;
}

// ---- operations with constant arguments; model = reference model function on the root RArr ------------------------------------------
struct OpDef { const char* name; ROpt (*model)(const RArr&); };
static L LL_(std::initializer_list<long> l) { return L(l); }
#define OPS \
    X(0, "pad((0,2,0,0))",          m_pad(r, LL_({0, 2, 0, 0})),                 view::pad(a, nmtools_tuple{0_ct, 2_ct, 0_ct, 0_ct}, (elem_t)0)) \
    X(1, "pad((1,0,0,1))",          m_pad(r, LL_({1, 0, 0, 1})),                 view::pad(a, nmtools_tuple{1_ct, 0_ct, 0_ct, 1_ct}, (elem_t)0)) \
    X(2, "tile((2,1))",             ref::tile(r, LL_({2, 1})),                      view::tile(a, nmtools_tuple{2_ct, 1_ct})) \
    X(3, "tile((1,2,2))",           ref::tile(r, LL_({1, 2, 2})),                   view::tile(a, nmtools_tuple{1_ct, 2_ct, 2_ct})) \
    X(4, "repeat(2,axis 0)",        m_repeat(r, 2, 0),                    view::repeat(a, 2_ct, 0_ct)) \
    X(5, "repeat(3,axis -1)",       m_repeat(r, 3, -1),                   view::repeat(a, 3_ct, "-1"_ct)) \
    X(6, "transpose((1,0))",        m_transpose(r, LL_({1, 0})),                 view::transpose(a, nmtools_tuple{1_ct, 0_ct})) \
    X(7, "expand_dims(0)",          ref::expand_dims(r, LL_({0})),                  view::expand_dims(a, 0_ct)) \
    X(8, "expand_dims((0,3))",      ref::expand_dims(r, LL_({0, 3})),               view::expand_dims(a, nmtools_tuple{0_ct, 3_ct})) \
    X(9, "flip(1)",                 m_flip(r, LL_({1})),                         view::flip(a, 1_ct)) \
    X(10, "roll(1,axis 0)",         m_roll(r, 1, 0),               view::roll(a, 1_ct, 0_ct)) \
    X(11, "atleast_nd(4)",          ROpt(ref::atleast_nd(r, 4)),                          view::atleast_nd(a, 4_ct)) \
    X(12, "expand_dims(-1)",        ref::expand_dims(r, LL_({-1})),                 view::expand_dims(a, "-1"_ct)) \
    X(13, "swapaxes(0,-1)",         ref::swapaxes(r, 0, -1),                        view::swapaxes(a, 0_ct, "-1"_ct)) \
    X(14, "sum(axis 0)",            ref_sum(r, 0, false),                           view::sum(a, 0_ct)) \
    X(15, "sum(axis -1, keepdims)", ref_sum(r, -1, true),                           view::sum(a, "-1"_ct, nm::None, nm::None, nm::True)) \
    X(16, "flatten",                ref::reshape(r, LL_({(long)r.size()})),         view::flatten(a)) \
    X(17, "reshape((-1))",          ref::reshape(r, LL_({-1})),                     view::reshape(a, nmtools_tuple{"-1"_ct})) \
    X(18, "concatenate(expand_dims(a,0),expand_dims(a,0),axis -1)", m_cat3(r), view::concatenate(view::expand_dims(a, 0_ct), view::expand_dims(a, 0_ct), "-1"_ct)) \
    X(19, "broadcast_to((2,r,c))",  ROpt(),                                          0)
enum { NOPS = 19 };   // operation 19 (a target that depends on the root shape) is not expressible with constants: not instantiated
// (operation 18: RANK-3 operands with a negative constant axis - seeded change m11c wrapped the constant axis modulo the rank in unsigned arithmetic, which is only wrong for ranks that do not divide 2^64)

static ROpt m_pad(const RArr& r, const L& w) { size_t d = (size_t)r.dim(); L b(w.begin(), w.begin() + (long)d), a(w.begin() + (long)d, w.end()); return ref::pad(r, b, a, 0); }
static ROpt m_repeat(const RArr& r, long n, long axis) { L rep{n}; return ref::repeat(r, rep, &axis); }
static ROpt m_transpose(const RArr& r, const L& ax) { return ref::transpose(r, &ax); }
static ROpt m_flip(const RArr& r, const L& ax) { return ref::flip(r, &ax); }
static ROpt m_roll(const RArr& r, long sh, long ax) { L s{sh}, a{ax}; return ref::roll(r, s, &a); }
static ROpt m_cat3(const RArr& r) { ROpt e = ref::expand_dims(r, L{0}); if (!e) return std::nullopt; long ax = -1; return ref::concatenate(*e, *e, &ax); }
static ROpt ref_sum(const RArr& r, long axis, bool keep) {
    long d = r.dim(); long ax = axis < 0 ? axis + d : axis; L rs;
    for (long i = 0; i < d; i++) { if (i == ax) { if (keep) rs.push_back(1); } else rs.push_back(r.shape[(size_t)i]); }
    RArr o; o.shape = rs; o.data.assign((size_t)nmc::prod(rs), 0.0);
    long k = 0;
    nmc::each_index(r.shape, [&](const L& i) { L oi; for (long a = 0; a < d; a++) { if (a == ax) { if (keep) oi.push_back(0); } else oi.push_back(i[(size_t)a]); } o.data[(size_t)nmc::flat_of(oi, rs)] += r.data[(size_t)k]; k++; });
    return ROpt(o);
}
static ROpt model_of(int op, const RArr& r) {
    switch (op) {
#define X(I, NAME, MODEL, VIEW) case I: return MODEL;
    OPS
#undef X
    }
    return ROpt();
}
static const char* op_name(int op) {
    switch (op) {
#define X(I, NAME, MODEL, VIEW) case I: return NAME;
    OPS
#undef X
    }
    return "?";
}

void nmc_enumerate(const nmc::Tier&, const nmc::Sink& emit) {
    for (long k = 0; k < NKIND; k++) for (auto& s : root_shapes((int)k)) for (long op = 0; op < NOPS; op++) {
        RArr r = RArr::iota(s); ROpt m = model_of((int)op, r);
        if (!m || m->size() == 0 || m->size() > 96) continue;
        emit(Case("ctv", {{k}, s, {op}}));   // the view alone: run-time shape, elements, static traits of the view type
        if (op != 18) emit(Case("cte", {{k}, s, {op}}));   // its evaluation: result, result type, CAPACITY hook
    }
}

// ---- the check -----------------------------------------------------------------------------------------------------------------------
static long g_capacity = 0; static std::string g_first_bad;
static void cap_sink(int site, long long want, long long cap) { g_capacity++; if (g_first_bad.empty()) g_first_bad = "a bounded container of capacity " + std::to_string(cap) + " was asked to hold " + std::to_string(want) + " (hook site " + std::to_string(site) + ")"; }
template <class X> static L static_list(const X& x) { L r; for (size_t i = 0; i < (size_t)nm::len(x); i++) r.push_back((long)nm::at(x, i)); return r; }
template <class M> static auto* strip(M& m) { if constexpr (meta::is_maybe_v<M>) { using T = meta::remove_cvref_t<decltype(*m)>; return nm::has_value(m) ? &(*m) : (T*)nullptr; } else return &m; }

template <class T> static void check_type(const nmc::Obs& o, const char* what, bool& known, std::string& err) {
    [[maybe_unused]] constexpr auto fs = meta::fixed_shape_v<T>; [[maybe_unused]] constexpr auto fd = meta::fixed_dim_v<T>; [[maybe_unused]] constexpr auto fz = meta::fixed_size_v<T>;
    [[maybe_unused]] constexpr auto bd = meta::bounded_dim_v<T>; [[maybe_unused]] constexpr auto bz = meta::bounded_size_v<T>;
    long dim = (long)o.shape.size(), size = nmc::prod(o.shape);
    if constexpr (!meta::is_fail_v<decltype(fs)>) { known = true; L s = static_list(fs); if (s != o.shape && err.empty()) err = std::string(what) + ": fixed_shape_v = " + nmc::str(s) + " but this object has shape " + nmc::str(o.shape); }
    if constexpr (!meta::is_fail_v<decltype(fd)>) { known = true; if ((long)fd != dim && err.empty()) err = std::string(what) + ": fixed_dim_v = " + std::to_string((long)fd) + " but this object has dim " + std::to_string(dim); }
    if constexpr (!meta::is_fail_v<decltype(fz)>) { known = true; if ((long)fz != size && err.empty()) err = std::string(what) + ": fixed_size_v = " + std::to_string((long)fz) + " but this object has " + std::to_string(size) + " elements"; }
    if constexpr (!meta::is_fail_v<decltype(bd)>) { known = true; if ((long)bd < dim && err.empty()) err = std::string(what) + ": bounded_dim_v = " + std::to_string((long)bd) + " but this object has dim " + std::to_string(dim); }
    if constexpr (!meta::is_fail_v<decltype(bz)>) { known = true; if ((long)bz < size && err.empty()) err = std::string(what) + ": bounded_size_v = " + std::to_string((long)bz) + " but this object has " + std::to_string(size) + " elements"; }
}

// EVAL = false: the evaluation of this view is never instantiated (operation 18: eval of a concatenation of two fixed-dim views is rejected at compile time for some root
// kinds - a static_assert inside isequal on shapes of different fixed length -, so only the view-level case exists for it)
template <bool EVAL = true, class MV> static Outcome check_view(const MV& mv, const RArr& want, const std::string& where, bool evaluate) {
    using MV_ = meta::remove_cvref_t<MV>;
    if constexpr (meta::is_fail_v<MV_> || meta::is_same_v<MV_, nm::none_t> || meta::is_same_v<MV_, int>) { nmc::count("skipped_unsupported", 1); return Outcome::ok(false, 3); }
    else {
        auto* pv = strip(mv);
        if (!pv) return Outcome::bad("rejects-valid", "the view is Nothing for valid constant arguments" + where);
        using V_ = meta::remove_cvref_t<decltype(*pv)>;
        if constexpr (meta::is_num_v<V_>) return Outcome::ok(false, 5);
        else {
            nm::verif::on_capacity = cap_sink; g_capacity = 0; g_first_bad.clear();
            bool known = false; std::string err;
            const nmc::Obs lazy = nmc::observe(*pv);
            if (!lazy.has || lazy.bad_shape) return Outcome::bad("wrong", "view not observable" + where);
            check_type<V_>(lazy, "view type", known, err);
            if (lazy.shape != want.shape) return Outcome::bad("wrong", "view shape " + nmc::str(lazy.shape) + " differs from the model's " + nmc::str(want.shape) + (err.empty() ? "" : " (" + err + ")") + where, true, lazy.hash());
            { std::string d = nmc::diff(lazy, ROpt(want)); if (!d.empty()) return Outcome::bad("wrong", "lazy view: " + d + where, true, lazy.hash()); }
            if (!evaluate) {
                if (known) nmc::count("nodes_with_static_knowledge", 1);
                if (!err.empty()) return Outcome::bad("wrong", err + where, true, lazy.hash());
                return Outcome::ok(known && want.size() > 1, lazy.hash() ^ nmc::mix(known ? 29 : 3));
            }
            if constexpr (!EVAL) return Outcome::bad("wrong", "harness: evaluation case enumerated for a view whose evaluation is not instantiated" + where);
            else {
            err.clear();   // the view-level verdict belongs to the ctv case of the same node
            g_capacity = 0; g_first_bad.clear();
            const auto ev = na::eval(*pv); const nmc::Obs o = nmc::observe(ev);
            if (g_capacity) return Outcome::bad("hook", "while evaluating: " + g_first_bad + where, true, lazy.hash());
            { std::string d = nmc::diff(o, ROpt(want)); if (!d.empty()) return Outcome::bad("wrong", "evaluated result is clipped / differs from the full result: " + d + where, true, lazy.hash()); }
            { auto* pe = strip(ev); if (pe) { using R_ = meta::remove_cvref_t<decltype(*pe)>; check_type<R_>(o, "evaluation result type", known, err); } }
            if (known) nmc::count("nodes_with_static_knowledge", 1);
            if (!err.empty()) return Outcome::bad("wrong", err + where, true, lazy.hash());
            return Outcome::ok(known && want.size() > 1, lazy.hash() ^ nmc::mix(known ? 17 : 0));
            }
        }
    }
}

template <class A> static void fill(A& a, const RArr& r) {
    if constexpr (!meta::is_constant_index_array_v<meta::remove_cvref_t<decltype(a.shape())>>) a.resize(to_sl(r.shape));
    for (size_t i = 0; i < r.data.size(); i++) a.data_[i] = (elem_t)r.data[i];
}
template <class A> static Outcome run_kind(const Case& c) {
    const L& s = c.a[1]; int op = (int)c.a[2][0];
    RArr r = RArr::iota(s);
    A a; fill(a, r);
    { nmc::Obs o = nmc::observe(a); if (o.shape != s) return Outcome::bad("wrong", "harness: root of kind " + std::string(KN[c.a[0][0]]) + " cannot hold shape " + nmc::str(s)); }
    ROpt m = model_of(op, r); if (!m) return Outcome::bad("wrong", "harness: the model rejects the operation");
    std::string where = std::string("  [") + KN[c.a[0][0]] + nmc::str(s) + " -> " + op_name(op) + "]";
    switch (op) {
#define X(I, NAME, MODEL, VIEW) case I: { if constexpr (I < NOPS) { const auto mv = VIEW; return check_view<(I != 18)>(mv, *m, where, c.op == "cte"); } else return Outcome::ok(false, 1); }
    OPS
#undef X
    }
    return Outcome::bad("wrong", "harness: unknown operation");
}
Outcome nmc_execute(const Case& c) {
    const L& s = c.a[1];
    switch (c.a[0][0]) {
    case K_CONST: return run_kind<k_const_t>(c);
    case K_CLIP_LOOSE: return run_kind<k_loose_t>(c);
    case K_CLIP_TIGHT:
        if (s == L{2, 3}) return run_kind<k_tight_t<2, 3>>(c);
        if (s == L{3, 2}) return run_kind<k_tight_t<3, 2>>(c);
        if (s == L{1, 3}) return run_kind<k_tight_t<1, 3>>(c);
        return run_kind<k_tight_t<2, 1>>(c);
    case K_FIXDIM: return run_kind<k_fixdim_t>(c);
    case K_BOUNDDIM: return run_kind<k_bounddim_t>(c);
    default: return run_kind<k_dyn_t>(c);
    }
}
void nmc_selftest() {
    // a type that claims a fixed shape other than the object's must be flagged
    k_const_t a; for (size_t i = 0; i < 6; i++) a.data_[i] = (elem_t)i;
    nmc::Obs o; o.shape = {3, 2}; o.data.assign(6, 0.0);
    bool known = false; std::string err; check_type<k_const_t>(o, "selftest", known, err);
    if (err.empty() || !known) nmc::die("selftest: a wrong fixed_shape_v was not flagged");
}
